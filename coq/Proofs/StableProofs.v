(* C01, second half: for every grammatically well-formed line, parsing it, serialising the
   result and parsing again yields the same event. *)
From Coq Require Import Lia ZifyBool ZifyN ZifyNat.
Require Import Bytes Utf8 AMap WireOut GoUpper Tags Event Grammar CodecSpec.
Require Import OrderLemmas AMapLemmas CodecLemmas Utf8Lemmas ParseNF TagsProofs LineProofs GrammarProofs RoundTrip.

Arguments N.eqb : simpl never.
Arguments N.leb : simpl never.
Arguments N.ltb : simpl never.

(* every field of the line is valid UTF-8 (equivalently, the line is: fields are delimited
   by ASCII bytes) and the de-duplicated tag section fits the limit *)
Definition ast_utf8 (a : ast) : bool :=
  (match a_tags a with
   | Some l => forallb (fun kv => match snd kv with Some v => valid_utf8 (tag_escape v) | None => true end) l
   | None => true
   end)
  && (match a_src a with
      | Some (n, u, h) =>
        valid_utf8 n && (match u with Some u => valid_utf8 u | None => true end)
        && (match h with Some h => valid_utf8 h | None => true end)
      | None => true
      end)
  && forallb (fun nm => valid_utf8 (snd nm)) (a_middles a)
  && (match a_trailing a with Some (_, t) => valid_utf8 t | None => true end).

Definition ast_tags_fit (a : ast) : bool :=
  match a_tags a with
  | Some l => Nat.leb (length (tag_section (meaning_tags l))) max_tag_length
  | None => true
  end.

(* ---- pieces of wf_event (meaning a) ------------------------------------------------------ *)

Lemma upper1_alnum b : alnum b = true -> alnum (upper1 b) = true /\ (33 <= upper1 b <= 126)%N /\ upper1 b <> 58 /\ upper1 b <> 64.
Proof.
  unfold alnum, is_alpha, is_digit, upper1, is_upper, is_lower. intros H.
  destruct ((97 <=? b) && (b <=? 122))%bool eqn:E; repeat split; lia.
Qed.

Lemma upper1_idem b : upper1 (upper1 b) = upper1 b.
Proof. unfold upper1, is_lower. destruct ((97 <=? b) && (b <=? 122))%bool eqn:E; [|rewrite E; reflexivity].
  destruct ((97 <=? b - 32) && (b - 32 <=? 122))%bool eqn:E2; [lia|reflexivity]. Qed.

Lemma to_upper_ascii_idem s : to_upper_ascii (to_upper_ascii s) = to_upper_ascii s.
Proof. unfold to_upper_ascii. rewrite map_map. apply map_ext. intros b. apply upper1_idem. Qed.

Lemma wf_cmd_upper_command c : wf_cmd c = true -> wf_command (to_upper_ascii c) = true.
Proof.
  intros H. destruct (wf_cmd_alnum c H) as [Hlen Hall]. rewrite forallb_forall in Hall.
  destruct c as [|b r]; [simpl in Hlen; lia|]. unfold wf_command, to_upper_ascii. cbn [map].
  destruct (upper1_alnum b (Hall b (or_introl eq_refl))) as (_ & _ & H58 & H64).
  apply N.eqb_neq in H58, H64. rewrite H58, H64. cbn [negb andb].
  change (upper1 b :: map upper1 r) with (map upper1 (b :: r)).
  rewrite forallb_forall. intros x Hx. apply in_map_iff in Hx. destruct Hx as [y [<- Hy]].
  destruct (upper1_alnum y (Hall y Hy)) as (_ & Hr & _). lia.
Qed.

Lemma no_crlf_clean s : no_crlf s = forallb clean s.
Proof. reflexivity. Qed.

Lemma wf_middle_mid m : wf_middle m = true -> valid_utf8 m = true -> wf_mid m = true.
Proof.
  intros H Hv. destruct (wf_middle_ok m H) as [Hok Hcl]. unfold wf_mid, clean_field.
  destruct m as [|c r]; [discriminate|]. unfold middle_ok in Hok. rewrite Hok, Hv, no_crlf_clean, Hcl. reflexivity.
Qed.

Lemma wf_trailing_clean t : wf_trailing t = true -> valid_utf8 t = true -> clean_field t = true.
Proof.
  intros H Hv. unfold clean_field. rewrite Hv, no_crlf_clean. cbn [andb].
  eapply forallb_impl; [|exact H]. exact trailing_byte_clean.
Qed.

Lemma wf_mid_clean m : wf_mid m = true -> clean_field m = true.
Proof. unfold wf_mid. intros H. apply Bool.andb_true_iff in H. tauto. Qed.

Lemma wf_params_meaning (ms : list (nat * str)) (tr : option (nat * str)) :
  forallb (fun nm => wf_middle (snd nm)) ms = true -> forallb (fun nm => valid_utf8 (snd nm)) ms = true ->
  (match tr with Some (_, t) => wf_trailing t = true /\ valid_utf8 t = true | None => True end) ->
  wf_params (List.map snd ms ++ match tr with Some (_, t) => [t] | None => [] end) = true.
Proof.
  intros Hm Hv Ht. induction ms as [|[k m] ms IH].
  - cbn [map app]. destruct tr as [[n t]|]; [|reflexivity]. cbn [wf_params]. apply wf_trailing_clean; tauto.
  - cbn [forallb snd] in Hm, Hv. apply Bool.andb_true_iff in Hm, Hv. destruct Hm as [Hm1 Hm2]. destruct Hv as [Hv1 Hv2].
    pose proof (wf_middle_mid _ Hm1 Hv1) as Hmid. specialize (IH Hm2 Hv2).
    cbn [map snd app].
    destruct (List.map snd ms ++ match tr with Some (_, t) => [t] | None => [] end) as [|q r] eqn:ER.
    + cbn [wf_params]. apply wf_mid_clean. exact Hmid.
    + change (wf_params (m :: q :: r)) with (wf_mid m && wf_params (q :: r))%bool. rewrite Hmid, IH. reflexivity.
Qed.

Lemma forallb_negb_memb (f : N -> bool) c s : f c = false -> forallb f s = true -> negb (memb c s) = true.
Proof. intros Hc H. apply Bool.negb_true_iff, memb_false. eapply forallb_notin; eassumption. Qed.

Lemma wf_src_wsource s : wf_src s = true ->
  (let '(n, u, h) := s in
   valid_utf8 n = true /\ (match u with Some u => valid_utf8 u = true | None => True end)
   /\ (match h with Some h => valid_utf8 h = true | None => True end)) ->
  wf_wsource (meaning_src s) = true.
Proof.
  destruct s as [[n u] h]. intros H (Hvn & Hvu & Hvh). pose proof (clean_src _ H) as Hcl.
  unfold wf_src in H. repeat (apply Bool.andb_true_iff in H; destruct H as [H ?]).
  unfold src_text in Hcl. rewrite !forallb_app in Hcl.
  apply Bool.andb_true_iff in Hcl. destruct Hcl as [Hcn Hcl]. apply Bool.andb_true_iff in Hcl. destruct Hcl as [Hcu Hch].
  assert (Hn : forallb name_byte n = true) by assumption.
  assert (HU : negb (memb 32 (match u with Some u => u | None => [] end)) = true
               /\ negb (memb 64 (match u with Some u => u | None => [] end)) = true
               /\ clean_field (match u with Some u => u | None => [] end) = true).
  { destruct u as [u|]; [|repeat split; reflexivity].
    match goal with X : (nonempty u && _)%bool = true |- _ => apply Bool.andb_true_iff in X; destruct X as [_ X]; rename X into Hu end.
    cbn [forallb] in Hcu. apply Bool.andb_true_iff in Hcu. destruct Hcu as [_ Hcu].
    repeat split.
    - eapply forallb_negb_memb; [|exact Hu]. reflexivity.
    - eapply forallb_negb_memb; [|exact Hu]. reflexivity.
    - unfold clean_field. rewrite Hvu, no_crlf_clean, Hcu. reflexivity. }
  assert (HH : negb (memb 32 (match h with Some h => h | None => [] end)) = true
               /\ negb (memb 33 (match h with Some h => h | None => [] end)) = true
               /\ negb (memb 64 (match h with Some h => h | None => [] end)) = true
               /\ clean_field (match h with Some h => h | None => [] end) = true).
  { destruct h as [h|]; [|repeat split; reflexivity].
    match goal with X : (nonempty h && _)%bool = true |- _ => apply Bool.andb_true_iff in X; destruct X as [_ X]; rename X into Hh end.
    cbn [forallb] in Hch. apply Bool.andb_true_iff in Hch. destruct Hch as [_ Hch].
    repeat split.
    - eapply forallb_negb_memb; [|exact Hh]. reflexivity.
    - eapply forallb_negb_memb; [|exact Hh]. reflexivity.
    - eapply forallb_negb_memb; [|exact Hh]. reflexivity.
    - unfold clean_field. rewrite Hvh, no_crlf_clean, Hch. reflexivity. }
  destruct HU as (HU1 & HU2 & HU3). destruct HH as (HH1 & HH2 & HH3 & HH4).
  unfold wf_wsource, meaning_src. cbn [ws_name ws_ident ws_host].
  rewrite HU1, HU2, HU3, HH1, HH2, HH3, HH4.
  rewrite (forallb_negb_memb name_byte 32 n eq_refl Hn), (forallb_negb_memb name_byte 33 n eq_refl Hn),
          (forallb_negb_memb name_byte 64 n eq_refl Hn).
  unfold clean_field. rewrite Hvn, no_crlf_clean, Hcn.
  destruct n; [discriminate|reflexivity].
Qed.

(* entries of the parsed tag map *)
Lemma forallb_fold_aset (P : str * str -> bool) (l : list (str * option str)) (f : option str -> str) :
  (forall kv, In kv l -> P (fst kv, f (snd kv)) = true) ->
  forall t : tagmap, forallb P t = true ->
  forallb P (fold_left (fun m kv => aset (fst kv) (f (snd kv)) m) l t) = true.
Proof.
  induction l as [|kv l IH]; intros H t Ht; [exact Ht|].
  cbn [fold_left]. apply IH; [intros x Hx; apply H; right; exact Hx|].
  unfold aset. cbn [forallb]. rewrite (H kv (or_introl eq_refl)). apply forallb_aremove. exact Ht.
Qed.

Lemma wf_tags_meaning l : forallb wf_tag l = true ->
  forallb (fun kv => match snd kv with Some v => valid_utf8 (tag_escape v) | None => true end) l = true ->
  forallb wf_tag_entry (meaning_tags l) = true.
Proof.
  intros Hw Hv. unfold meaning_tags.
  apply (forallb_fold_aset wf_tag_entry l (fun ov => match ov with Some v => tag_escape v | None => [] end)); [|reflexivity].
  intros [k ov] Hin. rewrite forallb_forall in Hw, Hv. specialize (Hw _ Hin). specialize (Hv _ Hin).
  unfold wf_tag in Hw. cbn [fst snd] in *. apply Bool.andb_true_iff in Hw. destruct Hw as [Hk _].
  unfold wf_tag_entry. cbn [fst snd]. rewrite (wf_key_valid_tag _ Hk). cbn [andb].
  destruct ov as [v|]; [|reflexivity].
  unfold wf_wire_value, clean_field. rewrite Hv.
  assert (H59 : memb 59 (tag_escape v) = false) by (apply memb_false, tag_escape_notin; reflexivity).
  assert (H32 : memb 32 (tag_escape v) = false) by (apply memb_false, tag_escape_notin; reflexivity).
  rewrite H59, H32, no_crlf_clean. cbn [negb andb].
  eapply forallb_impl; [apply esc_free_clean|apply tag_escape_free].
Qed.

Lemma meaning_tags_nonempty l : l <> [] -> meaning_tags l <> [].
Proof.
  intros Hne E. destruct l as [|[k ov] l] using rev_ind; [congruence|].
  unfold meaning_tags in E. rewrite fold_left_app in E. cbn [fold_left] in E. unfold aset in E. discriminate.
Qed.

Theorem meaning_wf_event : forall a, wf_ast a -> ast_utf8 a = true -> ast_tags_fit a = true ->
  wf_event (meaning a).
Proof.
  intros a Hwf Hu Hfit. unfold wf_ast, wf_astb in Hwf. unfold ast_tags_fit in Hfit.
  repeat (apply Bool.andb_true_iff in Hwf; destruct Hwf as [Hwf ?]).
  rename Hwf into Htags.
  match goal with H : wf_cmd _ = true |- _ => rename H into Hcmd end.
  match goal with H : forallb (fun nm => wf_middle (snd nm)) _ = true |- _ => rename H into Hmids end.
  match goal with H : match a_src a with _ => _ end = true |- _ => rename H into Hsrc end.
  match goal with H : match a_trailing a with _ => _ end = true |- _ => rename H into Htr end.
  unfold ast_utf8 in Hu. repeat (apply Bool.andb_true_iff in Hu; destruct Hu as [Hu ?]).
  rename Hu into Hut.
  match goal with H : forallb (fun nm => valid_utf8 (snd nm)) _ = true |- _ => rename H into Hum end.
  match goal with H : match a_src a with _ => _ end = true |- _ => rename H into Hus end.
  match goal with H : match a_trailing a with _ => _ end = true |- _ => rename H into Hutr end.
  unfold wf_event, wf_eventb, meaning. cbn [we_cmd we_params we_src we_tags].
  repeat (apply Bool.andb_true_iff; split).
  - apply wf_cmd_upper_command. exact Hcmd.
  - unfold meaning_params. apply wf_params_meaning; [exact Hmids|exact Hum|].
    destruct (a_trailing a) as [[n t]|]; [|exact I].
    apply Bool.andb_true_iff in Htr. destruct Htr as [Ht _]. split; assumption.
  - destruct (a_src a) as [s|]; [|reflexivity]. cbn [option_map]. apply wf_src_wsource; [exact Hsrc|].
    destruct s as [[n u] h]. repeat (apply Bool.andb_true_iff in Hus; destruct Hus as [Hus ?]).
    repeat split; [assumption| |]; [destruct u|destruct h]; try exact I; assumption.
  - destruct (a_tags a) as [l|]; [|reflexivity]. cbn [option_map]. unfold wf_wtags.
    apply Bool.andb_true_iff. split.
    + apply wf_tags_meaning; [|exact Hut]. destruct l; [discriminate|exact Htags].
    + exact Hfit.
  - unfold min_line. cbn [we_cmd]. destruct (wf_cmd_alnum _ Hcmd) as [Hlen _].
    unfold to_upper_ascii. rewrite map_length. rewrite (proj2 (Nat.leb_le 2 _) Hlen). reflexivity.
Qed.

(* parse ∘ String ∘ parse = parse on well-formed lines *)
Theorem parse_stable : forall a, wf_ast a -> ast_utf8 a = true -> ast_tags_fit a = true ->
  exists e e', parse_event (render a) = Ok (Some e) /\
               parse_event (event_bytes e) = Ok (Some e') /\ wevent_equiv e' e.
Proof.
  intros a Hwf Hu Hfit. exists (meaning a).
  destruct (encode_parse (meaning a) (meaning_wf_event a Hwf Hu Hfit)) as (e' & Hp & Heq).
  exists e'. split; [apply grammar_parse; exact Hwf|]. split; [exact Hp|].
  unfold canon in Heq. unfold meaning in Heq at 3. cbn [we_cmd] in Heq. rewrite to_upper_ascii_idem in Heq.
  exact Heq.
Qed.

Example parse_stable_example :
  let a := mkAst (Some [(bs "a", Some (bs "1")); (bs "b", None); (bs "a", Some [59; 32; 195; 169])])
                 (Some (bs "nick", Some (bs "u"), Some (bs "h")))
                 (bs "privmsg") [(1%nat, bs "#c")] (Some (0%nat, bs "x :y")) 0 [13; 10] in
  wf_ast a /\ ast_utf8 a = true /\ ast_tags_fit a = true.
Proof. vm_compute. repeat split; reflexivity. Qed.
