(* C04 simulation: JOIN (own and others', with extended-join parameters). *)
Require Import Bytes AMap SMap Names State StateGetters NetRef.
Require Import OrderLemmas AMapLemmas SMapLemmas NamesProofs StateInv NetRefLemmas StateRefine RefineSimple.
From Coq Require Import Lia ZifyBool ZifyN ZifyNat.

Lemma mem_str_ext a l l' : (forall x, In x l <-> In x l') -> mem_str a l = mem_str a l'.
Proof.
  intros H. destruct (mem_str a l) eqn:E1; destruct (mem_str a l') eqn:E2; try reflexivity.
  - apply mem_str_in in E1. apply H in E1. apply mem_str_in in E1. congruence.
  - apply mem_str_in in E2. apply H in E2. apply mem_str_in in E2. congruence.
Qed.

Lemma mem_str_sort_snoc a x l : mem_str a (sort_strs (l ++ [x])) = streqb a x || mem_str a l.
Proof.
  rewrite (mem_str_ext a _ (x :: l)); [reflexivity|].
  intros y. rewrite sort_strs_in, in_app_iff. simpl. tauto.
Qed.

Lemma create_channel_lookup s name k :
  alookup k (st_channels (create_channel s name)) =
  if streqb k (fold name) then
    Some (match alookup (fold name) (st_channels s) with
          | Some c => c
          | None => mkChannel name [] [] (new_cmodes (chan_modes s) (fst (parse_prefixes (user_prefixes s))))
          end)
  else alookup k (st_channels s).
Proof.
  unfold create_channel. destruct (alookup (fold name) (st_channels s)) as [c|] eqn:E; sproj.
  - destruct (streqb k (fold name)) eqn:Ek; [|reflexivity]. apply streqb_eq in Ek. subst. exact E.
  - apply alookup_aset.
Qed.

Lemma create_user_lookup s src k :
  alookup k (st_users (create_user s src)) =
  if streqb k (fold (s_name src)) then
    Some (match alookup (fold (s_name src)) (st_users s) with
          | Some u => u
          | None => mkUser (s_name src) (s_ident src) (s_host src) [] [] [] [] []
          end)
  else alookup k (st_users s).
Proof.
  unfold create_user. destruct (alookup (fold (s_name src)) (st_users s)) as [u|] eqn:E; sproj.
  - destruct (streqb k (fold (s_name src))) eqn:Ek; [|reflexivity]. apply streqb_eq in Ek. subst. exact E.
  - apply alookup_aset.
Qed.

Lemma create_channel_fields s name :
  st_users (create_channel s name) = st_users s /\ st_opts (create_channel s name) = st_opts s /\
  st_nick (create_channel s name) = st_nick s /\ st_ident (create_channel s name) = st_ident s /\
  st_host (create_channel s name) = st_host s /\ st_motd (create_channel s name) = st_motd s.
Proof. unfold create_channel. destruct (alookup (fold name) (st_channels s)); repeat split. Qed.

Lemma create_user_fields s src :
  st_channels (create_user s src) = st_channels s /\ st_opts (create_user s src) = st_opts s /\
  st_nick (create_user s src) = st_nick s /\ st_ident (create_user s src) = st_ident s /\
  st_host (create_user s src) = st_host s /\ st_motd (create_user s src) = st_motd s.
Proof. unfold create_user. destruct (alookup (fold (s_name src)) (st_users s)); repeat split. Qed.

Definition ext_user (rest : list str) (u1 : user) : user :=
  match rest with
  | acct :: rest2 =>
      let ua := if streqb acct [42] then u_set_account u1 [] else u_set_account u1 acct in
      match rest2 with name :: _ => u_set_name ua name | [] => ua end
  | [] => u1
  end.
Definition tag_user (tag : option str) (u : user) : user :=
  match tag with Some a => u_set_account u a | None => u end.

Lemma ext_user_abs rest u : abs_user (ext_user rest u) = ext_join rest (abs_user u).
Proof. destruct rest as [|a [|b l]]; simpl; try reflexivity; destruct (streqb a [42]); reflexivity. Qed.
Lemma ext_user_perms rest u : u_perms (ext_user rest u) = u_perms u.
Proof. destruct rest as [|a [|b l]]; simpl; try reflexivity; destruct (streqb a [42]); reflexivity. Qed.
Lemma ext_user_chans rest u : u_chans (ext_user rest u) = u_chans u.
Proof. destruct rest as [|a [|b l]]; simpl; try reflexivity; destruct (streqb a [42]); reflexivity. Qed.
Lemma tag_user_perms tag u : u_perms (tag_user tag u) = u_perms u.
Proof. destruct tag; reflexivity. Qed.

Section Join.
Variable cfg : config.
Variables (s : state) (r : ref) (e : event).
Hypothesis (I : Inv s) (F : Fresh s) (S : Sim s r) (W : RWf r).
Variables (src : source) (chan : str) (rest : list str) (tag : option str).
Hypothesis (Hsrc : e_src e = Some src) (Hps : e_params e = chan :: rest) (Htag : e_account_tag e = tag).

Let kc := fold chan.
Let kn := fold (s_name src).
Let c0 := match alookup kc (st_channels s) with
          | Some c => c
          | None => mkChannel chan [] [] (new_cmodes (chan_modes s) (fst (parse_prefixes (user_prefixes s))))
          end.
Let u0 := match alookup kn (st_users s) with
          | Some u => u
          | None => mkUser (s_name src) (s_ident src) (s_host src) [] [] [] [] []
          end.

Lemma c0_key : fold (c_name c0) = kc.
Proof. unfold c0. destruct (alookup kc (st_channels s)) as [c|] eqn:E; [apply (inv_ckey I _ _ E)|reflexivity]. Qed.
Lemma u0_key : fold (u_nick u0) = kn.
Proof. unfold u0. destruct (alookup kn (st_users s)) as [u|] eqn:E; [apply (inv_ukey I _ _ E)|reflexivity]. Qed.

(* the joiner is not yet a member: what a correct server guarantees *)
Hypothesis Hnm : mem_str kn (c_users c0) = false.

Lemma u0_not_in : mem_str kc (u_chans u0) = false.
Proof.
  apply mem_str_false. intros Hin. unfold u0 in Hin. destruct (alookup kn (st_users s)) as [u|] eqn:Eu; [|destruct Hin].
  destruct (inv_uc I _ _ _ Eu Hin) as (c & Hc & Hk). apply mem_str_false in Hnm. apply Hnm. unfold c0. rewrite Hc. exact Hk.
Qed.

Let c1 := c_set_users c0 (sort_strs (c_users c0 ++ [kn])).
Let existed := match alookup kn (st_users s) with Some _ => true | None => false end.
Let uP := if existed && (str_nonempty (s_ident src) || str_nonempty (s_host src))
          then u_set_ident_host u0 (s_ident src) (s_host src) else u0.
Let u1 := u_set_perms (u_set_chans uP (sort_strs (u_chans uP ++ [kc]))) (aset kc perms0 (u_perms uP)).
Let u2 := ext_user rest (tag_user tag u1).

Lemma uP_same : u_nick uP = u_nick u0 /\ u_chans uP = u_chans u0 /\ u_perms uP = u_perms u0.
Proof. unfold uP. destruct (existed && _); repeat split. Qed.

Lemma uP_abs : abs_user uP = tell_prefix src (abs_user u0).
Proof.
  unfold uP, tell_prefix, existed, u0. destruct (alookup kn (st_users s)) as [u|]; simpl.
  - destruct (s_ident src); destruct (s_host src); reflexivity.
  - destruct (s_ident src); destruct (s_host src); reflexivity.
Qed.
Let me_joins := streqb kn (fold (st_nick s)).

Hypothesis Hme : st_nick s <> [].

Lemma join_result : exists sF o, handle_join cfg s e = Ok (sF, o) /\
  (forall k, alookup k (st_channels sF) = if streqb k kc then Some c1 else alookup k (st_channels s)) /\
  (forall k, alookup k (st_users sF) = if streqb k kn then Some u2 else alookup k (st_users s)) /\
  st_opts sF = st_opts s /\ st_nick sF = st_nick s /\ st_motd sF = st_motd s /\
  st_ident sF = (if me_joins then s_ident src else st_ident s) /\
  st_host sF = (if me_joins then s_host src else st_host s).
Proof.
  unfold handle_join. rewrite Hsrc, Hps.
  set (s1 := create_channel s chan). set (s2 := create_user s1 src).
  pose proof (create_channel_fields s chan) as HA. fold s1 in HA. destruct HA as (A1 & A2 & A3 & A4 & A5 & A6).
  pose proof (create_user_fields s1 src) as HB. fold s2 in HB. destruct HB as (B1 & B2 & B3 & B4 & B5 & B6).
  assert (Lc : lookup_channel s2 chan = Some c0).
  { unfold lookup_channel. rewrite B1. unfold s1. rewrite create_channel_lookup, streqb_refl. reflexivity. }
  assert (Lu : lookup_user s2 (s_name src) = Some u0).
  { unfold lookup_user, s2. rewrite create_user_lookup, streqb_refl. rewrite A1. reflexivity. }
  assert (Lex : match lookup_user s1 (s_name src) with Some _ => true | None => false end = existed).
  { unfold lookup_user, existed. fold kn. rewrite A1. reflexivity. }
  rewrite Lex, Lc, Lu. cbv zeta. fold uP. destruct uP_same as (P1 & P2 & P3).
  assert (Ec1 : channel_add_user c0 (u_nick uP) = c1).
  { unfold channel_add_user, channel_user_in. rewrite P1, u0_key, Hnm. reflexivity. }
  assert (Eu1 : user_add_channel uP (c_name c0) = u1).
  { assert (Hm : mem_str kc (u_chans uP) = false) by (rewrite P2; apply u0_not_in).
    unfold user_add_channel, user_in_channel. rewrite c0_key, Hm. reflexivity. }
  rewrite Ec1, Eu1, Htag. fold (tag_user tag u1). fold (ext_user rest (tag_user tag u1)). fold u2.
  set (s3 := set_users (set_channels s2 (aset (fold chan) c1 (st_channels s2))) (aset (fold (s_name src)) u2 (st_users s2))).
  assert (Hid : get_id cfg s3 = fold (st_nick s)).
  { unfold get_id, get_nick, s3. sproj. rewrite B3. rewrite A3. destruct (st_nick s); [congruence|reflexivity]. }
  rewrite Hid. fold kn. fold me_joins.
  assert (LC : forall k, alookup k (st_channels s3) = if streqb k kc then Some c1 else alookup k (st_channels s)).
  { intros k. unfold s3. sproj. rewrite alookup_aset. fold kc. destruct (streqb k kc) eqn:Ek; [reflexivity|].
    rewrite B1. unfold s1. rewrite create_channel_lookup. fold kc. rewrite Ek. reflexivity. }
  assert (LU : forall k, alookup k (st_users s3) = if streqb k kn then Some u2 else alookup k (st_users s)).
  { intros k. unfold s3. sproj. rewrite alookup_aset. fold kn. destruct (streqb k kn) eqn:Ek; [reflexivity|].
    unfold s2. rewrite create_user_lookup. fold kn. rewrite Ek. rewrite A1. reflexivity. }
  assert (O3 : st_opts s3 = st_opts s) by (unfold s3; sproj; rewrite B2; exact A2).
  assert (N3 : st_nick s3 = st_nick s) by (unfold s3; sproj; rewrite B3; exact A3).
  assert (M3 : st_motd s3 = st_motd s) by (unfold s3; sproj; rewrite B6; exact A6).
  assert (I3 : st_ident s3 = st_ident s) by (unfold s3; sproj; rewrite B4; exact A4).
  assert (H3 : st_host s3 = st_host s) by (unfold s3; sproj; rewrite B5; exact A5).
  destruct me_joins; eexists _, _; (split; [reflexivity|]); sproj; repeat split; assumption.
Qed.

(* the reference side *)
Let rc0 := match alookup kc (r_chans r) with Some rc => rc | None => mkRChan chan [] [] [] end.
Let ru0 := match alookup kn (r_users r) with
           | Some u => u
           | None => mkRUser (s_name src) (s_ident src) (s_host src) [] [] []
           end.

Lemma join_ref :
  let r' := ref_join r src tag chan rest in
  (forall k, alookup k (r_chans r') = if streqb k kc then Some (add_member kn rc0) else alookup k (r_chans r)) /\
  (forall k, alookup k (r_users r') = if streqb k kn then Some (join_tell src tag rest ru0) else alookup k (r_users r)) /\
  r_opts r' = r_opts r /\ r_me r' = r_me r /\ r_motd r' = r_motd r /\
  r_ident r' = (if is_me r (s_name src) then s_ident src else r_ident r) /\
  r_host r' = (if is_me r (s_name src) then s_host src else r_host r).
Proof.
  unfold ref_join. change (key chan) with kc. change (key (s_name src)) with kn.
  set (r1 := match alookup kc (r_chans r) with Some _ => r | None => r_set_chans r (sm_set kc (mkRChan chan [] [] []) (r_chans r)) end).
  assert (C1 : forall k, alookup k (r_chans r1) = if streqb k kc then Some rc0 else alookup k (r_chans r)).
  { intros k. unfold r1, rc0. destruct (alookup kc (r_chans r)) as [rc|] eqn:E.
    - destruct (streqb k kc) eqn:Ek; [|reflexivity]. apply streqb_eq in Ek. subst k. exact E.
    - rproj. apply alookup_sm_set, (wf_chans _ W). }
  assert (K1 : ksorted (r_chans r1)).
  { unfold r1. destruct (alookup kc (r_chans r)); [apply (wf_chans _ W)|]. rproj. apply ksorted_sm_set, (wf_chans _ W). }
  assert (U1 : r_users r1 = r_users r) by (unfold r1; destruct (alookup kc (r_chans r)); reflexivity).
  assert (X1 : r_opts r1 = r_opts r /\ r_me r1 = r_me r /\ r_motd r1 = r_motd r /\ r_ident r1 = r_ident r /\ r_host r1 = r_host r)
    by (unfold r1; destruct (alookup kc (r_chans r)); repeat split).
  destruct X1 as (X1 & X2 & X3 & X4 & X5).
  set (r2 := upd_user (ensure_user r1 src) (s_name src) (join_tell src tag rest)).
  assert (U2 : forall k, alookup k (r_users r2) = if streqb k kn then Some (join_tell src tag rest ru0) else alookup k (r_users r)).
  { intros k. unfold r2, upd_user. rproj. rewrite alookup_sm_adjust. change (key (s_name src)) with kn.
    unfold ensure_user. change (key (s_name src)) with kn. rewrite U1. unfold ru0.
    destruct (alookup kn (r_users r)) as [u|] eqn:E.
    - rewrite ?U1. destruct (streqb k kn) eqn:Ek; [|reflexivity]. apply streqb_eq in Ek. subst k. rewrite E. reflexivity.
    - rproj. rewrite ?U1. rewrite alookup_sm_set by apply (wf_users _ W). destruct (streqb k kn); reflexivity. }
  assert (C2 : r_chans r2 = r_chans r1).
  { unfold r2, upd_user, ensure_user. destruct (alookup (key (s_name src)) (r_users r1)); reflexivity. }
  assert (Y2 : r_opts r2 = r_opts r /\ r_me r2 = r_me r /\ r_motd r2 = r_motd r /\ r_ident r2 = r_ident r /\ r_host r2 = r_host r).
  { unfold r2, upd_user, ensure_user. destruct (alookup (key (s_name src)) (r_users r1)); rproj; repeat split; assumption. }
  destruct Y2 as (Y1 & Y2 & Y3 & Y4 & Y5).
  set (r3 := upd_chan r2 chan (add_member kn)).
  assert (C3 : forall k, alookup k (r_chans r3) = if streqb k kc then Some (add_member kn rc0) else alookup k (r_chans r)).
  { intros k. unfold r3, upd_chan. rproj. rewrite alookup_sm_adjust. change (key chan) with kc. rewrite C2, C1.
    destruct (streqb k kc); reflexivity. }
  assert (U3 : r_users r3 = r_users r2) by reflexivity.
  destruct (is_me r (s_name src)); rproj; rewrite ?U3; repeat split; try assumption.
Qed.

Lemma step_join_core : exists sF o, handle_join cfg s e = Ok (sF, o) /\ Fresh sF /\
  (Inv sF -> Sim sF (ref_gc (ref_join r src tag chan rest))).
Proof.
  destruct join_result as (sF & o & Hh & LC & LU & O & N & M & Id & Ho).
  destruct join_ref as (RC & RU & RO & RN & RM & RI & RH).
  exists sF, o. split; [exact Hh|]. split.
  - (* Fresh *)
    intros k c. rewrite LC. unfold chan_modes, user_prefixes. rewrite O. destruct (streqb k kc).
    + intros H; injection H as <-. unfold c1, c0. simpl. destruct (alookup kc (st_channels s)) as [c|] eqn:E; [apply (F _ _ E)|reflexivity].
    + apply F.
  - intros IF.
    assert (Hisme : is_me r (s_name src) = me_joins).
    { unfold is_me, me_joins. rewrite (sim_me _ _ S). reflexivity. }
    assert (Wj : RWf (ref_join r src tag chan rest)) by apply rwf_join, W.
    apply sim_gc; try assumption.
    + rewrite RN, N. apply S.
    + rewrite RI, Id, Hisme. destruct me_joins; [reflexivity|apply S].
    + rewrite RH, Ho, Hisme. destruct me_joins; [reflexivity|apply S].
    + rewrite RM, M. apply S.
    + (* channels *)
      intros k. rewrite LC, RC. pose proof (sim_chans _ _ S k) as HS.
      assert (PERM : forall k' n, (k' = kc /\ n = kn -> False) -> abs_perm sF k' n = abs_perm s k' n \/ ~ (exists c, alookup k' (st_channels s) = Some c /\ In n (c_users c))).
      { intros k' n Hn. unfold abs_perm. rewrite LU. destruct (streqb n kn) eqn:En; [|left; reflexivity].
        apply streqb_eq in En. subst n. unfold u2. rewrite ext_user_perms, tag_user_perms. unfold u1. cbn [u_perms u_set_perms u_set_chans]. rewrite alookup_aset.
        destruct (streqb k' kc) eqn:Ek'; [apply streqb_eq in Ek'; subst k'; exfalso; apply Hn; split; reflexivity|].
        rewrite (proj2 (proj2 uP_same)). unfold u0. destruct (alookup kn (st_users s)) as [u|] eqn:Eu; [left; reflexivity|].
        right. intros (c & Hc & Hin). destruct (inv_cu I _ _ _ Hc Hin) as (u & Hu & _). congruence. }
      destruct (streqb k kc) eqn:Ek.
      * apply streqb_eq in Ek. subst k. unfold opt_rel.
        assert (SC0 : SimChan s kc c0 rc0).
        { unfold c0, rc0. unfold opt_rel in HS. destruct (alookup kc (st_channels s)) as [c|] eqn:Ec; destruct (alookup kc (r_chans r)) as [rc|]; try contradiction; [exact HS|].
          constructor; reflexivity. }
        destruct SC0 as [A B C D].
        assert (Hnm' : alookup kn (rc_members rc0) = None) by (rewrite D, Hnm; reflexivity).
        assert (Ksm : ksorted (rc_members rc0)).
        { unfold rc0. destruct (alookup kc (r_chans r)) as [rc|] eqn:Er; [apply (wf_members _ W _ _ Er)|apply ksorted_nil]. }
        unfold add_member. rewrite Hnm'. constructor; simpl; try assumption.
        intros n. rewrite alookup_sm_set by exact Ksm. unfold c1. simpl c_users. rewrite mem_str_sort_snoc.
        destruct (streqb n kn) eqn:En.
        -- apply streqb_eq in En. subst n. simpl. f_equal. unfold abs_perm. rewrite LU, streqb_refl.
           unfold u2. rewrite ext_user_perms, tag_user_perms. unfold u1. cbn [u_perms u_set_perms u_set_chans]. rewrite alookup_aset_eq. reflexivity.
        -- simpl. rewrite D. destruct (mem_str n (c_users c0)) eqn:Em; [|reflexivity]. f_equal.
           destruct (PERM kc n) as [P|P]; [intros [_ Hn]; subst n; rewrite streqb_refl in En; discriminate|symmetry; exact P|].
           (* the channel is new: no members *)
           exfalso. unfold c0 in Em. destruct (alookup kc (st_channels s)) as [c|] eqn:Ec; [|discriminate].
           apply P. exists c. split; [reflexivity|]. apply mem_str_in. exact Em.
      * unfold opt_rel in *. destruct (alookup k (st_channels s)) as [c|] eqn:Ec; destruct (alookup k (r_chans r)) as [rc|]; try contradiction; [|exact Logic.I].
        destruct HS as [A B C D]. constructor; try assumption. intros n. rewrite D.
        destruct (mem_str n (c_users c)) eqn:Em; [|reflexivity]. f_equal.
        destruct (PERM k n) as [P|P]; [intros [Hk _]; subst k; rewrite streqb_refl in Ek; discriminate|symmetry; exact P|].
        exfalso. apply P. exists c. split; [exact Ec|]. apply mem_str_in. exact Em.
    + (* users *)
      intros k u. rewrite LU, RU. destruct (streqb k kn) eqn:Ek.
      * intros H; injection H as <-. f_equal. unfold u2, join_tell. rewrite ext_user_abs. f_equal.
        assert (Eru : ru0 = abs_user u0) by (unfold u0, ru0; rewrite (sim_users _ _ S); destruct (alookup kn (st_users s)); reflexivity).
        rewrite Eru, <- uP_abs. unfold u1. destruct tag; reflexivity.
      * intros H. rewrite (sim_users _ _ S), H. reflexivity.
    + intros k. rewrite RO, O. apply S.
Qed.

End Join.

Section JoinCmd.
Variable cfg : config.
Variables (s : state) (r : ref) (e : event).
Hypothesis (I : Inv s) (F : Fresh s) (S : Sim s r) (W : RWf r).

Lemma step_JOIN : e_cmd e = c_JOIN -> cmd_ok r e = true -> step_ok cfg s r e.
Proof.
  intros Hc Hok.
  assert (Hh : handle_cmd cfg s e = handle_join cfg s e) by (unfold handle_cmd, cmd_is; rewrite Hc; reduce_cmd c_JOIN; reflexivity).
  assert (Hr : ref_cmd r e = match e_src e, e_params e with Some src, chan :: rest => ref_join r src (e_account_tag e) chan rest | _, _ => r end)
    by (unfold ref_cmd, cmdb; rewrite Hc; reduce_cmd c_JOIN; reflexivity).
  unfold cmd_ok, cmdb in Hok. rewrite Hc in Hok. reduce_cmd_in c_JOIN Hok.
  apply andb_prop in Hok. destruct Hok as [Hme Hok]. apply negb_true_iff in Hme.
  destruct (e_src e) as [src|] eqn:Hsrc; [|discriminate]. destruct (e_params e) as [|chan rest] eqn:Hps; [discriminate|].
  apply andb_prop in Hok. destruct Hok as [_ Hmem].
  assert (Hme' : st_nick s <> []) by (rewrite <- (sim_me _ _ S); destruct (r_me r); [discriminate|congruence]).
  assert (Hnm : mem_str (fold (s_name src))
            (c_users match alookup (fold chan) (st_channels s) with
                     | Some c => c
                     | None => mkChannel chan [] [] (new_cmodes (chan_modes s) (fst (parse_prefixes (user_prefixes s))))
                     end) = false).
  { pose proof (sim_chans _ _ S (fold chan)) as HS. unfold opt_rel in HS.
    destruct (is_me r (s_name src)).
    - apply negb_true_iff in Hmem. unfold tracked_chan in Hmem. change (key chan) with (fold chan) in Hmem.
      destruct (alookup (fold chan) (st_channels s)); destruct (alookup (fold chan) (r_chans r)); try contradiction; [discriminate|reflexivity].
    - apply andb_prop in Hmem. destruct Hmem as [_ Hmem]. apply negb_true_iff in Hmem. unfold member_of in Hmem.
      change (key chan) with (fold chan) in Hmem.
      destruct (alookup (fold chan) (st_channels s)) as [c|]; destruct (alookup (fold chan) (r_chans r)) as [rc|]; try contradiction; [|reflexivity].
      pose proof (sc_members _ _ _ _ HS (fold (s_name src))) as Hm. change (key (s_name src)) with (fold (s_name src)) in Hmem.
      destruct (mem_str (fold (s_name src)) (c_users c)); [rewrite Hm in Hmem; discriminate|reflexivity]. }
  destruct (step_join_core cfg s r e I F S W src chan rest (e_account_tag e) Hsrc Hps eq_refl Hnm Hme') as (sF & o & H1 & H2 & H3).
  exists sF, o. rewrite Hh, Hr. split; [exact H1|]. split; [exact H2|exact H3].
Qed.

End JoinCmd.
