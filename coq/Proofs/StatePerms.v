(* C05, the permission maps: every channel listed for a user has a permission entry
   (proved, for every event); the converse — a permission entry only for listed channels,
   which the documentation of UserPerms.Lookup promises — is refuted by handleMODE. *)
Require Import Bytes AMap Names State OrderLemmas AMapLemmas NamesProofs StateInv StateHandlers.
From Coq Require Import Lia.

Definition perms_cover (u : user) : Prop :=
  forall cn, In cn (u_chans u) -> alookup cn (u_perms u) <> None.
Definition PermsCover (s : state) : Prop :=
  forall ku u, alookup ku (st_users s) = Some u -> perms_cover u.
Definition perms_only_listed (s : state) : Prop :=
  forall ku u cn, alookup ku (st_users s) = Some u -> alookup cn (u_perms u) <> None -> In cn (u_chans u).

(* the stronger invariant carried through the handlers *)
Definition Inv2 (s : state) : Prop := Inv s /\ PermsCover s.

Lemma perms_cover_init : PermsCover state_init.
Proof. intros ku u H. discriminate. Qed.

(* ---- user-level steps ---- *)

Lemma cover_add_channel u name : perms_cover u -> perms_cover (user_add_channel u name).
Proof.
  intros H cn. unfold user_add_channel, user_in_channel. destruct (mem_str (fold name) (u_chans u)) eqn:E; [apply H|].
  cbn [u_chans u_perms u_set_chans u_set_perms]. rewrite sort_strs_in, in_app_iff, alookup_aset. simpl.
  destruct (streqb cn (fold name)) eqn:Ec; [discriminate|]. apply streqb_neq in Ec.
  intros [Hin|[Heq|[]]]; [apply H; exact Hin|congruence].
Qed.

Lemma cover_delete_channel u name : NoDup (u_chans u) -> perms_cover u -> perms_cover (user_delete_channel u name).
Proof.
  intros Hnd H cn. unfold user_delete_channel. cbn [u_chans u_perms u_set_chans u_set_perms].
  rewrite (remove_first_in (fold name) (u_chans u) cn Hnd), alookup_aremove. intros [Hin Hne].
  apply streqb_neq in Hne. rewrite Hne. apply H. exact Hin.
Qed.

Lemma cover_set_perm u k p : perms_cover u -> perms_cover (u_set_perms u (aset k p (u_perms u))).
Proof.
  intros H cn. cbn [u_chans u_perms u_set_perms]. rewrite alookup_aset. destruct (streqb cn k); [discriminate|]. apply H.
Qed.

(* a function on users that keeps the channel list and the permission map *)
Definition keeps_perms (f : user -> user) : Prop :=
  forall u, perms_cover u -> perms_cover (f u).

Lemma update_user_cover s name f : keeps_perms f -> PermsCover s -> PermsCover (update_user s name f).
Proof.
  intros Hf H. unfold update_user, lookup_user. destruct (alookup (fold name) (st_users s)) as [u|] eqn:E; [|exact H].
  intros ku u0. sproj. rewrite alookup_aset. destruct (streqb ku (fold name)).
  - intros H0; injection H0 as <-. apply Hf. apply (H _ _ E).
  - apply H.
Qed.

Ltac kp := let u := fresh "u" in let H := fresh "H" in intros u H; exact H.

(* ---- state-level steps ---- *)

Lemma cover_set_channels s m : PermsCover s -> PermsCover (set_channels s m).
Proof. intros H. exact H. Qed.

Lemma create_channel_cover s name : PermsCover s -> PermsCover (create_channel s name).
Proof. intros H. unfold PermsCover. rewrite create_channel_same_users. exact H. Qed.

Lemma create_user_cover s src : PermsCover s -> PermsCover (create_user s src).
Proof.
  intros H. unfold create_user. destruct (alookup (fold (s_name src)) (st_users s)) eqn:E; [exact H|].
  intros ku u. sproj. rewrite alookup_aset. destruct (streqb ku (fold (s_name src))); [|apply H].
  intros H0; injection H0 as <-. intros cn []. 
Qed.

Lemma set_user_cover s k u' : PermsCover s -> perms_cover u' -> PermsCover (set_users s (aset k u' (st_users s))).
Proof.
  intros H Hu ku u. sproj. rewrite alookup_aset. destruct (streqb ku k); [|apply H].
  intros H0; injection H0 as <-. exact Hu.
Qed.

Lemma remove_user_cover s k : PermsCover s -> PermsCover (set_users s (aremove k (st_users s))).
Proof. intros H ku u. sproj. rewrite alookup_aremove. destruct (streqb ku k); [discriminate|apply H]. Qed.

Lemma cover_same_users s s' : st_users s' = st_users s -> PermsCover s -> PermsCover s'.
Proof. intros E H. unfold PermsCover. rewrite E. exact H. Qed.

Lemma delete_channel_cover s name s' : Inv s -> PermsCover s -> delete_channel s name = Ok s' -> PermsCover s'.
Proof.
  intros I HC. unfold delete_channel. destruct (alookup (fold name) (st_channels s)) as [c|] eqn:Ec.
  2:{ intros H; injection H as <-. exact HC. }
  set (k := fold name) in *.
  destruct (dcu_spec k (c_users c) (st_users s)) as (users' & Hrun & Hspec).
  { apply ssorted_nodup. apply (inv_cl I _ _ Ec). }
  { intros n Hn. destruct (inv_cu I _ _ _ Ec Hn) as (u & Hu & _). congruence. }
  rewrite Hrun. cbn [rbind]. intros H; injection H as <-. intros n u. sproj. rewrite Hspec.
  destruct (mem_str n (c_users c)); [|apply HC].
  destruct (alookup n (st_users s)) as [u0|] eqn:E; [|discriminate]. unfold drop_chan.
  destruct (u_chans (user_delete_channel u0 k)) eqn:El; [discriminate|]. intros H; injection H as <-.
  apply cover_delete_channel; [apply ssorted_nodup, (inv_ul I _ _ E)|apply (HC _ _ E)].
Qed.

Lemma delete_user_cover s chan nick s' : Inv s -> PermsCover s -> delete_user s chan nick = Ok s' -> PermsCover s'.
Proof.
  intros I HC. unfold delete_user, lookup_user, lookup_channel.
  destruct (alookup (fold nick) (st_users s)) as [u|] eqn:Eu.
  2:{ intros H; injection H as <-. exact HC. }
  destruct chan as [|b r].
  - destruct (delete_user_everywhere (st_channels s) nick (u_chans u)) as [chans'|]; cbn [rbind]; [|discriminate].
    intros H; injection H as <-. intros n u0. sproj. rewrite alookup_aremove. destruct (streqb n (fold nick)); [discriminate|apply HC].
  - destruct (alookup (fold (b :: r)) (st_channels s)) as [c|] eqn:Ec.
    2:{ intros H; injection H as <-. exact HC. }
    cbv zeta. destruct (u_chans (user_delete_channel u (b :: r))); intros H; injection H as <-.
    + intros n u0. sproj. rewrite alookup_aremove. destruct (streqb n (fold nick)); [discriminate|apply HC].
    + intros n u0. sproj. rewrite alookup_aset. destruct (streqb n (fold nick)); [|apply HC].
      intros H; injection H as <-. apply cover_delete_channel; [apply ssorted_nodup, (inv_ul I _ _ Eu)|apply (HC _ _ Eu)].
Qed.

Lemma rename_user_cover s from to s' : Inv s -> PermsCover s -> rename_user s from to = Ok s' -> PermsCover s'.
Proof.
  intros I HC. unfold rename_user. set (kf := fold from).
  set (s0 := if streqb kf (fold (st_nick s)) then set_nick s to else s).
  assert (I0 : Inv s0).
  { unfold s0. destruct (streqb kf (fold (st_nick s))); [|exact I]. eapply same_struct_inv; [apply same_set_nick|exact I]. }
  assert (C0 : PermsCover s0) by (unfold s0; destruct (streqb kf (fold (st_nick s))); exact HC).
  clearbody s0. clear I HC s.
  destruct (alookup kf (st_users s0)) as [u|] eqn:Eu.
  2:{ intros H; injection H as <-. exact C0. }
  assert (G : forall s1, PermsCover s1 -> alookup kf (st_users s1) = Some u \/ True -> forall chans',
     PermsCover (set_channels (set_users s1 (aset (fold to) (u_set_nick u to) (aremove kf (st_users s1)))) chans')).
  { intros s1 C1 _ chans' n u0. sproj. rewrite alookup_aset. destruct (streqb n (fold to)).
    - intros H; injection H as <-. exact (C0 _ _ Eu).
    - rewrite alookup_aremove. destruct (streqb n kf); [discriminate|apply C1]. }
  destruct (streqb (fold to) kf) eqn:Et; cbn [rbind].
  - destruct (rename_in_channels (st_channels s0) kf (fold to) (u_chans u)) as [chans'|]; cbn [rbind]; [|discriminate].
    intros H; injection H as <-. apply G; auto.
  - destruct (delete_user s0 [] to) as [s1|] eqn:Ed; cbn [rbind]; [|discriminate].
    pose proof (delete_user_cover _ _ _ _ I0 C0 Ed) as C1.
    destruct (rename_in_channels (st_channels s1) kf (fold to) (u_chans u)) as [chans'|]; cbn [rbind]; [|discriminate].
    intros H; injection H as <-. apply G; auto.
Qed.

(* ---- handlers ---- *)

Lemma handle_join_cover cfg s e s' o : Inv s -> PermsCover s -> handle_join cfg s e = Ok (s', o) -> PermsCover s'.
Proof.
  intros I HC. unfold handle_join. destruct (e_src e) as [src|].
  2:{ intros H; injection H as <- _. exact HC. }
  destruct (e_params e) as [|chan_name rest].
  { intros H; injection H as <- _. exact HC. }
  set (s2 := create_user (create_channel s chan_name) src).
  assert (C2 : PermsCover s2) by (apply create_user_cover, create_channel_cover, HC).
  unfold lookup_channel, lookup_user.
  destruct (alookup (fold chan_name) (st_channels s2)) as [c|]; [|discriminate].
  destruct (alookup (fold (s_name src)) (st_users s2)) as [uf|] eqn:Eu; [|discriminate].
  cbv zeta.
  match goal with |- context [channel_add_user c (u_nick ?U)] => set (u := U) end.
  assert (U0 : perms_cover u).
  { unfold u. destruct (_ && _); [|exact (C2 _ _ Eu)]. exact (C2 _ _ Eu). }
  match goal with |- context [aset (fold (s_name src)) ?U (st_users s2)] => set (u2 := U) end.
  assert (U2 : perms_cover u2).
  { pose proof (cover_add_channel u (c_name c) U0) as H1.
    unfold u2. destruct (e_account_tag e); (destruct rest as [|acct [|nm r2]]; [|destruct (streqb acct [42])..]); exact H1. }
  clearbody u2.
  assert (C3 : PermsCover (set_users (set_channels s2 (aset (fold chan_name) (channel_add_user c (u_nick u)) (st_channels s2)))
                                     (aset (fold (s_name src)) u2 (st_users s2)))).
  { intros n u0. sproj. rewrite alookup_aset. destruct (streqb n (fold (s_name src))); [|apply C2].
    intros H; injection H as <-. exact U2. }
  destruct (streqb _ _); intros H; injection H as <- _; exact C3.
Qed.

Lemma names_entry_cover kc s part : PermsCover s -> PermsCover (names_entry kc s part).
Proof.
  intros HC. unfold names_entry. destruct (parse_user_prefix part []) as [[modes nick]|]; [|exact HC].
  match goal with |- context [match ?X with Some _ => _ | None => s end] => destruct X as [src|] end; [|exact HC].
  set (s1 := create_user s src). assert (C1 : PermsCover s1) by (apply create_user_cover, HC).
  unfold lookup_user. destruct (alookup kc (st_channels s1)) as [c|]; [|exact C1].
  destruct (alookup (fold (s_name src)) (st_users s1)) as [u|] eqn:Eu; [|exact C1].
  intros n u0. sproj. rewrite alookup_aset. destruct (streqb n (fold (s_name src))); [|apply C1].
  intros H; injection H as <-. apply cover_set_perm. apply cover_add_channel. apply (C1 _ _ Eu).
Qed.

Lemma handle_names_cover s e : PermsCover s -> PermsCover (handle_names s e).
Proof.
  intros HC. unfold handle_names. destruct (Nat.ltb _ _); [exact HC|]. destruct (lookup_channel s (param e 2)); [|exact HC].
  generalize (split_byte 32 (last_param e)). intros l. revert s HC.
  induction l as [|p l IH]; intros s HC; simpl; [exact HC|]. apply IH. apply names_entry_cover. exact HC.
Qed.

Lemma mode_user_perms_cover cn s m : PermsCover s -> PermsCover (mode_user_perms cn s m).
Proof.
  intros HC. unfold mode_user_perms. destruct (m_setting m); [exact HC|]. destruct (m_args m); [exact HC|].
  apply update_user_cover; [|exact HC]. intros u Hu. apply cover_set_perm. exact Hu.
Qed.

Lemma fold_mode_cover cn ms : forall s, PermsCover s -> PermsCover (fold_left (mode_user_perms cn) ms s).
Proof.
  induction ms as [|m ms IH]; intros s C; simpl; [exact C|]. apply IH. apply mode_user_perms_cover. exact C.
Qed.

Lemma handle_mode_cover s e : PermsCover s -> PermsCover (handle_mode s e).
Proof.
  intros HC. unfold handle_mode.
  match goal with |- context [match ?P with [] => _ | _ => _ end] => destruct P as [|target [|flags args]] end; try exact HC.
  destruct (negb _); [exact HC|]. destruct (lookup_channel s target) as [c|]; [|exact HC].
  apply fold_mode_cover. exact HC.
Qed.

Lemma src_update_cover s e f : keeps_perms f -> PermsCover s -> PermsCover (src_update s e f).
Proof. intros Hf HC. unfold src_update. destruct (e_src e); [apply update_user_cover; assumption|exact HC]. Qed.

Theorem handle_cover cfg s e s' o : Inv s -> PermsCover s -> handle cfg s e = Ok (s', o) -> PermsCover s'.
Proof.
  intros I0 C0. unfold handle. set (s1 := handle_tags s e).
  assert (I : Inv s1) by (eapply same_struct_inv; [apply handle_tags_same|exact I0]).
  assert (C : PermsCover s1).
  { unfold s1, handle_tags. destruct (e_src e); [|exact C0]. destruct (e_account_tag e); [|exact C0].
    apply update_user_cover; [kp|exact C0]. }
  clearbody s1. clear I0 C0 s. cbv zeta.
  assert (P : forall s2, PermsCover s2 -> Ok (s2, @nil out) = Ok (s', o) -> PermsCover s').
  { intros s2 C2 H. injection H as <- _. exact C2. }
  assert (L : forall r : res state, (forall s2, r = Ok s2 -> PermsCover s2) ->
     (s2 <- r ;; Ok (s2, @nil out)) = Ok (s', o) -> PermsCover s').
  { intros r Hr. destruct r as [s2|]; cbn [rbind]; [|discriminate]. intros H; injection H as <- _. apply Hr. reflexivity. }
  destruct (cmd_is e "001"). { apply P. unfold handle_connect. destruct (e_params e); exact C. }
  destruct (cmd_is e "PING"). { intros H; injection H as <- _. exact C. }
  destruct (cmd_is e "JOIN"). { apply handle_join_cover; assumption. }
  destruct (cmd_is e "PART").
  { apply L. intros s2. unfold handle_part. destruct (e_src e) as [src|]; [|intros H; injection H as <-; exact C].
    destruct (e_params e) as [|cn ?]; [intros H; injection H as <-; exact C|]. destruct cn; [intros H; injection H as <-; exact C|].
    destruct (streqb _ _); [apply delete_channel_cover|apply delete_user_cover]; assumption. }
  destruct (cmd_is e "KICK").
  { apply L. intros s2. unfold handle_kick. destruct (e_params e) as [|cn [|nick ?]]; try (intros H; injection H as <-; exact C).
    destruct (streqb _ _); [apply delete_channel_cover|apply delete_user_cover]; assumption. }
  destruct (cmd_is e "QUIT").
  { apply L. intros s2. unfold handle_quit. destruct (e_src e) as [src|]; [|intros H; injection H as <-; exact C].
    destruct (streqb _ _); [intros H; injection H as <-; exact C|apply delete_user_cover; assumption]. }
  destruct (cmd_is e "NICK").
  { apply L. intros s2. unfold handle_nick. destruct (e_src e) as [src|]; [|intros H; injection H as <-; exact C].
    destruct (e_params e); [intros H; injection H as <-; exact C|]. apply rename_user_cover; assumption. }
  destruct (cmd_is e "353"). { apply P, handle_names_cover, C. }
  destruct (cmd_is e "MODE" || cmd_is e "324"). { apply P, handle_mode_cover, C. }
  destruct (cmd_is e "352" || cmd_is e "354").
  { apply P. unfold handle_who. destruct (cmd_is e "354").
    - destruct (negb _); [exact C|]. destruct (negb _); [exact C|]. apply update_user_cover; [kp|exact C].
    - destruct (Nat.ltb _ _); [exact C|]. apply update_user_cover; [kp|exact C]. }
  destruct (cmd_is e "TOPIC" || cmd_is e "332").
  { apply P. apply (cover_same_users s1); [|exact C]. unfold handle_topic.
    destruct (e_params e) as [|a [|b [|c r]]]; try reflexivity; destruct (lookup_channel s1 _); reflexivity. }
  destruct (cmd_is e "004"). { apply P. apply (cover_same_users s1); [|exact C]. unfold handle_myinfo. destruct (Nat.ltb _ _); reflexivity. }
  destruct (cmd_is e "005").
  { apply P. apply (cover_same_users s1); [|exact C]. unfold handle_isupport.
    destruct (negb _); [reflexivity|]. destruct (Nat.ltb _ _); [reflexivity|].
    destruct (opt_int _ k_LINELEN); cbv beta iota; destruct (_ <=? _)%Z; reflexivity. }
  destruct (cmd_is e "375" || cmd_is e "372"). { apply P. apply (cover_same_users s1); [|exact C]. unfold handle_motd. destruct (cmd_is e "375"); reflexivity. }
  destruct (cmd_is e "CHGHOST").
  { apply P. unfold handle_chghost. destruct (e_params e) as [|a [|b [|c r]]]; try exact C. apply src_update_cover; [kp|exact C]. }
  destruct (cmd_is e "AWAY"). { apply P. unfold handle_away. apply src_update_cover; [kp|exact C]. }
  destruct (cmd_is e "ACCOUNT").
  { apply P. unfold handle_account. destruct (e_params e) as [|a [|b r]]; try exact C. apply src_update_cover; [kp|exact C]. }
  apply P. exact C.
Qed.

Theorem run_cover cfg h : forall s s' o, Inv s -> PermsCover s -> run cfg s h = Ok (s', o) -> PermsCover s'.
Proof.
  induction h as [|e h IH]; intros s s' o I C; simpl.
  - intros H; injection H as <- _. exact C.
  - destruct (handle cfg s e) as [[s1 o1]|] eqn:H1; [|discriminate].
    destruct (run cfg s1 h) as [[s2 o2]|] eqn:H2; [|discriminate]. intros H; injection H as <- _.
    eapply IH; [| |exact H2]; [eapply handle_keeps_inv; eassumption|eapply handle_cover; eassumption].
Qed.

Theorem all_histories_cover cfg h s o : run cfg state_init h = Ok (s, o) -> PermsCover s.
Proof. apply run_cover; [exact inv_init|exact perms_cover_init]. Qed.

(* ---- the converse is false of the code as it is ---- *)

Definition perms_history : list event := [
  mkEvent (ex_src "srv") None (bs "001") [bs "me"; bs "welcome"];
  mkEvent (ex_src "me") None (bs "JOIN") [bs "#a"];
  mkEvent (ex_src "srv") None (bs "353") [bs "me"; bs "="; bs "#a"; bs "me zed"];
  mkEvent (ex_src "me") None (bs "JOIN") [bs "#b"];
  mkEvent (ex_src "srv") None (bs "MODE") [bs "#b"; bs "+o"; bs "zed"]   (* zed is not in #b *)
].

Theorem perms_only_listed_refuted : exists s o, run ex_cfg state_init perms_history = Ok (s, o) /\ ~ perms_only_listed s.
Proof.
  destruct (all_histories ex_cfg perms_history) as (s & o & H & _). exists s, o. split; [exact H|].
  vm_compute in H. injection H as <- _. intros P.
  specialize (P (bs "zed") _ (bs "#b") eq_refl). vm_compute in P.
  destruct (P ltac:(discriminate)) as [E|[]]. discriminate.
Qed.

Theorem all_histories_cover_flat cfg h s o : run cfg state_init h = Ok (s, o) ->
  forall ku u cn, alookup ku (st_users s) = Some u -> In cn (u_chans u) -> alookup cn (u_perms u) <> None.
Proof. intros H ku u cn Hu Hin. exact (all_histories_cover cfg h s o H ku u Hu cn Hin). Qed.
