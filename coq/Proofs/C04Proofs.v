(* C04: the refinement theorem. One step: every conformant message keeps the simulation;
   hence every conformant history is processed without panic and the implementation's
   state stands for exactly the told-state of the reference model. *)
Require Import Bytes AMap SMap Names State StateGetters NetRef.
Require Import OrderLemmas AMapLemmas SMapLemmas NamesProofs StateInv StateHandlers NetRefLemmas StateRefine.
Require Import RefineSimple RefineJoin RefineLeave RefineNick RefineNames RefineMode.
From Coq Require Import Lia.

Lemma step_cmd cfg s r e : Inv s -> Fresh s -> Sim s r -> RWf r -> cmd_ok r e = true -> step_ok cfg s r e.
Proof.
  intros I F S W Hok.
  destruct (streqb (e_cmd e) c_001) eqn:E1; [apply streqb_eq in E1; apply step_001; assumption|].
  destruct (streqb (e_cmd e) c_JOIN) eqn:E2; [apply streqb_eq in E2; apply step_JOIN; assumption|].
  destruct (streqb (e_cmd e) c_PART) eqn:E3; [apply streqb_eq in E3; apply step_PART; assumption|].
  destruct (streqb (e_cmd e) c_KICK) eqn:E4; [apply streqb_eq in E4; apply step_KICK; assumption|].
  destruct (streqb (e_cmd e) c_QUIT) eqn:E5; [apply streqb_eq in E5; apply step_QUIT; assumption|].
  destruct (streqb (e_cmd e) c_NICK) eqn:E6; [apply streqb_eq in E6; apply step_NICK; assumption|].
  destruct (streqb (e_cmd e) c_353) eqn:E7; [apply streqb_eq in E7; apply step_353; assumption|].
  destruct (streqb (e_cmd e) c_MODE) eqn:E8; [apply streqb_eq in E8; apply step_MODE; assumption|].
  destruct (streqb (e_cmd e) c_324) eqn:E9; [apply streqb_eq in E9; apply step_324; assumption|].
  destruct (streqb (e_cmd e) c_TOPIC) eqn:E10; [apply streqb_eq in E10; apply step_TOPIC; assumption|].
  destruct (streqb (e_cmd e) c_332) eqn:E11; [apply streqb_eq in E11; apply step_332; assumption|].
  destruct (streqb (e_cmd e) c_352) eqn:E12; [apply streqb_eq in E12; apply step_352; assumption|].
  destruct (streqb (e_cmd e) c_354) eqn:E13; [apply streqb_eq in E13; apply step_354; assumption|].
  destruct (streqb (e_cmd e) c_AWAY) eqn:E14; [apply streqb_eq in E14; apply step_AWAY; assumption|].
  destruct (streqb (e_cmd e) c_ACCOUNT) eqn:E15; [apply streqb_eq in E15; apply step_ACCOUNT; assumption|].
  destruct (streqb (e_cmd e) c_CHGHOST) eqn:E16; [apply streqb_eq in E16; apply step_CHGHOST; assumption|].
  destruct (streqb (e_cmd e) c_004) eqn:E17; [apply streqb_eq in E17; apply step_004; assumption|].
  destruct (streqb (e_cmd e) c_005) eqn:E18; [apply streqb_eq in E18; apply step_005; assumption|].
  destruct (streqb (e_cmd e) c_375) eqn:E19; [apply streqb_eq in E19; apply step_375; assumption|].
  destruct (streqb (e_cmd e) c_372) eqn:E20; [apply streqb_eq in E20; apply step_372; assumption|].
  apply step_other; try assumption. unfold known_cmds. repeat (constructor; [assumption|]). constructor.
Qed.

(* the one-step simulation *)
Lemma one_step cfg s r e : Inv s -> Fresh s -> Sim s r -> RWf r -> conformant r e = true ->
  exists s' o, handle cfg s e = Ok (s', o) /\ Inv s' /\ Fresh s' /\ Sim s' (ref_step r e) /\ RWf (ref_step r e).
Proof.
  intros I F S W Hc. unfold conformant in Hc. apply andb_prop in Hc. destruct Hc as [_ Hok].
  destruct (step_cmd cfg (handle_tags s e) (ref_tag r e) e (tag_inv s e I) (tag_fresh s e F) (tag_sim s r e S) (rwf_tag r e W) Hok)
    as (s' & o & Hh & F' & S').
  exists s', o. rewrite handle_split. split; [exact Hh|].
  assert (I' : Inv s') by (eapply handle_keeps_inv; [exact I|rewrite handle_split; exact Hh]).
  split; [exact I'|]. split; [exact F'|]. split; [apply S', I'|apply rwf_step, W].
Qed.

Lemma run_sim cfg : forall h s r, Inv s -> Fresh s -> Sim s r -> RWf r -> conformant_from r h = true ->
  exists s' o, run cfg s h = Ok (s', o) /\ Inv s' /\ Sim s' (fold_left ref_step h r) /\ RWf (fold_left ref_step h r).
Proof.
  induction h as [|e h IH]; intros s r I F S W Hc; simpl.
  - exists s, []. split; [reflexivity|]. split; [exact I|]. split; [exact S|exact W].
  - simpl in Hc. apply andb_prop in Hc. destruct Hc as [Hc1 Hc2].
    destruct (one_step cfg s r e I F S W Hc1) as (s1 & o1 & H1 & I1 & F1 & S1 & W1). rewrite H1.
    destruct (IH s1 (ref_step r e) I1 F1 S1 W1 Hc2) as (s2 & o2 & H2 & I2 & S2 & W2). rewrite H2.
    exists s2, (o1 ++ o2). split; [reflexivity|]. split; [exact I2|]. split; [exact S2|exact W2].
Qed.

(* C04: every conformant history is processed without panic, and the state reached stands
   for exactly what the client has been told *)
Theorem refines cfg h : conformant_history h = true ->
  exists s out, run cfg state_init h = Ok (s, out) /\ abs s = ref_run h.
Proof.
  intros Hc. destruct (run_sim cfg h state_init ref_init inv_init fresh_init sim_init rwf_init Hc) as (s & o & H & I & S & W).
  exists s, o. split; [exact H|]. apply sim_eq; assumption.
Qed.

(* the one-step form, stated with abs *)
Theorem refines_step cfg s e : Inv s -> Fresh s -> RWf (abs s) -> conformant (abs s) e = true ->
  exists s' out, handle cfg s e = Ok (s', out) /\ Inv s' /\ Fresh s' /\ RWf (abs s') /\ abs s' = ref_step (abs s) e.
Proof.
  intros I F W Hc. destruct (one_step cfg s (abs s) e I F (sim_abs s) W Hc) as (s' & o & H & I' & F' & S' & W').
  exists s', o. split; [exact H|]. split; [exact I'|]. split; [exact F'|].
  assert (E : abs s' = ref_step (abs s) e) by (apply sim_eq; assumption). rewrite E. split; [exact W'|reflexivity].
Qed.
