(* C04: the refinement theorem. One step: every conformant message keeps the simulation;
   hence every conformant history is processed without panic and the implementation's
   state stands for exactly the told-state of the reference model. *)
Require Import Bytes AMap SMap Names State StateGetters NetRef.
Require Import OrderLemmas AMapLemmas SMapLemmas NamesProofs StateInv StateHandlers NetRefLemmas StateRefine.
Require Import RefineSimple RefineJoin RefineLeave RefineNick RefineNames RefineMode C04Getters ToldEq.
From Coq Require Import Lia.

Lemma step_cmd cfg s r e : Inv s -> Fresh s -> Sim s r -> RWf r -> cmd_ok r e = true -> step_ok cfg s r e.
Proof.
  intros I F S W Hok.
  destruct (streqb (e_cmd e) c_001) eqn:E1; [apply streqb_eq in E1; apply step_001; assumption|].
  destruct (streqb (e_cmd e) c_JOIN) eqn:E2; [apply streqb_eq in E2; apply step_JOIN; assumption|].
  destruct (streqb (e_cmd e) c_PART) eqn:E3; [apply streqb_eq in E3; apply step_PART; assumption|].
  destruct (streqb (e_cmd e) c_KICK) eqn:E4; [apply streqb_eq in E4; apply step_KICK; assumption|].
  destruct (streqb (e_cmd e) c_QUIT) eqn:E5; [apply streqb_eq in E5; apply step_QUIT; assumption|].
  destruct (streqb (e_cmd e) c_NICK) eqn:E6; [apply streqb_eq in E6; apply step_NICK; assumption|].
  destruct (streqb (e_cmd e) c_353) eqn:E7; [apply streqb_eq in E7; apply step_353; assumption|].
  destruct (streqb (e_cmd e) c_MODE) eqn:E8; [apply streqb_eq in E8; apply step_MODE; assumption|].
  destruct (streqb (e_cmd e) c_324) eqn:E9; [apply streqb_eq in E9; apply step_324; assumption|].
  destruct (streqb (e_cmd e) c_TOPIC) eqn:E10; [apply streqb_eq in E10; apply step_TOPIC; assumption|].
  destruct (streqb (e_cmd e) c_332) eqn:E11; [apply streqb_eq in E11; apply step_332; assumption|].
  destruct (streqb (e_cmd e) c_352) eqn:E12; [apply streqb_eq in E12; apply step_352; assumption|].
  destruct (streqb (e_cmd e) c_354) eqn:E13; [apply streqb_eq in E13; apply step_354; assumption|].
  destruct (streqb (e_cmd e) c_AWAY) eqn:E14; [apply streqb_eq in E14; apply step_AWAY; assumption|].
  destruct (streqb (e_cmd e) c_ACCOUNT) eqn:E15; [apply streqb_eq in E15; apply step_ACCOUNT; assumption|].
  destruct (streqb (e_cmd e) c_CHGHOST) eqn:E16; [apply streqb_eq in E16; apply step_CHGHOST; assumption|].
  destruct (streqb (e_cmd e) c_004) eqn:E17; [apply streqb_eq in E17; apply step_004; assumption|].
  destruct (streqb (e_cmd e) c_005) eqn:E18; [apply streqb_eq in E18; apply step_005; assumption|].
  destruct (streqb (e_cmd e) c_375) eqn:E19; [apply streqb_eq in E19; apply step_375; assumption|].
  destruct (streqb (e_cmd e) c_372) eqn:E20; [apply streqb_eq in E20; apply step_372; assumption|].
  apply step_other; try assumption. unfold known_cmds. repeat (constructor; [assumption|]). constructor.
Qed.

(* the one-step simulation *)
Lemma one_step cfg s r e : Inv s -> Fresh s -> Sim s r -> RWf r -> conformant r e = true ->
  exists s' o, handle cfg s e = Ok (s', o) /\ Inv s' /\ Fresh s' /\ Sim s' (ref_step r e) /\ RWf (ref_step r e).
Proof.
  intros I F S W Hok. unfold conformant in Hok.
  destruct (step_cmd cfg (handle_tags s e) (ref_tag r e) e (tag_inv s e I) (tag_fresh s e F) (tag_sim s r e S) (rwf_tag r e W) Hok)
    as (s' & o & Hh & F' & S').
  exists s', o. rewrite handle_split. split; [exact Hh|].
  assert (I' : Inv s') by (eapply handle_keeps_inv; [exact I|rewrite handle_split; exact Hh]).
  split; [exact I'|]. split; [exact F'|]. split; [apply S', I'|apply rwf_step, W].
Qed.

Lemma run_sim cfg : forall h s r, Inv s -> Fresh s -> Sim s r -> RWf r -> conformant_from r h = true ->
  exists s' o, run cfg s h = Ok (s', o) /\ Inv s' /\ Sim s' (fold_left ref_step h r) /\ RWf (fold_left ref_step h r) /\ Fresh s'.
Proof.
  induction h as [|e h IH]; intros s r I F S W Hc; simpl.
  - exists s, []. split; [reflexivity|]. split; [exact I|]. split; [exact S|]. split; [exact W|exact F].
  - simpl in Hc. apply andb_prop in Hc. destruct Hc as [Hc1 Hc2].
    destruct (one_step cfg s r e I F S W Hc1) as (s1 & o1 & H1 & I1 & F1 & S1 & W1). rewrite H1.
    destruct (IH s1 (ref_step r e) I1 F1 S1 W1 Hc2) as (s2 & o2 & H2 & I2 & S2 & W2 & F2). rewrite H2.
    exists s2, (o1 ++ o2). split; [reflexivity|]. split; [exact I2|]. split; [exact S2|]. split; [exact W2|exact F2].
Qed.

(* C04: every conformant history is processed without panic, and the state reached stands
   for exactly what the client has been told *)
Theorem refines cfg h : conformant_history h = true ->
  exists s out, run cfg state_init h = Ok (s, out) /\ abs s = ref_run h.
Proof.
  intros Hc. destruct (run_sim cfg h state_init ref_init inv_init fresh_init sim_init rwf_init Hc) as (s & o & H & I & S & W & _).
  exists s, o. split; [exact H|]. apply sim_eq; assumption.
Qed.

(* ... stated with the literal reading of the history *)
Theorem refines_told cfg h : conformant_history h = true ->
  exists s out, run cfg state_init h = Ok (s, out) /\ abs s = told_run h.
Proof. intros Hc. rewrite (told_run_eq h Hc). apply refines, Hc. Qed.

Theorem refines_step_told cfg s e : Inv s -> Fresh s -> RWf (abs s) -> conformant (abs s) e = true ->
  exists s' out, handle cfg s e = Ok (s', out) /\ Inv s' /\ Fresh s' /\ RWf (abs s') /\ abs s' = told_step (abs s) e.
Proof.
  intros I F W Hc. rewrite (told_step_eq _ e W Hc). destruct (one_step cfg s (abs s) e I F (sim_abs s) W Hc) as (s' & o & H & I' & F' & S' & W').
  exists s', o. split; [exact H|]. split; [exact I'|]. split; [exact F'|].
  assert (E : abs s' = ref_step (abs s) e) by (apply sim_eq; assumption). rewrite E. split; [exact W'|reflexivity].
Qed.

(* the one-step form, stated with abs *)
Theorem refines_step cfg s e : Inv s -> Fresh s -> RWf (abs s) -> conformant (abs s) e = true ->
  exists s' out, handle cfg s e = Ok (s', out) /\ Inv s' /\ Fresh s' /\ RWf (abs s') /\ abs s' = ref_step (abs s) e.
Proof.
  intros I F W Hc. destruct (one_step cfg s (abs s) e I F (sim_abs s) W Hc) as (s' & o & H & I' & F' & S' & W').
  exists s', o. split; [exact H|]. split; [exact I'|]. split; [exact F'|].
  assert (E : abs s' = ref_step (abs s) e) by (apply sim_eq; assumption). rewrite E. split; [exact W'|reflexivity].
Qed.

(* everything known about a state reached by a conformant history *)
Lemma reach cfg h : conformant_history h = true ->
  exists s o, run cfg state_init h = Ok (s, o) /\ Inv s /\ Fresh s /\ RWf (abs s) /\ abs s = ref_run h.
Proof.
  intros Hc. destruct (run_sim cfg h state_init ref_init inv_init fresh_init sim_init rwf_init Hc) as (s & o & H & I & S & W & F).
  exists s, o. assert (E : abs s = ref_run h) by (apply sim_eq; assumption). rewrite E. split; [exact H|]. split; [exact I|]. split; [exact F|]. split; [exact W|reflexivity].
Qed.

Lemma conformant_from_app : forall h1 h2 r,
  conformant_from r (h1 ++ h2) = conformant_from r h1 && conformant_from (fold_left ref_step h1 r) h2.
Proof.
  induction h1 as [|e h1 IH]; intros h2 r; simpl; [reflexivity|]. rewrite IH, andb_assoc. reflexivity.
Qed.

Lemma run_app cfg : forall h1 h2 s s1 o1, run cfg s h1 = Ok (s1, o1) ->
  run cfg s (h1 ++ h2) = match run cfg s1 h2 with Ok (s2, o2) => Ok (s2, o1 ++ o2) | Panic => Panic end.
Proof.
  induction h1 as [|e h1 IH]; intros h2 s s1 o1 H; simpl in *.
  - injection H as <- <-. destruct (run cfg s h2) as [[s2 o2]|]; reflexivity.
  - destruct (handle cfg s e) as [[s' o']|]; [|discriminate]. destruct (run cfg s' h1) as [[s'' o'']|] eqn:E; [|discriminate].
    injection H as <- <-. rewrite (IH h2 s' s'' o'' E). destruct (run cfg s'' h2) as [[s2 o2]|]; [|reflexivity]. rewrite app_assoc. reflexivity.
Qed.

Lemma v_lookup_channel_ne r name : name <> [] -> v_lookup_channel r name = alookup (key name) (r_chans r).
Proof. destruct name; [congruence|reflexivity]. Qed.

(* C04_mode_removal: after a conformant history, one more MODE message leaves HasMode(x)
   true/false according to the last sign under which x occurs in it, and untouched when x
   does not occur -- for every mode x that is a setting under the server's CHANMODES/PREFIX *)
Theorem mode_removal cfg h e target flags args x :
  conformant_history (h ++ [e]) = true -> e_cmd e = c_MODE -> e_params e = target :: flags :: args ->
  exists s o s' o', run cfg state_init h = Ok (s, o) /\ run cfg state_init (h ++ [e]) = Ok (s', o') /\
    forall c, g_lookup_channel s target = Some c ->
      is_setting (ref_chanmodes (abs s)) (ref_prefix_modes (abs s)) x -> (x <? 128) = true ->
      exists c', g_lookup_channel s' target = Some c' /\
        g_has_mode c' [x] = match last_sign flags true x with Some b => b | None => g_has_mode c [x] end.
Proof.
  intros Hc Hcmd Hps. unfold conformant_history in Hc. rewrite conformant_from_app in Hc. apply andb_prop in Hc. destruct Hc as [Hc1 Hc2].
  destruct (reach cfg h Hc1) as (s & o & Hrun & I & F & W & E).
  simpl in Hc2. rewrite andb_true_r in Hc2. fold (ref_run h) in Hc2. rewrite <- E in Hc2.
  destruct (refines_step cfg s e I F W Hc2) as (s' & o' & Hh & I' & F' & W' & E').
  exists s, o, s', (o ++ o'). split; [exact Hrun|]. split.
  { rewrite (run_app cfg h [e] state_init s o Hrun). simpl. rewrite Hh. rewrite app_nil_r. reflexivity. }
  intros c Hlc Hset Hx.
  assert (Hne : target <> []) by (intros ->; discriminate).
  pose proof (g_chan_lookup s target) as G. rewrite Hlc in G. cbn [option_map] in G.
  pose proof (g_chan_lookup s' target) as G'. rewrite E' in G'.
  rewrite (v_lookup_channel_ne _ _ Hne) in G. rewrite (v_lookup_channel_ne _ _ Hne) in G'.
  (* the told-state after the message *)
  unfold ref_step, ref_apply in G'. unfold ref_gc in G'. cbn [r_chans r_set_users] in G'.
  assert (Hcmdr : ref_cmd (ref_tag (abs s) e) e = ref_mode (ref_tag (abs s) e) target flags args).
  { unfold ref_cmd, cmdb. rewrite Hcmd, Hps. reduce_cmd c_MODE. reflexivity. }
  rewrite Hcmdr in G'. unfold ref_mode, upd_chan in G'. cbn [r_chans r_set_chans] in G'. rewrite alookup_sm_adjust, streqb_refl in G'.
  assert (Htag : r_chans (ref_tag (abs s) e) = r_chans (abs s) /\ r_opts (ref_tag (abs s) e) = r_opts (abs s)).
  { unfold ref_tag. destruct (e_src e); [|split; reflexivity]. destruct (e_account_tag e); split; reflexivity. }
  destruct Htag as [T1 T2]. rewrite T1 in G'. rewrite <- G in G'. cbn [option_map] in G'.
  assert (Hcm : ref_chanmodes (ref_tag (abs s) e) = ref_chanmodes (abs s)) by (unfold ref_chanmodes; rewrite T2; reflexivity).
  assert (Hpm : ref_prefix_modes (ref_tag (abs s) e) = ref_prefix_modes (abs s)) by (unfold ref_prefix_modes; rewrite T2; reflexivity).
  rewrite Hcm, Hpm in G'.
  destruct (g_lookup_channel s' target) as [c'|]; [|discriminate]. cbn [option_map] in G'. injection G' as G'.
  exists c'. split; [reflexivity|].
  rewrite (g_has_mode_spec s' (fold target) c' x Hx), G', (mode_walk_has _ _ _ Hset).
  rewrite <- (g_has_mode_spec s (fold target) c x Hx). reflexivity.
Qed.

(* users are forgotten exactly when they share no tracked channel -- in every state the
   client can reach, conformant history or not *)
Theorem users_forgotten cfg h s o nick : run cfg state_init h = Ok (s, o) -> nick <> [] ->
  (g_lookup_user s nick <> None <-> exists c, In c (g_channels s) /\ g_channel_user_in c nick = true).
Proof.
  intros Hrun Hne. destruct (all_histories cfg h) as (s1 & o1 & H1 & I1). rewrite Hrun in H1. injection H1 as <- <-.
  apply user_tracked_iff; assumption.
Qed.

Lemma told_canonical h : RWf (ref_run h).
Proof. apply rwf_run, rwf_init. Qed.

(* ---- a conformant history (non-vacuity of the hypotheses) ---- *)

Local Open Scope string_scope.

Definition ex_srv (cmd : string) (ps : list string) : event :=
  mkEvent (Some (mkSource (bs "irc.test") [] [])) None (bs cmd) (List.map bs ps).
Definition ex_usr (n cmd : string) (ps : list string) : event :=
  mkEvent (Some (mkSource (bs n) (bs "~u") (bs "h.example"))) None (bs cmd) (List.map bs ps).

(* two channels, a case-only rename, multi-prefix NAMES, +ntk key, -k key, +l 5, a PART *)
Definition ex_history : list event := [
  ex_srv "001" ["me"; "Welcome"];
  ex_srv "005" ["me"; "CHANMODES=beI,k,l,imnpst"; "PREFIX=(qaohv)~&@%+"; "are supported by this server"];
  ex_usr "me" "JOIN" ["#Chan"];
  ex_srv "353" ["me"; "="; "#chan"; "me @+alice ~&bob "];
  ex_usr "me" "JOIN" ["&Two"];
  ex_srv "353" ["me"; "@"; "&two"; "@me +alice"];
  ex_usr "ALICE" "NICK" ["Alice"];
  ex_srv "MODE" ["#CHAN"; "+ntk"; "key"];
  ex_srv "MODE" ["#chan"; "-k"; "key"];
  ex_srv "MODE" ["#chan"; "+l"; "5"];
  ex_usr "bob" "PART" ["#chan"] ].

Example ex_conformant : conformant_history ex_history = true.
Proof. vm_compute. reflexivity. Qed.

(* what the client has been told by it *)
Example ex_told :
  let r := told_run ex_history in
  v_channel_list r = [bs "#Chan"; bs "&Two"] /\ v_user_list r = [bs "Alice"; bs "me"] /\
  option_map (fun c => (v_channel_users c, v_modes_string (rc_modes c), mode_has 107 (rc_modes c), mode_arg 108 (rc_modes c)))
     (v_lookup_channel r (bs "#CHAN")) = Some ([bs "alice"; bs "me"], bs "+ntl 5", false, Some (bs "5")) /\
  v_perm r (bs "#chan") (bs "ALICE") = Some (mkPerms false false true false true) /\
  v_perm r (bs "&TWO") (bs "alice") = Some (mkPerms false false false false true) /\
  v_lookup_user r (bs "bob") = None /\ v_user_channels r (bs "alice") = [bs "#chan"; bs "&two"].
Proof. vm_compute. repeat split; reflexivity. Qed.

Example ex_mode_history : conformant_history (firstn 9 ex_history ++ [nth 9 ex_history (ex_srv "" [])]) = true.
Proof. vm_compute. reflexivity. Qed.

(* ---- four messages the implementation used to misread (repaired in /repo: 1202858, b2cf3ea,
   5501026, 0dc8f0c): they are conformant, and the implementation's state is their literal
   reading ---- *)

Definition ex_cfg04 := mkConfig (bs "me") (bs "user").
Definition ex_tagged (e : event) (a : string) : event := mkEvent (e_src e) (Some (bs a)) (e_cmd e) (e_params e).
Definition user_view (r : ref) (n : string) := option_map (fun u => (ru_ident u, ru_host u, ru_account u)) (v_lookup_user r (bs n)).
Definition run_abs (h : list event) : option ref :=
  match run ex_cfg04 state_init h with Ok (s, _) => Some (abs s) | Panic => None end.

(* a user known from a plain NAMES line joins another channel: the prefix of the JOIN is recorded *)
Definition literal_A1 : list event := [
  ex_srv "001" ["me"; "Welcome"]; ex_usr "me" "JOIN" ["#a"]; ex_srv "353" ["me"; "="; "#a"; "me alice"];
  ex_usr "me" "JOIN" ["#b"]; ex_srv "353" ["me"; "="; "#b"; "me"]; ex_usr "alice" "JOIN" ["#b"] ].
Example literal_A1_followed :
  conformant_history literal_A1 = true /\
  user_view (told_run literal_A1) "alice" = Some (bs "~u", bs "h.example", []) /\
  option_map (fun r => user_view r "alice") (run_abs literal_A1) = Some (user_view (told_run literal_A1) "alice").
Proof. vm_compute. repeat split; reflexivity. Qed.

(* extended-join shows "*" for a user known as logged in: the account is cleared *)
Definition literal_A2 : list event := [
  ex_srv "001" ["me"; "Welcome"]; ex_usr "me" "JOIN" ["#a"]; ex_usr "me" "JOIN" ["#b"];
  ex_usr "alice" "JOIN" ["#a"; "acct"; "Alice"]; ex_usr "alice" "JOIN" ["#b"; "*"; "Alice"] ].
Example literal_A2_followed :
  conformant_history literal_A2 = true /\
  user_view (told_run literal_A2) "alice" = Some (bs "~u", bs "h.example", []) /\
  option_map (fun r => user_view r "alice") (run_abs literal_A2) = Some (user_view (told_run literal_A2) "alice").
Proof. vm_compute. repeat split; reflexivity. Qed.

(* an account tag on the JOIN of somebody new, without extended-join: the account is recorded *)
Definition literal_A3 : list event := [
  ex_srv "001" ["me"; "Welcome"]; ex_usr "me" "JOIN" ["#a"]; ex_tagged (ex_usr "alice" "JOIN" ["#a"]) "acct" ].
Example literal_A3_followed :
  conformant_history literal_A3 = true /\
  user_view (told_run literal_A3) "alice" = Some (bs "~u", bs "h.example", bs "acct") /\
  option_map (fun r => user_view r "alice") (run_abs literal_A3) = Some (user_view (told_run literal_A3) "alice").
Proof. vm_compute. repeat split; reflexivity. Qed.

(* an ISUPPORT token with an empty value means the key with the empty value *)
Definition literal_A4 : list event := [
  ex_srv "001" ["me"; "Welcome"]; ex_srv "005" ["me"; "SILENCE="; "NETWORK=Test"; "are supported by this server"] ].
Example literal_A4_followed :
  conformant_history literal_A4 = true /\
  (v_option (told_run literal_A4) (bs "SILENCE"), v_option (told_run literal_A4) (bs "SILENCE=")) = (Some [], None) /\
  option_map (fun r => (v_option r (bs "SILENCE"), v_option r (bs "SILENCE="))) (run_abs literal_A4) = Some (Some [], None).
Proof. vm_compute. repeat split; reflexivity. Qed.

(* RPL_WHOREPLY "<hops> <realname>": realnames that begin with digits, are digits only or are
   empty come through as sent; the one reading the implementation does not follow literally is
   a realname that itself begins with a space (it trims all spaces after the hop count), which
   `ok_hopreal` therefore excludes *)
Example who_realnames :
  List.map (fun x => (ok_hopreal (bs x), who_strip (bs x) 0, who_realname (bs x)))
    ["0 42nd Street Bot"; "12 007"; "255 3 Musketeers fan"; "3 "; "0  x"] =
  [(true, bs "42nd Street Bot", bs "42nd Street Bot"); (true, bs "007", bs "007");
   (true, bs "3 Musketeers fan", bs "3 Musketeers fan"); (true, [], []); (false, bs "x", bs " x")].
Proof. vm_compute. reflexivity. Qed.
