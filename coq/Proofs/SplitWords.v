(* C11: the tokeniser (TrimSpace, FieldsFunc, the newline loop) keeps well-formedness
   and invents no bytes; cutting at cut_len keeps well-formedness. *)
Require Import Bytes Utf8 Split SplitUtf8 SplitProofs.
From Coq Require Import Lia ZifyBool ZifyN ZifyNat.
Local Open Scope nat_scope.

Lemma frev_rev s : frev s = rev s.
Proof. unfold frev. rewrite rev_append_rev. apply app_nil_r. Qed.

Lemma frev_cons b s : frev (b :: s) = frev s ++ [b].
Proof. rewrite !frev_rev. reflexivity. Qed.

Lemma In_frev x s : In x (frev s) <-> In x s.
Proof. rewrite frev_rev. symmetry. apply in_rev. Qed.

(* ------------------------------------------------------------------ *)
(* separators and white space are whole runes                           *)
(* ------------------------------------------------------------------ *)

Lemma sep_len_rune s k : sep_len s = S k -> rune_size s = Some (S k) /\ (match s with b :: _ => is_cont b = false | [] => True end).
Proof.
  unfold sep_len. destruct s as [|b r]; [discriminate|].
  destruct (is_sep_byte b) eqn:Es.
  - intros H; inversion H; subst. unfold is_sep_byte in Es. unfold rune_size, is_cont.
    assert (Hb : (b <? 128)%N = true) by lia. rewrite Hb. split; [reflexivity|lia].
  - destruct (b =? 194)%N eqn:Eb; [|discriminate]. apply N.eqb_eq in Eb. subst b.
    destruct r as [|c r']; [discriminate|].
    destruct ((c =? 133) || (c =? 160))%N eqn:Ec; [|discriminate].
    intros H; inversion H; subst. split; [|reflexivity].
    unfold rune_size. change (194 <? 128)%N with false. change (in_range 194 223 194) with true. cbv iota.
    assert (Hc : is_cont c = true) by (unfold is_cont; lia). rewrite Hc. reflexivity.
Qed.

Lemma ws_len_rune s k : ws_len s = S k -> rune_size s = Some (S k).
Proof.
  unfold ws_len. destruct s as [|b r]; [discriminate|].
  destruct (is_ascii_space b) eqn:Es.
  { intros H; inversion H; subst. unfold is_ascii_space in Es. unfold rune_size.
    assert (Hb : (b <? 128)%N = true) by lia. rewrite Hb. reflexivity. }
  destruct (b =? 194)%N eqn:E1.
  { apply N.eqb_eq in E1. subst b. destruct r as [|c r']; [discriminate|].
    destruct ((c =? 133) || (c =? 160))%N eqn:Ec; [|discriminate].
    intros H; inversion H; subst. unfold rune_size.
    change (194 <? 128)%N with false. change (in_range 194 223 194) with true. cbv iota.
    assert (Hc : is_cont c = true) by (unfold is_cont; lia). rewrite Hc. reflexivity. }
  destruct (b =? 225)%N eqn:E2.
  { apply N.eqb_eq in E2. subst b. destruct r as [|c [|d r']]; try discriminate.
    destruct ((c =? 154) && (d =? 128))%N eqn:Ec; [|discriminate].
    intros H; inversion H; subst.
    assert (c = 154%N /\ d = 128%N) as [-> ->] by lia. reflexivity. }
  destruct (b =? 226)%N eqn:E3.
  { apply N.eqb_eq in E3. subst b. destruct r as [|c [|d r']]; try discriminate.
    match goal with |- (if ?x then _ else _) = _ -> _ => destruct x eqn:Ec end.
    - intros H; inversion H; subst. assert (c = 128%N) by lia. subst c.
      unfold rune_size. change (226 <? 128)%N with false. change (in_range 194 223 226) with false.
      change (in_range 224 239 226) with true. cbv iota beta zeta.
      change (226 =? 224)%N with false. change (226 =? 237)%N with false. cbv iota.
      change (in_range 128 191 128) with true.
      assert (Hd : is_cont d = true) by (unfold is_cont; lia). rewrite Hd. reflexivity.
    - destruct ((c =? 129) && (d =? 159))%N eqn:Ed; [|discriminate].
      intros H; inversion H; subst. assert (c = 129%N /\ d = 159%N) as [-> ->] by lia. reflexivity. }
  destruct (b =? 227)%N eqn:E4; [|discriminate].
  apply N.eqb_eq in E4. subst b. destruct r as [|c [|d r']]; try discriminate.
  destruct ((c =? 128) && (d =? 128))%N eqn:Ec; [|discriminate].
  intros H; inversion H; subst. assert (c = 128%N /\ d = 128%N) as [-> ->] by lia. reflexivity.
Qed.

(* read backwards: the k+1 bytes are a suffix whose first byte is a lead byte *)
Lemma ws_len_rev_lead b r k : ws_len_rev (b :: r) = S k ->
  k <= length r /\ (match rev (firstn k r) ++ [b] with c :: _ => is_cont c = false | [] => True end).
Proof.
  unfold ws_len_rev.
  destruct (is_ascii_space b) eqn:Es.
  { intros H; inversion H; subst. split; [lia|]. cbn. unfold is_ascii_space in Es. unfold is_cont. lia. }
  destruct r as [|c r2]; [discriminate|].
  destruct ((c =? 194) && ((b =? 133) || (b =? 160)))%N eqn:E1.
  { intros H; inversion H; subst. split; [cbn [length]; lia|]. cbn. unfold is_cont. lia. }
  destruct r2 as [|d r3]; [discriminate|].
  assert (G : forall (x : bool), x = true -> (d =? 225)%N || (d =? 226)%N || (d =? 227)%N = true ->
              (if x then 3 else 0) = S k ->
              k <= length (c :: d :: r3) /\ (match rev (firstn k (c :: d :: r3)) ++ [b] with c0 :: _ => is_cont c0 = false | [] => True end)).
  { intros x -> Hd H. inversion H; subst. split; [cbn [length]; lia|]. cbn. unfold is_cont. lia. }
  repeat match goal with |- (if ?x then _ else _) = _ -> _ => destruct x eqn:? end; try discriminate;
    intros H; inversion H; subst; (split; [cbn [length]; lia|]); cbn; unfold is_cont; lia.
Qed.

(* ------------------------------------------------------------------ *)
(* TrimSpace                                                           *)
(* ------------------------------------------------------------------ *)

Lemma trim_left_wf s : forall skip, wf (skipn skip s) -> wf (trim_aux ws_len s skip).
Proof.
  induction s as [|b r IH]; intros skip H; cbn [trim_aux]; [constructor|].
  destruct skip as [|k]; [|apply IH; exact H].
  cbn [skipn] in H. destruct (ws_len (b :: r)) as [|k] eqn:E; [exact H|].
  apply IH. apply ws_len_rune in E. apply (wf_skip_rune _ _ H) in E. exact E.
Qed.

Lemma trim_right_wf t : forall skip, wf (rev (skipn skip t)) -> wf (rev (trim_aux ws_len_rev t skip)).
Proof.
  induction t as [|b r IH]; intros skip H; cbn [trim_aux]; [constructor|].
  destruct skip as [|k]; [|apply IH; exact H].
  cbn [skipn] in H. destruct (ws_len_rev (b :: r)) as [|k] eqn:E; [exact H|].
  apply IH. destruct (ws_len_rev_lead _ _ _ E) as [Hk Hlead].
  cbn [rev] in H. rewrite <- (firstn_skipn k r) in H at 1. rewrite rev_app_distr, <- app_assoc in H.
  apply wf_split in H; [apply H|exact Hlead].
Qed.

Lemma trim_space_wf s : wf s -> wf (trim_space s).
Proof.
  intros H. unfold trim_space, trim_right_space, trim_left_space. rewrite !frev_rev.
  apply trim_right_wf. cbn [skipn]. rewrite rev_involutive. apply trim_left_wf. exact H.
Qed.

Lemma trim_aux_In wl x s : forall skip, In x (trim_aux wl s skip) -> In x s.
Proof.
  induction s as [|b r IH]; intros skip H; cbn [trim_aux] in H; [exact H|].
  destruct skip as [|k]; [|right; eapply IH; exact H].
  destruct (wl (b :: r)); [exact H|right; eapply IH; exact H].
Qed.

Lemma trim_space_In x s : In x (trim_space s) -> In x s.
Proof.
  unfold trim_space, trim_right_space, trim_left_space. intros H.
  apply (proj1 (In_frev _ _)) in H. apply trim_aux_In in H. apply (proj1 (In_frev _ _)) in H. apply trim_aux_In in H. exact H.
Qed.

(* ------------------------------------------------------------------ *)
(* FieldsFunc                                                          *)
(* ------------------------------------------------------------------ *)

Lemma emit_wf cur : wf (frev cur) -> Forall wf (emit cur).
Proof. intros H. unfold emit. destruct cur; constructor; [exact H|constructor]. Qed.

Lemma fields_aux_wf s : forall skip cur, wf (frev cur ++ skipn skip s) -> Forall wf (fields_aux s skip cur).
Proof.
  induction s as [|b r IH]; intros skip cur H; cbn [fields_aux].
  - apply emit_wf. rewrite skipn_nil, app_nil_r in H. exact H.
  - destruct skip as [|k]; [|apply IH; exact H].
    cbn [skipn] in H. destruct (sep_len (b :: r)) as [|k] eqn:E.
    + apply IH. cbn [skipn]. rewrite frev_cons, <- app_assoc. exact H.
    + destruct (sep_len_rune _ _ E) as [Hr Hc].
      apply wf_split in H; [|exact Hc]. destruct H as [H1 H2].
      apply Forall_app. split; [apply emit_wf; exact H1|].
      apply IH. cbn [frev rev_append app]. apply (wf_skip_rune _ _ H2) in Hr. exact Hr.
Qed.

Lemma fields_wf s : wf s -> Forall wf (fields s).
Proof. intros H. apply fields_aux_wf. exact H. Qed.

Lemma fields_aux_In x s : forall skip cur w, In w (fields_aux s skip cur) -> In x w -> In x s \/ In x cur.
Proof.
  induction s as [|b r IH]; intros skip cur w Hw Hx; cbn [fields_aux] in Hw.
  - unfold emit in Hw. destruct cur; [destruct Hw|]. destruct Hw as [<-|[]]. right. apply In_frev. exact Hx.
  - destruct skip as [|k].
    + destruct (sep_len (b :: r)).
      * destruct (IH _ _ _ Hw Hx) as [H|[H|H]]; [left; right; exact H|left; left; exact H|right; exact H].
      * apply in_app_or in Hw. destruct Hw as [Hw|Hw].
        -- unfold emit in Hw. destruct cur; [destruct Hw|]. destruct Hw as [<-|[]]. right. apply In_frev. exact Hx.
        -- destruct (IH _ _ _ Hw Hx) as [H|[]]. left; right; exact H.
    + destruct (IH _ _ _ Hw Hx) as [H|H]; [left; right; exact H|right; exact H].
Qed.

(* ------------------------------------------------------------------ *)
(* the newline loop                                                    *)
(* ------------------------------------------------------------------ *)

Lemma is_nl_ascii b : is_nl b = true -> (b <? 128)%N = true /\ is_cont b = false.
Proof. unfold is_nl, is_cont. lia. Qed.

Lemma nl_word_aux_wf s : forall cur sk, wf (frev cur ++ s) -> Forall wf (nl_word_aux s cur sk).
Proof.
  induction s as [|b r IH]; intros cur sk H; cbn [nl_word_aux].
  - rewrite app_nil_r in H. constructor; [exact H|constructor].
  - destruct (is_nl b) eqn:E.
    + destruct (is_nl_ascii _ E) as [Hb Hc].
      apply wf_split in H; [|exact Hc]. destruct H as [H1 H2]. apply wf_tail_ascii in H2; [|exact Hb].
      destruct sk; [apply IH; exact H2|].
      constructor; [exact H1|]. constructor; [constructor|]. apply IH. exact H2.
    + apply IH. rewrite frev_cons, <- app_assoc. exact H.
Qed.

Lemma nl_word_wf w : wf w -> Forall wf (nl_word w).
Proof. intros H. apply nl_word_aux_wf. exact H. Qed.

Lemma nl_word_aux_In x s : forall cur sk w, In w (nl_word_aux s cur sk) -> In x w -> In x s \/ In x cur.
Proof.
  induction s as [|b r IH]; intros cur sk w Hw Hx; cbn [nl_word_aux] in Hw.
  - destruct Hw as [<-|[]]. right. apply In_frev. exact Hx.
  - destruct (is_nl b).
    + destruct sk.
      * destruct (IH _ _ _ Hw Hx) as [H|[]]. left; right; exact H.
      * destruct Hw as [<-|[<-|Hw]]; [right; apply In_frev; exact Hx|destruct Hx|].
        destruct (IH _ _ _ Hw Hx) as [H|[]]. left; right; exact H.
    + destruct (IH _ _ _ Hw Hx) as [H|[H|H]]; [left; right; exact H|left; left; exact H|right; exact H].
Qed.

(* ------------------------------------------------------------------ *)
(* split_words                                                         *)
(* ------------------------------------------------------------------ *)

Lemma split_words_wf s : wf s -> Forall wf (split_words s).
Proof.
  intros H. unfold split_words. apply Forall_forall. intros w Hw.
  apply in_flat_map in Hw. destruct Hw as (f & Hf & Hw).
  pose proof (fields_wf _ (trim_space_wf _ H)) as HF.
  pose proof (proj1 (Forall_forall _ _) HF f Hf) as Wf.
  exact (proj1 (Forall_forall _ _) (nl_word_wf _ Wf) w Hw).
Qed.

Lemma split_words_In x s w : In w (split_words s) -> In x w -> In x s.
Proof.
  unfold split_words. intros Hw Hx. apply in_flat_map in Hw. destruct Hw as (f & Hf & Hw).
  destruct (nl_word_aux_In x _ _ _ _ Hw Hx) as [H|[]].
  destruct (fields_aux_In x _ _ _ _ Hf H) as [H'|[]]. apply trim_space_In. exact H'.
Qed.

Lemma to_valid_aux_In x repl s : forall skip i, In x (to_valid_aux repl s skip i) -> In x s \/ In x repl.
Proof.
  induction s as [|b r IH]; intros skip i H; cbn [to_valid_aux] in H; [destruct H|].
  destruct skip as [|k].
  - destruct (rune_size (b :: r)).
    + destruct H as [<-|H]; [left; left; reflexivity|]. destruct (IH _ _ H); [left; right; assumption|right; assumption].
    + apply in_app_or in H. destruct H as [H|H].
      * destruct i; [destruct H|right; exact H].
      * destruct (IH _ _ H); [left; right; assumption|right; assumption].
  - destruct H as [<-|H]; [left; left; reflexivity|]. destruct (IH _ _ H); [left; right; assumption|right; assumption].
Qed.

(* ------------------------------------------------------------------ *)
(* cutting a word                                                      *)
(* ------------------------------------------------------------------ *)

Lemma firstn_add {A} a : forall b (l : list A), firstn (a + b) l = firstn a l ++ firstn b (skipn a l).
Proof.
  induction a as [|a IH]; intros b l; [reflexivity|].
  destruct l as [|x r]; [cbn; rewrite firstn_nil; reflexivity|]. cbn [Nat.add firstn skipn app]. rewrite IH. reflexivity.
Qed.

Lemma skipn_add {A} a : forall b (l : list A), skipn (a + b) l = skipn b (skipn a l).
Proof.
  induction a as [|a IH]; intros b l; [reflexivity|].
  destruct l as [|x r]; [cbn; rewrite skipn_nil; reflexivity|]. cbn [Nat.add skipn]. apply IH.
Qed.

Lemma cut_len_wf fuel : forall rest n left has, wf rest ->
  wf (firstn (cut_len fuel rest n left has - n) rest) /\ wf (skipn (cut_len fuel rest n left has - n) rest).
Proof.
  induction fuel as [|f IH]; intros rest n left has H; cbn [cut_len].
  { rewrite Nat.sub_diag. split; [constructor|exact H]. }
  destruct rest as [|b r]; [rewrite Nat.sub_diag; split; constructor|].
  remember (b :: r) as rest eqn:Er.
  assert (Hne : rest <> []) by (subst rest; discriminate).
  match goal with |- context [if ?c then _ else _] => destruct c end.
  { rewrite Nat.sub_diag. split; [constructor|exact H]. }
  destruct H as [|s k Hk Hs]; [congruence|]. clear Er.
  rename s into rest.
  assert (Ew : first_rune_width rest = k).
  { unfold first_rune_width. destruct rest; [congruence|]. rewrite Hk. reflexivity. }
  rewrite Ew.
  pose proof (cut_len_range f (skipn k rest) (k + n) (left - Z.of_nat k)%Z has) as R.
  destruct (IH (skipn k rest) (k + n) (left - Z.of_nat k)%Z has Hs) as [W1 W2].
  set (m := cut_len f (skipn k rest) (k + n) (left - Z.of_nat k)%Z has) in *.
  replace (m - n) with (k + (m - (k + n))) by lia.
  rewrite firstn_add, skipn_add.
  split; [apply wf_app; [apply wf_rune; exact Hk|exact W1]|exact W2].
Qed.
