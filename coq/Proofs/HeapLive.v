(* The library side: every mutator of state.go / modes.go and every handler keeps the
   agent invariant Fr of HeapFrame.v with roots = the tracked state: it writes only
   objects reachable from the tracked state (or allocated by itself) and stores only
   pointers to such objects. *)
Require Import Bytes AMap Names State Heap HeapLemmas HeapSpec HeapFrame HeapCopy AMapLemmas OrderLemmas.
From Coq Require Import Lia.
Local Open Scope nat_scope.

Lemma alookup_in_snd {V} k (m : amap V) v : alookup k m = Some v -> In v (List.map snd m).
Proof.
  induction m as [|[k' v'] m IH]; simpl; [discriminate|].
  destruct (streqb k k'); [intros H; injection H as ->; auto|auto].
Qed.

Lemma aremove_incl {V} k (m : amap V) : incl (aremove k m) m.
Proof.
  induction m as [|[k' v'] m IH]; simpl; [apply incl_refl|].
  destruct (streqb k k'); [apply incl_tl; exact IH|].
  intros x [<-|H]; [left; reflexivity|right; apply IH; exact H].
Qed.

Lemma in_snd_aremove {V} k (m : amap V) v : In v (List.map snd (aremove k m)) -> In v (List.map snd m).
Proof. intros H. apply in_map_iff in H. destruct H as (x & <- & Hx). apply in_map. apply (aremove_incl k m). exact Hx. Qed.

Lemma in_snd_aset {V} k (m : amap V) v x : In x (List.map snd (aset k v m)) -> x = v \/ In x (List.map snd m).
Proof. unfold aset. simpl. intros [<-|H]; [auto|right; eapply in_snd_aremove; eauto]. Qed.

Section Live.
  Variables (n0 : nat) (L0 : list nat) (h0 : heap) (R : list nat).
  Notation FR := (Fr n0 L0 h0).
  Notation OK := (okp n0 L0).

  (* result of a heap-level step: invariant kept, heap only grows *)
  Definition stp (h h' : heap) : Prop := FR h' R /\ length h <= length h'.

  Lemma stp_refl h : FR h R -> stp h h.
  Proof. intros F. split; [exact F|lia]. Qed.
  Lemma stp_trans h h1 h2 : stp h h1 -> stp h1 h2 -> stp h h2.
  Proof. intros [_ A] [F B]. split; [exact F|lia]. Qed.

  Lemma stp_hset h o c : FR h R -> OK h o -> (forall p, In p (ptrs c) -> OK h p) -> stp h (hset h o c).
  Proof. intros F Ho Hp. split; [apply Fr_hset; assumption|rewrite hset_length; lia]. Qed.

  Lemma stp_alloc h c : FR h R -> stp h (h ++ [c]).
  Proof. intros F. split; [apply Fr_alloc; exact F|rewrite app_length; lia]. Qed.

  (* ---- slices ---- *)

  Lemma sl_store_fr h s l h' s' : FR h R -> OK h (sl_arr s) -> sl_store h s l = Ok (h', s') ->
    stp h h' /\ sl_arr s' = sl_arr s /\ length h' = length h.
  Proof.
    intros F Ho H. unfold sl_store in H. bind_inv H a Ha. injection H as <- <-.
    split; [apply stp_hset; [exact F|exact Ho|simpl; contradiction]|]. split; [reflexivity|apply hset_length].
  Qed.

  Lemma sl_append_sorted_fr g h s x h' s' : FR h R -> OK h (sl_arr s) -> sl_append_sorted g h s x = Ok (h', s') ->
    stp h h' /\ OK h' (sl_arr s').
  Proof.
    intros F Ho H. unfold sl_append_sorted in H. bind_inv H a Ha.
    destruct (Nat.ltb (sl_len s) (sl_cap s)).
    - destruct (sl_store_fr _ _ _ _ _ F Ho H) as (S1 & E & L). split; [exact S1|]. rewrite E.
      eapply okp_mono; [exact Ho|lia].
    - unfold halloc in H. injection H as <- <-. split; [apply stp_alloc; exact F|]. simpl.
      apply okp_fresh; [apply (fr_len _ _ _ _ _ F)|reflexivity].
  Qed.

  Lemma sl_append_fr g h s x h' s' : FR h R -> OK h (sl_arr s) -> sl_append g h s x = Ok (h', s') ->
    stp h h' /\ OK h' (sl_arr s').
  Proof.
    intros F Ho H. unfold sl_append in H. bind_inv H a Ha.
    destruct (Nat.ltb (sl_len s) (sl_cap s)).
    - destruct (sl_store_fr _ _ _ _ _ F Ho H) as (S1 & E & L). split; [exact S1|]. rewrite E.
      eapply okp_mono; [exact Ho|lia].
    - unfold halloc in H. injection H as <- <-. split; [apply stp_alloc; exact F|]. simpl.
      apply okp_fresh; [apply (fr_len _ _ _ _ _ F)|reflexivity].
  Qed.

  (* ---- permission maps ---- *)

  Lemma perms_set_fr h po k v h' : FR h R -> (forall p, po = Some p -> OK h p) -> perms_set h po k v = Ok h' ->
    stp h h' /\ length h' = length h.
  Proof.
    intros F Hp H. unfold perms_set in H. destruct po as [p|]; [|discriminate]. bind_inv H m Hm. injection H as <-.
    split; [apply stp_hset; [exact F|apply Hp; reflexivity|simpl; contradiction]|apply hset_length].
  Qed.
  Lemma perms_remove_fr h po k h' : FR h R -> (forall p, po = Some p -> OK h p) -> perms_remove h po k = Ok h' ->
    stp h h' /\ length h' = length h.
  Proof.
    intros F Hp H. unfold perms_remove in H. destruct po as [p|]; [|discriminate]. bind_inv H m Hm. injection H as <-.
    split; [apply stp_hset; [exact F|apply Hp; reflexivity|simpl; contradiction]|apply hset_length].
  Qed.

  (* ---- CModes.Apply ---- *)

  Lemma cmodes_apply_fr h m ms h' m' : FR h R -> cmodes_apply h m ms = Ok (h', m') ->
    stp h h' /\ OK h' (sl_arr (hm_modes m')).
  Proof.
    intros F H. unfold cmodes_apply in H. bind_inv H l Hl. unfold halloc in H. injection H as <- <-.
    split; [apply stp_alloc; exact F|]. simpl. apply okp_fresh; [apply (fr_len _ _ _ _ _ F)|reflexivity].
  Qed.

  (* ---- pointers of a tracked struct ---- *)

  Lemma user_ptrs_ok h o u : FR h R -> In o R -> get_user h o = Ok u ->
    OK h o /\ OK h (sl_arr (hu_chans u)) /\ (forall p, hu_perms u = Some p -> OK h p).
  Proof.
    intros F Ho Hu. apply get_user_ok in Hu. split; [eapply Fr_root; eauto|]. split.
    - eapply Fr_ptr; eauto. simpl. auto.
    - intros p Ep. eapply Fr_ptr; eauto. simpl. rewrite Ep. simpl. auto.
  Qed.
  Lemma chan_ptrs_ok h o c : FR h R -> In o R -> get_chan h o = Ok c ->
    OK h o /\ OK h (sl_arr (hc_users c)) /\ OK h (sl_arr (hm_modes (hc_modes c))).
  Proof.
    intros F Ho Hc. apply get_chan_ok in Hc. split; [eapply Fr_root; eauto|]. split.
    - eapply Fr_ptr; eauto. simpl. auto.
    - eapply Fr_ptr; eauto. simpl. auto.
  Qed.

  (* ---- User / Channel methods ---- *)

  Lemma user_delete_channel_fr h o name h' : FR h R -> In o R -> user_delete_channel_h h o name = Ok h' -> stp h h'.
  Proof.
    intros F Ho H. unfold user_delete_channel_h in H. bind_inv H u Hu. bind_inv H l Hl. bind_inv H r Hr.
    destruct r as [h1 s']. destruct (user_ptrs_ok _ _ _ F Ho Hu) as (Oo & Oa & Op).
    destruct (sl_store_fr _ _ _ _ _ F Oa Hr) as ((F1 & L1) & E & Len1).
    assert (S2 : stp h1 (hset h1 o (CUser (hu_set_chans u s')))).
    { apply stp_hset; [exact F1|eapply okp_mono; eauto|].
      simpl. intros p [<-|Hp]; [rewrite E; eapply okp_mono; eauto|].
      destruct (hu_perms u) as [q|] eqn:Eq; simpl in Hp; [|contradiction]. destruct Hp as [<-|[]].
      eapply okp_mono; [apply Op; reflexivity|exact L1]. }
    destruct S2 as (F2 & L2).
    assert (Op2 : forall p, hu_perms u = Some p -> OK (hset h1 o (CUser (hu_set_chans u s'))) p).
    { intros p Ep. eapply okp_mono; [apply Op; exact Ep|lia]. }
    destruct (perms_remove_fr _ _ _ _ F2 Op2 H) as ((F3 & L3) & _).
    split; [exact F3|lia].
  Qed.

  Lemma user_add_channel_fr g h o name h' : FR h R -> In o R -> user_add_channel_h g h o name = Ok h' -> stp h h'.
  Proof.
    intros F Ho H. unfold user_add_channel_h in H. bind_inv H u Hu. bind_inv H l Hl.
    destruct (mem_str (fold name) l); [injection H as <-; apply stp_refl; exact F|].
    bind_inv H r Hr. destruct r as [h1 s'].
    destruct (user_ptrs_ok _ _ _ F Ho Hu) as (Oo & Oa & Op).
    destruct (sl_append_sorted_fr _ _ _ _ _ _ F Oa Hr) as ((F1 & L1) & Os').
    assert (S2 : stp h1 (hset h1 o (CUser (hu_set_chans u s')))).
    { apply stp_hset; [exact F1|eapply okp_mono; eauto|].
      simpl. intros p [<-|Hp]; [exact Os'|].
      destruct (hu_perms u) as [q|] eqn:Eq; simpl in Hp; [|contradiction]. destruct Hp as [<-|[]].
      eapply okp_mono; [apply Op; reflexivity|exact L1]. }
    destruct S2 as (F2 & L2).
    assert (Op2 : forall p, hu_perms u = Some p -> OK (hset h1 o (CUser (hu_set_chans u s'))) p).
    { intros p Ep. eapply okp_mono; [apply Op; exact Ep|lia]. }
    destruct (perms_set_fr _ _ _ _ _ F2 Op2 H) as ((F3 & L3) & _).
    split; [exact F3|lia].
  Qed.

  Lemma channel_delete_user_fr h o nick h' : FR h R -> In o R -> channel_delete_user_h h o nick = Ok h' -> stp h h'.
  Proof.
    intros F Ho H. unfold channel_delete_user_h in H. bind_inv H c Hc. bind_inv H l Hl. bind_inv H r Hr.
    destruct r as [h1 s']. injection H as <-. destruct (chan_ptrs_ok _ _ _ F Ho Hc) as (Oo & Oa & Om).
    destruct (sl_store_fr _ _ _ _ _ F Oa Hr) as ((F1 & L1) & E & Len1).
    eapply stp_trans; [split; [exact F1|exact L1]|].
    apply stp_hset; [exact F1|eapply okp_mono; eauto|].
    simpl. intros p [<-|[<-|[]]]; [rewrite E|]; eapply okp_mono; eauto.
  Qed.

  Lemma channel_add_user_fr g h o nick h' : FR h R -> In o R -> channel_add_user_h g h o nick = Ok h' -> stp h h'.
  Proof.
    intros F Ho H. unfold channel_add_user_h in H. bind_inv H c Hc. bind_inv H l Hl.
    destruct (mem_str (fold nick) l); [injection H as <-; apply stp_refl; exact F|].
    bind_inv H r Hr. destruct r as [h1 s']. injection H as <-.
    destruct (chan_ptrs_ok _ _ _ F Ho Hc) as (Oo & Oa & Om).
    destruct (sl_append_sorted_fr _ _ _ _ _ _ F Oa Hr) as ((F1 & L1) & Os').
    eapply stp_trans; [split; [exact F1|exact L1]|].
    apply stp_hset; [exact F1|eapply okp_mono; eauto|].
    simpl. intros p [<-|[<-|[]]]; [exact Os'|eapply okp_mono; eauto].
  Qed.

  (* a string-field update of a tracked user / channel *)
  Lemma user_field_fr h o u f : FR h R -> In o R -> get_user h o = Ok u ->
    ptrs (CUser (f u)) = ptrs (CUser u) -> stp h (hset h o (CUser (f u))).
  Proof.
    intros F Ho Hu E. destruct (user_ptrs_ok _ _ _ F Ho Hu) as (Oo & _ & _). apply get_user_ok in Hu.
    split; [eapply Fr_hset_same_ptrs; eauto|rewrite hset_length; lia].
  Qed.
  Lemma chan_field_fr h o c f : FR h R -> In o R -> get_chan h o = Ok c ->
    ptrs (CChan (f c)) = ptrs (CChan c) -> stp h (hset h o (CChan (f c))).
  Proof.
    intros F Ho Hc E. destruct (chan_ptrs_ok _ _ _ F Ho Hc) as (Oo & _ & _). apply get_chan_ok in Hc.
    split; [eapply Fr_hset_same_ptrs; eauto|rewrite hset_length; lia].
  Qed.

  (* ---- loops of state.go ---- *)

  Lemma delete_channel_users_fr name : forall l h users h' users',
    FR h R -> (forall k v, alookup k users = Some v -> In v R) ->
    delete_channel_users_h h users name l = Ok (h', users') ->
    stp h h' /\ incl users' users.
  Proof.
    induction l as [|n l IH]; intros h users h' users' F Hin H; simpl in H.
    - injection H as <- <-. split; [apply stp_refl; exact F|apply incl_refl].
    - destruct (alookup n users) as [uid|] eqn:El; [|discriminate].
      bind_inv H h1 H1. bind_inv H u Hu.
      destruct (user_delete_channel_fr _ _ _ _ F (Hin _ _ El) H1) as (F1 & L1).
      set (users1 := match sl_len (hu_chans u) with O => aremove n users | S _ => users end) in *.
      assert (I1 : incl users1 users) by (unfold users1; destruct (sl_len (hu_chans u)); [apply aremove_incl|apply incl_refl]).
      assert (Hin1 : forall k v, alookup k users1 = Some v -> In v R).
      { intros k v Hk. unfold users1 in Hk. destruct (sl_len (hu_chans u)); [|eapply Hin; eauto].
        rewrite alookup_aremove in Hk. destruct (streqb k n); [discriminate|eapply Hin; eauto]. }
      destruct (IH _ _ _ _ F1 Hin1 H) as ((F2 & L2) & I2).
      split; [split; [exact F2|lia]|eapply incl_tran; eauto].
  Qed.

  Lemma delete_user_everywhere_fr nick chans : (forall k v, alookup k chans = Some v -> In v R) ->
    forall l h h', FR h R -> delete_user_everywhere_h h chans nick l = Ok h' -> stp h h'.
  Proof.
    intros Hin. induction l as [|cn l IH]; intros h h' F H; simpl in H.
    - injection H as <-. apply stp_refl; exact F.
    - destruct (alookup cn chans) as [cid|] eqn:El; [|discriminate]. bind_inv H h1 H1.
      destruct (channel_delete_user_fr _ _ _ _ F (Hin _ _ El) H1) as (F1 & L1).
      destruct (IH _ _ F1 H) as (F2 & L2). split; [exact F2|lia].
  Qed.

  Lemma rename_in_channels_fr from to chans : (forall k v, alookup k chans = Some v -> In v R) ->
    forall l h h', FR h R -> rename_in_channels_h h chans from to l = Ok h' -> stp h h'.
  Proof.
    intros Hin. induction l as [|cn l IH]; intros h h' F H; simpl in H.
    - injection H as <-. apply stp_refl; exact F.
    - destruct (alookup cn chans) as [cid|] eqn:El; [|discriminate].
      bind_inv H c Hc. bind_inv H ul Hul. bind_inv H h1 H1.
      assert (S1 : stp h h1).
      { destruct (mem_str from ul); [|injection H1 as <-; apply stp_refl; exact F].
        bind_inv H1 st Hst. injection H1 as <-. destruct st as [h1 s'].
        destruct (chan_ptrs_ok _ _ _ F (Hin _ _ El) Hc) as (_ & Oa & _).
        apply (sl_store_fr _ _ _ _ _ F Oa Hst). }
      destruct S1 as (F1 & L1). destruct (IH _ _ F1 H) as (F2 & L2). split; [exact F2|lia].
  Qed.
End Live.

(* ---------- world level: the roots change too ----------
   The invariant is kept for a root set R that CONTAINS the roots of the tracked state
   (objects dropped from the maps may stay in R: they are garbage the library could
   still reach, which only makes the statement stronger). *)

Section World.
  Variables (n0 : nat) (L0 : list nat) (h0 : heap).
  Notation FR := (Fr n0 L0 h0).
  Notation OK := (okp n0 L0).

  Definition FrW (R : list nat) (w : world) : Prop := incl (roots (w_st w)) R /\ FR (w_heap w) R.
  (* one library step *)
  Definition wstp (R : list nat) (w : world) (R' : list nat) (w' : world) : Prop :=
    incl R R' /\ FrW R' w' /\ length (w_heap w) <= length (w_heap w').

  Lemma wstp_refl R w : FrW R w -> wstp R w R w.
  Proof. intros F. split; [apply incl_refl|]. split; [exact F|lia]. Qed.
  Lemma wstp_trans R w R1 w1 R2 w2 : wstp R w R1 w1 -> wstp R1 w1 R2 w2 -> wstp R w R2 w2.
  Proof. intros (I1 & _ & A) (I2 & F & B). split; [eapply incl_tran; eauto|]. split; [exact F|lia]. Qed.

  Lemma in_roots_user s k v : alookup k (hs_users s) = Some v -> In v (roots s).
  Proof. intros H. unfold roots. apply in_or_app. left. eapply alookup_in_snd; eauto. Qed.
  Lemma in_roots_chan s k v : alookup k (hs_channels s) = Some v -> In v (roots s).
  Proof. intros H. unfold roots. apply in_or_app. right. eapply alookup_in_snd; eauto. Qed.

  (* heap-level step with unchanged roots *)
  Lemma wstp_of_stp R w h' : incl (roots (w_st w)) R -> stp n0 L0 h0 R (w_heap w) h' -> wstp R w R (mkWorld h' (w_st w)).
  Proof. intros I [F L]. split; [apply incl_refl|]. split; [split; [exact I|exact F]|exact L]. Qed.

  Lemma roots_set_users_incl s m : incl (List.map snd m) (List.map snd (hs_users s)) -> incl (roots (hs_set_users s m)) (roots s).
  Proof. intros I x Hx. unfold roots in *. simpl in Hx. apply in_app_or in Hx. apply in_or_app. destruct Hx; [left; apply I; assumption|right; assumption]. Qed.
  Lemma roots_set_channels_incl s m : incl (List.map snd m) (List.map snd (hs_channels s)) -> incl (roots (hs_set_channels s m)) (roots s).
  Proof. intros I x Hx. unfold roots in *. simpl in Hx. apply in_app_or in Hx. apply in_or_app. destruct Hx; [left; assumption|right; apply I; assumption]. Qed.

  Lemma map_snd_incl {V} (m m' : amap V) : incl m' m -> incl (List.map snd m') (List.map snd m).
  Proof. intros I x Hx. apply in_map_iff in Hx. destruct Hx as (y & <- & Hy). apply in_map. apply I. exact Hy. Qed.

  Lemma roots_set_users s m : roots (hs_set_users s m) = List.map snd m ++ List.map snd (hs_channels s).
  Proof. reflexivity. Qed.
  Lemma roots_set_channels s m : roots (hs_set_channels s m) = List.map snd (hs_users s) ++ List.map snd m.
  Proof. reflexivity. Qed.

  (* only the non-pointer part of the state changes *)
  Lemma wstp_same_roots R w s' : FrW R w -> roots s' = roots (w_st w) -> wstp R w R (mkWorld (w_heap w) s').
  Proof. intros [I F] E. split; [apply incl_refl|]. split; [split; [simpl; rewrite E; exact I|exact F]|simpl; lia]. Qed.

  (* ---- createChannel / createUser ---- *)

  Lemma new_struct_fr R h c1 c2 c3 : FR h R -> (forall p, In p (ptrs c3) -> p = length h \/ p = S (length h)) ->
    FR (((h ++ [c1]) ++ [c2]) ++ [c3]) (S (S (length h)) :: R).
  Proof.
    intros F Hp.
    assert (F3 : FR (((h ++ [c1]) ++ [c2]) ++ [c3]) R) by (apply Fr_alloc, Fr_alloc, Fr_alloc; exact F).
    eapply Fr_roots; [exact F3|]. intros r [<-|Hr]; [|left; exact Hr].
    right. intros x Hx. pose proof (fr_len _ _ _ _ _ F) as Ln.
    assert (Hc : hget (((h ++ [c1]) ++ [c2]) ++ [c3]) (S (S (length h))) = Some c3).
    { replace (S (S (length h))) with (length ((h ++ [c1]) ++ [c2])) by (rewrite !app_length; simpl; lia). apply hget_app_new. }
    apply reach_inv in Hx. unfold okp, allowed. rewrite !app_length. simpl.
    destruct Hx as [->|(c' & Hc' & Hx)]; [split; [right|]; lia|].
    rewrite Hc in Hc'. injection Hc' as <-. destruct (Hp _ Hx) as [->| ->]; split; try (right; lia); lia.
  Qed.

  Lemma create_channel_fr R w name : FrW R w -> exists R', wstp R w R' (create_channel_h w name).
  Proof.
    intros [I F]. unfold create_channel_h.
    destruct (alookup (fold name) (hs_channels (w_st w))); [exists R; apply wstp_refl; split; assumption|].
    unfold halloc. simpl. rewrite !app_length. simpl.
    replace (length (w_heap w) + 1 + 1) with (S (S (length (w_heap w)))) by lia.
    replace (length (w_heap w) + 1) with (S (length (w_heap w))) by lia.
    exists (S (S (length (w_heap w))) :: R). split; [apply incl_tl, incl_refl|]. split; [|simpl; rewrite !app_length; simpl; lia].
    split.
    - cbn [w_st]. intros r Hr. rewrite roots_set_channels in Hr. apply in_app_or in Hr. destruct Hr as [Hr|Hr].
      + right. apply I. unfold roots. apply in_or_app. left. exact Hr.
      + apply in_snd_aset in Hr. destruct Hr as [->|Hr]; [left; reflexivity|].
        right. apply I. unfold roots. apply in_or_app. right. exact Hr.
    - simpl. apply new_struct_fr; [exact F|]. simpl. intros p [<-|[<-|[]]]; auto.
  Qed.

  Lemma create_user_fr R w src : FrW R w -> exists R', wstp R w R' (create_user_h w src).
  Proof.
    intros [I F]. unfold create_user_h.
    destruct (alookup (fold (s_name src)) (hs_users (w_st w))); [exists R; apply wstp_refl; split; assumption|].
    unfold halloc. simpl. rewrite !app_length. simpl.
    replace (length (w_heap w) + 1 + 1) with (S (S (length (w_heap w)))) by lia.
    replace (length (w_heap w) + 1) with (S (length (w_heap w))) by lia.
    exists (S (S (length (w_heap w))) :: R). split; [apply incl_tl, incl_refl|]. split; [|simpl; rewrite !app_length; simpl; lia].
    split.
    - cbn [w_st]. intros r Hr. rewrite roots_set_users in Hr. apply in_app_or in Hr. destruct Hr as [Hr|Hr].
      + apply in_snd_aset in Hr. destruct Hr as [->|Hr]; [left; reflexivity|].
        right. apply I. unfold roots. apply in_or_app. left. exact Hr.
      + right. apply I. unfold roots. apply in_or_app. right. exact Hr.
    - simpl. apply new_struct_fr; [exact F|]. simpl. intros p [<-|[<-|[]]]; auto.
  Qed.

  (* ---- deleteChannel / deleteUser / renameUser ---- *)

  Lemma delete_channel_fr R w name w' : FrW R w -> delete_channel_h w name = Ok w' -> wstp R w R w'.
  Proof.
    intros [I F] H. unfold delete_channel_h in H.
    destruct (alookup (fold name) (hs_channels (w_st w))) as [cid|] eqn:El; [|injection H as <-; apply wstp_refl; split; assumption].
    bind_inv H c Hc. bind_inv H l Hl. bind_inv H r Hr. destruct r as [h' users']. injection H as <-.
    destruct (delete_channel_users_fr n0 L0 h0 R (fold name) l _ _ _ _ F
                (fun k v Hk => I _ (in_roots_user _ _ _ Hk)) Hr) as ((F1 & L1) & I1).
    split; [apply incl_refl|]. split; [|exact L1]. split; [|exact F1]. simpl.
    eapply incl_tran; [|exact I].
    eapply incl_tran; [apply roots_set_channels_incl; simpl; apply map_snd_incl; apply aremove_incl|].
    apply roots_set_users_incl. apply map_snd_incl. exact I1.
  Qed.

  Lemma delete_user_fr R w ch nick w' : FrW R w -> delete_user_h w ch nick = Ok w' -> wstp R w R w'.
  Proof.
    intros [I F] H. unfold delete_user_h in H.
    destruct (lookup_user_h w nick) as [uid|] eqn:Eu; [|injection H as <-; apply wstp_refl; split; assumption].
    unfold lookup_user_h in Eu. pose proof (I _ (in_roots_user _ _ _ Eu)) as Ru.
    destruct ch as [|b ch].
    - bind_inv H u Hu. bind_inv H l Hl. bind_inv H h' H1. injection H as <-.
      destruct (delete_user_everywhere_fr n0 L0 h0 R nick _ (fun k v Hk => I _ (in_roots_chan _ _ _ Hk)) l _ _ F H1) as (F1 & L1).
      split; [apply incl_refl|]. split; [|exact L1]. split; [|exact F1]. simpl.
      eapply incl_tran; [|exact I]. apply roots_set_users_incl. apply map_snd_incl. apply aremove_incl.
    - destruct (lookup_channel_h w (b :: ch)) as [cid|] eqn:Ec; [|injection H as <-; apply wstp_refl; split; assumption].
      unfold lookup_channel_h in Ec. pose proof (I _ (in_roots_chan _ _ _ Ec)) as Rc.
      bind_inv H h1 H1. bind_inv H h2 H2. bind_inv H u Hu. injection H as <-.
      destruct (user_delete_channel_fr _ _ _ _ _ _ _ _ F Ru H1) as (F1 & L1).
      destruct (channel_delete_user_fr _ _ _ _ _ _ _ _ F1 Rc H2) as (F2 & L2).
      split; [apply incl_refl|]. split; [|simpl; lia]. split; [|exact F2]. simpl.
      destruct (sl_len (hu_chans u)); [|exact I].
      eapply incl_tran; [|exact I]. apply roots_set_users_incl. apply map_snd_incl. apply aremove_incl.
  Qed.

  Lemma rename_user_fr R w from to w' : FrW R w -> rename_user_h w from to = Ok w' -> wstp R w R w'.
  Proof.
    intros [I F] H. unfold rename_user_h in H.
    set (s := if streqb (fold from) (fold (hs_nick (w_st w))) then hs_set_nick (w_st w) to else w_st w) in *.
    assert (Rs : roots s = roots (w_st w)) by (unfold s; destruct (streqb _ _); reflexivity).
    assert (F0 : FrW R (mkWorld (w_heap w) s)) by (split; [simpl; rewrite Rs; exact I|exact F]).
    destruct (alookup (fold from) (hs_users s)) as [uid|] eqn:Eu;
      [|injection H as <-; split; [apply incl_refl|split; [exact F0|simpl; lia]]].
    assert (Ru : In uid R) by (apply (proj1 F0); simpl; eapply in_roots_user; eauto).
    bind_inv H w1 H1.
    assert (S1 : wstp R (mkWorld (w_heap w) s) R w1).
    { destruct (streqb (fold to) (fold from)); [injection H1 as <-; apply wstp_refl; exact F0|].
      eapply delete_user_fr; eauto. }
    destruct S1 as (_ & (I1 & F1) & L1). simpl in L1.
    bind_inv H u Hu. bind_inv H l Hl. bind_inv H h3 H3. injection H as <-.
    assert (S2 : stp n0 L0 h0 R (w_heap w1) (hset (w_heap w1) uid (CUser (hu_set_nick u to)))).
    { apply (user_field_fr n0 L0 h0 R (w_heap w1) uid u (fun u => hu_set_nick u to)); auto. }
    destruct S2 as (F2 & L2).
    destruct (rename_in_channels_fr n0 L0 h0 R (fold from) (fold to) _ (fun k v Hk => I1 _ (in_roots_chan _ _ _ Hk)) l _ _ F2 H3) as (F3 & L3).
    split; [apply incl_refl|]. split; [|simpl; lia]. split; [|exact F3]. simpl.
    intros r Hr. rewrite roots_set_users in Hr. apply in_app_or in Hr. destruct Hr as [Hr|Hr].
    - apply in_snd_aset in Hr. destruct Hr as [->|Hr]; [exact Ru|].
      apply in_snd_aremove in Hr. apply I1. unfold roots. apply in_or_app. left. exact Hr.
    - apply I1. unfold roots. apply in_or_app. right. exact Hr.
  Qed.
End World.
