(* C03 — every line written for a Cmd.* helper carries that helper's command, for all
   argument strings, every splitter, with or without message-tags; and the general
   statement for Client.Send of an arbitrary event. *)
Require Import Bytes Utf8 AMap WireOut GoUpper Tags Event Names Commands SendPath WireLines
  HelperSpec OrderLemmas C03Utf8 C03Proofs C03Command C03Total.
From Coq Require Import Lia ZifyBool ZifyN ZifyNat.

Local Open Scope N_scope.

(* ---- the full command theorem -------------------------------------------------------- *)

Theorem command_of_bytes_total : forall e,
  single_token (cleaned (we_cmd e)) ->
  tags_section_ok (we_tags e) -> source_section_ok (we_src e) ->
  (2 <= length (event_bytes e))%nat ->
  exists e', parse_event (event_bytes e) = Ok (Some e') /\
             we_cmd e' = go_to_upper (cleaned (we_cmd e)).
Proof.
  intros e Hc Ht Hs Hl. destruct (parse_event_total (event_bytes e)) as [r E].
  destruct (command_of_bytes e Hc Ht Hs Hl r E) as (e' & -> & C).
  exists e'. split; assumption.
Qed.

Lemma go_to_upper_aux_ascii : forall s, Forall (fun b => b < 128) s ->
  go_to_upper_aux s 0 = to_upper_ascii s.
Proof.
  induction 1 as [|b r Hb _ IH]; [reflexivity|]. cbn [go_to_upper_aux to_upper_ascii map].
  destruct (b <? 128) eqn:E; [|lia]. f_equal. exact IH.
Qed.

Lemma go_to_upper_ascii : forall s, Forall (fun b => b < 128) s -> go_to_upper s = to_upper_ascii s.
Proof. exact go_to_upper_aux_ascii. Qed.

(* ---- Send of an arbitrary event --------------------------------------------------------- *)

Theorem send_lines : forall sp mt max e line, In line (send sp mt max e) ->
  exists e1, In e1 (event_split sp max e) /\
             wire_line line (event_bytes (strip_tags mt e1)).
Proof.
  intros sp mt max e line H. unfold send in H. apply in_map_iff in H.
  destruct H as (e1 & <- & He1). exists e1. split; [exact He1|apply one_line].
Qed.

(* the peer's view of any sequence of Send calls: one piece per written line *)
Theorem send_stream : forall sp mt max es,
  cut_lf (concat (flat_map (send sp mt max) es)) = flat_map (send sp mt max) es.
Proof.
  intros sp mt max es.
  assert (F : flat_map (send sp mt max) es
              = map (send_loop_write mt) (flat_map (event_split sp max) es)).
  { induction es as [|x l IH]; [reflexivity|]. cbn [flat_map]. rewrite IH. unfold send.
    rewrite map_app. reflexivity. }
  rewrite F. apply stream_lines.
Qed.

(* SendRaw never panics in the model; what it hands to Send are events, to which
   send_lines / send_stream (and command_of_bytes_total) apply *)
Theorem send_raw_total : forall raws, exists evs, send_raw_events raws = Ok evs.
Proof.
  induction raws as [|r rest IH]; [eexists; reflexivity|]. cbn [send_raw_events].
  destruct (parse_event_total r) as [p E]. rewrite E. cbn [rbind].
  destruct p as [e|]; [|eexists; reflexivity].
  destruct IH as [l El]. rewrite El. cbn [rbind]. eexists. reflexivity.
Qed.

(* ---- Event.split keeps tags, source and command ------------------------------------------ *)

Lemma split_fields : forall sp max e e1, In e1 (event_split sp max e) ->
  we_tags e1 = we_tags e /\ we_src e1 = we_src e /\ we_cmd e1 = we_cmd e.
Proof.
  intros sp max e e1 H. unfold event_split in H. cbv zeta in H.
  destruct (split_decode_ctcp (we_cmd e) (we_params e)) as [[ccmd ctext]|];
    repeat (cbv beta iota zeta in H;
            match type of H with context [if ?c then _ else _] => destruct c end);
    cbv beta iota zeta in H;
    first [ destruct H as [<-|[]]; repeat split; reflexivity
          | apply in_map_iff in H; destruct H as (piece & <- & _); repeat split; reflexivity ].
Qed.

(* ---- the helpers' commands ------------------------------------------------------------------ *)

Lemma batch_loop_cmd : forall k max chans buf c,
  In c (batch_loop k max chans buf) -> ce_command c = k.
Proof.
  intros k max. induction chans as [|ch rest IH]; intros buf c H; [destruct H|].
  cbn [batch_loop] in H. cbv zeta in H.
  assert (P : forall (b : bool) x, In c (if b then [ev k [x]] else []) -> ce_command c = k).
  { intros [|] x Hx; [destruct Hx as [<-|[]]; reflexivity|destruct Hx]. }
  destruct rest as [|ch2 rest'].
  - apply in_app_or in H. destruct H as [H|H]; [exact (P _ _ H)|].
    destruct H as [<-|[]]. reflexivity.
  - apply in_app_or in H. destruct H as [H|H]; [exact (P _ _ H)|]. exact (IH _ _ H).
Qed.

Ltac ho :=
  match goal with
  | Hin : In ?c _ |- ce_command ?c = _ =>
    first
      [ solve [destruct Hin as [<-|[]]; reflexivity]
      | solve [apply in_map_iff in Hin; destruct Hin as (? & <- & _); reflexivity]
      | solve [apply batch_loop_cmd in Hin; exact Hin] ]
  end.

Ltac ho2 :=
  match goal with
  | Hq : cmd_send_ctcp _ ?ty ?m = Ok _ |- _ =>
    unfold cmd_send_ctcp in Hq; destruct (ctcp_raw ty m); [discriminate|];
    injection Hq as <-; ho
  | Hq : cmd_send_ctcp_reply _ ?ty ?m = Ok _ |- _ =>
    unfold cmd_send_ctcp_reply in Hq; destruct (ctcp_raw ty m); [discriminate|];
    injection Hq as <-; ho
  | Hq : cmd_reply ?src _ _ = Ok _ |- _ =>
    unfold cmd_reply in Hq; destruct src; [|discriminate]; injection Hq as <-; ho
  | Hq : cmd_reply_to ?src ?ps _ = Ok _ |- _ =>
    unfold cmd_reply_to in Hq; destruct src as [nm|]; [|discriminate];
    destruct (reply_target nm ps) as [t0 ic]; cbv beta iota in Hq; injection Hq as <-; ho
  | Hin : In _ (cmd_kick _ _ ?r) |- _ =>
    unfold cmd_kick in Hin; apply in_app_or in Hin; destruct Hin as [Hin|Hin];
    [destruct (is_empty r); [destruct Hin|ho]|ho]
  | Hin : In _ (cmd_away ?r) |- _ => unfold cmd_away in Hin; destruct (is_empty r); ho
  | Hin : In _ (cmd_list _ ?chans) |- _ => unfold cmd_list in Hin; destruct chans; ho
  end.

Lemma helper_out_command : forall k c, helper_out k c -> ce_command c = k.
Proof.
  intros k c H.
  destruct H;
    unfold cmd_part, cmd_who, cmd_whois, cmd_invite, cmd_join, cmd_ban, cmd_unban in *;
    first [ho | ho2].
Qed.

Lemma helper_out_in_commands : forall k c, helper_out k c -> In k helper_commands.
Proof.
  intros k c H. destruct H; unfold helper_commands;
    repeat (first [left; reflexivity | right]).
Qed.

Lemma memb_notin : forall c l, memb c l = false -> ~ In c l.
Proof.
  intros c. induction l as [|x l IH]; intros Hm []; cbn [memb] in Hm;
    apply orb_false_elim in Hm; destruct Hm as [Hx Hl].
  - subst. rewrite N.eqb_refl in Hx. discriminate.
  - exact (IH Hl H).
Qed.

Definition single_token_b (c : str) : bool :=
  match c with
  | [] => false
  | x :: _ => negb (x =? 64) && negb (x =? 58) && negb (memb 32 c)
  end.

Lemma single_token_b_ok : forall c, single_token_b c = true -> single_token c.
Proof.
  intros [|x c] H; [discriminate|]. cbn [single_token_b] in H.
  apply andb_prop in H. destruct H as [H H32]. apply andb_prop in H. destruct H as [H64 H58].
  split; [discriminate|]. split.
  - apply memb_notin. destruct (memb 32 (x :: c)); [discriminate|reflexivity].
  - split; intros r E; injection E as -> _; discriminate.
Qed.

Lemma helper_cmd_facts : forall k, In k helper_commands ->
  single_token (cleaned k) /\ cleaned k = k /\ go_to_upper k = k /\ (2 <= length k)%nat.
Proof.
  intros k H. unfold helper_commands in H.
  repeat (destruct H as [<-|H];
          [split; [apply single_token_b_ok; vm_compute; reflexivity|];
           split; [vm_compute; reflexivity|];
           split; [vm_compute; reflexivity|cbn; lia]|]).
  destruct H.
Qed.

(* every line written for a helper: one wire line whose command is the helper's *)
Theorem helper_lines : forall k c, helper_out k c ->
  forall sp mt max line, In line (send sp mt max (to_wevent c)) ->
  exists body e', wire_line line body /\ parse_event body = Ok (Some e') /\ we_cmd e' = k.
Proof.
  intros k c HO sp mt max line Hin.
  pose proof (helper_out_command k c HO) as Ck.
  destruct (helper_cmd_facts k (helper_out_in_commands k c HO)) as (Tk & Clk & Uk & Lk).
  unfold send in Hin. apply in_map_iff in Hin. destruct Hin as (e1 & <- & He1).
  destruct (split_fields sp max _ _ He1) as (Tg & Sr & Cm).
  cbn [to_wevent we_tags we_src we_cmd] in Tg, Sr, Cm.
  assert (ST : strip_tags mt e1 = e1) by (unfold strip_tags; rewrite Tg; reflexivity).
  exists (event_bytes e1).
  destruct (command_of_bytes_total e1) as (e' & P & C).
  - rewrite Cm, Ck. exact Tk.
  - left. rewrite Tg. reflexivity.
  - rewrite Sr. exact I.
  - destruct (event_bytes_sections e1) as (tb & sb & p & E & _ & Htb & Hsb).
    rewrite Tg in Htb. rewrite Sr in Hsb. cbn [option_map] in Hsb. subst sb.
    destruct Htb as [[-> _]|(_ & Hne & _)]; [|exfalso; apply Hne; reflexivity].
    rewrite E. cbn [tag_sec src_sec app]. rewrite app_length.
    rewrite Cm, Ck, <- cleaned_clean, Clk. lia.
  - exists e'. split; [|split; [exact P|]].
    + pose proof (one_line mt e1) as W. rewrite ST in W. exact W.
    + rewrite C, Cm, Ck, Clk. exact Uk.
Qed.

(* helper_lines is about something: e.g. Kick with a hostile reason writes two lines *)
Example helper_lines_example :
  exists c, helper_out c_KICK c /\
            send (fun _ _ => []) false 395 (to_wevent c) =
            [bs "KICK #c n :whyQUIT :x" ++ [13; 10]].
Proof.
  exists (ev c_KICK [bs "#c"; bs "n"; bs "why" ++ [13; 10] ++ bs "QUIT :x"]). split.
  - apply (HO_kick (bs "#c") (bs "n") (bs "why" ++ [13; 10] ++ bs "QUIT :x")). left. reflexivity.
  - vm_compute. reflexivity.
Qed.

(* the hypotheses of command_of_bytes_total are satisfiable by a hostile event that uses
   every section *)
Example command_hyps_example :
  let e := mkWEvent (Some [(bs "a", bs "b")]) (Some (mkWSource (bs "n") (bs "u") (bs "h")))
                    (bs "priv" ++ [13] ++ bs "msg")
                    [bs "#c"; bs "x" ++ [13; 10] ++ bs "QUIT :bye"] in
  single_token (cleaned (we_cmd e)) /\ tags_section_ok (we_tags e) /\
  source_section_ok (we_src e) /\ (2 <= length (event_bytes e))%nat /\
  event_bytes e = bs "@a=b :n!u@h privmsg #c :xQUIT :bye".
Proof.
  cbv zeta. split; [apply single_token_b_ok; vm_compute; reflexivity|].
  split; [right; split; [apply memb_notin; vm_compute; reflexivity|vm_compute; lia]|].
  split; [split; [vm_compute; discriminate|apply memb_notin; vm_compute; reflexivity]|].
  split; [vm_compute; lia|vm_compute; reflexivity].
Qed.
