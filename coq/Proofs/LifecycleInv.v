(* C07 — state invariants of the lifecycle machine (hold in every reachable state). *)
Require Import Bytes Lifecycle LifecycleSteps.
From Coq Require Import List Bool Arith Lia.
Import ListNotations.

Definition prewait (s : state) : bool := match cpc s with CReg _ | CWait => true | _ => false end.
Definition postwait (s : state) : bool :=
  match cpc s with CClosedEv | CTeardown | CDiscEv | CClear | CRet _ => true | _ => false end.
Definition live (s : state) : bool := match cpc s with CIdle | CStart _ _ => false | _ => true end.

(* execLoop has taken (or finished) its drain-on-cancel branch *)
Definition drainmode (s : state) : bool :=
  match xpc s with XDone | XDrain | XRun _ true | XRan _ true => true | _ => false end.

Definition Inv (s : state) : Prop :=
  match cpc s with
  | CIdle | CStart _ _ => conn_set s = false /\ loops_done s = true
  | CReg _ | CWait =>
      conn_set s = true /\ sock_closed s = false /\ connected s = true /\
      (drainmode s = true -> cancelled s = true) /\
      (rpc s = RDone -> cancelled s = true) /\
      (spc s = SDone -> cancelled s = true) /\
      (err_is_nil (gerr s) = false -> cancelled s = true)
  | CClosedEv | CTeardown =>
      conn_set s = true /\ loops_done s = true /\ sock_closed s = false /\ connected s = true
  | CDiscEv | CClear =>
      conn_set s = true /\ loops_done s = true /\ sock_closed s = true /\ connected s = false
  | CRet _ => conn_set s = false /\ loops_done s = true /\ sock_closed s = true /\ connected s = false
  end.

Lemma loops_done_inv s : loops_done s = true -> xpc s = XDone /\ rpc s = RDone /\ spc s = SDone /\ ppc s = PDone.
Proof.
  unfold loops_done. destruct (xpc s), (rpc s), (spc s), (ppc s); intros H; try discriminate; auto.
Qed.

(* generic case-analysis helper: after `destruct H` on a tstep, normalise *)
Ltac norm_step :=
  unfold group_err, spent, fresh_conn in *; cbn [rx tx conn_set cpc cancelled gerr xpc rpc spc ppc linger connected
    sock_closed peer_closed wbroken inbuf outbuf close_st budget peer_eof tracked
    set_rx set_tx set_conn_set set_cpc set_cancelled set_gerr set_xpc set_rpc set_spc set_ppc set_linger
    set_connected set_sock_closed set_peer_closed set_wbroken set_inbuf set_outbuf set_close_st set_budget set_peer_eof
    set_tracked] in *.

Ltac split_ifs :=
  repeat match goal with
         | |- context [if ?c then _ else _] => destruct c eqn:?
         end.

Lemma Inv_init b : Inv (init b).
Proof. unfold Inv. simpl. auto. Qed.

Ltac use_eqs :=
  repeat match goal with
         | E : ?f ?s = _ |- context [?f ?s] => rewrite E
         | E : ?f ?s = _, H : context [?f ?s] |- _ => rewrite E in H
         end.

Lemma Inv_step s l s' : Inv s -> tstep s l s' -> Inv s'.
Proof.
  intros I H. unfold Inv in *.
  destruct H; unfold group_err, spent, fresh_conn in *; split_ifs; norm_step;
    destruct (cpc s) eqn:?; try discriminate; norm_step;
    repeat match goal with H : _ /\ _ |- _ => destruct H end;
    repeat match goal with E : loops_done s = true |- _ =>
             apply loops_done_inv in E; destruct E as (?&?&?&?) end;
    try congruence;
    unfold loops_done, drainmode in *; norm_step;
    repeat match goal with E : ?x = _, H : context [?x] |- _ => rewrite E in H end;
    repeat match goal with E : ?x = _ |- context [?x] => rewrite E end;
    cbn in *; intuition (try discriminate; try congruence; auto).
Qed.

Lemma Inv_exec b tr s : exec b tr s -> Inv s.
Proof.
  induction 1 as [|tr s s' _ IH Hs|tr s l s' _ IH _ Hs].
  - apply Inv_init.
  - eapply Inv_step; [exact IH|apply step_tstep; exact Hs].
  - eapply Inv_step; [exact IH|apply step_tstep; exact Hs].
Qed.
