(* Non-vacuity: concrete scripts on which the hypotheses of the C10 theorems hold, and what
   the model does on them (all by computation). *)
Require Import Bytes CapLib StsState Cap Sts StsSpec OrderLemmas StsLemmas StsProofs.
From Coq Require Import Lia.

Definition ex_cfg : cap_cfg :=
  mkCfg None false false false [] true None [] (bs "me") (bs "user") (bs "Real Name").
Definition ex_cfg_ssl : cap_cfg :=
  mkCfg None false true false [] true None [] (bs "me") (bs "user") (bs "Real Name").
Definition ex_cfg_disabled : cap_cfg :=
  mkCfg None true false false [] true None [] (bs "me") (bs "user") (bs "Real Name").

Definition ex_t : Z := 1700000000000000000%Z.
Definition ex_star := bs "*".
Definition ex_ls (last : str) : Z * list str := (ex_t, [ex_star; s_LS; last]).
Definition ex_ack (last : str) : Z * list str := (ex_t, ack_params ex_star last).

(* plaintext: sts=port=6697 advertised, requested, acknowledged *)
Definition ex_plain : conn_script :=
  mkConn true ex_t true [ex_ls (bs "sts=port=6697 multi-prefix"); ex_ack (bs "sts")] (EndClosed ex_t).
(* the TLS connection of the upgrade: duration learnt (and a port key that is ignored) *)
Definition ex_tls : conn_script :=
  mkConn true ex_t true [ex_ls (bs "sts=duration=600,port=7000 multi-prefix"); ex_ack (bs "sts multi-prefix")]
         (EndClosed ex_t).
Definition ex_bad_port : conn_script :=
  mkConn true ex_t true [ex_ls (bs "sts=port=5"); ex_ack (bs "sts")] (EndClosed ex_t).
Definition ex_tls_no_duration : conn_script :=
  mkConn true ex_t true [ex_ls (bs "sts=port=6697,preload"); ex_ack (bs "sts")] (EndClosed ex_t).
Definition ex_dial_fails (now : Z) : conn_script := mkConn false now true [] (EndClosed now).
Definition ex_hs_fails : conn_script := mkConn true ex_t false [] (EndClosed ex_t).

(* a policy held: port 6697, 600 s, received at ex_t *)
Definition ex_policy : strict_transport := mkSts false 6697 600 ex_t false time_zero.

(* the whole story in one call: upgrade, TLS on the policy port, policy retained *)
Example ex_upgrade_story :
  let r := start_conn sort_strs ex_cfg 6667 sts_init [ex_plain; ex_tls] in
  List.map (fun l => (l_port l, l_tls l, l_connected l)) (fst (fst r)) = [(6667, false, true); (6697, true, true)]%Z /\
  List.map l_outs (fst (fst r)) =
    [[[Write s_CAP [s_REQ; bs "multi-prefix sts"]]; [Upgrade]];
     [[Write s_CAP [s_REQ; bs "multi-prefix sts"]]; [Write s_CAP [s_END]]]] /\
  snd (fst r) = RNil /\
  snd r = mkSts false 6697 600 ex_t false time_zero.
Proof. vm_compute. repeat split. Qed.

(* hypotheses of C10_upgrade / C10_upgrade_from_ack *)
Example ex_upgrade_hyps :
  c_ssl ex_cfg = false /\ sts_enabled sts_init = false /\ cs_dial_ok ex_plain = true /\
  c_tracking ex_cfg = true /\ c_disable_sts ex_cfg = false /\
  exists pre now a toks post st1 outs1 p,
    cs_events ex_plain = pre ++ (now, ack_params a toks) :: post /\
    run_events sort_strs ex_cfg false (cap_init sts_init) pre = (st1, outs1, StopNone) /\
    acks_sts toks /\ usable_port (advertised_policy st1) p /\
    run_events sort_strs ex_cfg false (cap_init sts_init) (cs_events ex_plain) =
      (mkSt (st_tmp st1) (ack_enabled st1 toks) (set_begin_upgrade true (set_upgrade_port p sts_init)),
       outs1 ++ [[Upgrade]], StopUpgrade).
Proof.
  repeat split.
  exists [ex_ls (bs "sts=port=6697 multi-prefix")], ex_t, ex_star, (bs "sts"), [].
  eexists. eexists. exists 6697%Z.
  split; [reflexivity|]. split; [vm_compute; reflexivity|].
  split; [split; [vm_compute; left; reflexivity|vm_compute; intros [H|[]]; discriminate H]|].
  split; [|vm_compute; reflexivity].
  exists (bs "6697"). split; [vm_compute; reflexivity|]. split; [vm_compute; reflexivity|]. lia.
Qed.

(* hypotheses of C10_invalid: plaintext without usable port; TLS without duration *)
Example ex_invalid_plain :
  let r := start_conn sort_strs ex_cfg 6667 sts_init [ex_bad_port; ex_tls] in
  List.map (fun l => (l_port l, l_tls l)) (fst (fst r)) = [(6667, false)]%Z /\
  snd (fst r) = RErrEvent /\ sts_enabled (snd r) = false /\ server_port 6667 (snd r) = 6667%Z /\
  snd (run_events sort_strs ex_cfg false (cap_init sts_init) (cs_events ex_bad_port)) = StopError /\
  no_usable_port (Some [(s_port, bs "5")]).
Proof. vm_compute. repeat split; discriminate. Qed.

Example ex_invalid_tls :
  let r := start_conn sort_strs ex_cfg 6667 ex_policy [ex_tls_no_duration] in
  List.map (fun l => (l_port l, l_tls l)) (fst (fst r)) = [(6697, true)]%Z /\
  snd (fst r) = RErrEvent /\ policy_dropped (snd r) /\ server_port 6667 (snd r) = 6667%Z /\
  snd (run_events sort_strs ex_cfg true (cap_init ex_policy) (cs_events ex_tls_no_duration)) = StopError.
Proof. vm_compute. repeat split. Qed.

(* hypotheses of C10_no_downgrade: a policy held, the dial fails before / after expiry *)
Example ex_no_downgrade :
  sts_enabled ex_policy = true /\
  sts_expired (ex_t + 5 * second_ns) ex_policy = false /\
  sts_expired (ex_t + 700 * second_ns) ex_policy = true /\
  start_conn sort_strs ex_cfg 6667 ex_policy [ex_dial_fails (ex_t + 5 * second_ns)] =
    ([mkLog 6697 true false []], RSTSUpgradeFailed, ex_policy) /\
  sts_enabled (snd (start_conn sort_strs ex_cfg 6667 ex_policy [ex_dial_fails (ex_t + 700 * second_ns)])) = false /\
  start_conn sort_strs ex_cfg 6667 ex_policy [ex_hs_fails] = ([mkLog 6697 true true []], ROther, ex_policy).
Proof. vm_compute. repeat split. Qed.

(* C10_tls_ignores_port: the port key 7000 on TLS leaves the policy port alone *)
Example ex_tls_ignores_port :
  let r := start_conn sort_strs ex_cfg 6667 ex_policy [ex_tls] in
  List.map (fun l => (l_port l, l_tls l)) (fst (fst r)) = [(6697, true)]%Z /\ snd (fst r) = RNil /\
  upgrade_port (snd r) = 6697%Z /\ persistence_duration (snd r) = 600%Z.
Proof. vm_compute. repeat split. Qed.

(* C10_disabled: DisableSTS — sts not requested, an acknowledgement of it just ends the round *)
Example ex_disabled :
  let r := start_conn sort_strs ex_cfg_disabled 6667 sts_init [ex_plain; ex_tls] in
  List.map (fun l => (l_port l, l_tls l)) (fst (fst r)) = [(6667, false)]%Z /\
  List.map l_outs (fst (fst r)) =
    [[[Write s_CAP [s_REQ; bs "multi-prefix"]]; [Write s_CAP [s_END]]]] /\
  snd (fst r) = RNil /\ snd r = sts_init /\
  amem s_sts (possible_caps ex_cfg_disabled false) = false /\
  amem s_sts (possible_caps ex_cfg_ssl false) = false /\
  amem s_sts (possible_caps ex_cfg false) = true /\
  amem s_sts (possible_caps ex_cfg true) = false.
Proof. vm_compute. repeat split. Qed.

(* configured SSL with an honest server: hypotheses of C10_ssl *)
Definition ex_ssl_script : conn_script :=
  mkConn true ex_t true [ex_ls (bs "sts=duration=600 multi-prefix"); ex_ack (bs "multi-prefix")] (EndClosed ex_t).

Example ex_ssl_honest :
  honest_run sort_strs ex_cfg_ssl true (cap_init sts_init)
             (if c_tracking ex_cfg_ssl then cs_events ex_ssl_script else []).
Proof.
  cbn [c_tracking ex_cfg_ssl cs_events ex_ssl_script]. unfold ex_ls, ex_ack.
  apply honest_cons.
  - intros a toks E. discriminate E.
  - apply honest_cons.
    + intros a toks E. injection E as _ <-. intros tok Hin. vm_compute in Hin.
      destruct Hin as [<-|[]]. vm_compute. reflexivity.
    + apply honest_nil.
Qed.

Example ex_ssl_story :
  let r := start_conn sort_strs ex_cfg_ssl 6667 sts_init [ex_ssl_script] in
  List.map (fun l => (l_port l, l_tls l)) (fst (fst r)) = [(6667, true)]%Z /\
  List.map l_outs (fst (fst r)) = [[[Write s_CAP [s_REQ; bs "multi-prefix"]]; [Write s_CAP [s_END]]]] /\
  snd (fst r) = RNil /\ snd r = sts_init.
Proof. vm_compute. repeat split. Qed.

(* persistence over several calls *)
Example ex_persist_calls :
  let calls := [[ex_plain; ex_tls]; [ex_tls]; [ex_dial_fails (ex_t + 5 * second_ns)]; [ex_tls]] in
  List.map (fun r => List.map (fun l => (l_port l, l_tls l)) (fst (fst r)))
           (connects sort_strs ex_cfg 6667 sts_init calls) =
  [[(6667, false); (6697, true)]; [(6697, true)]; [(6697, true)]; [(6697, true)]]%Z /\
  List.map sts_enabled (policies_before sort_strs ex_cfg 6667 sts_init calls) = [false; true; true; true].
Proof. vm_compute. repeat split. Qed.

(* the server hangs up at the moment of the acknowledgement: same dials, same result *)
Example ex_upgrade_peer_hangs_up :
  let r := start_conn sort_strs ex_cfg 6667 sts_init [with_end EndIOError ex_plain; ex_tls] in
  List.map (fun l => (l_port l, l_tls l, l_connected l)) (fst (fst r)) = [(6667, false, true); (6697, true, true)]%Z /\
  snd (fst r) = RNil /\ snd r = mkSts false 6697 600 ex_t false time_zero /\
  r = start_conn sort_strs ex_cfg 6667 sts_init [ex_plain; ex_tls].
Proof. vm_compute. repeat split. Qed.

(* DisableSTS while the application lists sts in SupportedCaps: requested, acknowledged, not acted on *)
Definition ex_cfg_disabled_listed : cap_cfg :=
  mkCfg None true false false [(s_sts, [])] true None [] (bs "me") (bs "user") (bs "Real Name").

Example ex_disabled_listed :
  let r := start_conn sort_strs ex_cfg_disabled_listed 6667 sts_init [ex_plain; ex_tls] in
  amem s_sts (possible_caps ex_cfg_disabled_listed false) = true /\
  List.map (fun l => (l_port l, l_tls l)) (fst (fst r)) = [(6667, false)]%Z /\
  List.map l_outs (fst (fst r)) =
    [[[Write s_CAP [s_REQ; bs "multi-prefix sts"]]; [Write s_CAP [s_END]]]] /\
  snd (fst r) = RNil /\ snd r = sts_init.
Proof. vm_compute. repeat split. Qed.

(* renewal: 600 s learnt, 400 s later the same 600 s acknowledged again (connections dropped),
   another 400 s later the dial fails: 800 s after the first receipt, 400 s after the renewal *)
Definition ex_tls_at (now : Z) (e : conn_end) : conn_script :=
  mkConn true now true [(now, [ex_star; s_LS; bs "sts=duration=600"]); (now, ack_params ex_star (bs "sts"))] e.

Example ex_renewal :
  let t1 := (ex_t + 400 * second_ns)%Z in
  let t2 := (ex_t + 800 * second_ns)%Z in
  let calls := [[ex_tls_at ex_t EndIOError]; [ex_tls_at t1 EndIOError]; [ex_dial_fails t2]; [ex_tls_at t2 EndIOError]] in
  List.map (fun r => (List.map (fun l => (l_port l, l_tls l)) (fst (fst r)), snd (fst r), sts_enabled (snd r)))
           (connects sort_strs ex_cfg 6667 (mkSts false 6697 (-1) time_zero false time_zero) calls) =
  [([(6697, true)], ROther, true); ([(6697, true)], ROther, true);
   ([(6697, true)], RSTSUpgradeFailed, true); ([(6697, true)], ROther, true)]%Z /\
  sts_expired t2 (mkSts false 6697 600 ex_t false time_zero) = true /\
  sts_expired t2 (mkSts false 6697 600 t1 false time_zero) = false.
Proof. vm_compute. repeat split. Qed.
