(* The strong heap invariant: every tracked object is well typed and within bounds
   (slices lie inside their arrays, len <= cap, users own a permission map), and tracked
   objects do not share memory among themselves. It is preserved by every handler, and
   on such states the getters cannot panic. *)
Require Import Bytes AMap Names State Heap HeapLemmas HeapSpec HeapFrame HeapCopy HeapLive HeapHandlers AMapLemmas.
From Coq Require Import Lia.
Local Open Scope nat_scope.

(* ---- list facts ---- *)

Lemma seg_write_length {A} (a : list A) off l : off + length l <= length a -> length (seg_write a off l) = length a.
Proof. intros H. unfold seg_write. rewrite !app_length, firstn_length, skipn_length. lia. Qed.

Lemma seg_length {A} (a : list A) s : sl_off s + sl_len s <= length a -> length (seg a s) = sl_len s.
Proof. intros H. unfold seg. rewrite firstn_length, skipn_length. lia. Qed.

Lemma remove_first_length_le x l : length (remove_first x l) <= length l.
Proof. induction l as [|y l IH]; simpl; [lia|]. destruct (streqb x y); simpl; lia. Qed.

Lemma insert_sorted_length x l : length (insert_sorted x l) = S (length l).
Proof. induction l as [|y l IH]; simpl; [reflexivity|]. destruct (str_leb x y); simpl; congruence. Qed.
Lemma sort_strs_length l : length (sort_strs l) = length l.
Proof. induction l as [|x l IH]; [reflexivity|]. unfold sort_strs in *. simpl. rewrite insert_sorted_length. congruence. Qed.

Lemma replace_first_length x y l : length (replace_first x y l) = length l.
Proof. induction l as [|z l IH]; simpl; [reflexivity|]. destruct (streqb x z); simpl; congruence. Qed.

(* ---- well-formedness depends only on the reachable cells ---- *)

Lemma wf_strs_agree h h' s : hget h' (sl_arr s) = hget h (sl_arr s) -> wf_strs h s -> wf_strs h' s.
Proof. intros E (a & Ha & B). exists a. rewrite E. auto. Qed.
Lemma wf_modes_agree h h' s : hget h' (sl_arr s) = hget h (sl_arr s) -> wf_modes h s -> wf_modes h' s.
Proof. intros E (a & Ha & B). exists a. rewrite E. auto. Qed.

Lemma wf_user_agree h h' o : (forall x, In x (reach h o) -> hget h' x = hget h x) -> wf_user h o -> wf_user h' o.
Proof.
  intros A (u & Ho & Hs & p & m & Ep & Hp). exists u. split; [rewrite A; [exact Ho|apply reach_self]|]. split.
  - eapply wf_strs_agree; [|exact Hs]. apply A. eapply reach_ptr; [exact Ho|simpl; auto].
  - exists p, m. split; [exact Ep|]. rewrite A; [exact Hp|]. eapply reach_ptr; [exact Ho|]. simpl. rewrite Ep. simpl. auto.
Qed.
Lemma wf_chan_agree h h' o : (forall x, In x (reach h o) -> hget h' x = hget h x) -> wf_chan h o -> wf_chan h' o.
Proof.
  intros A (c & Ho & Hs & Hm). exists c. split; [rewrite A; [exact Ho|apply reach_self]|]. split.
  - eapply wf_strs_agree; [|exact Hs]. apply A. eapply reach_ptr; [exact Ho|simpl; auto].
  - eapply wf_modes_agree; [|exact Hm]. apply A. eapply reach_ptr; [exact Ho|simpl; auto].
Qed.

Lemma wf_user_bounded h o : wf_user h o -> forall x, In x (reach h o) -> x < length h.
Proof.
  intros (u & Ho & (a & Ha & _) & p & m & Ep & Hp) x Hx. apply reach_inv in Hx.
  destruct Hx as [->|(c & Hc & Hx)]; [eapply hget_some_lt; eauto|].
  rewrite Ho in Hc. injection Hc as <-. simpl in Hx. rewrite Ep in Hx. simpl in Hx.
  destruct Hx as [<-|[<-|[]]]; eapply hget_some_lt; eauto.
Qed.
Lemma wf_chan_bounded h o : wf_chan h o -> forall x, In x (reach h o) -> x < length h.
Proof.
  intros (c & Ho & (a & Ha & _) & (b & Hb & _)) x Hx. apply reach_inv in Hx.
  destruct Hx as [->|(c' & Hc & Hx)]; [eapply hget_some_lt; eauto|].
  rewrite Ho in Hc. injection Hc as <-. simpl in Hx.
  destruct Hx as [<-|[<-|[]]]; eapply hget_some_lt; eauto.
Qed.

Lemma in_roots s r : In r (roots s) <-> In r (List.map snd (hs_users s)) \/ In r (List.map snd (hs_channels s)).
Proof. unfold roots. apply in_app_iff. Qed.

Lemma HeapWf_root_bounded w r : HeapWf w -> In r (roots (w_st w)) -> forall x, In x (reach (w_heap w) r) -> x < length (w_heap w).
Proof.
  intros W Hr. apply in_roots in Hr. destruct Hr as [Hr|Hr];
    [apply wf_user_bounded; apply (wf_users _ W); exact Hr|apply wf_chan_bounded; apply (wf_chans _ W); exact Hr].
Qed.

Theorem HeapWf_HeapInv w : HeapWf w -> HeapInv w.
Proof.
  intros W x Hx. change (In x (creach (w_heap w) (roots (w_st w)))) in Hx. apply in_creach in Hx. destruct Hx as (r & Hr & Hx).
  eapply HeapWf_root_bounded; eauto.
Qed.

(* ---- a step that is local to one root ----
   If a heap step changes, among the old objects, only those reachable from root o, makes o
   reach only its old reach and new objects, and leaves o well formed, then the whole
   invariant is kept: the other roots reach nothing of o's (separation), so they are
   untouched. *)
Definition local_step (h : heap) (o : nat) (h' : heap) : Prop :=
  length h <= length h' /\
  (forall x, x < length h -> ~ In x (reach h o) -> hget h' x = hget h x) /\
  (forall x, In x (reach h' o) -> In x (reach h o) \/ length h <= x).

Lemma local_step_of_stp h o h' : (forall x, In x (reach h o) -> x < length h) ->
  stp (length h) (creach h [o]) h [o] h h' -> local_step h o h'.
Proof.
  intros B [F L]. assert (E : forall x, In x (creach h [o]) <-> In x (reach h o)).
  { intros x. unfold creach. simpl. rewrite app_nil_r. tauto. }
  split; [exact L|]. split.
  - intros x Lx Nx. apply (fr_frame _ _ _ _ _ F); [exact Lx|]. rewrite E. exact Nx.
  - intros x Hx. destruct (fr_reach _ _ _ _ _ F x) as [[A|A] _]; [apply in_creach; exists o; split; [left; reflexivity|exact Hx]| |].
    + left. apply E. exact A.
    + right. exact A.
Qed.

Lemma stp_start h o : (forall x, In x (reach h o) -> x < length h) -> Fr (length h) (creach h [o]) h h [o].
Proof. intros B. apply Fr_init. intros x Hx. unfold creach in Hx. simpl in Hx. rewrite app_nil_r in Hx. apply B. exact Hx. Qed.

Lemma HeapWf_local h s o h' (isu : bool) :
  HeapWf (mkWorld h s) -> In o (roots s) -> local_step h o h' ->
  (In o (List.map snd (hs_users s)) -> wf_user h' o) ->
  (In o (List.map snd (hs_channels s)) -> wf_chan h' o) ->
  HeapWf (mkWorld h' s).
Proof.
  intros W Ho (L & U & Rc) Wu Wc.
  assert (Other : forall r, In r (roots s) -> r <> o -> forall x, In x (reach h r) -> hget h' x = hget h x).
  { intros r Hr Ne x Hx. apply U; [eapply (HeapWf_root_bounded _ _ W); eauto|].
    intros Hxo. apply Ne. exact (wf_sep _ W r o x Hr Ho Hx Hxo). }
  assert (Reach : forall r, In r (roots s) -> r <> o -> reach h' r = reach h r).
  { intros r Hr Ne. apply reach_same_cell. apply (Other r Hr Ne). apply reach_self. }
  constructor; cbn [w_heap w_st].
  - intros r Hr. destruct (Nat.eq_dec r o) as [->|Ne]; [apply Wu; exact Hr|].
    eapply wf_user_agree; [apply Other; [apply in_roots; left; exact Hr|exact Ne]|apply (wf_users _ W); exact Hr].
  - intros r Hr. destruct (Nat.eq_dec r o) as [->|Ne]; [apply Wc; exact Hr|].
    eapply wf_chan_agree; [apply Other; [apply in_roots; right; exact Hr|exact Ne]|apply (wf_chans _ W); exact Hr].
  - intros r1 r2 x H1 H2 X1 X2.
    destruct (Nat.eq_dec r1 o) as [E1|N1]; destruct (Nat.eq_dec r2 o) as [E2|N2]; try congruence.
    + subst r1. rewrite (Reach r2 H2 N2) in X2.
      destruct (Rc x X1) as [A|A]; [symmetry; exact (wf_sep _ W r2 o x H2 Ho X2 A)|].
      pose proof (HeapWf_root_bounded _ _ W H2 x X2). simpl in *. lia.
    + subst r2. rewrite (Reach r1 H1 N1) in X1.
      destruct (Rc x X2) as [A|A]; [exact (wf_sep _ W r1 o x H1 Ho X1 A)|].
      pose proof (HeapWf_root_bounded _ _ W H1 x X1). simpl in *. lia.
    + rewrite (Reach r1 H1 N1) in X1. rewrite (Reach r2 H2 N2) in X2. exact (wf_sep _ W r1 r2 x H1 H2 X1 X2).
Qed.

(* the roots may shrink or be re-keyed *)
Lemma HeapWf_roots h s s' : HeapWf (mkWorld h s) ->
  incl (List.map snd (hs_users s')) (List.map snd (hs_users s)) ->
  incl (List.map snd (hs_channels s')) (List.map snd (hs_channels s)) -> HeapWf (mkWorld h s').
Proof.
  intros W Iu Ic. assert (Ir : incl (roots s') (roots s)).
  { intros r Hr. apply in_roots in Hr. apply in_roots. destruct Hr; [left; apply Iu|right; apply Ic]; assumption. }
  constructor; cbn [w_heap w_st].
  - intros o Ho. apply (wf_users _ W). apply Iu. exact Ho.
  - intros o Ho. apply (wf_chans _ W). apply Ic. exact Ho.
  - intros r1 r2 x H1 H2. apply (wf_sep _ W); apply Ir; assumption.
Qed.

(* ---- well-formedness of the root after each method ---- *)

Lemma wf_strs_seg h s a : hget h (sl_arr s) = Some (CStrs a) -> sl_off s + sl_cap s <= length a -> sl_len s <= sl_cap s ->
  sl_get h s = Ok (seg a s) /\ length (seg a s) = sl_len s.
Proof. intros Ha B1 B2. split; [apply sl_get_intro; exact Ha|apply seg_length; lia]. Qed.

(* in-place store of a list not longer than the capacity *)
Lemma sl_store_wf h s l h' s' : wf_strs h s -> length l <= sl_cap s -> sl_store h s l = Ok (h', s') ->
  exists (a a' : list str), hget h (sl_arr s) = Some (CStrs a) /\ h' = hset h (sl_arr s) (CStrs a') /\ length a' = length a /\
               s' = mkSlice (sl_arr s) (sl_off s) (length l) (sl_cap s) /\ sl_off s + sl_cap s <= length a.
Proof.
  intros (a & Ha & B1 & B2) Ll H. unfold sl_store in H. apply get_strs_ok in Ha. rewrite Ha in H. simpl in H.
  injection H as <- <-. apply get_strs_ok in Ha. exists a, (seg_write a (sl_off s) l).
  repeat split; auto. apply seg_write_length. lia.
Qed.

Lemma wf_strs_after_store h s (l : list str) a a' : hget h (sl_arr s) = Some (CStrs a) -> length a' = length a ->
  sl_off s + sl_cap s <= length a -> length l <= sl_cap s ->
  wf_strs (hset h (sl_arr s) (CStrs a')) (mkSlice (sl_arr s) (sl_off s) (length l) (sl_cap s)).
Proof.
  intros Ha E B L. exists a'. simpl. split; [apply hget_hset_eq; eapply hget_some_lt; eauto|]. split; lia.
Qed.

Lemma sl_append_sorted_wf g h s x h' s' : wf_strs h s -> sl_append_sorted g h s x = Ok (h', s') ->
  wf_strs h' s' /\ (forall y, y < length h -> y <> sl_arr s -> hget h' y = hget h y) /\ length h <= length h' /\
  (sl_arr s' = sl_arr s \/ sl_arr s' = length h).
Proof.
  intros (a & Ha & B1 & B2) H. unfold sl_append_sorted in H. pose proof Ha as Ha'. apply get_strs_ok in Ha'. rewrite Ha' in H. simpl in H.
  assert (Ls : length (seg a s) = sl_len s) by (apply seg_length; lia).
  destruct (Nat.ltb (sl_len s) (sl_cap s)) eqn:Lt.
  - apply Nat.ltb_lt in Lt. unfold sl_store in H. rewrite Ha' in H. simpl in H. injection H as <- <-.
    set (l' := sort_strs (seg a s ++ [x])).
    assert (Ll : length l' = S (sl_len s)) by (unfold l'; rewrite sort_strs_length, app_length; simpl; lia).
    split; [|split; [|split]].
    + apply (wf_strs_after_store h s l' a); [exact Ha|apply seg_write_length; lia|exact B1|lia].
    + intros y _ Ny. apply hget_hset_neq. congruence.
    + rewrite hset_length. lia.
    + left. reflexivity.
  - apply Nat.ltb_ge in Lt. unfold halloc in H. injection H as <- <-.
    split; [|split; [|split]].
    + eexists. cbn [sl_arr sl_off sl_cap sl_len]. split; [apply hget_app_new|].
      rewrite app_length, repeat_length, sort_strs_length, app_length, Ls. cbn [length]. destruct (g (sl_cap s)); lia.
    + intros y Ly _. apply hget_app_old. exact Ly.
    + rewrite app_length. lia.
    + right. reflexivity.
Qed.

Lemma hget_hset3 h o1 c1 o2 c2 o3 c3 x : x <> o1 -> x <> o2 -> x <> o3 ->
  hget (hset (hset (hset h o1 c1) o2 c2) o3 c3) x = hget h x.
Proof. intros A B C. rewrite !hget_hset_neq by congruence. reflexivity. Qed.

Lemma user_delete_channel_wf h o name h' : wf_user h o -> user_delete_channel_h h o name = Ok h' -> wf_user h' o.
Proof.
  intros (u & Ho & Ws & p & m & Ep & Hp) H. unfold user_delete_channel_h in H.
  pose proof Ho as Ho'. apply get_user_ok in Ho'. rewrite Ho' in H. simpl in H.
  destruct Ws as (a & Ha & B1 & B2). destruct (wf_strs_seg _ _ _ Ha B1 B2) as (Hg & Lg). rewrite Hg in H. simpl in H.
  set (l' := remove_first (fold name) (seg a (hu_chans u))) in *.
  assert (Ll : length l' <= sl_cap (hu_chans u)) by (unfold l'; pose proof (remove_first_length_le (fold name) (seg a (hu_chans u))); lia).
  unfold sl_store in H. pose proof Ha as Ha'. apply get_strs_ok in Ha'. rewrite Ha' in H. simpl in H.
  unfold perms_remove in H. rewrite Ep in H.
  set (arr := sl_arr (hu_chans u)) in *.
  assert (Nao : arr <> o) by (intros E; rewrite E in Ha; congruence).
  assert (Npo : p <> o) by (intros E; rewrite E in Hp; congruence).
  assert (Npa : p <> arr) by (intros E; rewrite E in Hp; congruence).
  set (h1 := hset h arr (CStrs (seg_write a (sl_off (hu_chans u)) l'))) in *.
  set (u' := hu_set_chans u (mkSlice arr (sl_off (hu_chans u)) (length l') (sl_cap (hu_chans u)))) in *.
  set (h2 := hset h1 o (CUser u')) in *.
  assert (Hp2 : hget h2 p = Some (CPerms m)) by (unfold h2, h1; rewrite !hget_hset_neq by congruence; exact Hp).
  apply get_perms_ok in Hp2. rewrite Hp2 in H. simpl in H. injection H as <-.
  assert (Lo : o < length h) by (eapply hget_some_lt; eauto).
  assert (La : arr < length h) by (eapply hget_some_lt; eauto).
  assert (Lp : p < length h) by (eapply hget_some_lt; eauto).
  exists u'. split.
  - rewrite hget_hset_neq by congruence. unfold h2. apply hget_hset_eq. unfold h1. rewrite hset_length. exact Lo.
  - split.
    + exists (seg_write a (sl_off (hu_chans u)) l'). unfold u'. simpl.
      split; [rewrite hget_hset_neq by congruence; unfold h2; rewrite hget_hset_neq by congruence; unfold h1; apply hget_hset_eq; exact La|].
      rewrite seg_write_length by lia. split; lia.
    + exists p, (aremove (fold name) m). split; [exact Ep|]. apply hget_hset_eq. unfold h2, h1. rewrite !hset_length. exact Lp.
Qed.

Lemma channel_delete_user_wf h o nick h' : wf_chan h o -> channel_delete_user_h h o nick = Ok h' -> wf_chan h' o.
Proof.
  intros (c & Ho & Ws & (b & Hb & Bm1 & Bm2)) H. unfold channel_delete_user_h in H.
  pose proof Ho as Ho'. apply get_chan_ok in Ho'. rewrite Ho' in H. simpl in H.
  destruct Ws as (a & Ha & B1 & B2). destruct (wf_strs_seg _ _ _ Ha B1 B2) as (Hg & Lg). rewrite Hg in H. simpl in H.
  set (l' := remove_first (fold nick) (seg a (hc_users c))) in *.
  assert (Ll : length l' <= sl_cap (hc_users c)) by (unfold l'; pose proof (remove_first_length_le (fold nick) (seg a (hc_users c))); lia).
  unfold sl_store in H. pose proof Ha as Ha'. apply get_strs_ok in Ha'. rewrite Ha' in H. simpl in H. injection H as <-.
  remember (sl_arr (hc_users c)) as arr eqn:Earr0. remember (sl_arr (hm_modes (hc_modes c))) as marr eqn:Emarr0.
  assert (Nao : arr <> o) by (intros E; rewrite E in Ha; congruence).
  assert (Nmo : marr <> o) by (intros E; rewrite E in Hb; congruence).
  assert (Nma : marr <> arr) by (intros E; rewrite E in Hb; congruence).
  assert (Lo : o < length h) by (eapply hget_some_lt; eauto).
  assert (La : arr < length h) by (eapply hget_some_lt; eauto).
  eexists. split; [apply hget_hset_eq; rewrite hset_length; exact Lo|]. split.
  - exists (seg_write a (sl_off (hc_users c)) l'). simpl. rewrite <- ?Earr0.
    split; [rewrite hget_hset_neq by congruence; apply hget_hset_eq; exact La|].
    rewrite seg_write_length by lia. split; lia.
  - exists b. simpl. rewrite <- ?Emarr0. split; [rewrite !hget_hset_neq by congruence; exact Hb|]. split; assumption.
Qed.

Lemma user_add_channel_wf g h o name h' : wf_user h o -> user_add_channel_h g h o name = Ok h' -> wf_user h' o.
Proof.
  intros W H. pose proof W as (u & Ho & Ws & p & m & Ep & Hp). unfold user_add_channel_h in H.
  pose proof Ho as Ho'. apply get_user_ok in Ho'. rewrite Ho' in H. simpl in H.
  pose proof Ws as (a & Ha & B1 & B2). destruct (wf_strs_seg _ _ _ Ha B1 B2) as (Hg & Lg). rewrite Hg in H. simpl in H.
  destruct (mem_str (fold name) (seg a (hu_chans u))); [injection H as <-; exact W|].
  bind_inv H r Hr. destruct r as [h1 s'].
  destruct (sl_append_sorted_wf _ _ _ _ _ _ Ws Hr) as (Ws' & U1 & L1 & Earr).
  remember (sl_arr (hu_chans u)) as arr eqn:Earr0.
  assert (Nao : arr <> o) by (intros E; rewrite E in Ha; congruence).
  assert (Npo : p <> o) by (intros E; rewrite E in Hp; congruence).
  assert (Npa : p <> arr) by (intros E; rewrite E in Hp; congruence).
  assert (Lo : o < length h) by (eapply hget_some_lt; eauto).
  assert (Lp : p < length h) by (eapply hget_some_lt; eauto).
  assert (La : arr < length h) by (eapply hget_some_lt; eauto).
  unfold perms_set in H. rewrite Ep in H.
  assert (Hp2 : hget (hset h1 o (CUser (hu_set_chans u s'))) p = Some (CPerms m)).
  { rewrite hget_hset_neq by congruence. rewrite U1; [exact Hp|exact Lp|exact Npa]. }
  apply get_perms_ok in Hp2. rewrite Hp2 in H. simpl in H. injection H as <-.
  assert (Ns'o : sl_arr s' <> o) by (destruct Earr as [->| ->]; [exact Nao|lia]).
  assert (Ns'p : sl_arr s' <> p) by (destruct Earr as [->| ->]; [congruence|lia]).
  exists (hu_set_chans u s'). split.
  - rewrite hget_hset_neq by congruence. apply hget_hset_eq. lia.
  - split.
    + simpl. eapply wf_strs_agree; [|exact Ws']. rewrite !hget_hset_neq by congruence. reflexivity.
    + exists p, (aset (fold name) perms0 m). split; [exact Ep|]. apply hget_hset_eq. rewrite hset_length. lia.
Qed.

Lemma channel_add_user_wf g h o nick h' : wf_chan h o -> channel_add_user_h g h o nick = Ok h' -> wf_chan h' o.
Proof.
  intros W H. pose proof W as (c & Ho & Ws & Wm). unfold channel_add_user_h in H.
  pose proof Ho as Ho'. apply get_chan_ok in Ho'. rewrite Ho' in H. simpl in H.
  pose proof Ws as (a & Ha & B1 & B2). destruct (wf_strs_seg _ _ _ Ha B1 B2) as (Hg & Lg). rewrite Hg in H. simpl in H.
  destruct (mem_str (fold nick) (seg a (hc_users c))); [injection H as <-; exact W|].
  bind_inv H r Hr. destruct r as [h1 s']. injection H as <-.
  destruct (sl_append_sorted_wf _ _ _ _ _ _ Ws Hr) as (Ws' & U1 & L1 & Earr).
  destruct Wm as (b & Hb & Bm1 & Bm2).
  remember (sl_arr (hc_users c)) as arr eqn:Earr0. remember (sl_arr (hm_modes (hc_modes c))) as marr eqn:Emarr0.
  assert (Nao : arr <> o) by (intros E; rewrite E in Ha; congruence).
  assert (Nmo : marr <> o) by (intros E; rewrite E in Hb; congruence).
  assert (Nma : marr <> arr) by (intros E; rewrite E in Hb; congruence).
  assert (Lo : o < length h) by (eapply hget_some_lt; eauto).
  assert (Lm : marr < length h) by (eapply hget_some_lt; eauto).
  assert (La : arr < length h) by (eapply hget_some_lt; eauto).
  assert (Ns'o : sl_arr s' <> o) by (destruct Earr as [->| ->]; [exact Nao|lia]).
  exists (hc_set_users c s'). split; [apply hget_hset_eq; lia|]. split.
  - simpl. eapply wf_strs_agree; [|exact Ws']. rewrite hget_hset_neq by congruence. reflexivity.
  - exists b. simpl. rewrite <- ?Emarr0. split; [|split; assumption]. rewrite hget_hset_neq by congruence. rewrite U1; [exact Hb|exact Lm|exact Nma].
Qed.

(* string-field updates *)
Lemma user_field_wf h o u f : hget h o = Some (CUser u) -> keeps_ptrs f -> wf_user h o -> wf_user (hset h o (CUser (f u))) o.
Proof.
  intros Ho K (u0 & Ho0 & (a & Ha & B) & p & m & Ep & Hp). rewrite Ho in Ho0. injection Ho0 as <-.
  destruct (K u) as [Kc Kp].
  assert (Nao : sl_arr (hu_chans u) <> o) by (intros E; rewrite E in Ha; congruence).
  assert (Npo : p <> o) by (intros E; rewrite E in Hp; congruence).
  exists (f u). split; [apply hget_hset_eq; eapply hget_some_lt; eauto|]. split.
  - rewrite Kc. exists a. split; [rewrite hget_hset_neq by congruence; exact Ha|exact B].
  - exists p, m. rewrite Kp. split; [exact Ep|]. rewrite hget_hset_neq by congruence. exact Hp.
Qed.

Lemma chan_field_wf h o c f : hget h o = Some (CChan c) -> hc_users (f c) = hc_users c -> hc_modes (f c) = hc_modes c ->
  wf_chan h o -> wf_chan (hset h o (CChan (f c))) o.
Proof.
  intros Ho Ku Km (c0 & Ho0 & (a & Ha & B) & (b & Hb & Bm)). rewrite Ho in Ho0. injection Ho0 as <-.
  assert (Nao : sl_arr (hc_users c) <> o) by (intros E; rewrite E in Ha; congruence).
  assert (Nmo : sl_arr (hm_modes (hc_modes c)) <> o) by (intros E; rewrite E in Hb; congruence).
  exists (f c). split; [apply hget_hset_eq; eapply hget_some_lt; eauto|]. split.
  - rewrite Ku. exists a. split; [rewrite hget_hset_neq by congruence; exact Ha|exact B].
  - rewrite Km. exists b. split; [rewrite hget_hset_neq by congruence; exact Hb|exact Bm].
Qed.

(* a write to the permission map of a well-formed user *)
Lemma perms_set_wf h o u k v h' : hget h o = Some (CUser u) -> wf_user h o -> perms_set h (hu_perms u) k v = Ok h' -> wf_user h' o.
Proof.
  intros Ho (u0 & Ho0 & (a & Ha & B) & p & m & Ep & Hp) H. rewrite Ho in Ho0. injection Ho0 as <-.
  unfold perms_set in H. rewrite Ep in H. pose proof Hp as Hp'. apply get_perms_ok in Hp'. rewrite Hp' in H. simpl in H. injection H as <-.
  assert (Npo : p <> o) by (intros E; rewrite E in Hp; congruence).
  assert (Npa : p <> sl_arr (hu_chans u)) by (intros E; rewrite E in Hp; congruence).
  exists u. split; [rewrite hget_hset_neq by congruence; exact Ho|]. split.
  - exists a. split; [rewrite hget_hset_neq by congruence; exact Ha|exact B].
  - exists p, (aset k v m). split; [exact Ep|]. apply hget_hset_eq. eapply hget_some_lt; eauto.
Qed.

(* Modes.Apply on a well-formed channel followed by the store of the new header *)
Lemma chan_apply_wf h o c ms h1 m' : hget h o = Some (CChan c) -> wf_chan h o -> cmodes_apply h (hc_modes c) ms = Ok (h1, m') ->
  wf_chan (hset h1 o (CChan (hc_set_modes c m'))) o.
Proof.
  intros Ho (c0 & Ho0 & (a & Ha & B) & (b & Hb & Bm)) H. rewrite Ho in Ho0. injection Ho0 as <-.
  unfold cmodes_apply in H. rewrite (sl_get_modes_intro _ _ _ Hb) in H. simpl in H. unfold halloc in H. injection H as <- <-.
  assert (Lo : o < length h) by (eapply hget_some_lt; eauto).
  assert (La : sl_arr (hc_users c) < length h) by (eapply hget_some_lt; eauto).
  assert (Nao : sl_arr (hc_users c) <> o) by (intros E; rewrite E in Ha; congruence).
  eexists. split; [apply hget_hset_eq; rewrite app_length; lia|]. split.
  - exists a. simpl. split; [|exact B]. rewrite hget_hset_neq by congruence. rewrite hget_app_old by exact La. exact Ha.
  - eexists. simpl. split; [rewrite hget_hset_neq by lia; apply hget_app_new|]. split; lia.
Qed.

(* ---------- the invariant is kept by each method on a tracked object ---------- *)

Lemma wf_user_chan_excl h o : wf_user h o -> wf_chan h o -> False.
Proof. intros (u & Hu & _) (c & Hc & _). congruence. Qed.

Lemma HeapWf_local_user h s o h' : HeapWf (mkWorld h s) -> In o (List.map snd (hs_users s)) ->
  stp (length h) (creach h [o]) h [o] h h' -> wf_user h' o -> HeapWf (mkWorld h' s).
Proof.
  intros W Ho S Wo. pose proof (wf_users _ W o Ho) as Wo0.
  eapply (HeapWf_local h s o h' true); [exact W|apply in_roots; left; exact Ho| | |].
  - apply local_step_of_stp; [apply wf_user_bounded; exact Wo0|exact S].
  - intros _. exact Wo.
  - intros Hc. exfalso. exact (wf_user_chan_excl _ _ Wo0 (wf_chans _ W o Hc)).
Qed.
Lemma HeapWf_local_chan h s o h' : HeapWf (mkWorld h s) -> In o (List.map snd (hs_channels s)) ->
  stp (length h) (creach h [o]) h [o] h h' -> wf_chan h' o -> HeapWf (mkWorld h' s).
Proof.
  intros W Ho S Wo. pose proof (wf_chans _ W o Ho) as Wo0.
  eapply (HeapWf_local h s o h' false); [exact W|apply in_roots; right; exact Ho| | |].
  - apply local_step_of_stp; [apply wf_chan_bounded; exact Wo0|exact S].
  - intros Hu. exfalso. exact (wf_user_chan_excl _ _ (wf_users _ W o Hu) Wo0).
  - intros _. exact Wo.
Qed.

Ltac start_user W Ho := apply stp_start; apply wf_user_bounded; apply (wf_users _ W _ Ho).
Ltac start_chan W Ho := apply stp_start; apply wf_chan_bounded; apply (wf_chans _ W _ Ho).

Lemma user_delete_channel_Wf h s o name h' : HeapWf (mkWorld h s) -> In o (List.map snd (hs_users s)) ->
  user_delete_channel_h h o name = Ok h' -> HeapWf (mkWorld h' s).
Proof.
  intros W Ho H. eapply HeapWf_local_user; [exact W|exact Ho| |eapply user_delete_channel_wf; [apply (wf_users _ W _ Ho)|exact H]].
  eapply user_delete_channel_fr; [start_user W Ho|left; reflexivity|exact H].
Qed.
Lemma user_add_channel_Wf g h s o name h' : HeapWf (mkWorld h s) -> In o (List.map snd (hs_users s)) ->
  user_add_channel_h g h o name = Ok h' -> HeapWf (mkWorld h' s).
Proof.
  intros W Ho H. eapply HeapWf_local_user; [exact W|exact Ho| |eapply user_add_channel_wf; [apply (wf_users _ W _ Ho)|exact H]].
  eapply user_add_channel_fr; [start_user W Ho|left; reflexivity|exact H].
Qed.
Lemma channel_delete_user_Wf h s o nick h' : HeapWf (mkWorld h s) -> In o (List.map snd (hs_channels s)) ->
  channel_delete_user_h h o nick = Ok h' -> HeapWf (mkWorld h' s).
Proof.
  intros W Ho H. eapply HeapWf_local_chan; [exact W|exact Ho| |eapply channel_delete_user_wf; [apply (wf_chans _ W _ Ho)|exact H]].
  eapply channel_delete_user_fr; [start_chan W Ho|left; reflexivity|exact H].
Qed.
Lemma channel_add_user_Wf g h s o nick h' : HeapWf (mkWorld h s) -> In o (List.map snd (hs_channels s)) ->
  channel_add_user_h g h o nick = Ok h' -> HeapWf (mkWorld h' s).
Proof.
  intros W Ho H. eapply HeapWf_local_chan; [exact W|exact Ho| |eapply channel_add_user_wf; [apply (wf_chans _ W _ Ho)|exact H]].
  eapply channel_add_user_fr; [start_chan W Ho|left; reflexivity|exact H].
Qed.

Lemma user_field_Wf h s o u f : HeapWf (mkWorld h s) -> In o (List.map snd (hs_users s)) -> get_user h o = Ok u -> keeps_ptrs f ->
  HeapWf (mkWorld (hset h o (CUser (f u))) s).
Proof.
  intros W Ho Hu K. pose proof Hu as Hu'. apply get_user_ok in Hu'.
  eapply HeapWf_local_user; [exact W|exact Ho| |apply user_field_wf; [exact Hu'|exact K|apply (wf_users _ W _ Ho)]].
  apply (user_field_fr (length h) (creach h [o]) h [o] h o u f); [start_user W Ho|left; reflexivity|exact Hu|apply keeps_ptrs_ptrs; exact K].
Qed.

Lemma user_perms_set_Wf h s o u k v h' : HeapWf (mkWorld h s) -> In o (List.map snd (hs_users s)) -> get_user h o = Ok u ->
  perms_set h (hu_perms u) k v = Ok h' -> HeapWf (mkWorld h' s).
Proof.
  intros W Ho Hu H. pose proof Hu as Hu'. apply get_user_ok in Hu'.
  eapply HeapWf_local_user; [exact W|exact Ho| |eapply perms_set_wf; [exact Hu'|apply (wf_users _ W _ Ho)|exact H]].
  assert (F : Fr (length h) (creach h [o]) h h [o]) by (start_user W Ho).
  destruct (user_ptrs_ok _ _ _ _ _ _ _ F (or_introl eq_refl) Hu) as (_ & _ & Op).
  apply (perms_set_fr _ _ _ _ _ _ _ _ _ F Op H).
Qed.

Lemma chan_topic_Wf h s o c t : HeapWf (mkWorld h s) -> In o (List.map snd (hs_channels s)) -> get_chan h o = Ok c ->
  HeapWf (mkWorld (hset h o (CChan (hc_set_topic c t))) s).
Proof.
  intros W Ho Hc. pose proof Hc as Hc'. apply get_chan_ok in Hc'.
  eapply HeapWf_local_chan; [exact W|exact Ho| |apply (chan_field_wf h o c (fun c => hc_set_topic c t)); [exact Hc'|reflexivity|reflexivity|apply (wf_chans _ W _ Ho)]].
  apply (chan_field_fr (length h) (creach h [o]) h [o] h o c (fun c => hc_set_topic c t)); [start_chan W Ho|left; reflexivity|exact Hc|reflexivity].
Qed.

Lemma chan_apply_Wf h s o c ms h1 m' : HeapWf (mkWorld h s) -> In o (List.map snd (hs_channels s)) -> get_chan h o = Ok c ->
  cmodes_apply h (hc_modes c) ms = Ok (h1, m') -> HeapWf (mkWorld (hset h1 o (CChan (hc_set_modes c m'))) s).
Proof.
  intros W Ho Hc H. pose proof Hc as Hc'. apply get_chan_ok in Hc'.
  eapply HeapWf_local_chan; [exact W|exact Ho| |eapply chan_apply_wf; [exact Hc'|apply (wf_chans _ W _ Ho)|exact H]].
  assert (F : Fr (length h) (creach h [o]) h h [o]) by (start_chan W Ho).
  destruct (chan_ptrs_ok _ _ _ _ _ _ _ F (or_introl eq_refl) Hc) as (Oo & Oa & _).
  destruct (cmodes_apply_fr _ _ _ _ _ _ _ _ _ F H) as ((F1 & L1) & Om).
  eapply stp_trans; [split; [exact F1|exact L1]|].
  apply stp_hset; [exact F1|eapply okp_mono; eauto|].
  simpl. intros p [<-|[<-|[]]]; [eapply okp_mono; eauto|exact Om].
Qed.

(* renameUser's in-place rewrite of one UserList *)
Lemma chan_restore_Wf h s o c l l' st : HeapWf (mkWorld h s) -> In o (List.map snd (hs_channels s)) -> get_chan h o = Ok c ->
  sl_get h (hc_users c) = Ok l -> length l' = length l -> sl_store h (hc_users c) l' = Ok st -> HeapWf (mkWorld (fst st) s).
Proof.
  intros W Ho Hc Hl El H. destruct st as [h1 s']. simpl. pose proof Hc as Hc'. apply get_chan_ok in Hc'.
  pose proof (wf_chans _ W _ Ho) as (c0 & Ho0 & Ws & (b & Hb & Bm)). cbn [w_heap w_st] in *. rewrite Hc' in Ho0. injection Ho0 as <-.
  pose proof Ws as (a & Ha & B1 & B2). destruct (wf_strs_seg _ _ _ Ha B1 B2) as (Hg & Lg). rewrite Hg in Hl. injection Hl as <-.
  assert (Ll : length l' <= sl_cap (hc_users c)) by lia.
  destruct (sl_store_wf _ _ _ _ _ Ws Ll H) as (a0 & a' & Ha0 & -> & La' & -> & _). rewrite Ha in Ha0. injection Ha0 as <-.
  assert (Nao : sl_arr (hc_users c) <> o) by (intros E; rewrite E in Ha; congruence).
  assert (Nma : sl_arr (hm_modes (hc_modes c)) <> sl_arr (hc_users c)) by (intros E; rewrite E in Hb; congruence).
  eapply HeapWf_local_chan; [exact W|exact Ho| |].
  - assert (F : Fr (length h) (creach h [o]) h h [o]) by (start_chan W Ho).
    destruct (chan_ptrs_ok _ _ _ _ _ _ _ F (or_introl eq_refl) Hc) as (_ & Oa & _).
    apply (sl_store_fr _ _ _ _ _ _ _ _ _ F Oa H).
  - exists c. split; [rewrite hget_hset_neq by congruence; exact Hc'|]. split.
    + exists a'. split; [apply hget_hset_eq; eapply hget_some_lt; eauto|]. split; lia.
    + exists b. split; [rewrite hget_hset_neq by congruence; exact Hb|exact Bm].
Qed.
