(* Facts about Lib/Utf8.v used by the codec proofs: a valid string is a fixed point of
   ToValidUTF8, validity is preserved by concatenation, ASCII is valid. *)
From Coq Require Import Lia ZifyBool ZifyN ZifyNat.
Require Import Bytes Utf8.

Arguments N.eqb : simpl never.
Arguments N.leb : simpl never.
Arguments N.ltb : simpl never.

Lemma to_valid_aux_id repl s : forall k inrun,
  valid_utf8_aux s k = true -> to_valid_aux repl s k inrun = s.
Proof.
  induction s as [|b r IH]; intros k inrun H; [reflexivity|].
  cbn [valid_utf8_aux to_valid_aux] in *. destruct k as [|k'].
  - destruct (rune_size (b :: r)) as [n|]; [|discriminate]. rewrite (IH _ _ H). reflexivity.
  - rewrite (IH _ _ H). reflexivity.
Qed.

Lemma to_valid_utf8_id repl s : valid_utf8 s = true -> to_valid_utf8 repl s = s.
Proof. apply to_valid_aux_id. Qed.

(* an accepted rune lies entirely inside the string and is determined by its bytes *)
Lemma rune_size_app a b n : rune_size a = Some n ->
  rune_size (a ++ b) = Some n /\ (1 <= n <= length a)%nat.
Proof.
  destruct a as [|b0 r]; [discriminate|]. cbn [rune_size app].
  destruct (b0 <? 128); [intros H; inversion H; subst; simpl; split; [reflexivity|lia]|].
  destruct (in_range 194 223 b0).
  { destruct r as [|b1 r]; [discriminate|]. cbn [app]. destruct (is_cont b1); [|discriminate].
    intros H; inversion H; subst; simpl; split; [reflexivity|lia]. }
  destruct (in_range 224 239 b0).
  { destruct r as [|b1 [|b2 r]]; try discriminate. cbn [app].
    destruct (in_range _ _ b1 && is_cont b2)%bool; [|discriminate].
    intros H; inversion H; subst; simpl; split; [reflexivity|lia]. }
  destruct (in_range 240 244 b0); [|discriminate].
  destruct r as [|b1 [|b2 [|b3 r]]]; try discriminate. cbn [app].
  destruct (in_range _ _ b1 && is_cont b2 && is_cont b3)%bool; [|discriminate].
  intros H; inversion H; subst; simpl; split; [reflexivity|lia].
Qed.

Lemma valid_utf8_aux_app a b : forall k, (k <= length a)%nat ->
  valid_utf8_aux a k = true -> valid_utf8 b = true -> valid_utf8_aux (a ++ b) k = true.
Proof.
  induction a as [|x r IH]; intros k Hk Ha Hb.
  - simpl in Hk. assert (k = 0%nat) by lia. subst. exact Hb.
  - cbn [app]. cbn [valid_utf8_aux] in *. destruct k as [|k'].
    + destruct (rune_size (x :: r)) as [n|] eqn:ER; [|discriminate].
      change (x :: r ++ b) with ((x :: r) ++ b).
      destruct (rune_size_app _ b _ ER) as [-> Hn]. apply IH; [simpl in Hn; lia|exact Ha|exact Hb].
    + apply IH; [simpl in Hk; lia|exact Ha|exact Hb].
Qed.

Lemma valid_utf8_app a b : valid_utf8 a = true -> valid_utf8 b = true -> valid_utf8 (a ++ b) = true.
Proof. intros Ha Hb. apply valid_utf8_aux_app; [lia|exact Ha|exact Hb]. Qed.

Lemma valid_utf8_ascii s : forallb (fun b => b <? 128) s = true -> valid_utf8 s = true.
Proof.
  unfold valid_utf8. induction s as [|b r IH]; intros H; [reflexivity|].
  cbn [forallb] in H. apply Bool.andb_true_iff in H. destruct H as [Hb Hr].
  cbn [valid_utf8_aux rune_size]. rewrite Hb. apply IH. exact Hr.
Qed.

Lemma valid_utf8_cons_ascii b s : (b <? 128) = true -> valid_utf8 s = true -> valid_utf8 (b :: s) = true.
Proof. intros Hb Hs. unfold valid_utf8. cbn [valid_utf8_aux rune_size]. rewrite Hb. exact Hs. Qed.

Lemma valid_utf8_nil : valid_utf8 [] = true.
Proof. reflexivity. Qed.
