(* Proofs for C09, part 4: the fail-closed theorems for mechanisms that keep state.  A step
   pairs the server's event with the mechanism as it behaves at that step (any method
   name, any encode function, different at every step if it likes); the per-event theorem
   feed_step holds for each of them, and the history theorems follow as before. *)
Require Import Bytes Utf8 Base64 CapLib StsState Sasl SaslSpec FormatLemmas SaslProofs SaslFailClosed.
From Coq Require Import Lia.

Definition step_in_alphabet (x : sasl_mech * event) : Prop := in_alphabet (snd x).
Definition step_fatalb (x : sasl_mech * event) : bool := fatalb (fst x) (snd x).

Lemma rs_cons c cn m e r cn1 o1 cn2 o2 :
  feed (set_sasl c m) cn e = Ok (cn1, o1) -> run_stateful c cn1 r = Ok (cn2, o2) ->
  run_stateful c cn ((m, e) :: r) = Ok (cn2, o1 ++ o2).
Proof. intros H1 H2. cbn [run_stateful]. rewrite H1. cbn [rbind fst snd]. rewrite H2. reflexivity. Qed.

Lemma rs_cons_inv c cn m e r cn2 outs :
  run_stateful c cn ((m, e) :: r) = Ok (cn2, outs) ->
  exists cn1 o1 o2, feed (set_sasl c m) cn e = Ok (cn1, o1) /\ run_stateful c cn1 r = Ok (cn2, o2) /\
    outs = o1 ++ o2.
Proof.
  cbn [run_stateful]. destruct (feed (set_sasl c m) cn e) as [[cn1 o1]|] eqn:Hf; [|discriminate].
  cbn [rbind fst snd]. destruct (run_stateful c cn1 r) as [[cn2' o2]|] eqn:Hr; [|discriminate].
  cbn [rbind fst snd]. intros H. injection H as <- <-. exists cn1, o1, o2.
  split; [reflexivity|]. split; [exact Hr | reflexivity].
Qed.

Theorem rs_total c steps : forall cn, exists r, run_stateful c cn steps = Ok r.
Proof.
  induction steps as [|[m e] r IH]; intros cn; [eexists; reflexivity|].
  cbn [run_stateful]. destruct (feed_total (set_sasl c m) cn e) as [x H]. rewrite H. cbn [rbind].
  destruct (IH (fst x)) as [y H']. rewrite H'. cbn [rbind]. eexists; reflexivity.
Qed.

Theorem rs_app c s1 : forall s2 cn cn' outs,
  run_stateful c cn (s1 ++ s2) = Ok (cn', outs) ->
  exists cn1 o1 o2, run_stateful c cn s1 = Ok (cn1, o1) /\ run_stateful c cn1 s2 = Ok (cn', o2) /\
    outs = o1 ++ o2.
Proof.
  induction s1 as [|[m e] s1 IH]; intros s2 cn cn' outs H.
  - exists cn, [], outs. split; [reflexivity|]. split; [exact H | reflexivity].
  - cbn [app] in H. apply rs_cons_inv in H. destruct H as [cna [oa [ob [Hf [Hr ->]]]]].
    destruct (IH _ _ _ _ Hr) as [cn1 [o1 [o2 [H1 [H2 ->]]]]].
    exists cn1, (oa ++ o1), o2. split; [exact (rs_cons _ _ _ _ _ _ _ _ _ Hf H1)|].
    split; [exact H2 | apply app_assoc].
Qed.

Lemma rs_returned c steps : forall cn t, cn_returned cn = Some t -> run_stateful c cn steps = Ok (cn, []).
Proof.
  induction steps as [|[m e] r IH]; intros cn t H; [reflexivity|].
  exact (rs_cons _ _ _ _ _ _ _ _ _ (feed_returned (set_sasl c m) cn e t H) (IH cn t H)).
Qed.

(* a pure mechanism is the special case of the same mechanism at every step *)
Theorem rs_pure c m h : forall cn,
  run_stateful c cn (List.map (fun e => (m, e)) h) = run (set_sasl c m) cn h.
Proof.
  induction h as [|e h IH]; intros cn; [reflexivity|].
  cbn [List.map run_stateful run]. destruct (feed (set_sasl c m) cn e) as [x|]; [|reflexivity].
  cbn [rbind]. rewrite IH. reflexivity.
Qed.

Section Stateful.
  Variable c : config.
  Hypothesis Htrack : cfg_tracking c = true.

  Lemma feed_step_at m ns e :
    in_alphabet e ->
    exists cn' outs, feed (set_sasl c m) (mkConn ns None) e = Ok (cn', outs) /\ step_spec m ns e cn' outs.
  Proof. exact (feed_step m (set_sasl c m) eq_refl Htrack ns e). Qed.

  Theorem rs_no_cap_end_before_success s1 : forall s2 cn cn' outs,
    Forall step_in_alphabet s1 -> Forall (fun x => ev_cmd (snd x) <> n903) s1 ->
    run_stateful c cn (s1 ++ s2) = Ok (cn', outs) ->
    exists cn1 o1 o2,
      run_stateful c cn s1 = Ok (cn1, o1) /\ run_stateful c cn1 s2 = Ok (cn', o2) /\ outs = o1 ++ o2 /\
      Forall (fun w => ev_cmd w = c_AUTHENTICATE) (writes_of o1) /\ ~ In cap_end (writes_of o1).
  Proof.
    intros s2 cn cn' outs Hal Hno Hrun.
    destruct (rs_app c s1 s2 cn cn' outs Hrun) as [cn1 [o1 [o2 [H1 [H2 Ho]]]]].
    exists cn1, o1, o2. split; [exact H1|]. split; [exact H2|]. split; [exact Ho|].
    assert (HF : Forall (fun w => ev_cmd w = c_AUTHENTICATE) (writes_of o1)).
    { clear Hrun H2 Ho. revert cn cn1 o1 H1.
      induction s1 as [|[m e] s1 IH]; intros cn cn1 o1 H1.
      - cbn [run_stateful] in H1. injection H1 as <- <-. constructor.
      - inversion Hal as [|? ? Hae Hal']; subst. inversion Hno as [|? ? Hne Hno']; subst.
        cbn [snd] in Hne. unfold step_in_alphabet in Hae. cbn [snd] in Hae.
        apply rs_cons_inv in H1. destruct H1 as [cna [oa [ob [Hf [Hr ->]]]]].
        rewrite writes_of_app. apply Forall_app. split; [|exact (IH Hal' Hno' _ _ _ Hr)].
        destruct cn as [ns [t|]].
        + rewrite (feed_returned (set_sasl c m) (mkConn ns (Some t)) e t eq_refl) in Hf.
          injection Hf as <- <-. constructor.
        + destruct (feed_step_at m ns e Hae) as [cn'' [outs'' [Hf' Hs]]].
          rewrite Hf' in Hf. injection Hf as <- <-.
          exact (proj1 (step_spec_writes m _ _ _ _ Hs) Hne). }
    split; [exact HF|]. intros Hin. rewrite Forall_forall in HF.
    exact (cap_end_not_authenticate (HF _ Hin)).
  Qed.

  Theorem rs_stays_open steps : forall ns,
    Forall step_in_alphabet steps -> Forall (fun x => step_fatalb x = false) steps ->
    exists outs, run_stateful c (mkConn ns None) steps = Ok (mkConn ns None, outs).
  Proof.
    induction steps as [|[m e] r IH]; intros ns Hal Hnf; [eexists; reflexivity|].
    inversion Hal as [|? ? Hae Hal']; subst. inversion Hnf as [|? ? Hne Hnf']; subst.
    unfold step_in_alphabet in Hae. unfold step_fatalb in Hne. cbn [fst snd] in Hae, Hne.
    destruct (feed_step_at m ns e Hae) as [cn' [o1 [Hf Hs]]].
    destruct (step_spec_fatal m _ _ _ _ Hs) as [Hns [_ Hopen]]. specialize (Hopen Hne).
    destruct cn' as [ns' r']. cbn [cn_ns cn_returned] in Hns, Hopen. subst ns' r'.
    destruct (IH ns Hal' Hnf') as [o2 Hr].
    eexists. exact (rs_cons _ _ _ _ _ _ _ _ _ Hf Hr).
  Qed.

  Theorem rs_fails_closed s1 m e s2 ns :
    Forall step_in_alphabet s1 -> Forall (fun x => step_fatalb x = false) s1 ->
    in_alphabet e -> fatalb m e = true ->
    exists o1,
      run_stateful c (mkConn ns None) s1 = Ok (mkConn ns None, o1) /\
      run_stateful c (mkConn ns None) (s1 ++ (m, e) :: s2) =
        Ok (mkConn ns (Some (fatal_text m e)), o1 ++ [InjectError (fatal_text m e)]).
  Proof.
    intros Hal Hnf Hae He.
    destruct (rs_stays_open s1 ns Hal Hnf) as [o1 H1]. exists o1. split; [exact H1|].
    destruct (feed_step_at m ns e Hae) as [cn' [oe [Hf Hs]]].
    destruct (step_spec_fatal m _ _ _ _ Hs) as [Hns [Hfat _]]. destruct (Hfat He) as [Hret Hoe].
    destruct cn' as [ns' r']. cbn [cn_ns cn_returned] in Hns, Hret. subst ns' r' oe.
    pose proof (rs_returned c s2 (mkConn ns (Some (fatal_text m e))) (fatal_text m e) eq_refl) as H2.
    pose proof (rs_cons _ _ _ _ _ _ _ _ _ Hf H2) as He2. rewrite app_nil_r in He2.
    clear Hs Hfat.
    revert H1. generalize (mkConn ns None) at 1 3. revert o1.
    induction s1 as [|[mx x] s1 IH]; intros o1 cn0 H1.
    - cbn [run_stateful] in H1. injection H1 as -> <-. exact He2.
    - apply rs_cons_inv in H1. destruct H1 as [cna [oa [ob [Hfa [Hr ->]]]]].
      inversion Hal as [|? ? Hax Hal']; subst. inversion Hnf as [|? ? Hnx Hnf']; subst.
      cbn [app]. rewrite <- app_assoc.
      exact (rs_cons _ _ _ _ _ _ _ _ _ Hfa (IH Hal' Hnf' ob cna Hr)).
  Qed.

  Theorem rs_returned_iff_fatal steps ns cn' outs :
    Forall step_in_alphabet steps -> run_stateful c (mkConn ns None) steps = Ok (cn', outs) ->
    (cn_returned cn' <> None <-> Exists (fun x => step_fatalb x = true) steps).
  Proof.
    intros Hal Hrun.
    assert (Hdec : Forall (fun x => step_fatalb x = false) steps \/
                   exists s1 x s2, steps = s1 ++ x :: s2 /\ Forall (fun y => step_fatalb y = false) s1 /\
                                   step_fatalb x = true).
    { clear. induction steps as [|x r IH]; [left; constructor|].
      destruct (step_fatalb x) eqn:E.
      - right. exists [], x, r. split; [reflexivity|]. split; [constructor | exact E].
      - destruct IH as [IH|[s1 [y [s2 [-> [H1 H2]]]]]].
        + left. constructor; assumption.
        + right. exists (x :: s1), y, s2. split; [reflexivity|]. split; [constructor; assumption | exact H2]. }
    destruct Hdec as [Hnf|[s1 [[m e] [s2 [-> [Hnf He]]]]]].
    - destruct (rs_stays_open steps ns Hal Hnf) as [o Hr]. rewrite Hr in Hrun. injection Hrun as <- _.
      cbn [cn_returned]. split; [congruence|]. intros Hex. exfalso.
      apply Exists_exists in Hex. destruct Hex as [x [Hin Hx]].
      rewrite Forall_forall in Hnf. rewrite (Hnf x Hin) in Hx. discriminate.
    - apply Forall_app in Hal. destruct Hal as [Hal1 Hal2].
      inversion Hal2 as [|? ? Hae _]; subst.
      destruct (rs_fails_closed s1 m e s2 ns Hal1 Hnf Hae He) as [o1 [_ Hr]].
      rewrite Hr in Hrun. injection Hrun as <- _. cbn [cn_returned]. split; [|discriminate].
      intros _. apply Exists_app. right. constructor. exact He.
  Qed.
End Stateful.

(* a two-step mechanism: answers the first challenge, gives up on the second *)
Example stateful_example :
  let m1 := mkMech (bs "X") (fun _ => bs "cmVzcA==") in
  let m2 := mkMech (bs "X") (fun _ => []) in
  match run_stateful ex_cfg (mkConn (Cap.mkSt [] [(c_sasl, None)] sts_init) None)
          [(m1, ex_plus); (m2, srv c_AUTHENTICATE [bs "Y2hhbGxlbmdl"]); (m2, ex_num n903)] with
  | Ok (cn, outs) =>
      cn_returned cn = Some (bs "closing connection: SASL X failed: Y2hhbGxlbmdl") /\
      writes_of outs = [secret_ev c_AUTHENTICATE [bs "cmVzcA=="]]
  | Panic => False
  end.
Proof. vm_compute. split; reflexivity. Qed.
