(* C01: serialising a well-formed event and parsing the line gives the event back. *)
From Coq Require Import Lia ZifyBool ZifyN ZifyNat.
Require Import Bytes Utf8 AMap WireOut GoUpper Tags Event Grammar CodecSpec.
Require Import OrderLemmas AMapLemmas CodecLemmas Utf8Lemmas ParseNF TagsProofs LineProofs GrammarProofs.

Arguments N.eqb : simpl never.
Arguments N.leb : simpl never.
Arguments N.ltb : simpl never.

(* ---- strings that Event.Bytes leaves alone: valid UTF-8 without CR / LF ------------------- *)

Definition okstr (s : str) : Prop := valid_utf8 s = true /\ forallb clean s = true.

Lemma okstr_nil : okstr [].
Proof. split; reflexivity. Qed.

Lemma okstr_app a b : okstr a -> okstr b -> okstr (a ++ b).
Proof.
  intros [Ha1 Ha2] [Hb1 Hb2]. split; [apply valid_utf8_app; assumption|].
  rewrite forallb_app, Ha2, Hb2. reflexivity.
Qed.

Lemma okstr_cons b s : (b <? 128) = true -> clean b = true -> okstr s -> okstr (b :: s).
Proof.
  intros Hb Hc [H1 H2]. split; [apply valid_utf8_cons_ascii; assumption|].
  cbn [forallb]. rewrite Hc, H2. reflexivity.
Qed.

Lemma okstr_clean_field s : clean_field s = true -> okstr s.
Proof.
  unfold clean_field, no_crlf. intros H. apply Bool.andb_true_iff in H. destruct H as [H1 H2].
  split; [exact H1|exact H2].
Qed.

Lemma okstr_join sep l : okstr sep -> (forall p, In p l -> okstr p) -> okstr (join sep l).
Proof.
  intros Hs. induction l as [|x l IH]; intros H; [apply okstr_nil|].
  destruct l as [|y r]; [apply H; left; reflexivity|].
  change (join sep (x :: y :: r)) with (x ++ sep ++ join sep (y :: r)).
  apply okstr_app; [apply H; left; reflexivity|]. apply okstr_app; [exact Hs|].
  apply IH. intros p Hp. apply H. right. exact Hp.
Qed.

Lemma okstr_spaces n : okstr (spaces n).
Proof. induction n as [|n IH]; [apply okstr_nil|]. cbn [spaces repeat]. apply okstr_cons; [reflexivity|reflexivity|exact IH]. Qed.

Lemma okstr_ascii_clean s : forallb (fun b => (b <? 128) && clean b) s = true -> okstr s.
Proof.
  induction s as [|b r IH]; intros H; [apply okstr_nil|].
  cbn [forallb] in H. apply Bool.andb_true_iff in H. destruct H as [Hb Hr].
  apply Bool.andb_true_iff in Hb. destruct Hb as [Hb1 Hb2].
  apply okstr_cons; [exact Hb1|exact Hb2|apply IH; exact Hr].
Qed.

Lemma okstr_fixed s : okstr s -> strip_crlf (to_valid_utf8 [] s) = s.
Proof.
  intros [H1 H2]. rewrite to_valid_utf8_id by exact H1.
  unfold strip_crlf. clear H1. induction s as [|b r IH]; [reflexivity|].
  cbn [forallb] in H2. apply Bool.andb_true_iff in H2. destruct H2 as [Hb Hr].
  cbn [filter]. unfold clean, is_crlf in Hb.
  replace (negb ((b =? 10) || (b =? 13))) with true by lia. rewrite (IH Hr). reflexivity.
Qed.

(* ---- parameters ------------------------------------------------------------------------------ *)

Fixpoint params_ms (l : list str) : list (nat * str) * option (nat * str) :=
  match l with
  | [] => ([], None)
  | [p] => if needs_colon p then ([], Some (0%nat, p)) else ([(0%nat, p)], None)
  | p :: r => let '(ms, tr) := params_ms r in ((0%nat, p) :: ms, tr)
  end.

Lemma needs_colon_false p : needs_colon p = false -> middle_ok p = true.
Proof.
  unfold needs_colon, middle_ok. intros H. apply Bool.orb_false_iff in H. destruct H as [H1 H2].
  destruct p as [|c r]; [discriminate|]. rewrite H1, H2. reflexivity.
Qed.

Lemma wf_mid_middle_ok p : wf_mid p = true -> middle_ok p = true /\ okstr p.
Proof.
  unfold wf_mid, middle_ok. intros H. apply Bool.andb_true_iff in H. destruct H as [H1 H2].
  split; [destruct p; [discriminate|exact H1]|apply okstr_clean_field; exact H2].
Qed.

Lemma params_ms_spec l : wf_params l = true ->
  params_bytes l = render_middles (fst (params_ms l)) ++ render_trailing (snd (params_ms l)) 0
  /\ params_of (fst (params_ms l)) (snd (params_ms l)) = l
  /\ forallb (fun nm => middle_ok (snd nm)) (fst (params_ms l)) = true
  /\ okstr (params_bytes l).
Proof.
  induction l as [|p r IH]; intros H.
  - cbn. repeat split; reflexivity.
  - destruct r as [|q r'].
    + cbn [wf_params] in H. apply okstr_clean_field in H.
      cbn [params_ms params_bytes]. destruct (needs_colon p) eqn:EN; cbn [fst snd].
      * split; [reflexivity|]. split; [reflexivity|]. split; [reflexivity|].
        apply okstr_cons; [reflexivity|reflexivity|]. apply okstr_cons; [reflexivity|reflexivity|exact H].
      * split; [|split; [|split]].
        -- cbn [render_middles flat_map render_trailing fst snd spaces repeat app]. rewrite !app_nil_r. reflexivity.
        -- reflexivity.
        -- cbn [forallb snd]. rewrite (needs_colon_false _ EN). reflexivity.
        -- rewrite app_nil_l. apply okstr_cons; [reflexivity|reflexivity|exact H].
    + change (wf_params (p :: q :: r')) with (wf_mid p && wf_params (q :: r'))%bool in H.
      apply Bool.andb_true_iff in H. destruct H as [Hp Hr].
      destruct (wf_mid_middle_ok _ Hp) as [Hpm Hpo].
      destruct (IH Hr) as (E1 & E2 & E3 & E4).
      change (params_ms (p :: q :: r')) with (let '(ms, tr) := params_ms (q :: r') in ((0%nat, p) :: ms, tr)).
      destruct (params_ms (q :: r')) as [ms tr] eqn:EP. cbn [fst snd] in *.
      change (params_bytes (p :: q :: r')) with (32 :: p ++ params_bytes (q :: r')).
      split; [|split; [|split]].
      * rewrite E1. cbn [render_middles flat_map fst snd spaces repeat app]. rewrite <- app_assoc. reflexivity.
      * unfold params_of in *. cbn [map snd]. cbn [app]. rewrite E2. reflexivity.
      * cbn [forallb snd]. rewrite Hpm, E3. reflexivity.
      * apply okstr_cons; [reflexivity|reflexivity|]. apply okstr_app; assumption.
Qed.

(* ---- source ------------------------------------------------------------------------------------ *)

Definition nonempty_opt (s : str) : option str := match s with [] => None | _ => Some s end.

Definition src_triple (s : wsource) : str * option str * option str :=
  (ws_name s, nonempty_opt (ws_ident s), nonempty_opt (ws_host s)).

Lemma source_write_text s : source_write s = src_text (src_triple s).
Proof.
  unfold source_write, src_text, src_triple, nonempty_opt.
  destruct (ws_ident s); destruct (ws_host s); reflexivity.
Qed.

Lemma meaning_src_triple s : meaning_src (src_triple s) = s.
Proof.
  destruct s as [n i h]. unfold meaning_src, src_triple, nonempty_opt. cbn [ws_name ws_ident ws_host].
  destruct i; destruct h; reflexivity.
Qed.

Lemma memb_false_forallb c s (f : N -> bool) :
  (forall b, b <> c -> f b = true) -> memb c s = false -> forallb (fun b => f b) s = true.
Proof.
  intros Hf H. apply memb_false in H. rewrite forallb_forall. intros x Hx.
  apply Hf. intros ->. exact (H Hx).
Qed.

Lemma notin3_sname s : memb 32 s = false -> memb 33 s = false -> memb 64 s = false ->
  forallb sname_byte s = true.
Proof.
  intros H1 H2 H3. apply memb_false in H1, H2, H3. rewrite forallb_forall. intros x Hx.
  unfold sname_byte.
  assert (x <> 32) by (intros ->; auto). assert (x <> 33) by (intros ->; auto). assert (x <> 64) by (intros ->; auto).
  lia.
Qed.

Lemma notin2_suser s : memb 32 s = false -> memb 64 s = false -> forallb suser_byte s = true.
Proof.
  intros H1 H3. apply memb_false in H1, H3. rewrite forallb_forall. intros x Hx.
  unfold suser_byte.
  assert (x <> 32) by (intros ->; auto). assert (x <> 64) by (intros ->; auto). lia.
Qed.

Lemma wf_wsource_ok s : wf_wsource s = true ->
  src_ok (src_triple s) = true /\ okstr (source_write s).
Proof.
  unfold wf_wsource. intros H.
  repeat (apply Bool.andb_true_iff in H; destruct H as [H ?]).
  repeat match goal with X : negb _ = true |- _ => apply Bool.negb_true_iff in X end.
  repeat match goal with X : clean_field _ = true |- _ => apply okstr_clean_field in X end.
  split.
  - unfold src_ok, src_triple, nonempty_opt.
    repeat (apply Bool.andb_true_iff; split).
    + destruct (ws_name s); [discriminate|reflexivity].
    + apply notin3_sname; assumption.
    + destruct (ws_ident s) eqn:EI; [reflexivity|]. rewrite <- EI in *. apply Bool.andb_true_iff. split.
      * rewrite EI. reflexivity.
      * apply notin2_suser; assumption.
    + destruct (ws_host s) eqn:EH; [reflexivity|]. rewrite <- EH in *. apply Bool.andb_true_iff. split.
      * rewrite EH. reflexivity.
      * apply notin3_sname; assumption.
  - unfold source_write. apply okstr_app; [assumption|]. apply okstr_app.
    + destruct (Nat.ltb 0 (length (ws_ident s))); [|apply okstr_nil].
      apply okstr_cons; [reflexivity|reflexivity|assumption].
    + destruct (Nat.ltb 0 (length (ws_host s))); [|apply okstr_nil].
      apply okstr_cons; [reflexivity|reflexivity|assumption].
Qed.

(* ParseSource and Source.writeTo are inverse on nick[!user][@host] *)
Theorem source_roundtrip : forall s, wf_wsource s = true -> wparse_source (source_write s) = Ok s.
Proof.
  intros s H. destruct (wf_wsource_ok s H) as [Hok _].
  rewrite source_write_text, wparse_source_of, source_of_text by exact Hok.
  rewrite meaning_src_triple. reflexivity.
Qed.

Example source_roundtrip_example :
  wf_wsource (mkWSource (bs "nick") (bs "u!v") (bs "host.example")) = true
  /\ wf_wsource (mkWSource (bs "irc.example.org") [] []) = true.
Proof. vm_compute. split; reflexivity. Qed.

(* ---- the tag section ------------------------------------------------------------------------------ *)

Definition tag_entry (m : tagmap) (k : str) : str * option str :=
  (k, match alookup k m with Some ((_ :: _) as v) => Some v | _ => None end).
Definition tag_list (m : tagmap) : list (str * option str) :=
  List.map (tag_entry m) (sort_strs (akeys m)).

Lemma tag_piece_wire m k : tag_piece m k = wire_tag (tag_entry m k).
Proof. unfold tag_piece, wire_tag, tag_entry. cbn [fst snd]. destruct (alookup k m) as [[|c v]|]; reflexivity. Qed.

Lemma tag_section_text m : tag_section m = 64 :: tags_text (tag_list m).
Proof.
  unfold tag_section, tags_text, tag_list. rewrite map_map. f_equal. f_equal.
  apply map_ext. intros k. apply tag_piece_wire.
Qed.

Lemma length_insert_sorted x l : length (insert_sorted x l) = S (length l).
Proof. induction l as [|y r IH]; [reflexivity|]. cbn [insert_sorted]. destruct (str_leb x y); simpl; [reflexivity|rewrite IH; reflexivity]. Qed.

Lemma length_sort_strs l : length (sort_strs l) = length l.
Proof. induction l as [|x r IH]; [reflexivity|]. unfold sort_strs in *. cbn [fold_right]. rewrite length_insert_sorted, IH. reflexivity. Qed.

Ltac loop_step_fin :=
  match goal with |- (if ?c1 then _ else _) = (if ?c2 then _ else _) =>
    assert (E : c1 = c2) by (f_equal; lia); rewrite E; clear E end;
  rewrite <- ?app_assoc; cbn [app]; reflexivity.

(* one iteration of the loop of Tags.Bytes, in terms of the piece it writes *)
Lemma loop_step m max x rest cur buf : tags_bytes_loop m max (x :: rest) cur buf =
   if Nat.ltb max_tag_length (length buf + (length (tag_piece m x) + (if Nat.ltb cur (max - 1) then 1 else 0)))
   then buf
   else tags_bytes_loop m max rest (S cur) (buf ++ tag_piece m x ++ (if Nat.ltb cur (max - 1) then [59] else [])).
Proof.
  cbn [tags_bytes_loop]. unfold tag_piece.
  destruct (Nat.ltb cur (max - 1)); destruct (alookup x m) as [[|c v]|]; cbn [length].
  all: try (change (Nat.ltb 0 0) with false); try (change (Nat.ltb 0 (S (length v))) with true); cbv iota;
    rewrite ?app_nil_r, ?app_length; cbn [length]; loop_step_fin.
Qed.

Lemma tags_bytes_loop_fits m max : forall names cur buf,
  (cur + length names = max)%nat ->
  (length (buf ++ join semi (List.map (tag_piece m) names)) <= max_tag_length)%nat ->
  tags_bytes_loop m max names cur buf = buf ++ join semi (List.map (tag_piece m) names).
Proof.
  induction names as [|x rest IH]; intros cur buf Hcur Hfit; [cbn; rewrite app_nil_r; reflexivity|].
  rewrite loop_step. cbn [length] in Hcur.
  destruct rest as [|y r].
  - assert (Hmore : Nat.ltb cur (max - 1) = false) by (cbn [length] in Hcur; lia). rewrite Hmore.
    cbn [map join] in *. rewrite app_length in Hfit.
    destruct (Nat.ltb max_tag_length _) eqn:EL; [lia|].
    cbn [tags_bytes_loop]. rewrite app_nil_r. reflexivity.
  - assert (Hmore : Nat.ltb cur (max - 1) = true) by (cbn [length] in Hcur; lia). rewrite Hmore.
    change (join semi (List.map (tag_piece m) (x :: y :: r)))
      with (tag_piece m x ++ [59] ++ join semi (List.map (tag_piece m) (y :: r))) in *.
    rewrite !app_length in Hfit. cbn [length] in Hfit.
    destruct (Nat.ltb max_tag_length _) eqn:EL; [lia|].
    rewrite IH.
    + rewrite <- !app_assoc. reflexivity.
    + cbn [length] in *. lia.
    + rewrite !app_length. cbn [length]. lia.
Qed.

Lemma tagmap_bytes_section m : m <> [] -> (length (tag_section m) <= max_tag_length)%nat ->
  tagmap_bytes m = tag_section m.
Proof.
  intros Hne Hfit. unfold tagmap_bytes. destruct m as [|kv m']; [congruence|].
  rewrite tags_bytes_loop_fits; [reflexivity| |exact Hfit].
  rewrite length_sort_strs. unfold akeys. rewrite map_length. reflexivity.
Qed.

Lemma alookup_In {V} k (m : amap V) v : alookup k m = Some v -> In (k, v) m.
Proof.
  induction m as [|[k' v'] m IH]; [discriminate|]. cbn [alookup].
  destruct (streqb k k') eqn:E.
  - apply streqb_eq in E. subst. intros H; inversion H; subst. left; reflexivity.
  - intros H. right. apply IH. exact H.
Qed.

Lemma alookup_keys {V} k (m : amap V) : In k (akeys m) -> exists v, alookup k m = Some v.
Proof.
  induction m as [|[k' v'] m IH]; [intros []|]. cbn [akeys map fst alookup].
  destruct (streqb k k') eqn:E; [eexists; reflexivity|].
  intros [H|H]; [subst; rewrite streqb_refl in E; discriminate|apply IH; exact H].
Qed.

Lemma alookup_notin {V} k (m : amap V) : ~ In k (akeys m) -> alookup k m = None.
Proof.
  induction m as [|[k' v'] m IH]; [reflexivity|]. cbn [akeys map fst alookup]. intros H.
  destruct (streqb k k') eqn:E; [apply streqb_eq in E; subst; exfalso; apply H; left; reflexivity|].
  apply IH. intros Hin. apply H. right. exact Hin.
Qed.

Lemma tags_fold_entries m names : forall t k,
  alookup k (tags_fold (List.map (tag_entry m) names) t) =
    if mem_str k names then Some (match alookup k m with Some v => v | None => [] end) else alookup k t.
Proof.
  induction names as [|x rest IH]; intros t k; [reflexivity|].
  cbn [map mem_str]. unfold tags_fold in *. cbn [fold_left]. rewrite IH.
  destruct (mem_str k rest); [rewrite Bool.orb_true_r; reflexivity|]. rewrite Bool.orb_false_r.
  rewrite alookup_aset. change (fst (tag_entry m x)) with x. destruct (streqb k x) eqn:E; [|reflexivity].
  apply streqb_eq in E. subst x. unfold tag_entry, wire_val. cbn [fst snd].
  destruct (alookup k m) as [[|c v]|]; reflexivity.
Qed.

Lemma tags_fold_list_lookup m k : alookup k (tags_fold (tag_list m) []) = alookup k m.
Proof.
  unfold tag_list. rewrite tags_fold_entries.
  destruct (mem_str k (sort_strs (akeys m))) eqn:E.
  - apply mem_str_in in E. apply (proj1 (sort_strs_in _ _)) in E. destruct (alookup_keys _ _ E) as [v ->]. reflexivity.
  - apply mem_str_false in E. rewrite sort_strs_in in E. rewrite (alookup_notin _ _ E). reflexivity.
Qed.

Definition wf_tag_entry (kv : str * str) : bool := valid_tag (fst kv) && wf_wire_value (snd kv).

Lemma key_or_plus_ascii b : key_or_plus b = true -> ((b <? 128) && clean b)%bool = true.
Proof. unfold key_or_plus, tag_key_byte, is_upper, is_lower, clean, is_crlf. intros H. lia. Qed.

Lemma valid_tag_okstr k : valid_tag k = true -> okstr k.
Proof.
  intros H. destruct (valid_tag_bytes k H) as [_ Hb]. apply okstr_ascii_clean.
  eapply forallb_impl; [|exact Hb]. intros x Hx. apply key_or_plus_ascii. exact Hx.
Qed.

Lemma tag_list_ok m : m <> [] -> forallb wf_tag_entry m = true ->
  tags_ok (Some (tag_list m)) = true /\ okstr (tags_text (tag_list m)).
Proof.
  intros Hne Hall. rewrite forallb_forall in Hall.
  assert (Hent : forall k, In k (sort_strs (akeys m)) ->
            tag_ok (tag_entry m k) = true /\ okstr (wire_tag (tag_entry m k))).
  { intros k Hk. apply (proj1 (sort_strs_in _ _)) in Hk. destruct (alookup_keys _ _ Hk) as [v Hv].
    pose proof (Hall _ (alookup_In _ _ _ Hv)) as Hkv. unfold wf_tag_entry in Hkv. cbn [fst snd] in Hkv.
    apply Bool.andb_true_iff in Hkv. destruct Hkv as [Hvk Hvv].
    unfold wf_wire_value in Hvv. apply Bool.andb_true_iff in Hvv. destruct Hvv as [Hvv Hcf].
    apply Bool.andb_true_iff in Hvv. destruct Hvv as [H59 H32].
    unfold tag_ok, wire_tag, tag_entry. cbn [fst snd]. rewrite Hv, Hvk.
    destruct v as [|c v']; cbn [andb].
    - split; [reflexivity|]. rewrite app_nil_r. apply valid_tag_okstr. exact Hvk.
    - rewrite H59, H32. split; [reflexivity|].
      apply okstr_app; [apply valid_tag_okstr; exact Hvk|].
      apply okstr_cons; [reflexivity|reflexivity|apply okstr_clean_field; exact Hcf]. }
  assert (Hnn : sort_strs (akeys m) <> []).
  { intros E. apply (f_equal (@length str)) in E. rewrite length_sort_strs in E. unfold akeys in E.
    rewrite map_length in E. destruct m; [congruence|discriminate]. }
  split.
  - unfold tags_ok, tag_list. destruct (sort_strs (akeys m)) as [|k0 ks] eqn:ES; [congruence|].
    rewrite <- ES in *. destruct (List.map (tag_entry m) (sort_strs (akeys m))) as [|e0 es] eqn:EM.
    + rewrite ES in EM. discriminate.
    + rewrite <- EM. rewrite forallb_forall. intros x Hx. apply in_map_iff in Hx.
      destruct Hx as [k [<- Hk]]. apply Hent. exact Hk.
  - unfold tags_text, tag_list. apply okstr_join; [apply okstr_cons; [reflexivity|reflexivity|apply okstr_nil]|].
    intros p Hp. apply in_map_iff in Hp. destruct Hp as [e0 [<- He]]. apply in_map_iff in He.
    destruct He as [k [<- Hk]]. apply Hent. exact Hk.
Qed.

(* ---- C01_encode_parse -------------------------------------------------------------------------------- *)

Definition line_tags (t : wtags) : option (list (str * option str)) :=
  match t with Some ((_ :: _) as m) => Some (tag_list m) | _ => None end.

Lemma wf_command_ok c : wf_command c = true ->
  cmd_ok c = true /\ is_ascii c = true /\ okstr c.
Proof.
  destruct c as [|b r]; [discriminate|]. unfold wf_command. intros H.
  apply Bool.andb_true_iff in H. destruct H as [H Hall]. apply Bool.andb_true_iff in H. destruct H as [H58 H64].
  assert (Hx : forall x, In x (b :: r) -> (33 <= x <= 126)%N).
  { intros x Hin. rewrite forallb_forall in Hall. apply Hall in Hin. lia. }
  repeat split.
  - unfold cmd_ok. rewrite H58, H64. cbn [andb]. apply Bool.negb_true_iff, memb_false.
    intros Hin. apply Hx in Hin. lia.
  - unfold is_ascii. rewrite forallb_forall. intros x Hin. apply Hx in Hin. lia.
  - apply okstr_ascii_clean. rewrite forallb_forall. intros x Hin. apply Hx in Hin.
    unfold clean, is_crlf. lia.
  - apply okstr_ascii_clean. rewrite forallb_forall. intros x Hin. apply Hx in Hin.
    unfold clean, is_crlf. lia.
Qed.

(* the tag map a parse of the serialised event yields: the entries in descending key order *)
Definition reparsed_tags (t : wtags) : wtags :=
  option_map (fun l => tags_fold l []) (line_tags t).

Theorem encode_parse_exact : forall e, wf_event e ->
  parse_event (event_bytes e) =
    Ok (Some (mkWEvent (reparsed_tags (we_tags e)) (we_src e) (to_upper_ascii (we_cmd e)) (we_params e)))
  /\ tags_equiv (reparsed_tags (we_tags e)) (we_tags e).
Proof.
  intros e Hwf. unfold wf_event, wf_eventb in Hwf.
  apply Bool.andb_true_iff in Hwf. destruct Hwf as [Hwf Hmin].
  apply Bool.andb_true_iff in Hwf. destruct Hwf as [Hwf Htags].
  apply Bool.andb_true_iff in Hwf. destruct Hwf as [Hwf Hsrc].
  apply Bool.andb_true_iff in Hwf. destruct Hwf as [Hcmd Hpar].
  destruct (wf_command_ok _ Hcmd) as (Hcok & Hascii & Hcstr).
  destruct (params_ms_spec _ Hpar) as (EP1 & EP2 & EP3 & EP4).
  set (ms := fst (params_ms (we_params e))) in *. set (tr := snd (params_ms (we_params e))) in *.
  (* tags *)
  assert (HT : tags_write (we_tags e) = tags_part (line_tags (we_tags e))
               /\ tags_ok (line_tags (we_tags e)) = true /\ okstr (tags_write (we_tags e))
               /\ tags_equiv (option_map (fun l => tags_fold l []) (line_tags (we_tags e))) (we_tags e)).
  { destruct (we_tags e) as [[|kv m']|] eqn:ET.
    - repeat split; try reflexivity; apply okstr_nil.
    - set (m := kv :: m') in *. unfold wf_wtags in Htags.
      apply Bool.andb_true_iff in Htags. destruct Htags as [Hall Hfit].
      assert (Hfit' : (length (tag_section m) <= max_tag_length)%nat) by (apply Nat.leb_le; exact Hfit).
      destruct (tag_list_ok m ltac:(discriminate) Hall) as [Hok Hstr].
      assert (HW : tags_write (Some m) = tag_section m ++ [32]).
      { unfold tags_write, tags_bytes. rewrite tagmap_bytes_section by (try discriminate; exact Hfit').
        unfold tag_section. reflexivity. }
      split; [|split; [|split]].
      + transitivity (tag_section m ++ [32]); [exact HW|]. rewrite tag_section_text. unfold line_tags, tags_part, m. reflexivity.
      + exact Hok.
      + refine (@eq_ind_r _ _ okstr _ _ HW).
        rewrite tag_section_text. cbn [app]. apply okstr_cons; [reflexivity|reflexivity|].
        apply okstr_app; [exact Hstr|apply okstr_cons; [reflexivity|reflexivity|apply okstr_nil]].
      + unfold line_tags, m. cbn [option_map]. split.
        * unfold tags_present. destruct (tags_fold (tag_list (kv :: m')) []) eqn:EF; [|reflexivity].
          exfalso. pose proof (tags_fold_list_lookup (kv :: m') (fst kv)) as HL. rewrite EF in HL.
          destruct kv as [k0 v0]. cbn [fst alookup] in HL. rewrite streqb_refl in HL. discriminate.
        * intros k. cbn [tags_lookup]. apply tags_fold_list_lookup.
    - repeat split; try reflexivity; apply okstr_nil. }
  destruct HT as (HT1 & HT2 & HT3 & HT4).
  (* source *)
  assert (HS : (match we_src e with Some s => 58 :: source_write s ++ [32] | None => [] end)
                 = src_part (option_map src_triple (we_src e))
               /\ osrc_ok (option_map src_triple (we_src e)) = true
               /\ okstr (match we_src e with Some s => 58 :: source_write s ++ [32] | None => [] end)
               /\ option_map meaning_src (option_map src_triple (we_src e)) = we_src e).
  { destruct (we_src e) as [s|]; cbn [option_map src_part osrc_ok].
    - destruct (wf_wsource_ok s Hsrc) as [Hok Hstr]. split; [|split; [|split]].
      + rewrite source_write_text. reflexivity.
      + exact Hok.
      + apply okstr_cons; [reflexivity|reflexivity|]. apply okstr_app; [exact Hstr|].
        apply okstr_cons; [reflexivity|reflexivity|apply okstr_nil].
      + rewrite meaning_src_triple. reflexivity.
    - repeat split; try reflexivity; apply okstr_nil. }
  destruct HS as (HS1 & HS2 & HS3 & HS4).
  (* the line *)
  assert (Hraw : event_raw_bytes e =
                 body_of (line_tags (we_tags e)) (option_map src_triple (we_src e)) (we_cmd e) ms tr 0).
  { unfold event_raw_bytes, body_of, rest_part. rewrite HT1, HS1, EP1. reflexivity. }
  assert (Hstr : okstr (event_raw_bytes e)).
  { unfold event_raw_bytes. apply okstr_app; [exact HT3|]. apply okstr_app; [exact HS3|].
    apply okstr_app; [exact Hcstr|exact EP4]. }
  assert (Hlen : (2 <= length (event_raw_bytes e))%nat).
  { unfold event_raw_bytes. rewrite !app_length. unfold min_line in Hmin.
    repeat (apply Bool.orb_true_iff in Hmin; destruct Hmin as [Hmin|Hmin]).
    - apply Nat.leb_le in Hmin. clear - Hmin. lia.
    - destruct (we_cmd e) as [|c0 c']; [discriminate|]. destruct (we_params e) as [|p r]; [discriminate|].
      assert (Hpb : (1 <= length (params_bytes (p :: r)))%nat) by (clear; destruct r; cbn [params_bytes length]; lia).
      cbn [length]. clear - Hpb. lia.
    - destruct (we_cmd e) as [|c0 c']; [discriminate|]. destruct (we_src e); [|discriminate]. cbn [length]. clear. lia.
    - destruct (we_cmd e) as [|c0 c']; [discriminate|].
      destruct (we_tags e) as [[|kv m']|]; try discriminate. rewrite HT1. cbn [line_tags tags_part length]. clear. lia. }
  unfold event_bytes. rewrite okstr_fixed by exact Hstr.
  rewrite parse_event_is_nf. rewrite <- (app_nil_r (event_raw_bytes e)). rewrite Hraw.
  rewrite parse_line; try assumption.
  - split; [|exact HT4]. rewrite HS4, EP2, (go_to_upper_ascii _ Hascii). reflexivity.
  - rewrite <- Hraw. apply Hstr.
  - rewrite <- Hraw. exact Hlen.
  - reflexivity.
Qed.


Theorem encode_parse : forall e, wf_event e ->
  exists e', parse_event (event_bytes e) = Ok (Some e') /\ wevent_equiv e' (canon e).
Proof.
  intros e Hwf. destruct (encode_parse_exact e Hwf) as [Hp Ht]. eexists. split; [exact Hp|].
  unfold wevent_equiv, canon. cbn [we_cmd we_params we_src we_tags]. repeat split; try reflexivity; apply Ht.
Qed.

(* without tags the parsed event is syntactically the canonical event *)
Theorem encode_parse_notags : forall e, wf_event e -> we_tags e = None ->
  parse_event (event_bytes e) = Ok (Some (canon e)).
Proof.
  intros e Hwf Hnone. destruct (encode_parse_exact e Hwf) as [Hp _]. rewrite Hp.
  unfold canon, reparsed_tags. rewrite Hnone. reflexivity.
Qed.

(* ---- tag values through the API ------------------------------------------------------------------ *)

Lemma tags_get_lookup t k : tags_get t k = option_map tag_unescape (tags_lookup t k).
Proof. destruct t; reflexivity. Qed.

Lemma tags_equiv_get t1 t2 : tags_equiv t1 t2 -> forall k, tags_get t1 k = tags_get t2 k.
Proof. intros [_ H] k. rewrite !tags_get_lookup, H. reflexivity. Qed.

(* what Set stores satisfies the conditions wf_event puts on a tag entry *)
Lemma valid_tag_value_wire v : valid_tag_value v = true -> wf_wire_value v = true.
Proof.
  unfold valid_tag_value, wf_wire_value, tag_value_byte. intros H.
  assert (Hx : forall x, In x v -> (33 <= x <= 126)%N /\ x <> 59).
  { intros x Hin. rewrite forallb_forall in H. apply H in Hin. lia. }
  repeat (apply Bool.andb_true_iff; split).
  - apply Bool.negb_true_iff, memb_false. intros Hin. apply Hx in Hin. lia.
  - apply Bool.negb_true_iff, memb_false. intros Hin. apply Hx in Hin. lia.
  - apply valid_utf8_ascii. rewrite forallb_forall. intros x Hin. apply Hx in Hin. lia.
  - unfold no_crlf. rewrite forallb_forall. intros x Hin. apply Hx in Hin. unfold is_crlf. lia.
Qed.

Lemma tags_set_entry_wf t k v t' : tags_set t k v = Some t' ->
  wf_tag_entry (k, tag_escape v) = true.
Proof.
  unfold tags_set, wf_tag_entry. cbn [fst snd]. intros H. destruct t as [m|]; [|discriminate].
  destruct (valid_tag k); [|discriminate]. cbn [negb andb] in *.
  destruct (Nat.ltb 0 (length (tag_escape v))) eqn:EL.
  - destruct (valid_tag_value (tag_escape v)) eqn:EV; [|discriminate]. apply valid_tag_value_wire. exact EV.
  - destruct (tag_escape v); [reflexivity|simpl in EL; discriminate].
Qed.

(* a map built by successful Sets from Tags{} has only well-formed entries *)
Lemma forallb_aremove (f : str * str -> bool) k (m : tagmap) :
  forallb f m = true -> forallb f (aremove k m) = true.
Proof.
  induction m as [|[k' v'] m IH]; intros H; [reflexivity|].
  cbn [forallb] in H. apply Bool.andb_true_iff in H. destruct H as [H1 H2].
  cbn [aremove]. destruct (streqb k k'); [apply IH; exact H2|]. cbn [forallb]. rewrite H1, (IH H2). reflexivity.
Qed.

Lemma tags_set_entries_wf m k v m' : forallb wf_tag_entry m = true ->
  tags_set (Some m) k v = Some (Some m') -> forallb wf_tag_entry m' = true.
Proof.
  intros Hm H. pose proof (tags_set_entry_wf _ _ _ _ H) as He.
  unfold tags_set in H. destruct (negb (valid_tag k)); [discriminate|].
  destruct (_ && _)%bool; [discriminate|]. destruct (Nat.ltb _ _); [discriminate|].
  inversion H; subst. unfold aset. cbn [forallb]. rewrite He. apply forallb_aremove. exact Hm.
Qed.

(* Get after a round trip returns the value given to Set *)
Theorem encode_parse_tag_value : forall e k v, wf_event e ->
  tags_lookup (we_tags e) k = Some (tag_escape v) ->
  exists e', parse_event (event_bytes e) = Ok (Some e') /\ tags_get (we_tags e') k = Some v.
Proof.
  intros e k v Hwf Hl. destruct (encode_parse_exact e Hwf) as [Hp Ht]. eexists. split; [exact Hp|].
  cbn [we_tags]. rewrite (tags_equiv_get _ _ Ht), tags_get_lookup, Hl. cbn [option_map].
  rewrite tag_unescape_escape. reflexivity.
Qed.

(* Non-vacuity: three tags using all five escapes (set through tags_set), full source,
   two middles and a ":x y" trailing. *)
Example encode_parse_example :
  let t0 : wtags := Some [] in
  exists t1 t2 t3,
    tags_set t0 (bs "a") [59; 32; 92; 13; 10] = Some t1 /\
    tags_set t1 (bs "+b/c") [] = Some t2 /\
    tags_set t2 (bs "time") (bs "2019-02-21T20:12:03.000Z") = Some t3 /\
    let e := mkWEvent t3 (Some (mkWSource (bs "nick") (bs "user") (bs "host"))) (bs "privmsg")
                      [bs "#c"; [97; 9; 98]; bs ":x y"] in
    wf_event e /\
    exists e', parse_event (event_bytes e) = Ok (Some e') /\
      we_params e' = [bs "#c"; [97; 9; 98]; bs ":x y"] /\
      tags_get (we_tags e') (bs "a") = Some [59; 32; 92; 13; 10].
Proof.
  cbv zeta. do 3 eexists. split; [vm_compute; reflexivity|]. split; [vm_compute; reflexivity|].
  split; [vm_compute; reflexivity|]. split; [vm_compute; reflexivity|].
  eexists. split; [vm_compute; reflexivity|]. split; vm_compute; reflexivity.
Qed.

(* A validly encoded U+FFFD (EF BF BD) is ordinary text: ToValidUTF8 keeps it (only invalid
   bytes are dropped), and an event carrying it in a middle, in the last parameter, in the
   source and in a tag value is well-formed, so C01_encode_parse applies to it. *)
Example replacement_character_kept :
  to_valid_utf8 [] [99; 239; 191; 189; 255; 239; 191; 100] = [99; 239; 191; 189; 100]
  /\ wf_event (mkWEvent (Some [(bs "k", [239; 191; 189])])
                        (Some (mkWSource [110; 239; 191; 189] [239; 191; 189] (bs "h")))
                        (bs "FOO") [[239; 191; 189]; bs "a"; [99; 97; 102; 239; 191; 189; 32; 97; 117]])
  /\ event_bytes (mkWEvent None None (bs "FOO") [[239; 191; 189]; [239; 191; 189]])
     = bs "FOO " ++ [239; 191; 189; 32; 239; 191; 189].
Proof. vm_compute. repeat split; reflexivity. Qed.
