(* C07 — what Connect returns: the machine only returns results the statement allows for
   the history of the connection (Spec/LifecycleSpec.allowed on the features of the trace). *)
Require Import Bytes Lifecycle LifecycleSpec LifecycleSteps LifecycleInv LifecycleTerm.
From Coq Require Import List Bool Arith Lia.
Import ListNotations.

Definition close_none (s : state) : bool := match close_st s with KNone => true | _ => false end.

(* an ERROR t is somewhere between the socket and its delivery *)
Definition err_inflight (s : state) (t : str) : Prop :=
  In (EvError t) (rx s) \/ In (LnEv (EvError t)) (inbuf s) \/
  (exists d, xpc s = XRun (EvError t) d) \/ (exists d, xpc s = XRan (EvError t) d) \/
  rpc s = RRecv (EvError t).

Definition quit_pending (s : state) : Prop :=
  spc s = SQuit \/ exists o, In o (tx s) /\ o_quit o = true.

Record J (f : features) (s : state) : Prop := mkJ {
  j_inflight : f_inflight f = negb (close_none s);
  j_inflight_close : f_inflight f = true -> f_close f = true;
  j_errors : live s = true -> forall t, err_inflight s t -> In t (f_errors f);
  j_peer : live s = true -> peer_closed s = true -> f_peer_closed f = true;
  j_bad : live s = true -> forall x, In (LnBad x) (inbuf s) -> f_bad f = true;
  j_quit : live s = true -> quit_pending s -> f_close f = true;
  j_gerr : live s = true -> err_is_nil (gerr s) = false -> In (gerr s) (allowed f);
  j_cancel : prewait s = true -> cancelled s = true -> err_is_nil (gerr s) = true -> f_close f = true;
  j_post : postwait s = true -> err_is_nil (gerr s) = true -> f_close f = true;
  j_ret : forall r, cpc s = CRet r -> In r (allowed f);
  j_regs : match cpc s with
           | CReg r | CStart r _ => forall o, In o r -> o_quit o = false
           | _ => True
           end
}.

Definition f0 : features := mkFeat false false [] false false false false.

Lemma J_init b : J f0 (init b).
Proof.
  constructor; simpl; try reflexivity; try discriminate; intros; try discriminate; auto.
Qed.

Lemma in_allowed r f :
  In r (allowed f) <->
  (r = ENil /\ f_close f = true) \/ (exists t, r = EErrEvent t /\ In t (f_errors f)) \/
  (r = EIO /\ f_peer_closed f = true) \/ (r = EParse /\ f_bad f = true) \/ (r = ETimedOut /\ f_tick f = true) \/
  (r = EIO /\ f_wfail f = true).
Proof.
  unfold allowed. rewrite !in_app_iff, in_map_iff. split.
  - intros [H|[[t [E H]]|[H|[H|[H|H]]]]].
    + destruct (f_close f); [destruct H as [H|[]]; left; auto|contradiction].
    + right; left; eauto.
    + destruct (f_peer_closed f); [destruct H as [H|[]]; right; right; left; auto|contradiction].
    + destruct (f_bad f); [destruct H as [H|[]]; right; right; right; left; auto|contradiction].
    + destruct (f_tick f); [destruct H as [H|[]]; right; right; right; right; left; auto|contradiction].
    + destruct (f_wfail f); [destruct H as [H|[]]; right; right; right; right; right; auto|contradiction].
  - intros [[-> H]|[[t [-> H]]|[[-> H]|[[-> H]|[[-> H]|[-> H]]]]]].
    + rewrite H. left. left. reflexivity.
    + right. left. eauto.
    + rewrite H. right. right. left. left. reflexivity.
    + rewrite H. right. right. right. left. left. reflexivity.
    + rewrite H. right. right. right. right. left. left. reflexivity.
    + rewrite H. right. right. right. right. right. left. reflexivity.
Qed.

(* within a connection the allowed set only grows *)
Lemma allowed_mono l f r :
  (forall regs p, l <> LConnCall regs p) -> In r (allowed f) -> In r (allowed (feat_step l f)).
Proof.
  intros Hl. rewrite !in_allowed.
  destruct l as [|regs p| | | |e|o|e|r0| | |o|b|ln| |o| | |k]; cbn [feat_step];
    try (exfalso; eapply Hl; reflexivity);
    try (destruct (o_quit o)); try (destruct ln as [[m|t]|x]); try (destruct k as [|[|[|k]]]); cbn;
    intros [[-> H]|[[t0 [-> H]]|[[-> H]|[[-> H]|[[-> H]|[-> H]]]]]]; auto 12;
    try (right; left; exists t0; split; [reflexivity|try apply in_or_app; auto]).
Qed.

(* ---- preservation of J by every transition, field by field ---- *)
Ltac fcase := cbn [feat_step f_close f_inflight f_errors f_peer_closed f_bad f_tick] in *.
Ltac lab_cases :=
  try (match goal with ln : line |- _ => destruct ln as [[?m|?t]|?x] end);
  try (match goal with o : out |- context [o_quit ?o] => destruct (o_quit o) eqn:? end).
Ltac decomp :=
  repeat match goal with
         | H : _ \/ _ |- _ => destruct H
         | H : exists _, _ |- _ => destruct H
         | H : _ /\ _ |- _ => destruct H
         | H : False |- _ => contradiction
         end.
Ltac inj_all :=
  repeat match goal with
         | H : XRun _ _ = XRun _ _ |- _ => injection H as ? ?; subst
         | H : XRan _ _ = XRan _ _ |- _ => injection H as ? ?; subst
         | H : RRecv _ = RRecv _ |- _ => injection H as ?; subst
         | H : LnEv _ = LnEv _ |- _ => injection H as ?; subst
         | H : LnBad _ = LnBad _ |- _ => injection H as ?; subst
         | H : EvError _ = EvError _ |- _ => injection H as ?; subst
         end.
Ltac use_guards s :=
  repeat match goal with E : ?f s = _, H : context [?f s] |- _ => rewrite E in H end;
  repeat match goal with E : ?f s = _ |- context [?f s] => rewrite E end.
Ltac pick :=
  first [ solve [left; auto 3] | solve [right; left; auto 3] | solve [right; right; left; eauto 3]
        | solve [right; right; right; left; eauto 3] | solve [right; right; right; right; auto 3] ].

Ltac split_ifs_hyp :=
  repeat match goal with H : context [if ?c then _ else _] |- _ => destruct c eqn:? end.
Ltac tl_case s :=
  try (match goal with H : context [tl (inbuf s)] |- _ => destruct (inbuf s) eqn:?; cbn [tl] in * end);
  try (match goal with |- context [tl (inbuf s)] => destruct (inbuf s) eqn:?; cbn [tl] in * end).

Ltac jprep s H :=
  tcase H; lab_cases; fcase; lab_cases; fcase.

Lemma J_step_3 f s l s' : Inv s -> J f s -> tstep s l s' ->
  live s' = true -> forall t, err_inflight s' t -> In t (f_errors (feat_step l f)).
Proof.
  intros I [j1 j2 j3 j4 j5 j6 j7 j8 j9 j10 j11] H. unfold live, err_inflight in *.
  jprep s H; intros Lv t0 Hin; tl_case s;
    try (match goal with E : cpc s = _ |- _ => rewrite E in * end); try discriminate;
    use_guards s; rewrite ?in_app_iff in *; cbn [In] in *; decomp; repeat (match goal with Hrl : In _ (removelast _) |- _ => apply in_removelast in Hrl end); subst; try discriminate; inj_all;
    try discriminate;
    try solve [auto 3];
    try solve [(try left); apply j3; [first [reflexivity|assumption]|pick]].
Qed.

Lemma J_step_4 f s l s' : Inv s -> J f s -> tstep s l s' ->
  live s' = true -> peer_closed s' = true -> f_peer_closed (feat_step l f) = true.
Proof.
  intros I [j1 j2 j3 j4 j5 j6 j7 j8 j9 j10 j11] H. unfold live in *.
  jprep s H; intros Lv Pc;
    try (match goal with E : cpc s = _ |- _ => rewrite E in * end); try discriminate;
    try solve [auto 3].
Qed.

Lemma J_step_5 f s l s' : Inv s -> J f s -> tstep s l s' ->
  live s' = true -> forall x, In (LnBad x) (inbuf s') -> f_bad (feat_step l f) = true.
Proof.
  intros I [j1 j2 j3 j4 j5 j6 j7 j8 j9 j10 j11] H. unfold live in *.
  jprep s H; intros Lv x0 Hin; tl_case s;
    try (match goal with E : cpc s = _ |- _ => rewrite E in * end); try discriminate;
    use_guards s; rewrite ?in_app_iff in *; cbn [In] in *; decomp; repeat (match goal with Hrl : In _ (removelast _) |- _ => apply in_removelast in Hrl end); subst; try discriminate; inj_all;
    try discriminate;
    try solve [auto 3];
    try solve [eapply j5; [first [reflexivity|assumption]|cbn [In]; eauto 3]].
Qed.

Lemma existsb_false_forall (r : list out) : existsb o_quit r = false -> forall o, In o r -> o_quit o = false.
Proof.
  induction r as [|a r IH]; simpl; intros H o Ho; [contradiction|].
  apply orb_false_iff in H. destruct H as [H1 H2]. destruct Ho as [->|Ho]; auto.
Qed.

Lemma J_step_6 f s l s' : Inv s -> J f s -> tstep s l s' ->
  live s' = true -> quit_pending s' -> f_close (feat_step l f) = true.
Proof.
  intros I [j1 j2 j3 j4 j5 j6 j7 j8 j9 j10 j11] H. unfold live, quit_pending in *.
  jprep s H; unfold enq in *; intros Lv Hin;
    try (match goal with E : cpc s = _ |- _ => rewrite E in * end); try discriminate;
    split_ifs; decomp; split_ifs_hyp; use_guards s; rewrite ?in_app_iff in *; cbn [In] in *; decomp; subst; try discriminate;
    try solve [auto 3];
    try solve [apply j6; [first [reflexivity|assumption]|first [left; assumption|right; eexists; split; [cbn [In]; eauto 3|eassumption]]]];
    try solve [match goal with Q : o_quit ?o = true |- _ => rewrite (j11 o) in Q; [discriminate|cbn [In]; auto] end].
  all: try congruence.
Qed.

Lemma J_step_11 f s l s' : Inv s -> J f s -> tstep s l s' ->
  match cpc s' with
  | CReg r | CStart r _ => forall o, In o r -> o_quit o = false
  | _ => True
  end.
Proof.
  intros I [j1 j2 j3 j4 j5 j6 j7 j8 j9 j10 j11] H.
  tcase H; try (match goal with E : cpc s = _ |- _ => rewrite E in * end); auto;
    try (intros; apply j11; cbn [In]; auto; fail);
    try (apply existsb_false_forall; assumption).
Qed.

Lemma J_step_8 f s l s' : Inv s -> J f s -> tstep s l s' ->
  prewait s' = true -> cancelled s' = true -> err_is_nil (gerr s') = true -> f_close (feat_step l f) = true.
Proof.
  intros I [j1 j2 j3 j4 j5 j6 j7 j8 j9 j10 j11] H. unfold prewait, live, close_none, quit_pending in *.
  jprep s H; intros Pw Cc Gn;
    try (match goal with E : cpc s = _ |- _ => rewrite E in * end); try discriminate;
    use_guards s; cbn in *; try discriminate;
    try solve [auto 3];
    try solve [destruct (cpc s); try discriminate; apply j6; [reflexivity|left; first [assumption|reflexivity]]].
  all: destruct (cpc s); try discriminate; exact (j6 eq_refl (or_introl eq_refl)).
Qed.

Lemma J_step_9 f s l s' : Inv s -> J f s -> tstep s l s' ->
  postwait s' = true -> err_is_nil (gerr s') = true -> f_close (feat_step l f) = true.
Proof.
  intros I [j1 j2 j3 j4 j5 j6 j7 j8 j9 j10 j11] H. unfold postwait, prewait in *.
  jprep s H; intros Pw Gn;
    try (match goal with E : cpc s = _ |- _ => rewrite E in * end); try discriminate;
    use_guards s; cbn in *; try discriminate;
    try solve [auto 3].
  all: try (apply j8; [first [reflexivity|rewrite H; reflexivity]| |assumption]);
    try (unfold Inv in I; rewrite H in I; destruct I as (_&_&_&Id&_); apply Id;
         unfold drainmode; apply loops_done_inv in H0; destruct H0 as (X&_); rewrite X; reflexivity).
  all: try congruence.
Qed.


Lemma tstep_conn_idle s regs p s' : tstep s (LConnCall regs p) s' -> cpc s = CIdle.
Proof. intros H. inversion H; assumption. Qed.

Lemma allowed_live_mono f s l s' r : tstep s l s' -> live s = true ->
  In r (allowed f) -> In r (allowed (feat_step l f)).
Proof.
  intros H Lv Hr. apply allowed_mono; [|exact Hr].
  intros regs p E. subst l. apply tstep_conn_idle in H. unfold live in Lv. rewrite H in Lv. discriminate.
Qed.

(* a failing read before the teardown means the peer closed *)
Lemma io_fail_peer s : Inv s -> peer_closed s || sock_closed s = true -> rpc s = RDec ->
  live s = true /\ peer_closed s = true.
Proof.
  intros I H L. unfold Inv in I. unfold live.
  destruct (cpc s); decomp;
    try (match goal with Ld : loops_done s = true |- _ =>
           apply loops_done_inv in Ld; destruct Ld as (_&Lr&Ls&_); congruence end);
    match goal with Sc : sock_closed s = false |- _ => rewrite Sc, orb_false_r in H; auto end.
Qed.

Lemma J_step_7 f s l s' : Inv s -> J f s -> tstep s l s' ->
  live s' = true -> err_is_nil (gerr s') = false -> In (gerr s') (allowed (feat_step l f)).
Proof.
  intros I Jf H. pose proof (allowed_live_mono f s l s') as Mono.
  destruct Jf as [j1 j2 j3 j4 j5 j6 j7 j8 j9 j10 j11].
  assert (Keep : live s = true -> gerr s' = gerr s -> err_is_nil (gerr s') = false ->
                 In (gerr s') (allowed (feat_step l f))).
  { intros Lv E N. rewrite E in *. apply Mono; auto. }
  unfold live in *.
  tcase H; intros Lv Gn;
    try (match goal with E : cpc s = _ |- _ => rewrite E in * end); try discriminate;
    try solve [apply Keep; auto].
  - (* ERROR handled by the normal branch *)
    cbn [feat_step]. apply in_allowed. right. left. exists t. split; [reflexivity|].
    apply j3; [exact Lv|]. right. right. right. left. exists false. exact H.
  - (* unparsable line *)
    cbn [feat_step]. apply in_allowed. right. right. right. left. split; [reflexivity|].
    apply (j5 Lv x). rewrite H0. left. reflexivity.
  - (* read error *)
    cbn [feat_step]. apply in_allowed. right. right. left. split; [reflexivity|].
    destruct (io_fail_peer s I H1 H) as [_ Pc]. apply j4; assumption.
  - (* write error of a line other than QUIT *)
    apply in_allowed. right. right. right. right. right. split; reflexivity.
  - (* ping timeout *)
    apply in_allowed. right. right. right. right. left. split; reflexivity.
Qed.

Lemma J_step_10 f s l s' : Inv s -> J f s -> tstep s l s' ->
  forall r, cpc s' = CRet r -> In r (allowed (feat_step l f)).
Proof.
  intros I Jf H. pose proof (fun r => allowed_live_mono f s l s' r H) as Mono.
  destruct Jf as [j1 j2 j3 j4 j5 j6 j7 j8 j9 j10 j11].
  unfold live, postwait in *.
  tcase H; intros r0 Hr;
    try (match goal with E : cpc s = _ |- _ => rewrite E in * end); try discriminate;
    try solve [apply Mono; [first [reflexivity|rewrite Hr; reflexivity]|apply j10; first [assumption|reflexivity]]].
  injection Hr as <-. cbn [feat_step].
  destruct (err_is_nil (gerr s)) eqn:N.
  - destruct (gerr s); try discriminate. apply in_allowed. left. split; [reflexivity|].
    apply j9; reflexivity.
  - apply j7; reflexivity.
Qed.


Lemma J_step_1 f s l s' : Inv s -> J f s -> tstep s l s' -> f_inflight (feat_step l f) = negb (close_none s').
Proof.
  intros I [j1 j2 j3 j4 j5 j6 j7 j8 j9 j10 j11] H. unfold close_none in *.
  tcase H; fcase; lab_cases; fcase;
    try (match goal with E : close_st s = _ |- _ => rewrite E in * end); cbn in *; auto.
Qed.

Lemma J_step_2 f s l s' : Inv s -> J f s -> tstep s l s' ->
  f_inflight (feat_step l f) = true -> f_close (feat_step l f) = true.
Proof.
  intros I [j1 j2 j3 j4 j5 j6 j7 j8 j9 j10 j11] H.
  destruct H; fcase; lab_cases; fcase; auto; try (intros; discriminate).
Qed.

Lemma J_step f s l s' : Inv s -> J f s -> tstep s l s' -> J (feat_step l f) s'.
Proof.
  intros I Jf H. constructor.
  - eapply J_step_1; eauto.
  - eapply J_step_2; eauto.
  - eapply J_step_3; eauto.
  - eapply J_step_4; eauto.
  - eapply J_step_5; eauto.
  - eapply J_step_6; eauto.
  - eapply J_step_7; eauto.
  - eapply J_step_8; eauto.
  - eapply J_step_9; eauto.
  - eapply J_step_10; eauto.
  - eapply J_step_11; eauto.
Qed.

Lemma feat_of_snoc tr l : feat_of (tr ++ [l]) = feat_step l (feat_of tr).
Proof. unfold feat_of. rewrite fold_left_app. reflexivity. Qed.

Lemma J_exec b tr s : exec b tr s -> J (feat_of tr) s.
Proof.
  induction 1 as [|tr s s' Hex IH Hs|tr s l s' Hex IH _ Hs].
  - apply J_init.
  - change (feat_of tr) with (feat_step Tau (feat_of tr)).
    eapply J_step; [eapply Inv_exec; exact Hex|exact IH|apply step_tstep; exact Hs].
  - rewrite feat_of_snoc.
    eapply J_step; [eapply Inv_exec; exact Hex|exact IH|apply step_tstep; exact Hs].
Qed.

(* C07_result: whatever Connect returns is allowed by the history of this connection *)
Theorem result_allowed b tr s r : exec b tr s -> cpc s = CRet r -> In r (allowed (feat_of tr)).
Proof. intros H E. exact (j_ret _ _ (J_exec b tr s H) r E). Qed.

(* ... spelled out *)
Corollary result_cases b tr s r : exec b tr s -> cpc s = CRet r ->
  let f := feat_of tr in
  (r = ENil /\ f_close f = true) \/
  (exists t, r = EErrEvent t /\ In t (f_errors f)) \/
  (r = EIO /\ f_peer_closed f = true) \/
  (r = EParse /\ f_bad f = true) \/
  (r = ETimedOut /\ f_tick f = true) \/
  (r = EIO /\ f_wfail f = true).
Proof. intros H E f. apply in_allowed. eapply result_allowed; eauto. Qed.

(* nil after Close/Quit: when nothing else happened on the connection *)
Corollary result_nil b tr s r : exec b tr s -> cpc s = CRet r ->
  f_errors (feat_of tr) = [] -> f_peer_closed (feat_of tr) = false ->
  f_bad (feat_of tr) = false -> f_tick (feat_of tr) = false -> f_wfail (feat_of tr) = false -> r = ENil.
Proof.
  intros H E He Hp Hb Ht Hw. destruct (result_cases b tr s r H E) as [[-> _]|[[t [_ Hin]]|[[_ X]|[[_ X]|[[_ X]|[_ X]]]]]];
    try reflexivity; try congruence. rewrite He in Hin. contradiction.
Qed.

(* ErrEvent t after ERROR t: when the application did not ask to close and the peer stayed *)
Corollary result_error b tr s r t : exec b tr s -> cpc s = CRet r ->
  f_close (feat_of tr) = false -> f_errors (feat_of tr) = [t] -> f_peer_closed (feat_of tr) = false ->
  f_bad (feat_of tr) = false -> f_tick (feat_of tr) = false -> f_wfail (feat_of tr) = false -> r = EErrEvent t.
Proof.
  intros H E Hc He Hp Hb Ht Hw. destruct (result_cases b tr s r H E) as [[_ X]|[[t0 [-> Hin]]|[[_ X]|[[_ X]|[[_ X]|[_ X]]]]]];
    try congruence. rewrite He in Hin. destruct Hin as [->|[]]. reflexivity.
Qed.

(* an I/O error after the peer closed: when that is all that happened *)
Corollary result_eof b tr s r : exec b tr s -> cpc s = CRet r ->
  f_close (feat_of tr) = false -> f_errors (feat_of tr) = [] ->
  f_bad (feat_of tr) = false -> f_tick (feat_of tr) = false -> r = EIO.
Proof.
  intros H E Hc He Hb Ht. destruct (result_cases b tr s r H E) as [[_ X]|[[t0 [_ Hin]]|[[-> _]|[[_ X]|[[_ X]|[-> _]]]]]];
    try congruence; try reflexivity. rewrite He in Hin. contradiction.
Qed.

(* ERROR t, then the peer closes at once: exactly { ErrEvent t, I/O error } *)
Corollary result_error_then_close b tr s r t : exec b tr s -> cpc s = CRet r ->
  f_close (feat_of tr) = false -> f_errors (feat_of tr) = [t] ->
  f_bad (feat_of tr) = false -> f_tick (feat_of tr) = false -> r = EErrEvent t \/ r = EIO.
Proof.
  intros H E Hc He Hb Ht. destruct (result_cases b tr s r H E) as [[_ X]|[[t0 [-> Hin]]|[[-> _]|[[_ X]|[[_ X]|[-> _]]]]]];
    try congruence; auto. rewrite He in Hin. destruct Hin as [->|[]]. auto.
Qed.

(* Both members of that set are reachable after the same behaviour of the peer (ERROR "x",
   then close): the checker accepts a session ending with either result, and it is sound. *)
Require Import LifecycleChecker.
Definition ex_err : event := EvError [120%N].
Example error_then_close_errevent :
  exists tr s, visible tr = [LConnCall [] false; LInit; LPeerSend (LnEv ex_err); LPeerClose;
                             LDeliver ex_err; LDisc; LReturn (EErrEvent [120%N])]
               /\ wexec (init 7) tr s.
Proof.
  apply (accepts_sound 50 [LConnCall [] false; LInit; LPeerSend (LnEv ex_err); LPeerClose;
                           LDeliver ex_err; LDisc; LReturn (EErrEvent [120%N])]).
  vm_compute. reflexivity.
Qed.
Example error_then_close_ioerr :
  exists tr s, visible tr = [LConnCall [] false; LInit; LPeerSend (LnEv ex_err); LPeerClose;
                             LDeliver ex_err; LDisc; LReturn EIO]
               /\ wexec (init 7) tr s.
Proof.
  apply (accepts_sound 50 [LConnCall [] false; LInit; LPeerSend (LnEv ex_err); LPeerClose;
                           LDeliver ex_err; LDisc; LReturn EIO]).
  vm_compute. reflexivity.
Qed.
