(* Correspondence suites for C06: suite name -> arguments -> observation text. *)
Require Import Bytes AMap Dispatch DispatchSpec DispatchMachine.

Definition one_byte06 (b : N) (s : str) : bool := match s with [c] => c =? b | _ => false end.

Fixpoint insert_N (x : N) (l : list N) : list N :=
  match l with
  | [] => [x]
  | y :: r => if x <=? y then x :: l else y :: insert_N x r
  end.
Definition sort_N (l : list N) : list N := fold_right insert_N [] l.
Definition show_Ns (l : list N) : str := join comma (List.map show_N (sort_N l)).

(* ---- dispatch.table: an operation sequence against one Caller ------------- *)

Record tstate := mkT {
  ts_tbl : table;
  ts_cuids : list str;        (* cuid returned for handler k (k = number of earlier registrations) *)
  ts_rets : list bool;        (* what the AddTmp function of handler k returns *)
  ts_closed : list N;         (* handlers whose done channel has been closed *)
}.

Fixpoint memN (x : N) (l : list N) : bool :=
  match l with [] => false | y :: r => (x =? y) || memN x r end.

(* once.Do(close(done)): of the handlers whose finish ran, those not closed before, once each *)
Fixpoint newly_closed (fin closed : list N) : list N :=
  match fin with
  | [] => []
  | h :: r => if memN h closed then newly_closed r closed else h :: newly_closed r (h :: closed)
  end.

Definition uid_str (k : nat) : str := 117 :: show_nat k.          (* "u<k>" *)

Definition ret_of (st : tstate) (h : N) : bool := nth (N.to_nat h) (ts_rets st) false.

(* "a:<hex of the command part of the cuid>:<T when it ends in :bg>" *)
Definition show_cuid (c : str) : str :=
  [97; 58] ++ hex (fst (cuid_to_id c)) ++ [58] ++ show_bool (suffixb bg_suffix c).

Definition do_add_gen (internal : bool) (st : tstate) (bg tmp ret : bool) (cmd : str) : tstate * str :=
  let k := length (ts_cuids st) in
  let (t', cuid) := register (ts_tbl st) internal bg cmd (uid_str k) (mkH (N.of_nat k) tmp) in
  (mkT t' (ts_cuids st ++ [cuid]) (ts_rets st ++ [ret]) (ts_closed st), cuid).

Definition do_add := do_add_gen false.

Definition lower_cmd_part (c : str) : str :=
  match index_byte colon c with
  | None => c
  | Some i => to_lower_ascii (firstn i c) ++ skipn i c
  end.

Definition toggle_bg (c : str) : str :=
  if suffixb bg_suffix c then firstn (length c - 3)%nat c else c ++ bg_suffix.

Definition remove_arg (st : tstate) (mode arg : str) : str :=
  let byh := match parse_nat arg with
             | Some k => nth (N.to_nat k) (ts_cuids st) []
             | None => []
             end in
  if one_byte06 48 mode then byh
  else if one_byte06 49 mode then lower_cmd_part byh
  else if one_byte06 50 mode then toggle_bg byh
  else arg.

Fixpoint run_ops (fuel : nat) (st : tstate) (args : list str) : list str :=
  match fuel with
  | O => []
  | S f =>
    match args with
    | [] => []
    | op :: rest =>
      if one_byte06 65 op || one_byte06 72 op then                    (* A / H cmd *)
        match rest with
        | cmd :: r => let (st', c) := do_add st false false false cmd in show_cuid c :: run_ops f st' r
        | _ => [bs "?args"]
        end
      else if one_byte06 66 op then                                    (* B cmd *)
        match rest with
        | cmd :: r => let (st', c) := do_add st true false false cmd in show_cuid c :: run_ops f st' r
        | _ => [bs "?args"]
        end
      else if one_byte06 73 op then                                    (* I cmd bg: internal registration *)
        match rest with
        | cmd :: b :: r =>
          let (st', c) := do_add_gen true st (one_byte06 49 b) false false cmd in show_cuid c :: run_ops f st' r
        | _ => [bs "?args"]
        end
      else if one_byte06 84 op then                                    (* T cmd ret *)
        match rest with
        | cmd :: rt :: r =>
          let (st', c) := do_add st true true (one_byte06 49 rt) cmd in show_cuid c :: run_ops f st' r
        | _ => [bs "?args"]
        end
      else if one_byte06 68 op then                                    (* D cmd: AddTmp, deadline passes *)
        match rest with
        | cmd :: r =>
          let k := N.of_nat (length (ts_cuids st)) in
          let (st1, c) := do_add st true true false cmd in
          let (t2, _) := remove (ts_tbl st1) c in                      (* finish: Remove, then close *)
          (show_cuid c ++ [58] ++ show_bool true)
            :: run_ops f (mkT t2 (ts_cuids st1) (ts_rets st1) (k :: ts_closed st1)) r
        | _ => [bs "?args"]
        end
      else if one_byte06 82 op then                                    (* R mode arg *)
        match rest with
        | mode :: arg :: r =>
          let (t', ok) := remove (ts_tbl st) (remove_arg st mode arg) in
          ([114; 58] ++ show_bool ok) :: run_ops f (mkT t' (ts_cuids st) (ts_rets st) (ts_closed st)) r
        | _ => [bs "?args"]
        end
      else if one_byte06 67 op then                                    (* C cmd *)
        match rest with
        | cmd :: r => [99] :: run_ops f (mkT (clear (ts_tbl st) cmd) (ts_cuids st) (ts_rets st) (ts_closed st)) r
        | _ => [bs "?args"]
        end
      else if one_byte06 88 op then                                    (* X *)
        [120] :: run_ops f (mkT (clear_all (ts_tbl st)) (ts_cuids st) (ts_rets st) (ts_closed st)) rest
      else if one_byte06 78 op then                                    (* N cmd *)
        match rest with
        | cmd :: r => ([110; 58] ++ show_nat (table_count (ts_tbl st) cmd)) :: run_ops f st r
        | _ => [bs "?args"]
        end
      else if one_byte06 76 op then                                    (* L *)
        ([108; 58] ++ show_nat (table_len (ts_tbl st))) :: run_ops f st rest
      else if one_byte06 69 op then                                    (* E cmd echo *)
        match rest with
        | cmd :: ec :: r =>
          match run_event (ts_tbl st) (mkEv cmd (one_byte06 49 ec)) (ret_of st) with
          | (t', inv, fin) =>
            let closed := newly_closed fin (ts_closed st) in
            ([101; 58] ++ show_Ns inv ++ [124] ++ show_Ns closed)
              :: run_ops f (mkT t' (ts_cuids st) (ts_rets st) (closed ++ ts_closed st)) r
          end
        | _ => [bs "?args"]
        end
      else [bs "?op"]
    end
  end.

Definition show_table_ops (args : list str) : str :=
  join semi (run_ops (S (length args)) (mkT empty_table [] [] []) args).

(* ---- dispatch.trace: trace acceptance ---------------------------------------------- *)

Definition nat_of (s : str) : nat := match parse_nat s with Some n => N.to_nat n | None => 0%nat end.
Definition N_of (s : str) : N := match parse_nat s with Some n => n | None => 0 end.

(* the fresh-id oracle of the driver: handler h gets "a" repeated h+1 times (uids are not
   observable; what matters is that they are distinct, ':'-free and not empty) *)
Definition drv_uid (h : N) : str := repeat 97 (S (N.to_nat h)).

(* take k groups of [w] arguments *)
Fixpoint take_groups (k w : nat) (args : list str) : list (list str) * list str :=
  match k with
  | O => ([], args)
  | S k' => let (gs, rest) := take_groups k' w (skipn w args) in (firstn w args :: gs, rest)
  end.

Definition decl_of (g : list str) : hdecl :=
  match g with
  | cmd :: flags :: _ => mkHD cmd (memb 98 flags) (memb 116 flags) (memb 105 flags) (memb 100 flags)
  | _ => mkHD [] false false false false
  end.

Definition rop_of (clears : list str) (tok : str) : rop :=
  match tok with
  | 97 :: r => RAdd (N_of r)                      (* a<h> *)
  | 109 :: r => RRemove (N_of r)                  (* m<h> *)
  | 107 :: r => RClear (nth (nat_of r) clears []) (* k<j> *)
  | _ => RClearAll                                 (* K *)
  end.

Definition outcome_of (s : str) : outcome :=
  if one_byte06 112 s then OPanic else ORet (one_byte06 49 s).

Definition action_of (clears : list str) (tok : str) : option action :=
  match split_byte 46 tok with
  | [[118]; n] => Some (AArrive (nat_of n))
  | [[100]; n] => Some (ADeliver (nat_of n))
  | [[115]; n; k] => Some (ASnap (nat_of n) (nat_of k))
  | [[103]; n; h] => Some (ASignal (nat_of n) (N_of h))
  | [[83]; n; h] => Some (AStart (nat_of n) (N_of h))
  | [[69]; n; h; o] => Some (AEnd (nat_of n) (N_of h) (outcome_of o))
  | [[98]; n; k] => Some (ABarrier (nat_of n) (nat_of k))
  | [[99]; i; op] => Some (ACall (nat_of i) (rop_of clears op))
  | [[108]; i; op] => Some (ALin (nat_of i) (rop_of clears op))
  | [[114]; i; op; r] => Some (ARet (nat_of i) (rop_of clears op) (one_byte06 49 r))
  | [[116]; h] => Some (ATmpRemove (N_of h))
  | [[120]; h] => Some (AClose (N_of h))
  | _ => None
  end.

Fixpoint actions_of (clears : list str) (toks : list str) : option (list action) :=
  match toks with
  | [] => Some []
  | t :: r =>
    match action_of clears t, actions_of clears r with
    | Some a, Some l => Some (a :: l)
    | _, _ => None
    end
  end.

(* threads: for each, a count then that many op tokens *)
Fixpoint take_threads (k : nat) (clears : list str) (args : list str) : list (list rop) * list str :=
  match k with
  | O => ([], args)
  | S k' =>
    match args with
    | [] => ([], [])
    | cnt :: rest =>
      let m := nat_of cnt in
      let (ts, rest') := take_threads k' clears (skipn m rest) in
      (List.map (rop_of clears) (firstn m rest) :: ts, rest')
    end
  end.

(* index of the first action of the schedule the machine cannot take *)
Fixpoint stuck_at (sc : scenario) (s : state) (tr : list action) (i : nat) : option nat :=
  match tr with
  | [] => None
  | a :: r => match step sc s a with Some s' => stuck_at sc s' r (S i) | None => Some i end
  end.

(* arguments: recover, nH, nH x [cmd, flags], nInit, nInit x [h], nE, nE x [cmd, source nick, client's nick when the line is read], nC,
   nC x [clear command], nT, nT x [count, count x [op]], nCert, nCert x [action], then the
   observed actions *)
Definition show_trace (args : list str) : str :=
  match args with
  | rc :: nh :: r0 =>
    let (hs, r1) := take_groups (nat_of nh) 2 r0 in
    match r1 with
    | ni :: r1' =>
      let inits := List.map N_of (firstn (nat_of ni) r1') in
      match skipn (nat_of ni) r1' with
      | ne :: r2 =>
        let (es, r3) := take_groups (nat_of ne) 3 r2 in
        match r3 with
        | nc :: r3' =>
          let clears := firstn (nat_of nc) r3' in
          match skipn (nat_of nc) r3' with
          | nt :: r4 =>
            let (ths, r5) := take_threads (nat_of nt) clears r4 in
            match r5 with
            | ncert :: r6 =>
              let decls := List.map decl_of hs in
              let evs := List.map (fun g => match g with
                                            | c :: src :: nick :: _ => received c src nick
                                            | _ => mkEv [] false
                                            end) es in
              let sc := mkSc drv_uid decls inits evs ths (memb 49 rc) in
              match actions_of clears (firstn (nat_of ncert) r6), actions_of clears (skipn (nat_of ncert) r6) with
              | Some cert, Some obs =>
                if accepts sc cert obs then bs "accept"
                else if negb (wf_scb sc) then bs "reject:scenario"
                else match stuck_at sc (init sc) cert 0 with
                     | Some i => bs "reject:stuck@" ++ show_nat i
                     | None => bs "reject:projection"
                     end
              | _, _ => bs "?action"
              end
            | _ => bs "?args"
            end
          | _ => bs "?args"
          end
        | _ => bs "?args"
        end
      | _ => bs "?args"
      end
    | _ => bs "?args"
    end
  | _ => bs "?args"
  end.

(* ---- dispatch.tmpdone: AddTmp whose handler is removed by somebody else first ------------ *)

(* mode ("d" deadline passes / "r" the function returns true), remover ("R" Remove(cuid),
   "C" Clear(cmd), "X" ClearAll, "-" nobody), cmd.  The remover acts after the registration
   and before the wrapper's / deadline goroutine's finish (Remove(cuid), then the once-only
   close of done). *)
Definition show_tmpdone (args : list str) : str :=
  match args with
  | _ :: rem :: cmd :: _ =>
    let (t0, cuid) := register empty_table false true cmd (uid_str 0) (mkH 0 true) in
    let '(t1, r1) :=
      if one_byte06 82 rem then let (t, ok) := remove t0 cuid in (t, show_bool ok)
      else if one_byte06 67 rem then (clear t0 cmd, [45])
      else if one_byte06 88 rem then (clear_all t0, [45])
      else (t0, [45]) in
    let (_, _) := remove t1 cuid in          (* finish: Remove (finds nothing), then close *)
    bs "ok1=" ++ r1 ++ bs ";closed=" ++ show_bool true
  | _ => bs "?args"
  end.

(* ---- dispatch.panic: two events against a wildcard recorder and a handler that panics ------- *)

(* kind ("fg" / "bg" / "tmp"), cmd.  With a recover function a panic is a return that tells
   the recover function; AddTmp's wrapper does not reach finish.  The table is unchanged. *)
Definition show_panic (args : list str) : str :=
  match args with
  | (99 :: _) :: _ :: _ =>
    (* CTCP kinds ("cw", "cw+", "cs"): the CTCP registry is C14's model; with a recover
       function a panicking CTCP handler is a return that tells the recover function *)
    bs "recovered=2;delivered=2;panicker=2"
  | kind :: cmd :: _ =>
    let bg := negb (streqb kind (bs "fg")) in
    let tmp := streqb kind (bs "tmp") in
    let ev := if streqb (go_upper cmd) star then bs "FOO" else go_upper cmd in
    let (t0, _) := register empty_table false false star (uid_str 0) (mkH 0 false) in
    let (t1, _) := register t0 false bg cmd (uid_str 1) (mkH 1 tmp) in
    let once := dispatch_ids t1 (mkEv ev false) in
    let cnt (h : N) := (2 * length (filter (fun x => N.eqb x h) once))%nat in
    bs "recovered=" ++ show_nat (cnt 1) ++ bs ";delivered=" ++ show_nat (cnt 0)
      ++ bs ";panicker=" ++ show_nat (cnt 1)
  | _ => bs "?args"
  end.

Definition run_C06 (suite : str) (args : list str) : option str :=
  if streqb suite (bs "dispatch.table") then Some (show_table_ops args)
  else if streqb suite (bs "dispatch.trace") then Some (show_trace args)
  else if streqb suite (bs "dispatch.tmpdone") then Some (show_tmpdone args)
  else if streqb suite (bs "dispatch.panic") then Some (show_panic args)
  else None.
