(* Correspondence suites for C06: suite name -> arguments -> observation text. *)
Require Import Bytes AMap Dispatch.

Definition one_byte06 (b : N) (s : str) : bool := match s with [c] => c =? b | _ => false end.

Fixpoint insert_N (x : N) (l : list N) : list N :=
  match l with
  | [] => [x]
  | y :: r => if x <=? y then x :: l else y :: insert_N x r
  end.
Definition sort_N (l : list N) : list N := fold_right insert_N [] l.
Definition show_Ns (l : list N) : str := join comma (List.map show_N (sort_N l)).

(* ---- dispatch.table: an operation sequence against one Caller ------------- *)

Record tstate := mkT {
  ts_tbl : table;
  ts_cuids : list str;        (* cuid returned for handler k (k = number of earlier registrations) *)
  ts_rets : list bool;        (* what the AddTmp function of handler k returns *)
}.

Definition uid_str (k : nat) : str := 117 :: show_nat k.          (* "u<k>" *)

Definition ret_of (st : tstate) (h : N) : bool := nth (N.to_nat h) (ts_rets st) false.

(* "a:<hex of the command part of the cuid>:<T when it ends in :bg>" *)
Definition show_cuid (c : str) : str :=
  [97; 58] ++ hex (fst (cuid_to_id c)) ++ [58] ++ show_bool (suffixb bg_suffix c).

Definition do_add (st : tstate) (bg tmp ret : bool) (cmd : str) : tstate * str :=
  let k := length (ts_cuids st) in
  let (t', cuid) := register (ts_tbl st) false bg cmd (uid_str k) (mkH (N.of_nat k) tmp) in
  (mkT t' (ts_cuids st ++ [cuid]) (ts_rets st ++ [ret]), cuid).

Definition lower_cmd_part (c : str) : str :=
  match index_byte colon c with
  | None => c
  | Some i => to_lower_ascii (firstn i c) ++ skipn i c
  end.

Definition toggle_bg (c : str) : str :=
  if suffixb bg_suffix c then firstn (length c - 3)%nat c else c ++ bg_suffix.

Definition remove_arg (st : tstate) (mode arg : str) : str :=
  let byh := match parse_nat arg with
             | Some k => nth (N.to_nat k) (ts_cuids st) []
             | None => []
             end in
  if one_byte06 48 mode then byh
  else if one_byte06 49 mode then lower_cmd_part byh
  else if one_byte06 50 mode then toggle_bg byh
  else arg.

Fixpoint run_ops (fuel : nat) (st : tstate) (args : list str) : list str :=
  match fuel with
  | O => []
  | S f =>
    match args with
    | [] => []
    | op :: rest =>
      if one_byte06 65 op || one_byte06 72 op then                    (* A / H cmd *)
        match rest with
        | cmd :: r => let (st', c) := do_add st false false false cmd in show_cuid c :: run_ops f st' r
        | _ => [bs "?args"]
        end
      else if one_byte06 66 op then                                    (* B cmd *)
        match rest with
        | cmd :: r => let (st', c) := do_add st true false false cmd in show_cuid c :: run_ops f st' r
        | _ => [bs "?args"]
        end
      else if one_byte06 84 op then                                    (* T cmd ret *)
        match rest with
        | cmd :: rt :: r =>
          let (st', c) := do_add st true true (one_byte06 49 rt) cmd in show_cuid c :: run_ops f st' r
        | _ => [bs "?args"]
        end
      else if one_byte06 68 op then                                    (* D cmd: AddTmp, deadline passes *)
        match rest with
        | cmd :: r =>
          let (st1, c) := do_add st true true false cmd in
          let (t2, ok) := remove (ts_tbl st1) c in
          (show_cuid c ++ [58] ++ show_bool ok)
            :: run_ops f (mkT t2 (ts_cuids st1) (ts_rets st1)) r
        | _ => [bs "?args"]
        end
      else if one_byte06 82 op then                                    (* R mode arg *)
        match rest with
        | mode :: arg :: r =>
          let (t', ok) := remove (ts_tbl st) (remove_arg st mode arg) in
          ([114; 58] ++ show_bool ok) :: run_ops f (mkT t' (ts_cuids st) (ts_rets st)) r
        | _ => [bs "?args"]
        end
      else if one_byte06 67 op then                                    (* C cmd *)
        match rest with
        | cmd :: r => [99] :: run_ops f (mkT (clear (ts_tbl st) cmd) (ts_cuids st) (ts_rets st)) r
        | _ => [bs "?args"]
        end
      else if one_byte06 88 op then                                    (* X *)
        [120] :: run_ops f (mkT (clear_all (ts_tbl st)) (ts_cuids st) (ts_rets st)) rest
      else if one_byte06 78 op then                                    (* N cmd *)
        match rest with
        | cmd :: r => ([110; 58] ++ show_nat (table_count (ts_tbl st) cmd)) :: run_ops f st r
        | _ => [bs "?args"]
        end
      else if one_byte06 76 op then                                    (* L *)
        ([108; 58] ++ show_nat (table_len (ts_tbl st))) :: run_ops f st rest
      else if one_byte06 69 op then                                    (* E cmd echo *)
        match rest with
        | cmd :: ec :: r =>
          match run_event (ts_tbl st) (mkEv cmd (one_byte06 49 ec)) (ret_of st) with
          | (t', inv, closed) =>
            ([101; 58] ++ show_Ns inv ++ [124] ++ show_Ns closed)
              :: run_ops f (mkT t' (ts_cuids st) (ts_rets st)) r
          end
        | _ => [bs "?args"]
        end
      else [bs "?op"]
    end
  end.

Definition show_table_ops (args : list str) : str :=
  join semi (run_ops (S (length args)) (mkT empty_table [] []) args).

Definition run_C06 (suite : str) (args : list str) : option str :=
  if streqb suite (bs "dispatch.table") then Some (show_table_ops args)
  else None.
