(* Correspondence suites for C08: cap.parse, cap.session (and cap.ackremoval, the same
   driver).  Observation text must match harness/suites/c08.go byte for byte. *)
Require Import Bytes CapLib StsState Cap Sts.

Definition nth_arg8 (n : nat) (args : list str) : str := nth n args [].

(* ---- cap.parse ---------------------------------------------------------- *)
Definition render_vals (m : amap str) : str :=
  join comma (List.map (fun kv => hex (fst kv) ++ [58] ++ hex (snd kv)) (sort_amap m)).

Definition render_capmap (m : capmap) : str :=
  join semi (List.map (fun kv => hex (fst kv) ++
                                 match snd kv with None => [45] | Some vs => 61 :: render_vals vs end)
                      (sort_amap m)).

(* ---- configuration arguments ------------------------------------------- *)
Definition parse_supported (sup : str) : amap (list str) :=
  match sup with
  | [] => []
  | _ => fold_left (fun m ent =>
                      match index_byte 58 ent with
                      | None => aset ent [] m
                      | Some i => aset (firstn i ent) (split_byte 44 (skipn (S i) ent)) m
                      end) (split_byte 32 sup) []
  end.

Definition s_PLAIN := Eval vm_compute in bs "PLAIN".
Definition s_EXTERNAL := Eval vm_compute in bs "EXTERNAL".

(* bits: S sasl PLAIN, X sasl EXTERNAL, D DisableSTS, L SSL, F DisableSTSFallback, T no tracking,
   U the connection is over TLS (TLSConnectionState() != nil) whatever Config.SSL says *)
Definition cfg_of_bits (bits sup : str) : cap_cfg :=
  let sasl := fold_left (fun acc b => if N.eqb b 83 then Some s_PLAIN
                                      else if N.eqb b 88 then Some s_EXTERNAL else acc) bits None in
  mkCfg sasl (memb 68 bits) (memb 76 bits) (memb 70 bits) (parse_supported sup) (negb (memb 84 bits))
        None [] (bs "me") (bs "user") (bs "Real Name").

(* ---- rendering ---------------------------------------------------------- *)
Definition needs_colon (p : str) : bool :=
  match p with [] => true | 58 :: _ => true | _ => memb 32 p end.

Fixpoint render_params (ps : list str) : str :=
  match ps with
  | [] => []
  | [p] => 32 :: (if needs_colon p then 58 :: p else p)
  | p :: r => 32 :: p ++ render_params r
  end.

Definition render_line (ev : str * list str) : str := fst ev ++ render_params (snd ev).

Definition render_out (o : cap_out) : str :=
  match o with
  | Upgrade => [85]                                  (* U *)
  | InjectError _ => [69]                            (* E *)
  | Write cmd ps =>
      if streqb cmd s_CAP then
        match ps with
        | [x] => if streqb x s_END then bs "END" else 63 :: hex (render_line (cmd, ps))
        | [x; toks] =>
            if streqb x s_REQ then bs "REQ:" ++ hexlist (sort_strs (split_byte 32 toks))
            else 63 :: hex (render_line (cmd, ps))
        | _ => 63 :: hex (render_line (cmd, ps))
        end
      else if streqb cmd s_AUTHENTICATE then
        match ps with
        | [m] => bs "AUTH:" ++ hex m
        | _ => 63 :: hex (render_line (cmd, ps))
        end
      else 63 :: hex (render_line (cmd, ps))
  end.

Definition render_outs (outs : list cap_out) : str := join comma (List.map render_out outs).

Definition now0 : Z := 1700000000000000000%Z.

Definition tags_for (k : nat) : option (amap str) :=
  match Nat.modulo k 4 with
  | 2%nat => Some []
  | 3%nat => None
  | _ => Some [([107], [118])]
  end.

Definition ends_conn (outs : list cap_out) : bool := existsb is_upgrade outs || existsb is_inject outs.

Definition s_reconnect : str := Eval vm_compute in 1 :: bs "reconnect".

Definition render_probes (cfg : cap_cfg) (st : cap_state) (probes : list str) : str :=
  concat (List.map (fun p => if c_tracking cfg
                             then show_bool (has_capability true (st_enabled st) p)
                             else [33]) probes).

Definition render_reg (cfg : cap_cfg) : str := hexlist (List.map render_line (registration_writes cfg)).

Fixpoint run_rounds (cfg : cap_cfg) (tls : bool) (probes : list str) (k : nat) (st : cap_state) (evs : list str) : str :=
  match evs with
  | [] => []
  | ev :: r =>
      if streqb ev s_reconnect then
        (* Close + Connect again: internalConnect calls state.reset(false) (the STS policy
           is kept), then writes the registration burst *)
        let st' := cap_init (st_sts st) in
        bs "|c:reg=" ++ render_reg cfg ++
        bs ";t=" ++ hexlist (sort_strs (akeys (st_tmp st'))) ++
        bs ";e=" ++ hexlist (sort_strs (akeys (st_enabled st'))) ++
        bs ";h=" ++ render_probes cfg st' probes ++
        run_rounds cfg tls probes (S k) st' r
      else
      let params := split_byte 10 ev in
      let res := if c_tracking cfg then handle_cap sort_strs cfg tls now0 st params else (st, []) in
      let st' := fst res in
      let outs := snd res in
      bs "|r" ++ show_nat k ++ [58] ++ render_outs outs ++
      (if ends_conn outs then []
       else bs ";t=" ++ hexlist (sort_strs (akeys (st_tmp st'))) ++
            bs ";e=" ++ hexlist (sort_strs (akeys (st_enabled st'))) ++
            bs ";g=" ++ show_bool (tag_section_present (send_loop_tags (st_enabled st') (tags_for k))) ++
            bs ";h=" ++ render_probes cfg st' probes ++
            run_rounds cfg tls probes (S k) st' r)
  end.

Definition run_session (args : list str) : str :=
  let cfg := cfg_of_bits (nth_arg8 0 args) (nth_arg8 1 args) in
  let probes := match nth_arg8 2 args with [] => [] | p => split_byte 32 p end in
  bs "reg=" ++ render_reg cfg ++
  bs "|poss=" ++ hexlist (sort_strs (akeys (possible_caps cfg false))) ++
  (* bit U: the connection is TLS although Config.SSL is false (reached by an STS upgrade) *)
  run_rounds cfg (memb 85 (nth_arg8 0 args)) probes 0 (cap_init sts_init) (skipn 3 args) ++
  (* after Close: HasCapability on a client that is not connected *)
  bs "|x=" ++ concat (List.map (fun p => if c_tracking cfg
                                         then show_bool (has_capability false [] p)
                                         else [33]) probes).

(* ---- cap.tagsrace: A's gate is decided by the CAP lines handled before it was sent, the
   gate of the events queued behind the blocked write by all of them ------------------- *)
Definition race_tags (kind : N) : option (amap str) :=
  if N.eqb kind 116 then Some [([107], [118])]          (* t *)
  else if N.eqb kind 101 then Some []                    (* e *)
  else None.

Definition run_tagsrace (args : list str) : str :=
  match parse_nat (nth_arg8 1 args) with
  | None => bs "?bad-count"
  | Some n =>
      let npre := N.to_nat n in
      let evs := skipn 2 args in
      if Nat.ltb (length evs) npre || Nat.ltb 12 (length evs) || Nat.ltb 8 (length (nth_arg8 0 args))
      then bs "?bad-count" else
      let cfg := cfg_of_bits [] [] in
      let feed := fun st ev => fst (handle_cap sort_strs cfg false now0 st (split_byte 10 ev)) in
      let st1 := fold_left feed (firstn npre evs) (cap_init sts_init) in
      let st2 := fold_left feed (skipn npre evs) st1 in
      bs "a=" ++ show_bool (tag_section_present (send_loop_tags (st_enabled st1) (race_tags 116))) ++
      bs "|b=" ++ concat (List.map (fun kd => show_bool (tag_section_present
                                              (send_loop_tags (st_enabled st2) (race_tags kd))))
                                   (nth_arg8 0 args))
  end.

Definition run_C08 (suite : str) (args : list str) : option str :=
  if streqb suite (bs "cap.parse") then Some (render_capmap (parse_cap (nth_arg8 0 args)))
  else if streqb suite (bs "cap.session") then Some (run_session args)
  else if streqb suite (bs "cap.ackremoval") then Some (run_session args)
  else if streqb suite (bs "cap.enum") then Some (run_session args)
  else if streqb suite (bs "cap.tagsrace") then Some (run_tagsrace args)
  else None.
