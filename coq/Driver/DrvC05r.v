(* Correspondence suite "client.react" (C05 at the level of bytes on the socket).
   args = Config.Nick; Config.User; Config.Version; runtime.Version(); runtime.GOOS;
          runtime.GOARCH; then the raw lines the peer writes, one argument per line, exactly
          as ReadString('\n') hands them to ParseEvent (terminator included).
   Observation:
     per line that was read: the raw lines the client wrote in response, projected, joined by
       ","; the lines of the session joined by "|";
     ";end=" alive | parsefail:<i> | closed:<i>
     ";S=" the canonical state dump of DrvC04.v  ";t=" tmpCap keys  ";e=" enabledCap keys (sorted).
   Projection of one written line (the same function on the Go side):
     NOTICE <target> :\x01TIME ..  / \x01FINGER ..   ->  "T" hex(target) "." hex(command); consecutive
        equal tokens collapse (the payload is the wall clock / the idle time, and how many lines
        Client.Send splits it into depends on its length);
     CAP REQ [:]tokens  ->  "R" and the sorted tokens in hex joined by "." (Go map iteration order);
     anything else      ->  "L" hex(line). *)
Require Import Bytes.
Require AMap CapLib State ClientStep Ctcp Cap StsState React DrvC04.

Definition r05_env (version gover goos goarch : str) : Ctcp.env :=
  Ctcp.mk_env version (bs "Real Name") gover goos goarch (bs "Mon, 02 Jan 2006 15:04:05 -0700") (bs "0s") true.

(* drive.BaseConfig + DisableSTS: no SASL, no supported-caps overrides, plain-text mock connection *)
Definition r05_cfg (nick usr version gover goos goarch : str) : React.react_cfg :=
  React.mkReactCfg
    (ClientStep.mkClientCfg (State.mkConfig nick usr) None (r05_env version gover goos goarch)
       (Cap.mkCfg None true false false [] true None [] nick usr (bs "Real Name"))
       CapLib.sort_strs false 0%Z)
    None.

Definition pre_notice : str := Eval vm_compute in bs "NOTICE ".
Definition pre_capreq : str := Eval vm_compute in bs "CAP REQ ".
Definition mid_time : str := Eval vm_compute in bs " :" ++ [1] ++ bs "TIME ".
Definition mid_finger : str := Eval vm_compute in bs " :" ++ [1] ++ bs "FINGER ".
Definition s_TIME : str := Eval vm_compute in bs "TIME".
Definition s_FINGER : str := Eval vm_compute in bs "FINGER".
Definition dot : str := [46].

Definition strip_prefix (p s : str) : option str :=
  if prefixb p s then Some (skipn (length p) s) else None.

Definition proj_line (l : str) : str :=
  match strip_prefix pre_capreq l with
  | Some r =>
      let r := match r with 58 :: r' => r' | _ => r end in
      82 :: join dot (List.map hex (CapLib.sort_strs (fields_byte 32 r)))
  | None =>
      match strip_prefix pre_notice l with
      | Some r =>
          match index_byte 32 r with
          | Some i =>
              let tgt := firstn i r in
              let rest := skipn i r in
              if prefixb mid_time rest then 84 :: hex tgt ++ dot ++ hex s_TIME
              else if prefixb mid_finger rest then 84 :: hex tgt ++ dot ++ hex s_FINGER
              else 76 :: hex l
          | None => 76 :: hex l
          end
      | None => 76 :: hex l
      end
  end.

(* consecutive equal "T" tokens collapse *)
Fixpoint collapse (l : list str) : list str :=
  match l with
  | a :: ((b :: _) as r) =>
      if (match a with 84 :: _ => true | _ => false end) && streqb a b then collapse r else a :: collapse r
  | _ => l
  end.

Definition show_line_outs (outs : list str) : str := join comma (collapse (List.map proj_line outs)).

Definition show_end (e : React.session_end) : str :=
  match e with
  | React.Alive => bs "alive"
  | React.ParseFailed i => bs "parsefail:" ++ show_nat i
  | React.Closed i => bs "closed:" ++ show_nat i
  end.

Definition run_react (args : list str) : str :=
  match args with
  | nick :: usr :: version :: gover :: goos :: goarch :: lines =>
      let cfg := r05_cfg nick usr version gover goos goarch in
      match React.react_run cfg (React.react_init StsState.sts_init) 0 lines with
      | Panic => bs "PANIC"
      | Ok s =>
          let cs := React.rs_client (React.ss_state s) in
          join bar (List.map show_line_outs (React.ss_outs s)) ++
          bs ";end=" ++ show_end (React.ss_end s) ++
          bs ";S=" ++ DrvC04.dump_state (ClientStep.cc_state (React.rc_client cfg)) (ClientStep.cs_state cs) ++
          bs ";t=" ++ hexlist (CapLib.sort_strs (CapLib.akeys (Cap.st_tmp (ClientStep.cs_cap cs)))) ++
          bs ";e=" ++ hexlist (CapLib.sort_strs (CapLib.akeys (Cap.st_enabled (ClientStep.cs_cap cs))))
      end
  | _ => bs "?bad-args"
  end.

Definition run_C05r (suite : str) (args : list str) : option str :=
  if streqb suite (bs "client.react") then Some (run_react args) else None.
