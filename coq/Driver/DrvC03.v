(* Correspondence suites for C03: wire.helpers, wire.events, wire.len.
   Case layouts are those of harness/suites/c03.go. *)
Require Import Bytes Utf8 AMap WireOut GoUpper Tags Event Commands SendPath.

Definition bad_case : str := Eval vm_compute in bs "?bad-case".
Definition panic_obs : str := Eval vm_compute in bs "PANIC".

Definition parse_count (s : str) : option nat := option_map N.to_nat (parse_nat s).

(* a count-prefixed group: n, then n strings *)
Definition take_n (a : list str) : option (list str * list str) :=
  match a with
  | c :: r =>
    match parse_count c with
    | Some n => if Nat.leb n (length r) then Some (firstn n r, skipn n r) else None
    | None => None
    end
  | [] => None
  end.

Fixpoint take_pairs (n : nat) (a : list str) (m : tagmap) : option (tagmap * list str) :=
  match n with
  | O => Some (m, a)
  | S k => match a with
           | k0 :: v :: r => take_pairs k r (aset k0 v m)
           | _ => None
           end
  end.

Definition s_m : str := Eval vm_compute in bs "m".
Definition s_s : str := Eval vm_compute in bs "s".
Definition s_1 : str := Eval vm_compute in bs "1".

(* tagsmode, ntags, (key, value)*, srcmode, name, ident, host, command, nparams, params... *)
Definition dec_event (a : list str) : option (wevent * list str) :=
  match a with
  | mode :: cnt :: r =>
    match parse_count cnt with
    | None => None
    | Some n =>
      match take_pairs n r [] with
      | None => None
      | Some (m, r1) =>
        let tags := if streqb mode s_m then Some m else None in
        match r1 with
        | sm :: name :: ident :: host :: cmd :: r2 =>
          let src := if streqb sm s_s then Some (mkWSource name ident host) else None in
          match take_n r2 with
          | Some (ps, r3) => Some (mkWEvent tags src cmd ps, r3)
          | None => None
          end
        | _ => None
        end
      end
    end
  | _ => None
  end.

Definition fmt_pieces (l : list str) : str := show_nat (length l) ++ bar ++ hexlist l.

Definition const_splitter (pieces : list str) : str -> Z -> list str := fun _ _ => pieces.

Definition arg (a : list str) (i : nat) : str := nth i a [].

(* helper name -> (minimum arity, events) *)
Definition run_helper (h : str) (max : Z) (a : list str) : option (nat * res (list cmd_event)) :=
  let a0 := arg a 0 in let a1 := arg a 1 in let a2 := arg a 2 in
  if streqb h (bs "nick") then Some (1, Ok (cmd_nick a0))%nat
  else if streqb h (bs "join") then Some (0, Ok (cmd_join max a))%nat
  else if streqb h (bs "joinkey") then Some (2, Ok (cmd_join_key a0 a1))%nat
  else if streqb h (bs "part") then Some (0, Ok (cmd_part a))%nat
  else if streqb h (bs "partmsg") then Some (2, Ok (cmd_part_message a0 a1))%nat
  else if streqb h (bs "sendctcp") then Some (3, cmd_send_ctcp a0 a1 a2)%nat
  else if streqb h (bs "sendctcpreply") then Some (3, cmd_send_ctcp_reply a0 a1 a2)%nat
  else if streqb h (bs "message") then Some (2, Ok (cmd_message a0 a1))%nat
  else if streqb h (bs "action") then Some (2, Ok (cmd_action a0 a1))%nat
  else if streqb h (bs "notice") then Some (2, Ok (cmd_notice a0 a1))%nat
  else if streqb h (bs "reply") then
    Some (3, cmd_reply (if streqb a0 s_s then Some a1 else None) (skipn 3 a) a2)%nat
  else if streqb h (bs "replyto") then
    Some (3, cmd_reply_to (if streqb a0 s_s then Some a1 else None) (skipn 3 a) a2)%nat
  else if streqb h (bs "topic") then Some (2, Ok (cmd_topic a0 a1))%nat
  else if streqb h (bs "who") then Some (0, Ok (cmd_who a))%nat
  else if streqb h (bs "whois") then Some (0, Ok (cmd_whois a))%nat
  else if streqb h (bs "ping") then Some (1, Ok (cmd_ping a0))%nat
  else if streqb h (bs "pong") then Some (1, Ok (cmd_pong a0))%nat
  else if streqb h (bs "oper") then Some (2, Ok (cmd_oper a0 a1))%nat
  else if streqb h (bs "kick") then Some (3, Ok (cmd_kick a0 a1 a2))%nat
  else if streqb h (bs "ban") then Some (2, Ok (cmd_ban a0 a1))%nat
  else if streqb h (bs "unban") then Some (2, Ok (cmd_unban a0 a1))%nat
  else if streqb h (bs "mode") then Some (2, Ok (cmd_mode a0 a1 (skipn 2 a)))%nat
  else if streqb h (bs "invite") then Some (1, Ok (cmd_invite a0 (skipn 1 a)))%nat
  else if streqb h (bs "away") then Some (1, Ok (cmd_away a0))%nat
  else if streqb h (bs "back") then Some (0, Ok cmd_back)%nat
  else if streqb h (bs "list") then Some (0, Ok (cmd_list max a))%nat
  else if streqb h (bs "whowas") then
    Some (2, Ok (cmd_whowas a0 (match parse_int a1 with Some z => z | None => 0%Z end)))%nat
  else if streqb h (bs "monitor") then Some (1, Ok (cmd_monitor a0 (skipn 1 a)))%nat
  else None.

(* sendraw: one pieces group per event handed to Send *)
Fixpoint raw_lines (mt : bool) (max : Z) (evs : list wevent) (groups : list str) : option (list str) :=
  match evs with
  | [] => Some []
  | e :: rest =>
    match take_n groups with
    | None => None
    | Some (pieces, groups') =>
      match raw_lines mt max rest groups' with
      | None => None
      | Some l => Some (send (const_splitter pieces) mt max e ++ l)
      end
    end
  end.

(* variant, maxlen, helper, nargs, args..., pieces group(s) *)
Definition run_helpers_case (args : list str) : str :=
  match args with
  | variant :: maxs :: h :: r =>
    match parse_int maxs, take_n r with
    | Some max, Some (a, groups) =>
      let mt := streqb variant s_1 in
      if streqb h (bs "sendraw") then
        match send_raw_events a with
        | Panic => panic_obs
        | Ok evs =>
          match raw_lines mt max evs groups with
          | Some l => fmt_pieces l
          | None => bad_case
          end
        end
      else
        match run_helper h max a with
        | None => bad_case
        | Some (arity, r) =>
          if Nat.ltb (length a) arity then bad_case else
          match r with
          | Panic => panic_obs
          | Ok evs =>
            match take_n groups with
            | None => bad_case
            | Some (pieces, _) =>
              fmt_pieces (flat_map (fun c => send (const_splitter pieces) mt max (to_wevent c)) evs)
            end
          end
        end
    | _, _ => bad_case
    end
  | _ => bad_case
  end.

(* variant, maxlen, event..., pieces group *)
Definition run_events_case (args : list str) : str :=
  match args with
  | variant :: maxs :: r =>
    match parse_int maxs, dec_event r with
    | Some max, Some (e, groups) =>
      match take_n groups with
      | Some (pieces, _) => fmt_pieces (send (const_splitter pieces) (streqb variant s_1) max e)
      | None => bad_case
      end
    | _, _ => bad_case
    end
  | _ => bad_case
  end.

Definition run_len_case (args : list str) : str :=
  match dec_event args with
  | Some (e, _) =>
    let b := event_bytes e in
    show_nat (event_len e) ++ bar ++ show_nat (event_len_opts false e) ++ bar ++
    show_nat (length b) ++ bar ++ hex b
  | None => bad_case
  end.

(* wire.interleave: max, sched (scheduling only; not read), npings, tok..., nevents, then
   per event: event..., pieces group.  Observation: the expected lines as a sorted
   multiset (the order across concurrent senders is not an observable). *)
Fixpoint interleave_events (n : nat) (max : Z) (a : list str) : option (list str) :=
  match n with
  | O => Some []
  | S k =>
    match dec_event a with
    | None => None
    | Some (e, r) =>
      match take_n r with
      | None => None
      | Some (pieces, r') =>
        match interleave_events k max r' with
        | None => None
        | Some l => Some (send (const_splitter pieces) false max e ++ l)
        end
      end
    end
  end.

Definition run_interleave_case (args : list str) : str :=
  match args with
  | maxs :: _sched :: r =>
    match parse_int maxs, take_n r with
    | Some max, Some (toks, r1) =>
      match r1 with
      | ne :: r2 =>
        match parse_count ne with
        | Some n =>
          match interleave_events n max r2 with
          | Some lines =>
            let pongs := flat_map (fun t => flat_map (fun c => send (const_splitter []) false max (to_wevent c))
                                                     (cmd_pong t)) toks in
            fmt_pieces (sort_strs (lines ++ pongs))
          | None => bad_case
          end
        | None => bad_case
        end
      | [] => bad_case
      end
    | _, _ => bad_case
    end
  | _ => bad_case
  end.

Definition run_C03 (suite : str) (args : list str) : option str :=
  if streqb suite (bs "wire.helpers") then Some (run_helpers_case args)
  else if streqb suite (bs "wire.events") then Some (run_events_case args)
  else if streqb suite (bs "wire.len") then Some (run_len_case args)
  else if streqb suite (bs "wire.interleave") then Some (run_interleave_case args)
  else None.
