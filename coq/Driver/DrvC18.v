(* Correspondence suites for C18: suite name -> arguments -> observation text. *)
Require Import Bytes Utf8 Names GoLower Ctcp WireOut CmdHandler.

Definition one_byte18 (b : N) (s : str) : bool := match s with [c] => c =? b | _ => false end.

Definition nat_of_str (s : str) : nat :=
  match parse_nat s with Some n => N.to_nat n | None => 0%nat end.
Definition z_of_str (s : str) : Z := match parse_int s with Some z => z | None => 0%Z end.

(* commands travel as  name, minargs (decimal), helpflag ("1" = has help), alias count,
   aliases...; the id of a command is its position in the sequence *)
Fixpoint cmds_of_args (fuel : nat) (id : nat) (args : list str) : list command :=
  match fuel with
  | O => []
  | S f =>
    match args with
    | name :: ma :: hf :: na :: rest =>
      let k := nat_of_str na in
      mk_command id name (firstn k rest) (one_byte18 49 hf) (z_of_str ma)
        :: cmds_of_args f (S id) (skipn k rest)
    | _ => []
    end
  end.

Definition show_err (e : option add_error) : str :=
  match e with
  | None => bs "ok"
  | Some ErrInvalidName => bs "invalid"
  | Some ErrInvalidAlias => bs "invalid"
  | Some ErrDupName => bs "dupname"
  | Some ErrDupAlias => bs "dupalias"
  end.

Fixpoint add_all (t : cmd_table) (cmds : list command) : cmd_table * list str :=
  match cmds with
  | [] => (t, [])
  | c :: r =>
    let (t1, err) := add t c in
    let (t2, codes) := add_all t1 r in
    (t2, show_err err :: codes)
  end.

(* the probe universe: every name and alias that lower-cases to a valid name, in order of
   first appearance *)
Fixpoint dedup_add (seen : list str) (l : list str) : list str :=
  match l with
  | [] => seen
  | k :: r => if existsb (streqb k) seen then dedup_add seen r else dedup_add (seen ++ [k]) r
  end.
Definition valid_keys (l : list str) : list str :=
  flat_map (fun s => match lower_valid s with Some k => [k] | None => [] end) l.
Definition universe (cmds : list command) : list str :=
  dedup_add [] (valid_keys (flat_map (fun c => c_name c :: c_aliases c) cmds)).

Definition show_probe (t : cmd_table) (k : str) : str :=
  hex k ++ [61] ++
  (if streqb k help_name then (if tbl_mem k t then [43] else [45])
   else match tbl_get k t with Some c => show_nat (c_id c) | None => [45] end).

Definition show_add (args : list str) : str :=
  let cmds := cmds_of_args (S (length args)) 0 args in
  let (t, codes) := add_all [] cmds in
  join comma codes ++ bar ++ join comma (List.map (show_probe t) (universe cmds)).

Definition quote_simple (k : str) : bool :=
  forallb (fun b => (32 <=? b) && (b <=? 126) && negb (b =? 34) && negb (b =? 92)) k.

Definition wire_head (target lead : str) : str :=
  strip_crlf (to_valid_utf8 [] (PRIVMSG ++ [32] ++ target ++ [32; 58] ++ lead)).

Definition show_outcome (o : outcome) : str :=
  match o with
  | Nothing => [45]
  | Invoke c args raw => bs "I:" ++ show_nat (c_id c) ++ [58] ++ hexlist args ++ [58] ++ hex raw
                         ++ [58] ++ show_nat (length args)
  | Reply target text => bs "R:" ++ hex (wire2 PRIVMSG target text)
  | ReplyHelp k target lead =>
      bs "H:" ++ (match k with
                  | HelpGeneric => bs "generic"
                  | HelpUnknown => bs "unknown"
                  | HelpNoDoc => bs "nodoc"
                  | HelpText c => bs "text" ++ show_nat (c_id c)
                  end) ++ [58] ++ hex (wire_head target lead)
  end.

(* prefix, srcflag, srcname, command, K, p1..pK, commands... *)
Definition show_exec (args : list str) : str :=
  match args with
  | prefix :: sf :: sn :: cmd :: ks :: rest =>
    let h0 := new_handler prefix in
    let k := nat_of_str ks in
    let e := mk_event (if one_byte18 49 sf then Some sn else None) cmd (firstn k rest) in
    let cargs := skipn k rest in
    let (t, _) := add_all (h_cmds h0) (cmds_of_args (S (length cargs)) 0 cargs) in
    show_outcome (execute (mk_handler (h_prefix h0) t) e)
  | _ => bs "?args"
  end.

(* the regular expression alone: which name / remainder / arguments it yields *)
Definition show_match (prefix text : str) : str :=
  match cmd_match (h_prefix (new_handler prefix)) text with
  | None => [45]
  | Some (n, raw) =>
    if streqb n help_name then bs "help"
    else hex n ++ [47] ++ hex raw ++ [47] ++ hexlist (split_args raw) ++ [47] ++
         show_nat (length (split_args raw))
  end.

(* prefix, target, mode, K, text1..textK, commands...: K messages from nick to target
   (mode: what the registered functions do meanwhile on the Go side; no effect on outcomes) *)
Definition seq_source : str := Eval vm_compute in bs "nick".
Definition show_seq (args : list str) : str :=
  match args with
  | prefix :: target :: _ :: ks :: rest =>
    let h0 := new_handler prefix in
    let k := nat_of_str ks in
    let texts := firstn k rest in
    let cargs := skipn k rest in
    let (t, _) := add_all (h_cmds h0) (cmds_of_args (S (length cargs)) 0 cargs) in
    let es := List.map (fun tx => mk_event (Some seq_source) PRIVMSG [target; tx]) texts in
    join [59] (List.map show_outcome (execute_seq (mk_handler (h_prefix h0) t) es))
  | _ => bs "?args"
  end.

Definition run_C18 (suite : str) (args : list str) : option str :=
  if streqb suite (bs "lib.lower") then
    Some (match args with s :: _ => show_opt_hex (lower_ascii_img s) | _ => bs "?args" end)
  else if streqb suite (bs "cmd.match") then
    Some (match args with p :: t :: _ => show_match p t | _ => bs "?args" end)
  else if streqb suite (bs "cmd.add") then Some (show_add args)
  else if streqb suite (bs "cmd.exec") then Some (show_exec args)
  else if streqb suite (bs "cmd.seq") then Some (show_seq args)
  else None.
