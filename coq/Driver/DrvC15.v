(* Correspondence suites for C15: name -> arguments -> observation text. *)
Require Import Bytes Names Event SourceEq.

Definition arg1 (args : list str) : str := match args with a :: _ => a | [] => [] end.

Definition run_C15 (suite : str) (args : list str) : option str :=
  if streqb suite (bs "names.nick") then Some (show_bool (is_valid_nick (arg1 args)))
  else if streqb suite (bs "names.user") then Some (show_bool (is_valid_user (arg1 args)))
  else if streqb suite (bs "names.channel") then Some (show_bool (is_valid_channel (arg1 args)))
  else if streqb suite (bs "names.fold") then Some (hex (to_rfc1459 (arg1 args)))
  else if streqb suite (bs "names.source") then
    (* args: nil1 name1 ident1 host1 nil2 name2 ident2 host2 ("1" = nil *Source) *)
    match args with
    | [n1; a1; i1; h1; n2; a2; i2; h2] =>
        let mk (n a i h : str) := if streqb n (bs "1") then None else Some (mkWSource a i h) in
        let x := mk n1 a1 i1 h1 in let y := mk n2 a2 i2 h2 in
        let id o := match o with Some v => hex (source_id v) | None => bs "nil" end in
        Some (id x ++ bs " " ++ id y ++ bs " " ++ show_bool (source_equals x y))
    | _ => Some (bs "?args")
    end
  else None.
