(* Correspondence suites for C15: name -> arguments -> observation text. *)
Require Import Bytes Names.

Definition arg1 (args : list str) : str := match args with a :: _ => a | [] => [] end.

Definition run_C15 (suite : str) (args : list str) : option str :=
  if streqb suite (bs "names.nick") then Some (show_bool (is_valid_nick (arg1 args)))
  else if streqb suite (bs "names.user") then Some (show_bool (is_valid_user (arg1 args)))
  else if streqb suite (bs "names.channel") then Some (show_bool (is_valid_channel (arg1 args)))
  else if streqb suite (bs "names.fold") then Some (hex (to_rfc1459 (arg1 args)))
  else None.
