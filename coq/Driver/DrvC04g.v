(* Correspondence suites of C04 (conformant histories):
   "state.conformant": args as for state.history (Driver/DrvC04.v). Observation: the
      impl-model's state dump and written lines (as state.history) followed by ";g=" and the
      dump of every state-API getter evaluated on the impl-model's state (names looked up in
      a case-variant spelling).
   "state.ref": same args. Observation: "conf=T|F;abs=T|F;" followed by the same getter
      dump computed from the REFERENCE model's told-state (Spec/NetRef.v told_run): conf says
      whether the history is conformant, abs whether abs (impl-model state) = told-state.
      The Go oracle compares the implementation's getters with this dump. *)
Require Import Bytes AMap SMap Names State StateGetters NetRef DrvC04.

Definition swap1459 (b : N) : N :=
  if (97 <=? b) && (b <=? 122) then b - 32
  else if (65 <=? b) && (b <=? 90) then b + 32
  else if (123 <=? b) && (b <=? 126) then b - 32
  else if (91 <=? b) && (b <=? 94) then b + 32
  else b.
Definition variant (s : str) : str := List.map swap1459 s.

Definition alphabet : str := Eval vm_compute in bs "abcdefghijklmnopqrstuvwxyzABCDEFGHIJKLMNOPQRSTUVWXYZ".
Definition probe_keys : list str :=
  Eval vm_compute in [bs "NETWORK"; bs "CHANMODES"; bs "PREFIX"; bs "SERVER"; bs "VERSION"; bs "NOSUCHKEY"].

Definition tf (b : bool) : str := if b then [84] else [70].
Definition qm : str := [63].

(* ---- getters on the impl-model ---- *)

Definition gm_chan (s : state) (name : str) : str :=
  let v := variant name in
  match g_lookup_channel s v with
  | None => qm
  | Some c =>
      tf (g_is_in_channel s v) ++ colon ++ hex (c_name c) ++ colon ++ hex (c_topic c) ++ colon ++
      hexlist (c_users c) ++ colon ++ hex (g_modes_string c) ++ colon ++
      join comma (flat_map (fun x => if g_has_mode c [x] then [x :: show_opt_hex (g_mode_get c [x])] else []) alphabet)
  end.

Definition gm_user (s : state) (nick : str) : str :=
  match g_lookup_user s (variant nick) with
  | None => qm
  | Some u =>
      hex (u_nick u) ++ colon ++ hex (u_ident u) ++ colon ++ hex (u_host u) ++ colon ++ hexlist (u_chans u) ++ colon ++
      join comma (List.map (fun cn => hex cn ++ eqs ++
                     match g_perms_lookup u (variant cn) with Some p => show_perms p | None => qm end) (u_chans u)) ++ colon ++
      hex (u_name u) ++ colon ++ hex (u_account u) ++ colon ++ hex (u_away u)
  end.

Definition gm_dump (cfg : config) (s : state) : str :=
  bs "n=" ++ hex (g_nick cfg s) ++ bs ";i=" ++ hex (g_ident cfg s) ++ bs ";h=" ++ hex (g_host s) ++
  bs ";m=" ++ hex (g_motd s) ++
  bs ";o=" ++ join comma (List.map (fun kv => hex (fst kv) ++ show_opt_hex (g_server_option s (fst kv))) (canon (st_opts s))) ++
  bs ";p=" ++ join comma (List.map (fun k => show_opt_hex (g_server_option s k)) probe_keys) ++
  bs ";cl=" ++ hexlist (g_channel_list s) ++ bs ";ul=" ++ hexlist (g_user_list s) ++
  bs ";c=" ++ join bar (List.map (gm_chan s) (sort_by fold (g_channel_list s))) ++
  bs ";u=" ++ join bar (List.map (gm_user s) (sort_by fold (g_user_list s))).

(* ---- the same dump from a told-state ---- *)

Definition gr_chan (r : ref) (kc : str * rchan) : str :=
  let c := snd kc in
  tf true ++ colon ++ hex (rc_name c) ++ colon ++ hex (rc_topic c) ++ colon ++
  hexlist (List.map fst (rc_members c)) ++ colon ++ hex (v_modes_string (rc_modes c)) ++ colon ++
  join comma (flat_map (fun x => if mode_has x (rc_modes c) then [x :: show_opt_hex (mode_arg x (rc_modes c))] else []) alphabet).

Definition gr_user (r : ref) (ku : str * ruser) : str :=
  let u := snd ku in
  hex (ru_nick u) ++ colon ++ hex (ru_ident u) ++ colon ++ hex (ru_host u) ++ colon ++
  hexlist (v_user_channels r (fst ku)) ++ colon ++
  join comma (List.map (fun cp => hex (fst cp) ++ eqs ++ show_perms (snd cp)) (v_user_perms r (fst ku))) ++ colon ++
  hex (ru_name u) ++ colon ++ hex (ru_account u) ++ colon ++ hex (ru_away u).

Definition gr_dump (cfg : config) (r : ref) : str :=
  bs "n=" ++ hex (v_nick cfg r) ++ bs ";i=" ++ hex (v_ident cfg r) ++ bs ";h=" ++ hex (v_host r) ++
  bs ";m=" ++ hex (v_motd r) ++
  bs ";o=" ++ join comma (List.map (fun kv => hex (fst kv) ++ show_opt_hex (Some (snd kv))) (r_opts r)) ++
  bs ";p=" ++ join comma (List.map (fun k => show_opt_hex (v_option r k)) probe_keys) ++
  bs ";cl=" ++ hexlist (v_channel_list r) ++ bs ";ul=" ++ hexlist (v_user_list r) ++
  bs ";c=" ++ join bar (List.map (gr_chan r) (r_chans r)) ++
  bs ";u=" ++ join bar (List.map (gr_user r) (r_users r)).

Definition run_conformant (args : list str) : str :=
  match args with
  | _route :: nick :: usr :: rest =>
      let cfg := mkConfig nick usr in
      match run cfg state_init (decode_events (length rest) rest) with
      | Panic => bs "PANIC"
      | Ok (s, outs) => dump_state cfg s ++ bs ";w=" ++ join bar (List.map dump_out outs) ++ bs ";g=" ++ gm_dump cfg s
      end
  | _ => bs "?bad-args"
  end.

(* index of the first message that is not conformant *)
Fixpoint first_bad (r : ref) (h : list event) (i : nat) : option nat :=
  match h with
  | [] => None
  | e :: rest => if conformant r e then first_bad (ref_step r e) rest (S i) else Some i
  end.

Definition run_ref (args : list str) : str :=
  match args with
  | _route :: nick :: usr :: rest =>
      let cfg := mkConfig nick usr in
      let h := decode_events (length rest) rest in
      let r := told_run h in
      let a := match run cfg state_init h with
               | Panic => false
               | Ok (s, _) => streqb (gr_dump cfg (abs s)) (gr_dump cfg r)
               end in
      bs "conf=" ++ (match first_bad ref_init h 0 with None => tf true | Some i => tf false ++ [64] ++ show_nat i end) ++
      bs ";abs=" ++ tf a ++ semi ++ gr_dump cfg r
  | _ => bs "?bad-args"
  end.

Definition run_C04g (suite : str) (args : list str) : option str :=
  if streqb suite (bs "state.conformant") || streqb suite (bs "state.conformant.long")
  then Some (run_conformant args)
  else if streqb suite (bs "state.ref") then Some (run_ref args)
  else None.
