(* Correspondence suite for C19: "glob.match"  args: input, pattern  ->  T / F / PANIC. *)
Require Import Bytes Glob.

Definition run_C19 (suite : str) (args : list str) : option str :=
  if streqb suite (bs "glob.match") then
    Some (match glob (nth 0 args []) (nth 1 args []) with
          | Ok b => show_bool b
          | Panic => bs "PANIC"
          end)
  else None.
