(* Correspondence suites for C20.
     fmt.fmt     args: pieces            -> hex(Fmt(t)) "|" hex(StripRaw(Fmt(t)))   t = render pieces
     fmt.trim    args: pieces            -> hex(TrimFmt(t))  or  "unstable" when the result
                                            depends on Go's map iteration order
     fmt.strip   args: raw text          -> hex(StripRaw(text))
     fmt.tables  no args                 -> the two tables, sorted by name
     fmt.concurrent  args: raw texts     -> hex(Fmt(t1)),hex(Fmt(t2)),...  (the Go side also runs
                                            them concurrently in a fresh process; the model is the
                                            sequential reference)
   A piece argument is a tag byte and a payload: 'T' name, 'P' fg,bg (cut at the first comma),
   anything else (normally 'L') literal text; the empty argument is the empty literal. *)
Require Import Bytes Format FmtSpec.

Definition decode_piece (a : str) : piece :=
  match a with
  | 84 :: n => Tok n
  | 80 :: b => match index_byte comma_c b with
               | Some k => Tok2 (firstn k b) (skipn (S k) b)
               | None => Tok2 b []
               end
  | _ :: s => Lit s
  | [] => Lit []
  end.

Definition text_of (args : list str) : str := render (List.map decode_piece args).

Definition show_colors : str :=
  join comma (List.map (fun nv => fst nv ++ 61 :: show_N (snd nv)) fmt_colors).
Definition show_codes : str :=
  join comma (List.map (fun nv => fst nv ++ 61 :: hex (snd nv)) fmt_codes).

Definition lbl_unstable : str := Eval vm_compute in bs "unstable".
Definition lbl_colors : str := Eval vm_compute in bs "colors:".
Definition lbl_codes : str := Eval vm_compute in bs "|codes:".

Definition run_C20 (suite : str) (args : list str) : option str :=
  if streqb suite (bs "fmt.fmt") then
    let out := fmt (text_of args) in
    Some (hex out ++ bar ++ hex (strip_raw out))
  else if streqb suite (bs "fmt.trim") then
    let t := text_of args in
    Some (if trim_stable t then hex (trim_fmt trim_names t) else lbl_unstable)
  else if streqb suite (bs "fmt.strip") then
    Some (hex (strip_raw (nth 0 args [])))
  else if streqb suite (bs "fmt.concurrent") then
    Some (hexlist (List.map fmt args))
  else if streqb suite (bs "fmt.tables") then
    Some (lbl_colors ++ show_colors ++ lbl_codes ++ show_codes)
  else None.
