(* Correspondence suites for C17.  Observation text must match harness/suites/c17.go
   byte for byte.

   pingnick.ping / pingnick.flood   args = the parameters of one PING
   pingnick.seq / pingnick.collide / pingnick.edge
       args = nick, callback kind, callback argument, flags, then one argument per event:
       fields separated by LF: command, source ("" = none, "=" ++ name), parameters.
       A source name or parameter that is exactly "$R" stands for the nickname the client
       asked for most recently, "$N" for its current nickname (GetNick; Config.Nick when tracking is disabled); both sides
       substitute them before the event is delivered.  The pseudo command "!NICK" is the
       application calling Client.Cmd.Nick(first parameter). *)
Require Import Bytes Utf8 AMap Tags Event Names PingNick.

Definition nth_arg17 (n : nat) (args : list str) : str := nth n args [].

(* ---- what reaches the socket: Event.Bytes of the codec model (Model/Event.v), for an
   event without tags and source ---- *)
Definition wire_of (o : pn_out) : str := event_bytes (mkWEvent None None (o_cmd o) (o_params o)).

Definition route_letter (outs : list pn_out) : str :=
  match outs with
  | [] => [45]                                                       (* - *)
  | _ => if existsb (fun o => match o_route o with Limited => true | Direct => false end) outs
         then [76] else [68]                                         (* L / D *)
  end.

(* ---- configuration ------------------------------------------------------ *)
Definition callback_of (kind arg : str) : option (str -> str) :=
  match kind with
  | [99] => Some (fun _ => arg)                 (* c: constant *)
  | [97] => Some (fun cur => cur ++ arg)        (* a: append *)
  | [112] => Some (fun cur => arg ++ cur)       (* p: prepend *)
  | _ => None
  end.

Definition cfg_of_args (args : list str) : pn_cfg :=
  mkPnCfg (nth_arg17 0 args) (negb (memb 84 (nth_arg17 3 args)))     (* T: tracking disabled *)
          (callback_of (nth_arg17 1 args) (nth_arg17 2 args)).

(* ---- events -------------------------------------------------------------- *)
Definition ph_R : str := [36; 82].
Definition ph_N : str := [36; 78].
Definition s_userNICK := Eval vm_compute in bs "!NICK".

Definition subst (req cur : str) (f : str) : str :=
  if streqb f ph_R then req else if streqb f ph_N then cur else f.

Definition decode_event (req cur : str) (a : str) : pn_event :=
  match split_byte 10 a with
  | [] => mkEvent [] None []
  | [c] => mkEvent c None []
  | c :: s :: ps =>
      mkEvent c (match s with 61 :: name => Some (subst req cur name) | _ => None end)
              (List.map (subst req cur) ps)
  end.

Definition cur_nick (cfg : pn_cfg) (st : pn_state) : str := own_nick cfg st.

Definition k_NICKLEN := Eval vm_compute in bs "NICKLEN".
Definition k_MAXNICKLEN := Eval vm_compute in bs "MAXNICKLEN".

(* Client.GetServerOption (panics without tracking) *)
Definition show_opt (cfg : pn_cfg) (st : pn_state) (key : str) : str :=
  if pc_tracking cfg then
    match alookup key (ps_opts st) with Some v => 61 :: hex v | None => [45] end
  else [33].

Definition show_state (cfg : pn_cfg) (st : pn_state) : str :=
  bs ";n=" ++ match get_nick cfg st with Ok n => hex n | Panic => [33] end ++
  bs ";l=" ++ show_opt cfg st k_NICKLEN ++ [47] ++ show_opt cfg st k_MAXNICKLEN.

Definition show_nick (cfg : pn_cfg) (st : pn_state) : str :=
  match get_nick cfg st with Ok n => hex n | Panic => [33] end.

Fixpoint run_events (cfg : pn_cfg) (k : nat) (st : pn_state) (req : str) (evs : list str) : str :=
  match evs with
  | [] => []
  | a :: r =>
      let e := decode_event req (if pc_tracking cfg then cur_nick cfg st else pc_nick cfg) a in
      let step := if streqb (e_cmd e) s_userNICK
                  then Ok (st, [commands_nick st (nth 0 (e_params e) [])])
                  else pn_step cfg st e in
      match step with
      | Panic =>
          bs "|" ++ show_nat k ++ bs ":!" ++ show_state cfg st ++ run_events cfg (S k) st req r
      | Ok (st', outs) =>
          bs "|" ++ show_nat k ++ [58] ++ hexlist (List.map wire_of outs) ++
          bs ";r=" ++ route_letter outs ++ show_state cfg st' ++
          run_events cfg (S k) st' (next_req req outs) r
      end
  end.

Definition run_seq (args : list str) : str :=
  let cfg := cfg_of_args args in
  run_events cfg 0 pn_init (pc_nick cfg) (skipn 4 args).

Definition run_ping (args : list str) : str := hexlist (List.map wire_of (handle_ping args)).

Definition run_C17 (suite : str) (args : list str) : option str :=
  if streqb suite (bs "pingnick.ping") then Some (run_ping args)
  else if streqb suite (bs "pingnick.flood") then Some (run_ping args)
  else if streqb suite (bs "pingnick.bg") then Some (run_ping (tl args))
  else if streqb suite (bs "pingnick.seq") then Some (run_seq args)
  else if streqb suite (bs "pingnick.collide") then Some (run_seq args)
  else if streqb suite (bs "pingnick.edge") then Some (run_seq args)
  else None.
