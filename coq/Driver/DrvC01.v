(* Correspondence suites for C01 (and shared by C02/C03): suite name -> arguments ->
   observation text.  Rendering helpers are reused by DrvC02.v. *)
Require Import Bytes Utf8 AMap WireOut GoUpper Tags Event Grammar LineGrammar.

Definition c01_arg (args : list str) (i : nat) : str := nth i args [].
Definition c01_byte (s : str) (i : nat) : N := nth i s 0.

Definition lit_PANIC : str := Eval vm_compute in bs "PANIC".
Definition lit_nil : str := Eval vm_compute in bs "nil".
Definition lit_cmd : str := Eval vm_compute in bs "cmd=".
Definition lit_n : str := Eval vm_compute in bs "|n=".
Definition lit_p : str := Eval vm_compute in bs "|p=".
Definition lit_src : str := Eval vm_compute in bs "|src=".
Definition lit_tags : str := Eval vm_compute in bs "|tags=".
Definition lit_get : str := Eval vm_compute in bs "|get=".
Definition lit_b : str := Eval vm_compute in bs "b=".
Definition lit_len : str := Eval vm_compute in bs "|len=".
Definition lit_rt : str := Eval vm_compute in bs "|rt=".
Definition lit_err : str := Eval vm_compute in bs "err".
Definition lit_ok : str := Eval vm_compute in bs "ok".
Definition lit_time : str := Eval vm_compute in bs "|time=".
Definition lit_gl : str := Eval vm_compute in bs "|gl=".

(* a command is shown in hex when it is pure ASCII, else projected to "~" (GoUpper.v) *)
Definition show_cmd (c : str) : str := if is_ascii c then hex c else [126].

Definition show_src (s : option wsource) : str :=
  match s with
  | None => [45]
  | Some s => hex (ws_name s) ++ comma ++ hex (ws_ident s) ++ comma ++ hex (ws_host s)
  end.

Definition sorted_tags (m : tagmap) : list (str * str) := sort_by fst m.

(* "-" for nil, else k=v,k=v with keys and values in hex, sorted by key *)
Definition show_tagmap (f : str -> str) (t : wtags) : str :=
  match t with
  | None => [45]
  | Some m => 123 :: join comma (List.map (fun kv => hex (fst kv) ++ [61] ++ hex (f (snd kv))) (sorted_tags m)) ++ [125]
  end.

Definition show_wevent (e : wevent) : str :=
  lit_cmd ++ show_cmd (we_cmd e)
  ++ lit_n ++ show_nat (length (we_params e))
  ++ lit_p ++ hexlist (we_params e)
  ++ lit_src ++ show_src (we_src e)
  ++ lit_tags ++ show_tagmap (fun v => v) (we_tags e)
  ++ lit_get ++ show_tagmap tag_unescape (we_tags e)
  ++ lit_time ++ show_opt_hex (server_time_raw e).

Definition show_parse (r : res (option wevent)) : str :=
  match r with
  | Panic => lit_PANIC
  | Ok None => lit_nil
  | Ok (Some e) => show_wevent e
  end.

(* ---- case decoding for codec.encode -------------------------------------------
   args = hdr :: cmd :: name :: ident :: host :: k1 :: v1 :: ... :: kn :: vn :: params
   hdr = [tagmode; srcflag; ntags] (raw bytes): tagmode 0 = nil Tags, 1 = non-nil map
   filled by direct assignment t[k] = v (wire form) *)
Fixpoint take_tags (n : nat) (l : list str) (m : tagmap) : tagmap * list str :=
  match n with
  | O => (m, l)
  | S n' =>
    match l with
    | k :: v :: r => take_tags n' r (aset k v m)
    | _ => (m, [])
    end
  end.

Definition decode_event (args : list str) : wevent :=
  let hdr := c01_arg args 0 in
  let tagmode := c01_byte hdr 0 in
  let srcflag := c01_byte hdr 1 in
  let ntags := N.to_nat (c01_byte hdr 2) in
  let cmd := c01_arg args 1 in
  let src := if srcflag =? 0 then None
             else Some (mkWSource (c01_arg args 2) (c01_arg args 3) (c01_arg args 4)) in
  let '(m, params) := take_tags ntags (skipn 5 args) [] in
  mkWEvent (if tagmode =? 0 then None else Some m) src cmd params.

Definition run_encode (args : list str) : str :=
  let e := decode_event args in
  let b := event_bytes e in
  lit_b ++ hex b ++ lit_len ++ show_nat (event_len e) ++ lit_rt ++ show_parse (parse_event b).

(* ---- codec.source: args = [raw]  -> parsed triple, its re-serialisation and length *)
Definition run_source (args : list str) : str :=
  match wparse_source (c01_arg args 0) with
  | Panic => lit_PANIC
  | Ok s => show_src (Some s) ++ bar ++ hex (source_write s) ++ bar ++ show_nat (source_len s)
  end.

(* ---- codec.tags: args = mode :: raw-or-ops
   mode "P": args = ["P"; raw]: ParseTags(raw) -> map, Bytes, Len
   mode "S": args = "S" :: init :: k1 :: v1 :: ... : Set sequence on Tags{} (init "m")
             or on nil (init "n"); per step ok/err; then map, Bytes, Get of each key *)
Fixpoint run_sets (t : wtags) (l : list str) (acc : str) : wtags * str :=
  match l with
  | k :: v :: r =>
    match tags_set t k v with
    | None => run_sets t r (acc ++ [69])           (* E *)
    | Some t' => run_sets t' r (acc ++ [79])       (* O *)
    end
  | _ => (t, acc)
  end.

Fixpoint show_gets (t : wtags) (l : list str) : list str :=
  match l with
  | k :: _ :: r => show_opt_hex (tags_get t k) :: show_gets t r
  | _ => []
  end.

Definition run_tags (args : list str) : str :=
  let mode := c01_byte (c01_arg args 0) 0 in
  if mode =? 80 then
    match parse_tags (c01_arg args 1) with
    | Panic => lit_PANIC
    | Ok m => show_tagmap (fun v => v) (Some m) ++ bar ++ show_tagmap tag_unescape (Some m)
              ++ bar ++ hex (tags_bytes (Some m)) ++ bar ++ show_nat (tags_len (Some m))
    end
  else
    let init := if c01_byte (c01_arg args 1) 0 =? 110 then None else Some [] in
    let ops := skipn 2 args in
    let '(t, log) := run_sets init ops [] in
    log ++ bar ++ show_tagmap (fun v => v) t ++ bar ++ hex (tags_bytes t) ++ bar
    ++ join comma (show_gets t ops).

Definition run_C01 (suite : str) (args : list str) : option str :=
  if streqb suite (bs "codec.parse")
  then Some (show_parse (parse_event (c01_arg args 0)) ++ lit_gl ++ show_bool (wf_lineb (c01_arg args 0)))
  else if streqb suite (bs "codec.encode") then Some (run_encode args)
  else if streqb suite (bs "codec.source") then Some (run_source args)
  else if streqb suite (bs "codec.tags") then Some (run_tags args)
  else if streqb suite (bs "codec.tags.nilrecv") then Some (run_tags args)
  else None.
