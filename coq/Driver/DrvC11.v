(* Correspondence suites for C11.
   split.message : text; width (decimal, optional '-')          -> n:hexlist(pieces) | PANIC
   split.event   : tag overhead; "s"/"-"; name; ident; host; command; max; params...
                                                                -> n:piece|piece...   | PANIC
   split.limit   : 005 lines (earlier connection); 005 lines (this connection)
                                                                -> maxline,maxprefix,MaxEventLength
   split.batches / split.send :
                   op; 005 lines (earlier); 005 lines (this); then channels (join, list) or target, text (msg, notice, action)
                                                                -> MaxEventLength;n:hexlist(wire lines)
   "005 lines" = number of lines (decimal), then per line: number of params, the params. *)
Require Import Bytes Utf8 WireOut Ctcp State Split.

Definition slash : str := [47].
Definition colon11 : str := [58].

Definition counted (l : list str) : str := show_nat (length l) ++ colon11 ++ hexlist l.

Definition arg_int (a : str) : Z := match parse_int a with Some z => z | None => 0%Z end.
Definition arg_nat (a : str) : nat := match parse_nat a with Some n => N.to_nat n | None => 0%nat end.

Definition run_split_message (args : list str) : str :=
  match args with
  | text :: w :: _ =>
    match split_message text (arg_int w) with
    | Panic => bs "PANIC"
    | Ok ps => counted ps
    end
  | _ => bs "?bad-args"
  end.

Definition show_source (s : option (str * str * str)) : str :=
  match s with
  | None => [45]
  | Some (n, i, h) => hex n ++ [33] ++ hex i ++ [64] ++ hex h
  end.

Definition show_sevent (e : sevent) : str :=
  hex (se_command e) ++ slash ++ show_nat (length (se_params e)) ++ slash ++ hexlist (se_params e)
  ++ slash ++ show_source (se_source e) ++ slash ++ show_nat (se_tagov e).

Definition run_split_event (args : list str) : str :=
  match args with
  | tagov :: sf :: name :: ident :: host :: cmd :: max :: params =>
    let src := match sf with 115 :: _ => Some (name, ident, host) | _ => None end in
    let t := arg_nat tagov in
    let t := if Nat.eqb t 1 then 0%nat else t in
    match event_split (mk_sevent t src cmd params) (arg_int max) with
    | Panic => bs "PANIC"
    | Ok es => show_nat (length es) ++ colon11 ++ join bar (List.map show_sevent es)
    end
  | _ => bs "?bad-args"
  end.

(* n lines, each: k, then k params *)
Fixpoint take_lines (n : nat) (args : list str) : list (list str) * list str :=
  match n with
  | O => ([], args)
  | S n' =>
    match args with
    | k :: rest =>
      let k := arg_nat k in
      let '(ls, rest') := take_lines n' (skipn k rest) in
      (firstn k rest :: ls, rest')
    | [] => ([], [])
    end
  end.

Definition c005 : str := Eval vm_compute in bs "005".

Definition apply_lines_from (s0 : state) (ls : list (list str)) : state :=
  fold_left (fun s ps => handle_isupport s (mkEvent None None c005 ps)) ls s0.

(* one client object: the lines of an earlier connection, the reset before the next
   connection, the lines of this connection *)
Definition apply_conn (prev cur : list (list str)) : state :=
  apply_lines_from (reset_conn (apply_lines_from state_init prev)) cur.

Definition run_split_limit (args : list str) : str :=
  match args with
  | n :: rest =>
    let '(prev, rest1) := take_lines (arg_nat n) rest in
    let '(ls, _) := match rest1 with m :: r1 => take_lines (arg_nat m) r1 | [] => ([], []) end in
    let s := apply_conn prev ls in
    show_Z (st_maxline s) ++ comma ++ show_Z (st_maxprefix s) ++ comma ++ show_Z (max_event_length s)
  | _ => bs "?bad-args"
  end.

Fixpoint send_all (gf : bool) (s : state) (es : list sevent) : res (list str) :=
  match es with
  | [] => Ok []
  | e :: r =>
    ps <- (if gf then send_gf s e else send s e) ;;
    rest <- send_all gf s r ;;
    Ok (List.map event_bytes ps ++ rest)
  end.

Definition op_events (op : str) (s : state) (rest : list str) : list sevent :=
  if streqb op (bs "join") then join_events rest (max_event_length s)
  else if streqb op (bs "list") then list_events rest (max_event_length s)
  else match rest with
       | target :: text :: _ =>
         if streqb op (bs "msg") then [message target text]
         else if streqb op (bs "notice") then [notice_ev target text]
         else if streqb op (bs "action") then [action target text]
         else []
       | _ => []
       end.

Definition run_split_send (args : list str) : str :=
  match args with
  | op :: n :: rest =>
    let '(prev, rest1) := take_lines (arg_nat n) rest in
    let '(ls, rest') := match rest1 with m :: r1 => take_lines (arg_nat m) r1 | [] => ([], []) end in
    let s := apply_conn prev ls in
    (* a leading 'g': the client has Config.GlobalFormat *)
    let '(gf, op) := match op with 103 :: o => (true, o) | _ => (false, op) end in
    match send_all gf s (op_events op s rest') with
    | Panic => bs "PANIC"
    | Ok lines => show_Z (max_event_length s) ++ semi ++ counted lines
    end
  | _ => bs "?bad-args"
  end.

Definition run_C11 (suite : str) (args : list str) : option str :=
  if streqb suite (bs "split.message") then Some (run_split_message args)
  else if streqb suite (bs "split.event") then Some (run_split_event args)
  else if streqb suite (bs "split.limit") then Some (run_split_limit args)
  else if streqb suite (bs "split.batches") || streqb suite (bs "split.send") then Some (run_split_send args)
  else None.
