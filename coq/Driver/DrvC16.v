(* Correspondence suites for C16.
   rate.arith  args: kind, writeDelay, since, chars (decimal ASCII)
     kind "z": the connection never wrote (lastWrite = zero Time): time.Since saturates at
               2^63-1 ns whatever the clock reads -> observation "wd' delay", exact;
     kind "r": lastWrite = now - since on the real clock (lastRate unset); the
               implementation reads the clock a little later (elapsed = since + eps,
               eps >= 0), so the observation is "floor(wd' / 10ms) delay" and the generator
               only emits cases whose observation is the same for every eps in [0, 5ms]
               (see harness/suites/c16.go);
     kind "m": a fifth argument sinceRate: lastWrite = now - since, lastRate = now -
               sinceRate (negative = unset); observation as for "r" plus "T" when lastRate
               was advanced to the time of the call.
   rate.wire   args: one scenario per argument, see below. *)
Require Import Bytes Rate.
Open Scope Z_scope.

Definition max_duration : Z := 9223372036854775807.
Definition zarg (n : nat) (args : list str) : Z :=
  match parse_int (nth n args []) with Some z => z | None => 0 end.

Definition sp : str := [32%N].

Definition obs_arith (args : list str) : str :=
  let kind := nth 0 args [] in
  let w := zarg 1 args in
  let since := zarg 2 args in
  let chars := zarg 3 args in
  let unset := - max_duration in                       (* the zero Time: before everything *)
  let at_ (ago : Z) := if ago <? 0 then unset else - ago in
  if streqb kind (bs "z") then
    let '(s, d) := rate (mkR w 0 0) max_duration chars in
    show_Z (wd s) ++ sp ++ show_Z d
  else if streqb kind (bs "m") then
    let '(s, d) := rate (mkR w (at_ since) (at_ (zarg 4 args))) 0 chars in
    show_Z (wd s / 10000000) ++ sp ++ show_Z d ++ sp ++ show_bool (lastr s =? 0)
  else
    let '(s, d) := rate (mkR w (- since) unset) 0 chars in
    show_Z (wd s / 10000000) ++ sp ++ show_Z d.

(* ---- rate.wire ------------------------------------------------------------------------
   A scenario is a kind letter followed by decimal numbers separated by spaces.
     "S l1 l2 ... ln"   one sender, each line seen by the peer before the next Send, the
                        first Send after an idle period of at least its cost (writeDelay 0
                        and fully forgiven): which events are held ('D') / not held ('U')
     "T g l1 ... ln"    g senders in tight loops, n events each in round-robin assignment:
                        only the schedule-independent part: per sender the ids in arrival order
     "F n"              AllowFlood: n events, none held, order kept
     "X linelen l0 .. l4 textlen"  one sender as in S: five events that use the allowance
                        up (no more), then one PRIVMSG long enough to be split by Send:
                        pattern of the five / whether the split Send took the sum of its
                        pieces' costs (every piece is rated and held on its own)
     "P l1 l2"          keep-alives while a Send of l1 (l2) bytes is being held (the server's
                        PING answered, the client's own Cmd.Ping): number of delays the
                        limiter returned for them / number of keep-alive lines written
     "H gf af name .."  every exported sender with the allowance used, GlobalFormat gf,
                        AllowFlood af: per name 'H' (rated and held), 'U' (not rated),
                        '?' (not an entry point of the model)
     "I npong nsend"    allowance used, npong unsolicited PONGs (and PINGs) from the server,
                        then nsend Sends: per Send 'H' (held) / 'U'
   rate.inbound args: allowFlood, primed writeDelay, an inbound history.  Handlers of inbound
               traffic only ever Send or write: whatever the history, with AllowFlood the
               limiter state is untouched ("wd=same lr=same"), without it writeDelay never
               drops (no time passes in the model) and lastRate only moves forward
   rate.entry  args: name of an exported sender -> "send" / "write" / "absent" (the model's table) *)
Fixpoint split_sp (s : str) (cur : str) : list str :=
  match s with
  | [] => [rev cur]
  | c :: r => if N.eqb c 32 then rev cur :: split_sp r [] else split_sp r (c :: cur)
  end.
Definition nums (s : str) : list Z :=
  map (fun t => match parse_int t with Some z => z | None => 0 end) (split_sp s []).

Definition pattern (ds : list (Z * Z * Z)) : str :=
  map (fun x => match x with (_, d, _) => if d =? 0 then 85%N else 68%N end) ds.

(* S: first gap = its own cost (idle long enough), later gaps 0, no slack *)
Definition obs_sync (lens : list Z) : str :=
  let steps := match lens with
               | [] => []
               | l :: r => (cost l, l, 0) :: map (fun x => (0, x, 0)) r
               end in
  bs "S=" ++ pattern (snd (run_sync (mkR 0 0 0) steps)).

Fixpoint mk_events (g : N) (id : N) (lens : list Z) : list event :=
  match lens with [] => [] | l :: r => mkE g id l :: mk_events g (N.succ id) r end.

Definition show_ids (l : list event) : str :=
  concat (map (fun e => show_N (ev_id e) ++ bs ",") l).

(* T: the model runs one schedule (all rate calls and enqueues sender by sender, then the
   deliveries); the per-sender arrival order is the same for every schedule (C16_order) *)
Fixpoint chunk (k : nat) (l : list Z) (fuel : nat) : list (list Z) :=
  match fuel with
  | O => []
  | S f => match l with [] => [] | _ => firstn k l :: chunk k (skipn k l) f end
  end.
Fixpoint zip_g (g : N) (ch : list (list Z)) : list event :=
  match ch with [] => [] | c :: r => mk_events g 0 c ++ zip_g (N.succ g) r end.
Definition obs_tight (args : list Z) : str :=
  match args with
  | g :: lens =>
      let per := (length lens / Z.to_nat g)%nat in
      let evs := zip_g 0 (chunk per lens (length lens)) in
      let acts := concat (map (fun e => send_piece false 0 e) evs) ++ map (fun _ => ADeliver 0) evs in
      let s := fst (exec (sys0 (mkR 0 0 0)) acts) in
      bs "T=" ++ concat (map (fun k => bs "g" ++ show_N k ++ bs ":" ++ show_ids (events_of k (wire_events s)) ++ bs ";")
                            (map N.of_nat (seq 0 (Z.to_nat g))))
  | [] => bs "T=?"
  end.

Definition obs_flood (args : list Z) : str :=
  let n := Z.to_nat (nth 0 args 0) in
  let lens := repeat 30 n in
  let '(s, t) := send_flood true (sys0 (mkR 0 0 0)) 0 0 0 lens in
  bs "F=" ++ show_nat (length (wire_events s)) ++ bs "/" ++ show_Z t ++ bs "/" ++
  (if forallb (fun p => N.eqb (ev_id (fst p)) (N.of_nat (snd p))) (combine (wire_events s) (seq 0 n)) then bs "ordered" else bs "reordered") ++
  (* a Send that is split into pieces (1x .. 6x MaxEventLength): still no rate call *)
  (let '(s2, t2) := send_flood true s t 0 (N.of_nat n) [400; 400; 400; 400; 400; 400; 120] in
   bs "/rated" ++ (if (wd (rs s2) =? wd (rs s)) && (lastr (rs s2) =? lastr (rs s)) && (t2 =? t) then bs "0" else bs "1")).

Definition obs_keepalive : str :=
  let e1 := mkE 9 0 160 in
  let e2 := mkE 9 1 160 in
  let '(s, ds) := exec (sys0 (mkR (9 * second) 0 0)) (pong_actions e1 ++ ping_actions e2 ++ [ADeliver 1; ADeliver 2]) in
  bs "P=" ++ show_nat (length ds) ++ bs "/" ++ show_nat (length (wire s)).

(* X: the pieces' exact lengths are the splitter's business (C11); any two pieces of the
   nominal length are each held from the state the five events leave behind *)
Definition obs_split (args : list Z) : str :=
  match args with
  | _ :: l0 :: rest =>
      let lens := l0 :: firstn 4 rest in
      let steps := (cost l0, l0, 0) :: map (fun x => (0, x, 0)) (firstn 4 rest) in
      let '(s1, out) := run_sync (mkR 0 0 0) steps in
      let pieces := [95; 95] in
      let '(s2, t) := send_flood false (sys0 s1) (last s1) 0 0 pieces in
      bs "X=" ++ pattern out ++ bs "/" ++
      (if t - last s1 =? cost 95 + cost 95 then bs "D" else bs "U")
  | _ => bs "X=?"
  end.

Definition base_name (n : str) : str :=       (* "Reply/private" -> "Reply" *)
  match index_byte 47 n with Some k => firstn k n | None => n end.

Definition obs_helpers (words : list str) : str :=
  match words with
  | gf :: af :: names =>
      let allow := streqb af (bs "1") in
      let g := streqb gf (bs "1") in
      bs "H=" ++ map (fun n =>
        match entry_route (base_name n) with
        | None => 63%N
        | Some r =>
            (* from an exhausted allowance: is there a rate call, and is the event held? *)
            let e := mkE 0 0 30 in
            let '(_, ds) := exec (sys0 (mkR (30 * second) 0 0)) (entry_actions g allow r 0 e) in
            match ds with
            | [] => 85%N
            | d :: _ => if d =? cost 30 then 72%N else 114%N
            end
        end) names
  | _ => bs "H=?"
  end.

Definition obs_entry (args : list str) : str :=
  match entry_route (nth 0 args []) with
  | Some ViaSend => bs "send"
  | Some ViaWrite => bs "write"
  | None => bs "absent"
  end.

(* the handlers' footprint: a PONG touches nothing, a PING is answered through write *)
Definition inbound_actions (pongs : nat) : list action :=
  concat (map (fun i => pong_actions (mkE 8 (N.of_nat i) 20)) (seq 0 pongs)).

Definition obs_inbound_wire (args : list Z) : str :=
  let npong := Z.to_nat (nth 0 args 0) in
  let nsend := Z.to_nat (nth 1 args 0) in
  let sends := concat (map (fun i => entry_actions false false ViaSend 0 (mkE 0 (N.of_nat i) 18)) (seq 0 nsend)) in
  let '(s1, _) := exec (sys0 (mkR (20 * second) 0 0)) (inbound_actions npong) in
  let '(_, ds) := exec s1 sends in
  bs "I=" ++ map (fun d => if d =? cost 18 then 72%N else 85%N) ds.

(* rate.inbound: every event's handlers contribute at most Sends and writes; the model runs
   the largest such fragment per event (a Send, a write, a Send) with no time passing *)
Definition obs_inbound (args : list str) : str :=
  let allow := streqb (nth 0 args []) (bs "1") in
  let w := zarg 1 args in
  let n := length args in
  let e := mkE 7 0 20 in
  let frag := entry_actions false allow ViaSend 0 e ++ [AEnq e] ++ entry_actions false allow ViaSend 0 e in
  let s0 := sys0 (mkR w 0 0) in
  let s1 := fst (exec s0 (concat (repeat frag n))) in
  if allow then
    bs "wd=" ++ (if wd (rs s1) =? w then bs "same" else bs "CHANGED") ++
    bs " lr=" ++ (if lastr (rs s1) =? 0 then bs "same" else bs "CHANGED") ++ bs " lw=mono"
  else
    bs "wd=" ++ (if w <=? wd (rs s1) then bs "kept" else bs "LOWERED") ++
    bs " lr=" ++ (if 0 <=? lastr (rs s1) then bs "mono" else bs "BACK") ++ bs " lw=mono".

Definition obs_scenario (s : str) : str :=
  match s with
  | 83%N :: 32%N :: r => obs_sync (nums r)
  | 84%N :: 32%N :: r => obs_tight (nums r)
  | 70%N :: 32%N :: r => obs_flood (nums r)
  | 80%N :: 32%N :: r => obs_keepalive
  | 88%N :: 32%N :: r => obs_split (nums r)
  | 72%N :: 32%N :: r => obs_helpers (split_sp r [])
  | 73%N :: 32%N :: r => obs_inbound_wire (nums r)
  | _ => bs "?scenario"
  end.

(* the last argument of a rate.wire case is the sum of all bytes of the others: a case
   mangled by a shrinker is answered at once instead of running for seconds *)
Definition checksum (args : list str) : N := fold_left (fun a s => fold_left N.add s a) args 0%N.

Definition run_C16 (suite : str) (args : list str) : option str :=
  if streqb suite (bs "rate.arith") then Some (obs_arith args)
  else if streqb suite (bs "rate.entry") then Some (obs_entry args)
  else if streqb suite (bs "rate.inbound") then Some (obs_inbound args)
  else if streqb suite (bs "rate.wire") then
    Some (match rev args with
          | ck :: rest =>
              if match parse_nat ck with Some k => N.eqb k (checksum (rev rest)) | None => false end
              then concat (map (fun a => obs_scenario a ++ bs "|") (rev rest))
              else bs "?bad-case"
          | [] => bs "?bad-case"
          end)
  else None.
