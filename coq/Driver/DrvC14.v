(* Correspondence suites for C14: suite name -> arguments -> observation text.
   Events travel as  srcflag ("1" = has a source), source name, command, params... *)
Require Import Bytes Names GoUpperAscii Ctcp WireOut.
Require Event.

Definition one_byte (b : N) (s : str) : bool := match s with [c] => c =? b | _ => false end.

Definition ev_of_args (args : list str) : event :=
  match args with
  | sf :: sn :: cmd :: ps => mk_event (if one_byte 49 sf then Some sn else None) cmd ps
  | _ => mk_event None [] []
  end.

Definition show_ctcp (c : ctcp_event) : str :=
  hex (c_command c) ++ [47] ++ hex (c_text c) ++ [47] ++ show_bool (c_reply c) ++ [47] ++
  show_opt_hex (c_source c).

Definition show_decode (r : res (option ctcp_event)) : str :=
  match r with
  | Panic => bs "PANIC"
  | Ok None => bs "nil"
  | Ok (Some c) => show_ctcp c
  end.

Definition t_target : str := [116].   (* "t" *)

Definition show_roundtrip (cmd text : str) : str :=
  let enc := encode_ctcp_raw cmd text in
  hex enc ++ semi ++ show_decode (decode_ctcp (mk_event None PRIVMSG [t_target; enc])) ++ semi ++
  show_decode (decode_ctcp (mk_event None NOTICE [t_target; enc])).

(* the environments of the connected sessions (harness/suites/c14.go): opaque runtime
   texts are placeholders the harness substitutes after checking their shape *)
Definition drv_env (version : str) : env :=
  mk_env version (bs "Real Name") (bs "<gover>") (bs "<goos>") (bs "<goarch>") (bs "<now>") (bs "<idle>") true.

(* session variant 2: wildcard handler, a handler for FOO, SOURCE cleared *)
Definition h_wild : handler := fun c => Ok [notice (bs "wild") (bs "w " ++ c_command c)].
Definition h_foo : handler := fun c => Ok [notice (bs "foo") (bs "f " ++ c_text c)].
Definition custom_table (v : env) : table :=
  [ (ctcp_wildcard, h_wild); (bs "FOO", h_foo);
    (CTCP_PING, handle_ping); (CTCP_PONG, handle_pong); (CTCP_VERSION, handle_version v);
    (CTCP_TIME, handle_time v); (CTCP_FINGER, handle_finger v) ].

(* the application handler of sessions 3, 4, 5 and u: rewrites source, target and text of the
   event it was given and appends a parameter; writes nothing *)
Definition drv_mutator : ev_handler := fun e =>
  (mk_event (option_map (fun _ => bs "mallory") (ev_source e)) (ev_command e)
     (match ev_params e with
      | [] => [bs "extra"]
      | [_] => [bs "#elsewhere"; bs "extra"]
      | _ :: _ :: r => bs "#elsewhere" :: ([1] ++ bs "PING hijacked" ++ [1]) :: r ++ [bs "extra"]
      end), []).

Definition has_mutators (variant : str) : bool :=
  one_byte 51 variant || one_byte 52 variant || one_byte 53 variant.

Definition table_of_variant (variant : str) : table :=
  if one_byte 49 variant then default_table (drv_env (bs "verif 1.0"))
  else if one_byte 50 variant then custom_table (drv_env [])
  else default_table (drv_env []).

Definition wire_event (e : event) : str :=
  match ev_params e with
  | [p0; p1] => wire2 (ev_command e) p0 p1
  | _ => bs "?shape"
  end.

Definition show_outs (r : res (list event)) : str :=
  match r with
  | Panic => bs "PANIC"
  | Ok l => hexlist (List.map wire_event l)
  end.

(* ---- ctcp.table: Set/SetBg/Clear/ClearAll, then one event ----------------- *)

(* lexicographic order on byte strings (Go's sort.Strings) *)
Fixpoint str_leb (a b : str) : bool :=
  match a, b with
  | [], _ => true
  | _ :: _, [] => false
  | x :: a', y :: b' => if x <? y then true else if y <? x then false else str_leb a' b'
  end.

Fixpoint insert_sorted (x : str) (l : list str) : list str :=
  match l with
  | [] => [x]
  | y :: r => if str_leb x y then x :: l else y :: insert_sorted x r
  end.

Definition sort_strs (l : list str) : list str := fold_right insert_sorted [] l.

(* the handlers the harness registers: id 8 answers like a default replier, every other
   id writes one NOTICE to "h<id>" ("w<id>" when registered as the wildcard) *)
Definition user_handler (id : N) (wild : bool) : handler :=
  if id =? 56 then
    fun c => if c_reply c then Ok [] else
             match c_source c with
             | None => Ok []
             | Some n => one (send_ctcp_reply (source_id n) (c_command c) [114])
             end
  else
    fun c => Ok [notice [if wild then 119 else 104; id]
                   (c_command c ++ [124] ++ c_text c ++ [124] ++ show_bool (c_reply c))].

(* op argument: kind byte ('S' Set, 'B' SetBg, 'C' Clear, 'A' ClearAll), id byte, name *)
Definition op_of_arg (a : str) : table_op :=
  match a with
  | k :: id :: name =>
      if (k =? 83) || (k =? 66) then OpSet name (user_handler id (streqb name ctcp_wildcard))
      else if k =? 67 then OpClear name
      else if k =? 65 then OpClearAll
      else OpClear []
  | _ => OpClear []
  end.

(* "<n>" or "<n>m" (m: the session with application handlers that rewrite their event) *)
Definition digit_of (s : str) : nat :=
  match s with d :: _ => N.to_nat (d - 48) | _ => 0%nat end.

Definition marked_m (s : str) : bool := match s with [_; m] => m =? 109 | _ => false end.

Definition show_table_case (args : list str) : str :=
  match args with
  | n :: rest =>
      let k := digit_of n in
      let v := drv_env [] in
      let t := apply_ops v (default_table v) (List.map op_of_arg (firstn k rest)) in
      hexlist (sort_strs (List.map fst t)) ++ semi ++
      show_outs (if marked_m n then run_handlers [drv_mutator; drv_mutator] t (ev_of_args (skipn k rest))
                 else ctcp_stage t (ev_of_args (skipn k rest)))
  | _ => bs "?args"
  end.

(* ---- the real read path: raw line -> ParseEvent -> DecodeCTCP / CTCP stage ------------ *)

(* Model/Event.v parse_event keeps everything but CR/LF at the ends of the line, so white
   space after the closing 0x01 stays part of the trailing parameter *)
Definition ev_of_wevent (w : Event.wevent) : event :=
  mk_event (option_map Event.ws_name (Event.we_src w)) (Event.we_cmd w) (Event.we_params w).

Definition show_line_decode (raw : str) : str :=
  match Event.parse_event raw with
  | Panic => bs "PANIC"
  | Ok None => bs "noparse"
  | Ok (Some w) => show_decode (decode_ctcp (ev_of_wevent w))
  end.

Definition show_line_replies (variant raw : str) : str :=
  match Event.parse_event raw with
  | Panic => bs "PANIC"
  | Ok None => bs "noparse"
  | Ok (Some w) => show_outs (ctcp_stage (table_of_variant variant) (ev_of_wevent w))
  end.

Definition run_C14 (suite : str) (args : list str) : option str :=
  if streqb suite (bs "ctcp.decode") then Some (show_decode (decode_ctcp (ev_of_args args)))
  else if streqb suite (bs "ctcp.roundtrip") then
    Some (match args with
          | cmd :: text :: _ => show_roundtrip cmd text
          | _ => bs "?args"
          end)
  else if streqb suite (bs "ctcp.replies") then
    Some (match args with
          | variant :: rest =>
              show_outs (if has_mutators variant
                         then run_handlers [drv_mutator] (table_of_variant variant) (ev_of_args rest)
                         else ctcp_stage (table_of_variant variant) (ev_of_args rest))
          | _ => bs "?args"
          end)
  else if streqb suite (bs "ctcp.decode.line") then
    Some (match args with raw :: _ => show_line_decode raw | _ => bs "?args" end)
  else if streqb suite (bs "ctcp.replies.wire") then
    Some (match args with variant :: raw :: _ => show_line_replies variant raw | _ => bs "?args" end)
  else if streqb suite (bs "ctcp.parsecmd") then
    Some (match args with
          | name :: _ => hex (parse_cmd name)
          | _ => bs "?args"
          end)
  else if streqb suite (bs "ctcp.table") then Some (show_table_case args)
  else if streqb suite (bs "ctcp.send") then
    Some (match args with
          | kind :: target :: ty :: msg :: _ =>
              match (if one_byte 82 kind then send_ctcp_reply target ty msg else send_ctcp target ty msg) with
              | Panic => bs "PANIC"
              | Ok e => hex (wire_event e)
              end
          | _ => bs "?args"
          end)
  else None.
