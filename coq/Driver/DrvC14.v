(* Correspondence suites for C14: suite name -> arguments -> observation text.
   Events travel as  srcflag ("1" = has a source), source name, command, params... *)
Require Import Bytes Names Ctcp WireOut.

Definition one_byte (b : N) (s : str) : bool := match s with [c] => c =? b | _ => false end.

Definition ev_of_args (args : list str) : event :=
  match args with
  | sf :: sn :: cmd :: ps => mk_event (if one_byte 49 sf then Some sn else None) cmd ps
  | _ => mk_event None [] []
  end.

Definition show_ctcp (c : ctcp_event) : str :=
  hex (c_command c) ++ [47] ++ hex (c_text c) ++ [47] ++ show_bool (c_reply c) ++ [47] ++
  show_opt_hex (c_source c).

Definition show_decode (r : res (option ctcp_event)) : str :=
  match r with
  | Panic => bs "PANIC"
  | Ok None => bs "nil"
  | Ok (Some c) => show_ctcp c
  end.

Definition t_target : str := [116].   (* "t" *)

Definition show_roundtrip (cmd text : str) : str :=
  let enc := encode_ctcp_raw cmd text in
  hex enc ++ semi ++ show_decode (decode_ctcp (mk_event None PRIVMSG [t_target; enc])) ++ semi ++
  show_decode (decode_ctcp (mk_event None NOTICE [t_target; enc])).

(* the environments of the connected sessions (harness/suites/c14.go): opaque runtime
   texts are placeholders the harness substitutes after checking their shape *)
Definition drv_env (version : str) : env :=
  mk_env version (bs "Real Name") (bs "<gover>") (bs "<goos>") (bs "<goarch>") (bs "<now>") (bs "<idle>") true.

(* session variant 2: wildcard handler, a handler for FOO, SOURCE cleared *)
Definition h_wild : handler := fun c => Ok [notice (bs "wild") (bs "w " ++ c_command c)].
Definition h_foo : handler := fun c => Ok [notice (bs "foo") (bs "f " ++ c_text c)].
Definition custom_table (v : env) : table :=
  [ (ctcp_wildcard, h_wild); (bs "FOO", h_foo);
    (CTCP_PING, handle_ping); (CTCP_PONG, handle_pong); (CTCP_VERSION, handle_version v);
    (CTCP_TIME, handle_time v); (CTCP_FINGER, handle_finger v) ].

Definition table_of_variant (variant : str) : table :=
  if one_byte 49 variant then default_table (drv_env (bs "verif 1.0"))
  else if one_byte 50 variant then custom_table (drv_env [])
  else default_table (drv_env []).

Definition wire_event (e : event) : str :=
  match ev_params e with
  | [p0; p1] => wire2 (ev_command e) p0 p1
  | _ => bs "?shape"
  end.

Definition show_outs (r : res (list event)) : str :=
  match r with
  | Panic => bs "PANIC"
  | Ok l => hexlist (List.map wire_event l)
  end.

Definition run_C14 (suite : str) (args : list str) : option str :=
  if streqb suite (bs "ctcp.decode") then Some (show_decode (decode_ctcp (ev_of_args args)))
  else if streqb suite (bs "ctcp.roundtrip") then
    Some (match args with
          | cmd :: text :: _ => show_roundtrip cmd text
          | _ => bs "?args"
          end)
  else if streqb suite (bs "ctcp.replies") then
    Some (match args with
          | variant :: rest => show_outs (ctcp_stage (table_of_variant variant) (ev_of_args rest))
          | _ => bs "?args"
          end)
  else None.
