(* Correspondence suites for C10: sts.scenarios / sts.policy (one driver) and sts.expiry.
   Observation text must match harness/suites/c10.go byte for byte.

   Case layout (sts.scenarios, sts.policy):
     arg0  configuration bits: D DisableSTS, L SSL, F DisableSTSFallback, S SASL PLAIN, P SupportedCaps lists sts
     arg1  policy held before the first Connect: "" or "port,duration,receivedAgo[,failedAgo]" (seconds)
     arg2… "C" = a Connect call; "L<age>,<dial>,<hs>,<end>" = a connection script (age: scripted
           seconds passing before the dial; end x = the peer hangs up together with its last line, so
           that line's answer is not observed); "E<params joined by LF>" = a CAP event of that script.
   The clock starts at t0 and advances by the ages of the scripts a Connect call consumes. *)
Require Import Bytes CapLib StsState Cap Sts.

Definition arg10 (n : nat) (args : list str) : str := nth n args [].

Definition t0 : Z := 1700000000000000000%Z.
Definition cfg_port : Z := 6667%Z.

Definition s10_PLAIN := Eval vm_compute in bs "PLAIN".

Definition c10_cfg (bits : str) : cap_cfg :=
  mkCfg (if memb 83 bits then Some s10_PLAIN else None) (memb 68 bits) (memb 76 bits) (memb 70 bits)
        (if memb 80 bits then [(s_sts, [])] else []) true None [] (bs "me") (bs "user") (bs "Real Name").

(* ---- script parsing ------------------------------------------------------ *)
Record dleg := mkDLeg {
  dl_age : Z; dl_dial : bool; dl_hs : bool; dl_end : N; dl_evs : list (list str) (* reversed *)
}.

Definition parse_leg (s : str) : option dleg :=
  match split_byte 44 s with
  | [a; d; h; e] =>
      match parse_nat a, parse_nat d, parse_nat h, e with
      | Some a', Some d', Some h', [e'] => Some (mkDLeg (Z.of_N a') (N.eqb d' 1) (N.eqb h' 1) e' [])
      | _, _, _, _ => None
      end
  | _ => None
  end.

Definition add_ev (l : dleg) (ps : list str) : dleg :=
  mkDLeg (dl_age l) (dl_dial l) (dl_hs l) (dl_end l) (ps :: dl_evs l).

(* acc: Connect calls, newest first; their scripts newest first; events newest first *)
Fixpoint parse_toks (toks : list str) (acc : list (list dleg)) : option (list (list dleg)) :=
  match toks with
  | [] => Some acc
  | t :: r =>
      match t with
      | [67] => parse_toks r ([] :: acc)
      | 76 :: s =>
          match acc, parse_leg s with
          | c :: acc', Some l => parse_toks r ((l :: c) :: acc')
          | _, _ => None
          end
      | 69 :: s =>
          match acc with
          | (l :: c) :: acc' => parse_toks r ((add_ev l (split_byte 10 s) :: c) :: acc')
          | _ => None
          end
      | _ => None
      end
  end.

Definition ns (secs : Z) : Z := (secs * second_ns)%Z.

(* the scripts of one Connect call with their absolute dial times; when the scripts run
   out the dialer fails *)
(* end modes whose last line's answer is not observed: x (peer hangs up with it), k / q (the
   application calls Close() / Quit() while the line is still queued: execLoop's drain branch
   still handles it, on a connection whose transport has not changed - has_tls is a property
   of the connection, not of the connected flag) *)
Definition unobserved_end (e : N) : N :=
  if N.eqb e 120 || N.eqb e 107 || N.eqb e 113 then e else 0.

Fixpoint mk_scripts (now : Z) (legs : list dleg) : list (conn_script * N) :=
  match legs with
  | [] => [(mkConn false now true [] (EndClosed now), 0)]
  | l :: r =>
      let now' := (now + ns (dl_age l))%Z in
      (mkConn (dl_dial l) now' (dl_hs l) (List.map (fun ps => (now', ps)) (rev (dl_evs l)))
              (if N.eqb (dl_end l) 101 || N.eqb (dl_end l) 120 then EndIOError else EndClosed now'),
       unobserved_end (dl_end l))
      :: mk_scripts now' r
  end.

(* ---- rendering ------------------------------------------------------------ *)
Definition needs_colon10 (p : str) : bool :=
  match p with [] => true | 58 :: _ => true | _ => memb 32 p end.

Fixpoint render_params10 (ps : list str) : str :=
  match ps with
  | [] => []
  | [p] => 32 :: (if needs_colon10 p then 58 :: p else p)
  | p :: r => 32 :: p ++ render_params10 r
  end.

Definition render_out10 (o : cap_out) : str :=
  match o with
  | Upgrade => [85]
  | InjectError _ => [69]
  | Write cmd ps =>
      let raw := 63 :: hex (cmd ++ render_params10 ps) in
      if streqb cmd s_CAP then
        match ps with
        | [x] => if streqb x s_END then bs "END" else raw
        | [x; toks] => if streqb x s_REQ then bs "REQ:" ++ hexlist (sort_strs (split_byte 32 toks)) else raw
        | _ => raw
        end
      else if streqb cmd s_AUTHENTICATE then
        match ps with [m] => bs "AUTH:" ++ hex m | _ => raw end
      else raw
  end.

Definition render_outs10 (outs : list cap_out) : str := join comma (List.map render_out10 outs).

Definition bucket (now t : Z) : str :=
  if (t =? time_zero)%Z then [90]                          (* Z: never set *)
  else if (since now t <? 300 * second_ns)%Z then [82]    (* R: less than five minutes ago *)
  else [79].                                              (* O *)

Definition render_pol (now : Z) (s : strict_transport) : str :=
  show_bool (sts_enabled s) ++ comma ++ show_bool (begin_upgrade s) ++ comma ++
  show_Z (upgrade_port s) ++ comma ++ show_Z (persistence_duration s) ++ comma ++
  show_bool (preload s) ++ comma ++ bucket now (last_failed s) ++ comma ++
  bucket now (persistence_received s).

Definition render_srv (s : strict_transport) : str := bs ";srv=" ++ show_Z (server_port cfg_port s).

(* with end mode x the answer to the script's last line is not observed *)
Definition render_events (mark : N) (nev : nat) (outs : list (list cap_out)) : str :=
  if negb (N.eqb mark 0) && Nat.eqb (length outs) nev && negb (Nat.eqb nev 0)
  then concat (List.map (fun o => 59 :: render_outs10 o) (removelast outs)) ++ [59; mark]
  else concat (List.map (fun o => 59 :: render_outs10 o) outs).

Definition render_leg (lc : conn_log * (conn_script * N)) : str :=
  let l := fst lc in
  let c := fst (snd lc) in
  bs "[d=" ++ show_Z (l_port l) ++ comma ++
  (if negb (l_connected l) then [70]
   else (if l_tls l then [84] else [80]) ++
        (if l_tls l && negb (cs_hs_ok c) then [104]
         else render_events (snd (snd lc)) (length (cs_events c)) (l_outs l))) ++ [93].

Definition render_ret (r : ret_class) : str :=
  match r with
  | RNil => bs "nil" | RSTSUpgradeFailed => bs "sts" | RErrEvent => bs "errevent"
  | ROther => bs "other" | RNoScript => bs "noscript"
  end.

(* ---- running -------------------------------------------------------------- *)
Fixpoint run_connects (cfg : cap_cfg) (k : nat) (now : Z) (s : strict_transport)
         (cs : list (list dleg)) : str :=
  match cs with
  | [] => []
  | legs :: r =>
      let scripts := mk_scripts now legs in
      let res := start_conn sort_strs cfg cfg_port s (List.map fst scripts) in
      let logs := fst (fst res) in
      let s' := snd res in
      let now' := match nth_error scripts (Nat.pred (length logs)) with
                  | Some c => cs_dial_now (fst c) | None => now end in
      bs "|C" ++ show_nat k ++ [58] ++ concat (List.map render_leg (combine logs scripts)) ++
      bs ";ret=" ++ render_ret (snd (fst res)) ++ bs ";pol=" ++ render_pol now' s' ++ render_srv s' ++
      run_connects cfg (S k) now' s' r
  end.

Definition parse_init (init : str) : option strict_transport :=
  match init with
  | [] => Some sts_init
  | _ =>
      match split_byte 44 init with
      | p :: d :: a :: rest =>
          match parse_int p, parse_int d, parse_int a with
          | Some p', Some d', Some a' =>
              let base := mkSts false p' d' (t0 - ns a')%Z false time_zero in
              match rest with
              | [] => Some base
              | [] :: _ => Some base
              | f :: _ =>
                  match parse_int f with
                  | Some f' => Some (set_last_failed (t0 - ns f')%Z base)
                  | None => None
                  end
              end
          | _, _, _ => None
          end
      | _ => None
      end
  end.

Definition run_scenario (args : list str) : str :=
  match args with
  | bits :: init :: toks =>
      match parse_toks toks [] with
      | None => bs "?bad-case"
      | Some acc =>
          match parse_init init with
          | None => bs "?bad-init"
          | Some s0 =>
              let connects := rev (List.map (fun c => rev c) acc) in
              bs "init=" ++ render_pol t0 s0 ++ render_srv s0 ++
              run_connects (c10_cfg bits) 0 t0 s0 connects
          end
      end
  | _ => bs "?bad-case"
  end.

(* ---- sts.expiry ----------------------------------------------------------- *)
Definition run_expiry (args : list str) : str :=
  let kind := arg10 0 args in
  if streqb kind [88] then                                            (* X *)
    match parse_int (arg10 1 args), parse_nat (arg10 2 args) with
    | Some d, Some ms =>
        show_bool (sts_expired t0 (mkSts false 1 d (t0 - Z.of_N ms * 1000000)%Z false time_zero))
    | _, _ => bs "?bad-case"
    end
  else if streqb kind [82] then                                       (* R *)
    let cfg := c10_cfg (arg10 1 args) in
    let lf := match arg10 2 args with
              | [] => Some time_zero
              | a => option_map (fun n => (t0 - ns (Z.of_N n))%Z) (parse_nat a)
              end in
    match lf with
    | Some t => show_bool (amem s_sts (possible_caps cfg (recently_failed t0 (set_last_failed t sts_init))))
    | None => bs "?bad-case"
    end
  else if streqb kind [65] then                                       (* A *)
    match parse_int (arg10 1 args) with
    | Some p => let s := set_upgrade_port p sts_init in
                show_bool (sts_enabled s) ++ comma ++ show_Z (server_port cfg_port s)
    | None => bs "?bad-case"
    end
  else bs "?bad-case".

Definition run_C10 (suite : str) (args : list str) : option str :=
  if streqb suite (bs "sts.scenarios") then Some (run_scenario args)
  else if streqb suite (bs "sts.policy") then Some (run_scenario args)
  else if streqb suite (bs "sts.expiry") then
    Some (match args with _ :: _ :: _ :: _ => run_expiry args | _ => bs "?short-case" end)
  else if streqb suite (bs "sts.closeatack") then Some (run_scenario args)
  else None.
