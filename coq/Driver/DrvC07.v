(* Correspondence driver for C07.

   "lifecycle.accepts"  args: one token per visible label of an observed session
        -> "accept" | "reject@<i>" (index of the first label the machine cannot show)
          | "badtoken@<i>".
   "lifecycle.sessions" args: one spec per connection  kind/placement/n/k/m/errtext[/resp]
        -> per connection the set of results the statement allows for that kind
           (Spec/LifecycleSpec.allowed), e.g.  "nil|errevent=6279,ioerr".

   Token syntax (first byte is the tag, the rest the payload):
     C<p><reg>\0<reg>..  MockConnect called (p = '1' ping loop enabled), registration lines
     I K D               INITIALIZED / CLOSED / DISCONNECTED delivered
     m<id>  e<text>      event <id> / ERROR <text> delivered to handlers
     Rn Ri Rp Rt Re<t>   Connect returned nil / I-O error / parse error / ping timeout / ErrEvent t
     ( )                 Close() called / returned
     s<text> q<text>     Send(line) / Quit(text)
     cT cF               IsConnected() observed
     M<id> E<text> B<x>  peer sent event line / ERROR line / unparsable line
     X                   peer closed
     F                   the sending direction of the client's socket breaks (writes fail)
     r<text> Q<text>     peer received line / QUIT line
     Z                   peer saw EOF
     T<k>                ping ticker (k = 0,1,2) *)
Require Import Bytes Lifecycle LifecycleSpec.
From Coq Require Import List Bool Arith.
Import ListNotations.

Definition regs_of (rest : str) : list out :=
  match rest with [] => [] | _ => map (mkOut false) (split_byte 0%N rest) end.

Definition parse_label (t : str) : option label :=
  match t with
  | 67%N :: p :: rest => Some (LConnCall (regs_of rest) (N.eqb p 49))
  | [73%N] => Some LInit
  | [75%N] => Some LClosed
  | [68%N] => Some LDisc
  | 109%N :: id => Some (LDeliver (EvMsg id))
  | 101%N :: tx => Some (LDeliver (EvError tx))
  | [82%N; 110%N] => Some (LReturn ENil)
  | [82%N; 105%N] => Some (LReturn EIO)
  | [82%N; 112%N] => Some (LReturn EParse)
  | [82%N; 116%N] => Some (LReturn ETimedOut)
  | 82%N :: 101%N :: tx => Some (LReturn (EErrEvent tx))
  | [40%N] => Some LCloseCall
  | [41%N] => Some LCloseRet
  | 115%N :: tx => Some (LSend (mkOut false tx))
  | 113%N :: tx => Some (LSend (mkOut true tx))
  | [99%N; 84%N] => Some (LIsConn true)
  | [99%N; 70%N] => Some (LIsConn false)
  | 77%N :: id => Some (LPeerSend (LnEv (EvMsg id)))
  | 69%N :: tx => Some (LPeerSend (LnEv (EvError tx)))
  | 66%N :: x => Some (LPeerSend (LnBad x))
  | [88%N] => Some LPeerClose
  | [70%N] => Some LWFault
  | 114%N :: tx => Some (LPeerRecv (mkOut false tx))
  | 81%N :: tx => Some (LPeerRecv (mkOut true tx))
  | [90%N] => Some LPeerEOF
  | [84%N; 48%N] => Some (LTick 0)
  | [84%N; 49%N] => Some (LTick 1)
  | [84%N; 50%N] => Some (LTick 2)
  | _ => None
  end.

Fixpoint parse_all (ts : list str) (i : nat) : list label + nat :=
  match ts with
  | [] => inl []
  | t :: r =>
      match parse_label t with
      | None => inr i
      | Some l => match parse_all r (S i) with inl ls => inl (l :: ls) | inr j => inr j end
      end
  end.

Definition the_fuel : nat := 2000.

(* diagnostics only: index of the first label after which no state is left *)
Fixpoint first_dead (tr : list label) (cur : list state) (i : nat) : nat :=
  match tr with
  | [] => i
  | l :: tr' =>
      match tau_close the_fuel (flat_map (vis_succs l) cur) with
      | [] => i
      | nxt => first_dead tr' nxt (S i)
      end
  end.

(* diagnostics: number of candidate states after each label *)
Fixpoint sizes (tr : list label) (cur : list state) : list str :=
  match tr with
  | [] => []
  | l :: tr' => let nxt := tau_close the_fuel (flat_map (vis_succs l) cur) in
               show_nat (length nxt) :: sizes tr' nxt
  end.
Definition run_sizes (ts : list str) : str :=
  match parse_all ts 0 with
  | inr i => bs "badtoken@" ++ show_nat i
  | inl tr => let s0 := init (fold_right (fun l n => label_cost l + n) 0 tr) in
              join comma (sizes tr (tau_close the_fuel [s0]))
  end.

Definition run_accepts (ts : list str) : str :=
  match parse_all ts 0 with
  | inr i => bs "badtoken@" ++ show_nat i
  | inl tr =>
      if accepts the_fuel tr then bs "accept"
      else let s0 := init (fold_right (fun l n => label_cost l + n) 0 tr) in
           bs "reject@" ++ show_nat (first_dead tr (tau_close the_fuel [s0]) 0)
  end.

(* ---- lifecycle.sessions: the allowed results of a scenario kind ---- *)
Definition k_close := Eval vm_compute in bs "close".
Definition k_closereg := Eval vm_compute in bs "closereg".
Definition k_quit := Eval vm_compute in bs "quit".
Definition k_error := Eval vm_compute in bs "error".
Definition k_eof := Eval vm_compute in bs "eof".
Definition k_erroreof := Eval vm_compute in bs "erroreof".
Definition k_werr := Eval vm_compute in bs "werr".
Definition k_bad := Eval vm_compute in bs "badline".
Definition k_resp := Eval vm_compute in bs "resp".
Definition k_qwf := Eval vm_compute in bs "qwf".
Definition k_wfault := Eval vm_compute in bs "wfault".
Definition p_reg := Eval vm_compute in bs "reg".
Definition p_txq := Eval vm_compute in bs "txq".

(* the features of the history a scenario kind produces *)
Definition kind_features (kind place errtext : str) (resp : bool) : option features :=
  if streqb kind k_close || streqb kind k_closereg then Some (mkFeat true false [] false false false false)
  else if streqb kind k_quit then
    (* resp: the peer answers the QUIT like a server: ERROR, then it closes *)
    Some (if resp then mkFeat true false [errtext] true false false false else mkFeat true false [] false false false false)
  else if streqb kind k_error then Some (mkFeat false false [errtext] false false false false)
  else if streqb kind k_eof || streqb kind k_werr then Some (mkFeat false false [] true false false false)
  else if streqb kind k_erroreof then Some (mkFeat false false [errtext] true false false false)
  else if streqb kind k_bad then Some (mkFeat false false [] false true false false)
  else if streqb kind k_qwf then
    (* the sending direction breaks, then Quit(): only the QUIT can fail to be written, unless
       other output is still on its way (during registration / with output queued) *)
    Some (mkFeat true false [] false false false (streqb place p_reg || streqb place p_txq))
  else if streqb kind k_wfault then
    (* the sending direction breaks, then the application sends a line *)
    Some (mkFeat false false [] false false false true)
  else None.

Definition show_err (e : err) : str :=
  match e with
  | ENil => bs "nil"
  | EErrEvent t => bs "errevent=" ++ hex t
  | EIO => bs "ioerr"
  | EParse => bs "parse"
  | ETimedOut => bs "timeout"
  end.

Definition show_spec (spec : str) : str :=
  let f := split_byte 47%N spec in      (* '/' *)
  match kind_features (nth 0 f []) (nth 1 f []) (nth 5 f []) (streqb (nth 6 f []) k_resp) with
  | Some ft => join comma (map show_err (allowed ft))
  | None => bs "?kind"
  end.

Definition run_C07 (suite : str) (args : list str) : option str :=
  if streqb suite (bs "lifecycle.accepts") then Some (run_accepts args)
  else if streqb suite (bs "lifecycle.sizes") then Some (run_sizes args)
  else if streqb suite (bs "lifecycle.sessions") || streqb suite (bs "lifecycle.tcp")
  then Some (join bar (map show_spec args))
  else None.
