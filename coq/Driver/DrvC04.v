(* Correspondence suites for the tracked state (C04, C05, C13, C15-keyed):
   "state.history": args = route; cfg nick; cfg user; then per event
      flags ("s"/"-" source present, "a"/"-" account tag present); name; ident; host;
      account tag value; command; number of params (decimal); the params.
   Observation: canonical dump of everything the state API shows + what was sent. *)
Require Import Bytes AMap Names State.

Definition colon : str := [58].
Definition eqs : str := [61].

Definition decode_event (args : list str) : option (event * list str) :=
  match args with
  | flags :: name :: ident :: host :: acct :: cmd :: n :: rest =>
      match parse_nat n with
      | None => None
      | Some k =>
          let k := N.to_nat k in
          if Nat.ltb (length rest) k then None else
          let src := match flags with 115 :: _ => Some (mkSource name ident host) | _ => None end in
          let tag := match flags with _ :: 97 :: _ => Some acct | _ => None end in
          Some (mkEvent src tag cmd (firstn k rest), skipn k rest)
      end
  | _ => None
  end.

Fixpoint decode_events (fuel : nat) (args : list str) : list event :=
  match fuel with
  | O => []
  | S f =>
      match args with
      | [] => []
      | _ => match decode_event args with
             | Some (e, rest) => e :: decode_events f rest
             | None => []
             end
      end
  end.

Definition show_perms (p : perms) : str :=
  [if p_owner p then 113 else 45; if p_admin p then 97 else 45; if p_op p then 111 else 45;
   if p_halfop p then 104 else 45; if p_voice p then 118 else 45].

Definition dump_channel (c : channel) : str :=
  hex (c_name c) ++ colon ++ hex (c_topic c) ++ colon ++ hexlist (c_users c) ++ colon ++
  hex (modes_string (c_modes c)) ++ colon ++
  join comma (List.map (fun m => hex [m_name m] ++ eqs ++ hex (m_args m)) (cm_modes (c_modes c))).

Definition dump_user (u : user) : str :=
  hex (u_nick u) ++ colon ++ hex (u_ident u) ++ colon ++ hex (u_host u) ++ colon ++ hexlist (u_chans u) ++ colon ++
  join comma (List.map (fun kv => hex (fst kv) ++ eqs ++ show_perms (snd kv)) (sort_by fst (u_perms u))) ++ colon ++
  hex (u_name u) ++ colon ++ hex (u_account u) ++ colon ++ hex (u_away u).

Definition get_ident (cfg : config) (s : state) : str :=
  match st_ident s with [] => cfg_user cfg | i => i end.

(* what reaches the wire is compared up to the placement of spaces: the words of the
   parameters in order (empty parameters vanish on the wire) *)
Definition dump_out (o : out) : str :=
  match o with OutSend c ps => hex c ++ colon ++ hexlist (fields_byte 32 (join [32] ps)) end.

Definition dump_state (cfg : config) (s : state) : str :=
  bs "n=" ++ hex (get_nick cfg s) ++ bs ";i=" ++ hex (get_ident cfg s) ++ bs ";h=" ++ hex (st_host s) ++
  bs ";l=" ++ show_Z (st_maxline s) ++ comma ++ show_Z (st_maxprefix s) ++ bs ";m=" ++ hex (st_motd s) ++
  bs ";o=" ++ join comma (List.map (fun kv => hex (fst kv) ++ eqs ++ hex (snd kv)) (sort_by fst (st_opts s))) ++
  bs ";c=" ++ join bar (List.map dump_channel (sort_by c_name (List.map snd (st_channels s)))) ++
  bs ";u=" ++ join bar (List.map dump_user (sort_by u_nick (List.map snd (st_users s)))) ++
  bs ";k=" ++ hexlist (sort_strs (akeys (st_users s))) ++ [47] ++ hexlist (sort_strs (akeys (st_channels s))).

Definition run_history (args : list str) : str :=
  match args with
  | _route :: nick :: usr :: rest =>
      let cfg := mkConfig nick usr in
      match run cfg state_init (decode_events (length rest) rest) with
      | Panic => bs "PANIC"
      | Ok (s, outs) => dump_state cfg s ++ bs ";w=" ++ join bar (List.map dump_out outs)
      end
  | _ => bs "?bad-args"
  end.

Definition run_C04 (suite : str) (args : list str) : option str :=
  if streqb suite (bs "state.history") || streqb suite (bs "state.hostile") then Some (run_history args)
  else None.
