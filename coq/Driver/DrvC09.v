(* Correspondence suites for C09: suite name -> arguments -> observation text.
   StripRaw is instantiated by the identity: the suites only log text without IRC
   format codes.  pretty_rest is instantiated for source-less events (the only ones the
   suites hand to the loggers): "[>] writing <line>" for PRIVMSG/NOTICE with parameters.
   CAP REQ lists its tokens in sorted order (the harness sorts them too: Go's map order). *)
Require Import Bytes Utf8 Base64 CapLib Sasl.

Definition a9 (n : nat) (args : list str) : str := nth n args [].

Definition c_PRIVMSG := Eval vm_compute in bs "PRIVMSG".
Definition c_NOTICE := Eval vm_compute in bs "NOTICE".
Definition t_writing := Eval vm_compute in bs "[>] writing ".
Definition drv_strip_raw (s : str) : str := s.
Definition drv_pretty_rest (e : event) : option str :=
  if (streqb (ev_cmd e) c_PRIVMSG || streqb (ev_cmd e) c_NOTICE) && negb (is_nil (ev_params e))
  then Some (t_writing ++ event_bytes e) else None.

(* ---- sasl.session ---- *)

Definition k_P := Eval vm_compute in bs "P".
Definition k_E := Eval vm_compute in bs "E".
Definition k_C := Eval vm_compute in bs "C".
Definition m_PLAIN := Eval vm_compute in bs "PLAIN".
Definition m_EXTERNAL := Eval vm_compute in bs "EXTERNAL".
Definition t_oper := Eval vm_compute in bs "!OPER".
Definition t_srv := Eval vm_compute in bs ":srv ".
Definition t_gw := Eval vm_compute in bs "gw".
Definition t_host := Eval vm_compute in bs "host.example".
Definition t_addr := Eval vm_compute in bs "192.0.2.7".
Definition t_me := Eval vm_compute in bs "me".
Definition t_user := Eval vm_compute in bs "user".
Definition t_realname := Eval vm_compute in bs "Real Name".
Definition t_Req := Eval vm_compute in bs "R=".
Definition t_OPEN := Eval vm_compute in bs "OPEN".
Definition t_ERReq := Eval vm_compute in bs "ERR=".
Definition t_PANIC := Eval vm_compute in bs "PANIC".

Definition mk_mech (kind a1 a2 : str) : option sasl_mech :=
  if streqb kind k_P then Some (mkMech m_PLAIN (sasl_plain_encode a1 a2))
  else if streqb kind k_E then Some (mkMech m_EXTERNAL (sasl_external_encode a1))
  else if streqb kind k_C then Some (mkMech a1 (fun _ => a2))
  else None.

(* a step is "cmd NUL param NUL param ..." (an event from the server) or "!OPER" *)
Definition step_event (s : str) : event :=
  match split_byte 0 s with
  | cmd :: ps => mkEv t_srv cmd ps false false
  | [] => mkEv t_srv [] [] false false
  end.

(* kind S: a mechanism that keeps state -- the k-th call of Encode (k = 0, 1, ...) returns
   the k-th of the comma-separated responses in a2, "" once they are used up *)
Definition k_S := Eval vm_compute in bs "S".
Definition mech_at (kind a1 a2 : str) (k : nat) : option sasl_mech :=
  if streqb kind k_S then Some (mkMech a1 (fun _ => nth k (split_byte 44 a2) []))
  else mk_mech kind a1 a2.

(* cf k: the configuration after k calls of Encode; handleSASL calls Encode exactly when
   the event is an AUTHENTICATE *)
Fixpoint session_steps (cf : nat -> config) (k : nat) (ou op : str) (cn : conn) (steps : list str)
  : res (list (list event) * conn) :=
  match steps with
  | [] => Ok ([], cn)
  | s :: r =>
    match cn_returned cn with
    | Some _ => Ok ([], cn)
    | None =>
      let e := step_event s in
      x <- (if streqb s t_oper then Ok (cn, [Write (oper_event ou op)]) else feed (cf k) cn e) ;;
      let k' := if streqb (ev_cmd e) c_AUTHENTICATE then S k else k in
      y <- session_steps cf k' ou op (fst x) r ;;
      Ok (writes_of (snd x) :: fst y, snd y)
    end
  end.

Definition log_flag (e : event) : N :=
  if contains (event_bytes e) (debug_log drv_strip_raw false e) then 80 else 82.   (* 'P' / 'R' *)

Definition session_obs (args : list str) : str :=
  let cf k := mkCfg (mech_at (a9 0 args) (a9 1 args) (a9 2 args) k) (a9 3 args)
                    (mkWebirc (a9 4 args) t_gw t_host t_addr) true t_me t_user t_realname sort_strs in
  let reg := registration_writes (cf 0%nat) in
  match session_steps cf 0%nat (a9 5 args) (a9 6 args) conn_init (skipn 7 args) with
  | Panic => t_PANIC
  | Ok (per_step, cn) =>
    t_Req ++ hexlist (List.map event_bytes reg) ++
    concat (List.map (fun ws => semi ++ hexlist (List.map event_bytes ws)) per_step) ++
    semi ++ (match cn_returned cn with Some t => t_ERReq ++ hex t | None => t_OPEN end) ++
    semi ++ List.map log_flag (reg ++ concat per_step)
  end.

(* ---- sasl.log ---- *)

Definition log_obs (args : list str) : str :=
  let dir := a9 0 args in
  let flags := a9 1 args in
  let e := mkEv [] (a9 2 args) (skipn 3 args) (memb 115 flags) (memb 101 flags) in   (* 's' 'e' *)
  let dbg := if memb 105 dir (* 'i' *) then debug_log_in drv_strip_raw e
             else debug_log drv_strip_raw true e in
  hex (event_bytes e) ++ comma ++
  show_bool (contains (event_bytes e) dbg) ++ show_bool (contains (ev_cmd e) dbg) ++ comma ++
  hex (concat (List.map (fun l => l ++ [10]) (out_log drv_strip_raw drv_pretty_rest e))).   (* Fprintln *)

(* ---- sasl.fault: the write of one line fails with the I/O error text args[9] ---- *)
Definition t_Eminus := Eval vm_compute in bs "E-;C-".
Definition t_Eeq := Eval vm_compute in bs "E=".
Definition t_Ceq := Eval vm_compute in bs ";C=".
Definition p_PASS := Eval vm_compute in bs "PASS ".
Definition p_WEBIRC := Eval vm_compute in bs "WEBIRC ".
Definition p_OPER := Eval vm_compute in bs "OPER ".
Definition p_AUTH := Eval vm_compute in bs "AUTHENTICATE ".
Definition fault_event (args : list str) : event :=
  let pfx := a9 7 args in
  if streqb pfx p_PASS then pass_event (a9 3 args)
  else if streqb pfx p_WEBIRC then webirc_event (mkWebirc (a9 4 args) t_gw t_host t_addr)
  else if streqb pfx p_OPER then oper_event (a9 5 args) (a9 6 args)
  else if streqb pfx p_AUTH then secret_ev c_AUTHENTICATE [a9 2 args]
  else plain_ev pfx [].
Definition fault_obs (args : list str) : str :=
  match a9 7 args with
  | [] => t_Eminus
  | _ =>
    match write_fault_result (a9 9 args) (fault_event args) with
    | Some x => t_Eeq ++ show_bool (contains (a9 9 args) x) ++ t_Ceq ++ show_bool (contains (a9 9 args) (cleanup_log x))
    | None => t_Eminus
    end
  end.

(* ---- sasl.plainseq: Encode calls on one SASLPlain value whose fields change ---- *)
Fixpoint plainseq (l : list str) : list str :=
  match l with
  | u :: p :: f :: r => sasl_plain_encode u p [f] :: plainseq r
  | _ => []
  end.

(* ---- sasl.reconnect: two scripted connections, credential changed in between ---- *)
Definition t_text := Eval vm_compute in bs "text".
Definition t_errevent := Eval vm_compute in bs "errevent".
Definition t_nil := Eval vm_compute in bs "nil".
Definition rc_history (final : str) : list event :=
  [mkEv t_srv c_CAP [c_star; c_LS; c_sasl] false false;
   mkEv t_srv c_CAP [c_star; c_ACK; c_sasl] false false;
   mkEv [] c_AUTHENTICATE [c_plus] false false;
   mkEv t_srv final [t_me; t_text] false false].
Definition rc_payload (e : event) : list str :=
  if streqb (ev_cmd e) c_AUTHENTICATE then
    match ev_params e with
    | [p] => if streqb p m_PLAIN then [] else [p]
    | _ => []
    end
  else [].
Definition rc_conn (u p final : str) : str :=
  let c := mkCfg (Some (plain_mech u p)) [] (mkWebirc [] [] [] []) true t_me t_user t_realname sort_strs in
  match run c conn_init (rc_history final) with
  | Ok (cn, outs) =>
    hexlist (flat_map rc_payload (writes_of outs)) ++ semi ++
    (match cn_returned cn with Some _ => t_errevent | None => t_nil end)
  | Panic => t_PANIC
  end.
Definition t_Aeq := Eval vm_compute in bs "A=".
Definition t_Beq := Eval vm_compute in bs ";B=".
Definition reconnect_obs (args : list str) : str :=
  t_Aeq ++ rc_conn (a9 0 args) (a9 1 args) n904 ++ t_Beq ++ rc_conn (a9 2 args) (a9 3 args) n903.

Definition s_sasl_fault := Eval vm_compute in bs "sasl.fault".
Definition s_sasl_plainseq := Eval vm_compute in bs "sasl.plainseq".
Definition s_sasl_reconnect := Eval vm_compute in bs "sasl.reconnect".
Definition s_sasl_b64enc := Eval vm_compute in bs "sasl.b64enc".
Definition s_sasl_b64dec := Eval vm_compute in bs "sasl.b64dec".
Definition s_sasl_plain := Eval vm_compute in bs "sasl.plain".
Definition s_sasl_external := Eval vm_compute in bs "sasl.external".
Definition s_sasl_session := Eval vm_compute in bs "sasl.session".
Definition s_sasl_log := Eval vm_compute in bs "sasl.log".

Definition run_C09 (suite : str) (args : list str) : option str :=
  if streqb suite s_sasl_b64enc then Some (hex (base64_encode (a9 0 args)))
  else if streqb suite s_sasl_b64dec then Some (show_opt_hex (base64_decode (a9 0 args)))
  else if streqb suite s_sasl_plain then
    Some (hex (sasl_plain_encode (a9 0 args) (a9 1 args) (skipn 2 args)))
  else if streqb suite s_sasl_external then
    Some (hex (sasl_external_encode (a9 0 args) (skipn 1 args)))
  else if streqb suite s_sasl_session then Some (session_obs args)
  else if streqb suite s_sasl_log then Some (log_obs args)
  else if streqb suite s_sasl_fault then Some (fault_obs args)
  else if streqb suite s_sasl_plainseq then Some (hexlist (plainseq args))
  else if streqb suite s_sasl_reconnect then Some (reconnect_obs args)
  else None.
