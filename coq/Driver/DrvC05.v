(* Correspondence suite "state.liveness" (C05, connected route): the history is written to
   the socket of a connected client.  args as for "state.history" (DrvC04.v); route is
   "conn", "conn-norecover" (no SASL configured) or "conn-sasl" (SASL PLAIN acct/secret).
   "state.stall" (finding handler-injected-error-self-blocks; routes "burst-sasl" and
   "burst-sts", the latter with no SASL and strict transport security enabled): the history
   arrives in one burst with the receive queue full.  The sequential model says the client
   disconnects with an error (a handler queues an ERROR); the code as it is either does that,
   or drops the queued ERROR after 30 s and answers the PING that follows.  Both are the
   observation "ended" (the harness reports "HUNG" when neither happens).
   Observation: "disconnected" when some event makes Connect return an error (an ERROR
   from the server, or one a handler queued), else the state dump of DrvC04.v. *)
Require Import Bytes AMap Names State ClientStep DrvC04.
Require Ctcp Sasl Cap StsState.

Definition live_env : Ctcp.env :=
  Ctcp.mk_env [] (bs "Real Name") (bs "go") (bs "os") (bs "arch") (bs "now") (bs "0s") true.

Definition live_cfg (route nick usr : str) : client_cfg :=
  let sasl := streqb route (bs "conn-sasl") || streqb route (bs "burst-sasl") in
  mkClientCfg (mkConfig nick usr)
    (if sasl then Some (Sasl.mkMech (bs "PLAIN") (Sasl.sasl_plain_encode (bs "acct") (bs "secret"))) else None)
    live_env
    (Cap.mkCfg (if sasl then Some (bs "PLAIN") else None) false false false [] true None [] nick usr (bs "Real Name"))
    (fun l => l) false 0%Z.

Definition sends (outs : list cout) : list out :=
  flat_map (fun o => match o with CSend x => [x] | _ => [] end) outs.

Definition run_liveness (args : list str) : str :=
  match args with
  | route :: nick :: usr :: rest =>
      let cfg := live_cfg route nick usr in
      let evs := decode_events (length rest) rest in
      let init := client_init StsState.sts_init in
      match client_disconnects cfg init evs with
      | Panic => bs "PANIC"
      | Ok true => bs "disconnected"
      | Ok false =>
          match client_run cfg init evs with
          | Panic => bs "PANIC"
          | Ok (cs, outs) => dump_state (cc_state cfg) (cs_state cs) ++ bs ";w=" ++ join bar (List.map dump_out (sends outs))
          end
      end
  | _ => bs "?bad-args"
  end.

Definition run_stall (args : list str) : str :=
  match args with
  | route :: nick :: usr :: rest =>
      let cfg := live_cfg route nick usr in
      match client_disconnects cfg (client_init StsState.sts_init) (decode_events (length rest) rest) with
      | Panic => bs "PANIC"
      | Ok _ => bs "ended"
      end
  | _ => bs "?bad-args"
  end.

Definition run_C05 (suite : str) (args : list str) : option str :=
  if streqb suite (bs "state.liveness") then Some (run_liveness args)
  else if streqb suite (bs "state.stall") then Some (run_stall args)
  else None.
