(* Correspondence suites of C13 (Model/Heap.v).
   "heap.ops" / "heap.hostile" / "heap.members": args = cfg nick; cfg user; then operations
      "E" flags name ident host acct cmd n params...   one received event (as state.history)
      "S" kind name        kind = user | chan (LookupUser / LookupChannel name),
                                  users | chans (Users() / Channels(): every element becomes a snapshot),
                                  uchans | cusers | ctrusted | cadmins (name = decimal snapshot id: User.Channels(c) / Channel.Users(c) / .Trusted(c) / .Admins(c));
                                  suite heap.members.copied models these two as copying (the proposed fix)
      "M" id field index value   a write through snapshot `id` (see decode_mut)
      "A" id flags n args...     snap.Modes.Apply(snap.Modes.Parse(flags, args))
      "L" id action index        listing id (the id-th result slice of Users() / Channels() taken by S users / S chans):
                                 action = nil (listing[index] = nil) | swap (slots index, index+1) | show
      "R"                        re-query: dump of Users() and Channels()
      "I" id                     inspect snapshot id
   At the end every snapshot is inspected, every listing shown, and the state re-queried once more.
   "heap.churn": concurrent scenario evaluated on the implementation only (oracle snapshot-torn);
   the model's observation is the constant "consistent".
   Observation: the outputs of R / I in order, separated by ';'. *)
Require Import Bytes AMap Names State Heap.

Definition colon : str := [58].
Definition eqs : str := [61].
Definition slash : str := [47].

Definition decode_event13 (args : list str) : option (event * list str) :=
  match args with
  | flags :: name :: ident :: host :: acct :: cmd :: n :: rest =>
      match parse_nat n with
      | None => None
      | Some k =>
          let k := N.to_nat k in
          if Nat.ltb (length rest) k then None else
          let src := match flags with 115 :: _ => Some (mkSource name ident host) | _ => None end in
          let tag := match flags with _ :: 97 :: _ => Some acct | _ => None end in
          Some (mkEvent src tag cmd (firstn k rest), skipn k rest)
      end
  | _ => None
  end.

Definition nat_arg (s : str) : nat := match parse_nat s with Some n => N.to_nat n | None => 0%nat end.

Definition show_perms13 (p : perms) : str :=
  [if p_owner p then 113 else 45; if p_admin p then 97 else 45; if p_op p then 111 else 45;
   if p_halfop p then 104 else 45; if p_voice p then 118 else 45].

Definition dump_vuser (v : vuser) : str :=
  hex (vu_nick v) ++ colon ++ hex (vu_ident v) ++ colon ++ hex (vu_host v) ++ colon ++ hexlist (vu_chans v) ++ colon ++
  match vu_perms v with
  | None => bs "nil"
  | Some m => join comma (List.map (fun kv => hex (fst kv) ++ eqs ++ show_perms13 (snd kv)) (sort_by fst m))
  end ++ colon ++
  hex (vu_name v) ++ colon ++ hex (vu_account v) ++ colon ++ hex (vu_away v).

Definition dump_vchan (v : vchan) : str :=
  hex (vc_name v) ++ colon ++ hex (vc_topic v) ++ colon ++ hexlist (vc_users v) ++ colon ++
  join comma (List.map (fun m => hex [m_name m] ++ eqs ++ hex (m_args m)) (vc_modes v)).

(* identities of the tracked state: struct cells, list windows (cap > 0), permission maps *)
Definition live_structs (w : world) : list nat := roots (w_st w).
Definition list_ident (s : hslice) : option (nat * nat) :=
  if Nat.ltb 0 (sl_cap s) then Some (sl_arr s, sl_off s) else None.
Definition live_list_idents (w : world) : list (nat * nat) :=
  filter_some (List.map (fun o => match list_of (w_heap w) o with Some s => list_ident s | None => None end) (roots (w_st w))).
Definition live_perm_idents (w : world) : list nat :=
  filter_some (List.map (fun o => match hget (w_heap w) o with Some (CUser u) => hu_perms u | _ => None end) (roots (w_st w))).

Definition mem_nat (x : nat) (l : list nat) : bool := existsb (Nat.eqb x) l.
Definition mem_pair (x : nat * nat) (l : list (nat * nat)) : bool :=
  existsb (fun y => Nat.eqb (fst x) (fst y) && Nat.eqb (snd x) (snd y)) l.

Definition inspect (w : world) (snap : option nat) : str :=
  match snap with
  | None => bs "nil"
  | Some o =>
      let shared_struct := mem_nat o (live_structs w) in
      let shared_list := match list_of (w_heap w) o with
                         | Some s => match list_ident s with Some i => mem_pair i (live_list_idents w) | None => false end
                         | None => false
                         end in
      match hget (w_heap w) o with
      | Some (CUser u) =>
          let shared_perms := match hu_perms u with Some p => mem_nat p (live_perm_idents w) | None => false end in
          match user_value (w_heap w) o with
          | Some v => bs "u:" ++ dump_vuser v ++ slash ++ show_bool shared_struct ++ show_bool shared_list ++ show_bool shared_perms
          | None => bs "?dangling"
          end
      | Some (CChan c) =>
          match chan_value (w_heap w) o with
          | Some v => bs "c:" ++ dump_vchan v ++ slash ++ show_bool shared_struct ++ show_bool shared_list
          | None => bs "?dangling"
          end
      | _ => bs "?dangling"
      end
  end.

Definition dump_copy_user (h : heap) (o : nat) : str :=
  match user_value h o with Some v => dump_vuser v | None => bs "?" end.
Definition dump_copy_chan (h : heap) (o : nat) : str :=
  match chan_value h o with Some v => dump_vchan v | None => bs "?" end.

(* R: Users() and Channels(); the copies are dropped afterwards (they stay in the heap
   as garbage nobody holds) *)
Definition requery (w : world) : res (world * str) :=
  ru <- users_g w ;;
  let w1 := mkWorld (fst ru) (w_st w) in
  rc <- channels_g w1 ;;
  let w2 := mkWorld (fst rc) (w_st w) in
  Ok (w2, bs "U=" ++ join bar (sort_strs (List.map (dump_copy_user (w_heap w2)) (snd ru))) ++
          bs "/C=" ++ join bar (sort_strs (List.map (dump_copy_chan (w_heap w2)) (snd rc)))).

Definition sfield_of (f : str) : option sfield :=
  if streqb f (bs "nick") then Some FNick else if streqb f (bs "ident") then Some FIdent
  else if streqb f (bs "host") then Some FHost else if streqb f (bs "name") then Some FName
  else if streqb f (bs "account") then Some FAccount else if streqb f (bs "away") then Some FAway
  else if streqb f (bs "cname") then Some FCName else if streqb f (bs "topic") then Some FCTopic
  else None.

Definition decode_mut (snaps : list (option nat)) (o : nat) (field : str) (index : nat) (value : str) : option cop :=
  match sfield_of field with
  | Some f => Some (OpSetField o f value)
  | None =>
      if streqb field (bs "elem") then Some (OpSetElem o index value)
      else if streqb field (bs "append") then Some (OpAppend o value)
      else if streqb field (bs "sort") then Some (OpSort o)
      else if streqb field (bs "delete") then Some (OpDelete o index)
      else if streqb field (bs "trunc") then Some (OpTrunc o index)
      else if streqb field (bs "alias") then
        match nth_error snaps index with Some (Some o2) => Some (OpAlias o o2) | _ => None end
      else if streqb field (bs "nilperms") then Some (OpNilPerms o)
      else None
  end.

(* a listing: its slots in order, nil slots included *)
Definition dump_slot (h : heap) (x : option nat) : str :=
  match x with
  | None => bs "nil"
  | Some o => match hget h o with
              | Some (CUser _) => dump_copy_user h o
              | Some (CChan _) => dump_copy_chan h o
              | _ => bs "?"
              end
  end.
Definition dump_listing (h : heap) (lid : nat) : str :=
  match hget h lid with
  | Some (CPtrs l) => join bar (List.map (dump_slot h) l)
  | _ => bs "?dangling"
  end.

Record dstate := mkDL { d_w : world; d_snaps : list (option nat); d_out : list str;
                        d_lists : list nat }.   (* the result slices of Users() / Channels() held by the client *)
Definition mkD' (ls : list nat) (w : world) (s : list (option nat)) (o : list str) : dstate := mkDL w s o ls.

Definition snap_op (copied : bool) (d : dstate) (kind name : str) : res dstate :=
  let w := d_w d in
  if streqb kind (bs "user") then
    r <- lookup_user_g w name ;;
    Ok (mkD' (d_lists d) (mkWorld (fst r) (w_st w)) (d_snaps d ++ [snd r]) (d_out d))
  else if streqb kind (bs "chan") then
    r <- lookup_channel_g w name ;;
    Ok (mkD' (d_lists d) (mkWorld (fst r) (w_st w)) (d_snaps d ++ [snd r]) (d_out d))
  else if streqb kind (bs "users") then
    r <- users_listing_g w ;;
    let '(h', lid, l) := r in
    Ok (mkDL (mkWorld h' (w_st w)) (d_snaps d ++ List.map Some l) (d_out d) (d_lists d ++ [lid]))
  else if streqb kind (bs "chans") then
    r <- channels_listing_g w ;;
    let '(h', lid, l) := r in
    Ok (mkDL (mkWorld h' (w_st w)) (d_snaps d ++ List.map Some l) (d_out d) (d_lists d ++ [lid]))
  else if streqb kind (bs "uchans") then
    match nth_error (d_snaps d) (nat_arg name) with
    | Some (Some o) =>
        match hget (w_heap w) o with
        | Some (CUser _) =>
            if copied then r <- user_channels_copied_g w o ;; Ok (mkD' (d_lists d) (mkWorld (fst r) (w_st w)) (d_snaps d ++ List.map Some (snd r)) (d_out d))
            else l <- user_channels_g w o ;; Ok (mkD' (d_lists d) w (d_snaps d ++ List.map Some l) (d_out d))
        | _ => Ok d
        end
    | _ => Ok d
    end
  else if streqb kind (bs "cusers") then
    match nth_error (d_snaps d) (nat_arg name) with
    | Some (Some o) =>
        match hget (w_heap w) o with
        | Some (CChan _) =>
            if copied then r <- channel_users_copied_g w o ;; Ok (mkD' (d_lists d) (mkWorld (fst r) (w_st w)) (d_snaps d ++ List.map Some (snd r)) (d_out d))
            else l <- channel_users_g w o ;; Ok (mkD' (d_lists d) w (d_snaps d ++ List.map Some l) (d_out d))
        | _ => Ok d
        end
    | _ => Ok d
    end
  else if streqb kind (bs "ctrusted") || streqb kind (bs "cadmins") then
    let test := if streqb kind (bs "ctrusted") then perms_trusted else perms_admin in
    match nth_error (d_snaps d) (nat_arg name) with
    | Some (Some o) =>
        match hget (w_heap w) o with
        | Some (CChan _) =>
            if copied then r <- channel_filtered_copied_g test w o ;; Ok (mkD' (d_lists d) (mkWorld (fst r) (w_st w)) (d_snaps d ++ List.map Some (snd r)) (d_out d))
            else l <- channel_filtered_g test w o ;; Ok (mkD' (d_lists d) w (d_snaps d ++ List.map Some l) (d_out d))
        | _ => Ok d
        end
    | _ => Ok d
    end
  else Ok d.

Fixpoint run_ops (copied : bool) (fuel : nat) (cfg : config) (d : dstate) (args : list str) : res dstate :=
  match fuel with
  | O => Ok d
  | S f =>
      match args with
      | [] => Ok d
      | tag :: rest =>
          if streqb tag [69] then                                  (* E *)
            match decode_event13 rest with
            | Some (e, rest') =>
                w' <- handle_h go_grow cfg (d_w d) e ;;
                run_ops copied f cfg (mkD' (d_lists d) w' (d_snaps d) (d_out d)) rest'
            | None => Ok d
            end
          else if streqb tag [83] then                             (* S *)
            match rest with
            | kind :: name :: rest' => d' <- snap_op copied d kind name ;; run_ops copied f cfg d' rest'
            | _ => Ok d
            end
          else if streqb tag [77] then                             (* M *)
            match rest with
            | id :: field :: index :: value :: rest' =>
                let d' := match nth_error (d_snaps d) (nat_arg id) with
                          | Some (Some o) =>
                              match decode_mut (d_snaps d) o field (nat_arg index) value with
                              | Some op => mkD' (d_lists d) (mkWorld (client_op go_grow (w_heap (d_w d)) op) (w_st (d_w d))) (d_snaps d) (d_out d)
                              | None => d
                              end
                          | _ => d
                          end in
                run_ops copied f cfg d' rest'
            | _ => Ok d
            end
          else if streqb tag [65] then                             (* A *)
            match rest with
            | id :: flags :: n :: rest' =>
                let k := nat_arg n in
                if Nat.ltb (length rest') k then Ok d else
                let d' := match nth_error (d_snaps d) (nat_arg id) with
                          | Some (Some o) =>
                              mkD' (d_lists d) (mkWorld (client_op go_grow (w_heap (d_w d)) (OpApplyModes o flags (firstn k rest'))) (w_st (d_w d)))
                                  (d_snaps d) (d_out d)
                          | _ => d
                          end in
                run_ops copied f cfg d' (skipn k rest')
            | _ => Ok d
            end
          else if streqb tag [76] then                             (* L id action index *)
            match rest with
            | id :: action :: index :: rest' =>
                let i := nat_arg index in
                match nth_error (d_lists d) (nat_arg id) with
                | Some lid =>
                    let h := w_heap (d_w d) in
                    if streqb action (bs "show") then
                      run_ops copied f cfg (mkD' (d_lists d) (d_w d) (d_snaps d) (d_out d ++ [[76] ++ show_nat (nat_arg id) ++ eqs ++ dump_listing h lid])) rest'
                    else
                      let op := if streqb action (bs "nil") then Some (OpSlotNil lid i)
                                else if streqb action (bs "swap") then Some (OpSlotSwap lid i (S i)) else None in
                      match op with
                      | Some op => run_ops copied f cfg (mkD' (d_lists d) (mkWorld (client_op go_grow h op) (w_st (d_w d))) (d_snaps d) (d_out d)) rest'
                      | None => run_ops copied f cfg d rest'
                      end
                | None => run_ops copied f cfg d rest'
                end
            | _ => Ok d
            end
          else if streqb tag [82] then                             (* R *)
            r <- requery (d_w d) ;;
            run_ops copied f cfg (mkD' (d_lists d) (fst r) (d_snaps d) (d_out d ++ [82 :: snd r])) rest
          else if streqb tag [73] then                             (* I *)
            match rest with
            | id :: rest' =>
                let o := match nth_error (d_snaps d) (nat_arg id) with Some s => inspect (d_w d) s | None => bs "none" end in
                run_ops copied f cfg (mkD' (d_lists d) (d_w d) (d_snaps d) (d_out d ++ [[73] ++ show_nat (nat_arg id) ++ colon ++ o])) rest'
            | _ => Ok d
            end
          else Ok d
      end
  end.

Fixpoint inspect_all (w : world) (i : nat) (l : list (option nat)) : list str :=
  match l with
  | [] => []
  | s :: r => ([73] ++ show_nat i ++ colon ++ inspect w s) :: inspect_all w (S i) r
  end.

Fixpoint listings_all (h : heap) (i : nat) (l : list nat) : list str :=
  match l with
  | [] => []
  | lid :: r => ([76] ++ show_nat i ++ eqs ++ dump_listing h lid) :: listings_all h (S i) r
  end.

Definition run_heap (copied : bool) (args : list str) : str :=
  match args with
  | nick :: usr :: rest =>
      let cfg := mkConfig nick usr in
      match run_ops copied (S (length rest)) cfg (mkDL world_init [] [] []) rest with
      | Panic => bs "PANIC"
      | Ok d =>
          match requery (d_w d) with
          | Panic => bs "PANIC"
          | Ok (w', q) => join semi (d_out d ++ inspect_all w' 0 (d_snaps d) ++ listings_all (w_heap w') 0 (d_lists d) ++ [82 :: q])
          end
      end
  | _ => bs "?bad-args"
  end.

Definition run_C13 (suite : str) (args : list str) : option str :=
  if streqb suite (bs "heap.ops") || streqb suite (bs "heap.hostile") || streqb suite (bs "heap.members")
  then Some (run_heap false args)
  else if streqb suite (bs "heap.members.copied") then Some (run_heap true args)
  else if streqb suite (bs "heap.churn") then Some (bs "consistent")
  else None.
