(* Correspondence suites for the shared library models (Lib/): these validate the Go
   standard-library fragments every property model relies on. *)
Require Import Bytes Utf8.

Definition nth_arg (n : nat) (args : list str) : str := nth n args [].

Definition run_C00 (suite : str) (args : list str) : option str :=
  if streqb suite (bs "lib.utf8") then
    let s := nth_arg 0 args in
    Some (show_bool (valid_utf8 s) ++ comma ++ hex (to_valid_utf8 [63] s) ++ comma ++
          hex (to_valid_utf8 [] s) ++ comma ++ show_nat (rune_count s) ++ comma ++ show_nat (first_rune_width s))
  else if streqb suite (bs "lib.strings") then
    let s := nth_arg 0 args in let t := nth_arg 1 args in
    Some (show_bool (prefixb t s) ++ show_bool (suffixb t s) ++ comma ++
          match index t s with Some i => show_nat i | None => [45] end ++ comma ++
          hexlist (split_byte 32 s) ++ semi ++ hexlist (fields_byte 32 s) ++ semi ++
          hex (to_upper_ascii s) ++ comma ++ hex (to_lower_ascii s) ++ comma ++
          match parse_int s with Some z => show_Z z | None => [45] end)
  else None.
