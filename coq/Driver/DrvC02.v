(* Correspondence suites for C02: grammar.lines (AST -> line -> parse, against the spec's
   meaning), codec.total (arbitrary bytes through all three parsers). *)
Require Import Bytes Utf8 AMap WireOut GoUpper Tags Event Grammar DrvC01.

Definition lit_line : str := Eval vm_compute in bs "line=".
Definition lit_wf : str := Eval vm_compute in bs "|wf=".
Definition lit_parse : str := Eval vm_compute in bs "|parse=".
Definition lit_spec : str := Eval vm_compute in bs "|spec=".

(* ---- case decoding for grammar.lines --------------------------------------------
   args = hdr :: cmd :: eol :: name :: user :: host
          :: (k :: optv){ntags} :: ([n] :: middle){nmid} :: ([n] :: trailing){0/1}
   hdr  = [ntags; srcflags; nmid; trflag; tail]   srcflags: 1 = source, 2 = user, 4 = host
   optv = "" (no value) or "=" ++ unescaped value *)
Definition opt_value (s : str) : option str :=
  match s with [] => None | _ :: v => Some v end.

Fixpoint take_ast_tags (n : nat) (l : list str) : list (str * option str) * list str :=
  match n with
  | O => ([], l)
  | S n' =>
    match l with
    | k :: v :: r => let '(ts, rest) := take_ast_tags n' r in ((k, opt_value v) :: ts, rest)
    | _ => ([], [])
    end
  end.

Fixpoint take_ast_mids (n : nat) (l : list str) : list (nat * str) * list str :=
  match n with
  | O => ([], l)
  | S n' =>
    match l with
    | c :: m :: r => let '(ms, rest) := take_ast_mids n' r in ((N.to_nat (c01_byte c 0), m) :: ms, rest)
    | _ => ([], [])
    end
  end.

Definition testbit (n : N) (k : N) : bool := N.testbit n k.

Definition decode_ast (args : list str) : ast :=
  let hdr := c01_arg args 0 in
  let ntags := N.to_nat (c01_byte hdr 0) in
  let sf := c01_byte hdr 1 in
  let nmid := N.to_nat (c01_byte hdr 2) in
  let trflag := c01_byte hdr 3 in
  let tail := N.to_nat (c01_byte hdr 4) in
  let src := if testbit sf 0
             then Some (c01_arg args 3,
                        (if testbit sf 1 then Some (c01_arg args 4) else None),
                        (if testbit sf 2 then Some (c01_arg args 5) else None))
             else None in
  let '(ts, r1) := take_ast_tags ntags (skipn 6 args) in
  let '(ms, r2) := take_ast_mids nmid r1 in
  let tr := if trflag =? 0 then None
            else Some (N.to_nat (c01_byte (c01_arg r2 0) 0), c01_arg r2 1) in
  mkAst (match ntags with O => None | _ => Some ts end) src (c01_arg args 1) ms tr tail (c01_arg args 2).

Definition run_grammar (args : list str) : str :=
  let a := decode_ast args in
  let l := render a in
  lit_line ++ hex l ++ lit_wf ++ show_bool (wf_astb a)
  ++ lit_parse ++ show_parse (parse_event l)
  ++ lit_spec ++ show_wevent (meaning a).

(* codec.total: one arbitrary byte string through ParseEvent, ParseTags, ParseSource *)
Definition run_total (args : list str) : str :=
  let s := c01_arg args 0 in
  show_parse (parse_event s)
  ++ bar ++ (match parse_tags s with Panic => lit_PANIC | Ok m => show_tagmap (fun v => v) (Some m) end)
  ++ bar ++ (match wparse_source s with Panic => lit_PANIC | Ok x => show_src (Some x) end).

(* codec.decode (connected route): the handlers receive ParseEvent(line); a nil result ends
   the connection with ErrParseEvent *)
Definition lit_event : str := Eval vm_compute in bs "event:".
Definition lit_closed : str := Eval vm_compute in bs "closed:ErrParseEvent".
Definition run_decode (args : list str) : str :=
  match parse_event (c01_arg args 0) with
  | Panic => lit_PANIC
  | Ok None => lit_closed
  | Ok (Some e) => lit_event ++ show_wevent e
  end.

Definition run_C02 (suite : str) (args : list str) : option str :=
  if streqb suite (bs "grammar.lines") then Some (run_grammar args)
  else if streqb suite (bs "codec.total") then Some (run_total args)
  else if streqb suite (bs "codec.decode") then Some (run_decode args)
  else None.
