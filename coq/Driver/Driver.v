(* Single entry point of the extracted model: suite name, argument byte strings ->
   observation text.  Unknown suites answer "?unknown-suite". *)
Require Import Bytes DrvC15.

Definition first_some (l : list (option str)) : str :=
  match List.find (fun o => match o with Some _ => true | None => false end) l with
  | Some (Some s) => s
  | _ => bs "?unknown-suite"
  end.

Definition run_suite (suite : str) (args : list str) : str :=
  first_some [ run_C15 suite args ].
