(* C12 — freedom from data races and lock deadlocks under concurrent use.
   Statements only; proofs in Proofs/LocksProofs.v and Proofs/LockFactsCheck.v. *)
Require Import Locks LockFacts LockFactsCheck.

(* the lock-set obligation on the facts extracted from the current source, minus the facts
   listed in conf/C12.known.json (known_findings ++ by_design = p_excl facts) *)
Theorem C12_facts_locksets : check_locksets facts = true.
Proof. exact facts_locksets. Qed.
Print Assumptions C12_facts_locksets.

Theorem C12_facts_order : check_order facts = true.
Proof. exact facts_order. Qed.
Print Assumptions C12_facts_order.
