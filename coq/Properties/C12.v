(* C12 — freedom from data races and lock deadlocks under concurrent use.
   Statements only; proofs in Proofs/LocksProofs.v, Proofs/LockFactsCheck.v (the two
   obligations on the generated facts) and Proofs/LocksExamples.v (the hypotheses are
   satisfiable and necessary).

   Vocabulary (Model/Locks.v).  A `program` is the table of statement trees that
   harness/cmd/lockfacts extracts from the CURRENT Go source (Generated/LockFacts.v: `facts`).
   `runs p tr`: tr is a sequence of events one goroutine can perform — any sequence of
   complete runs of entry points (exported API, registered handlers, the four loops, every
   `go` body, closures), calls inlined, dynamic calls (`Callback`) running further entry
   points.  `msteps (init_state traces) s`: s is reachable in the machine of
   `length traces` goroutines over RW-locks (writer exclusive, readers shared, not
   re-entrant) under some schedule.  Events excluded by conf/C12.known.json (`p_excl`) carry
   the flag `true` and are outside the statements: `race` and `waits_for` speak about events
   with flag `false` only.

   FULL statement of the property: no execution of the Go program contains a data race and
   none blocks forever.  What is proven is that statement for the lock abstraction of the
   program: (1) two conflicting accesses to a guarded location class are never enabled
   together, (2) no cycle of goroutines waiting for each other's mutexes (Go's writer
   preference included), and a goroutine that waits for handlers or joined goroutines holds no
   mutex.  Not covered (conf/C12.json level_note): completeness of the translator (audited,
   trusted), the excluded facts, blocking on channels / timers, memory-model details below
   the lock abstraction. *)
From Coq Require Import List Relations.
Require Import Locks LocksProofs LockFacts LockFactsCheck.

(* check_locksets p = true: on every trace, every checked write happens with the guard of its
   location held exclusively, every checked read with it held at least shared, only held
   mutexes are released, and nothing is held at a dynamic call / join *)
Theorem C12_lockset_sound : forall p,
  check_locksets p = true ->
  forall tr, runs p tr ->
    forall a e b, tr = a ++ e :: b ->
      match e with
      | EWr l false => In (guard_of p l, MW) (after nil a)
      | ERd l false => exists md, In (guard_of p l, md) (after nil a)
      | ERel m md => In (m, md) (after nil a)
      | EYield false => after nil a = nil
      | _ => True
      end.
Proof. exact lockset_sound. Qed.
Print Assumptions C12_lockset_sound.

(* race freedom: for every number of goroutines, every assignment of entry-point sequences to
   them, every schedule *)
Theorem C12_race_free : forall p,
  check_locksets p = true ->
  forall traces, Forall (runs p) traces ->
  forall s, msteps (init_state traces) s -> ~ race s.
Proof. exact C12_race_free_gen. Qed.
Print Assumptions C12_race_free.

(* no lock-cycle deadlock: no goroutine reaches itself along wait-for edges, and a goroutine
   at a dynamic call / WaitGroup.Wait holds nothing *)
Theorem C12_lock_order : forall p,
  check_order p = true ->
  forall traces, Forall (runs p) traces ->
  forall s, msteps (init_state traces) s ->
    (forall i, ~ clos_trans nat (waits_for s) i i) /\
    (forall i t r, nth_error s i = Some t -> rest t = EYield false :: r -> hs t = nil).
Proof. exact C12_lock_order_gen. Qed.
Print Assumptions C12_lock_order.

(* the two obligations on the facts of the current source (minus known_findings ++ by_design) *)
Theorem C12_facts_locksets : check_locksets facts = true.
Proof. exact facts_locksets. Qed.
Print Assumptions C12_facts_locksets.

Theorem C12_facts_order : check_order facts = true.
Proof. exact facts_order. Qed.
Print Assumptions C12_facts_order.

(* girc, current source.  FULL statement: the two theorems below with p_excl facts = by_design
   only.  It is FALSE of today's tree: six genuine defects (known_findings of
   conf/C12.known.json, each with a witness in harness/witness/locks_test.go and a patch in
   notes/proposed-fixes/) break the discipline, so the facts that exhibit them are excluded
   and reported as KNOWN-FINDING on every check.  Proven (hence _partial): race freedom and
   absence of lock cycles for all events that are not flagged as excluded.  Missing: the
   excluded facts; with the six patches applied and known_findings = [] the same two
   obligations close (checked on a patched copy, notes/selftest/README-C12.md). *)
Theorem C12_girc_race_free_partial :
  forall traces, Forall (runs facts) traces ->
  forall s, msteps (init_state traces) s -> ~ race s.
Proof. exact (C12_race_free_gen facts facts_locksets). Qed.
Print Assumptions C12_girc_race_free_partial.

Theorem C12_girc_no_lock_cycle_partial :
  forall traces, Forall (runs facts) traces ->
  forall s, msteps (init_state traces) s ->
    (forall i, ~ clos_trans nat (waits_for s) i i) /\
    (forall i t r, nth_error s i = Some t -> rest t = EYield false :: r -> hs t = nil).
Proof. exact (C12_lock_order_gen facts facts_order). Qed.
Print Assumptions C12_girc_no_lock_cycle_partial.
