(* C09 -- SASL delivers the exact credential, fails closed and never logs secrets.
   Only statements here; proofs live in Proofs/SaslProofs.v (chunking, PLAIN),
   Proofs/Base64Lemmas.v (RFC 4648), Proofs/SaslFailClosed.v, Proofs/SaslLogProofs.v.  The model (Model/Sasl.v, Lib/Base64.v) mirrors
   cap_sasl.go, the sasl part of handleCAP, registerBuiltins' routing, execLoop's ERROR
   exit, the credential writes of internalConnect / Cmd.Oper and the Sensitive/Echo gates
   of the loggers; Spec/SaslSpec.v is the property's own reading of "chunks". *)
Require Import Bytes Utf8 Base64 CapLib StsState Cap CapSpec CapProofs.
Require Import Sasl SaslSpec Base64Lemmas SaslProofs SaslFailClosed SaslLogProofs SaslStateful SaslCapLines SaslFaultPlain.

(* ---- chunking ------------------------------------------------------------------ *)

(* For every non-empty response (all lengths): the loop does not run out of bounds, every
   AUTHENTICATE parameter is 1..400 bytes, the payloads concatenate to the response, and a
   lone "+" ends the list iff the length is a multiple of 400.  `chunked` adds that every
   payload chunk but the last is exactly 400 bytes and nothing else is sent. *)
Theorem C09_chunks : forall r, r <> [] ->
  exists cs, sasl_chunks r = Ok cs /\
    chunked r cs /\
    Forall (fun c => (1 <= length (chunk_param c) <= 400)%nat) cs /\
    concat (payloads cs) = r /\
    (ends_with_plus cs <-> (length r mod 400 = 0)%nat).
Proof. exact sasl_chunks_correct. Qed.
Print Assumptions C09_chunks.

(* the loop computes exactly the specified chunking, which is unique *)
Theorem C09_chunks_exact : forall r cs, r <> [] -> (sasl_chunks r = Ok cs <-> chunked r cs).
Proof. exact sasl_chunks_exact. Qed.
Print Assumptions C09_chunks_exact.

Theorem C09_chunks_shape : forall r cs, chunked r cs ->
  exists ps, ps <> [] /\ Forall (fun p => length p = 400%nat) (removelast ps) /\
    (0 < length (last ps []) <= 400)%nat /\
    cs = List.map Payload ps ++ (if Nat.eqb (length (last ps [])) 400 then [Plus] else []).
Proof. exact chunked_shape. Qed.
Print Assumptions C09_chunks_shape.

(* the server that reassembles the AUTHENTICATE parameters as IRCv3 prescribes gets the
   response back (unless the response itself ends in a 1-byte chunk "+", the one shape the
   wire format cannot distinguish from the empty chunk; base64 text never does) *)
Theorem C09_chunks_reassemble : forall r, r <> [] -> ~ last_chunk_is_plus r ->
  exists cs, sasl_chunks r = Ok cs /\ reassemble [] (List.map chunk_param cs) = Some r.
Proof. exact sasl_chunks_reassemble. Qed.
Print Assumptions C09_chunks_reassemble.

(* ---- PLAIN and base64 ------------------------------------------------------------ *)

Theorem C09_base64_roundtrip : forall x, bytes_ok x -> base64_decode (base64_encode x) = Some x.
Proof. exact base64_roundtrip. Qed.
Print Assumptions C09_base64_roundtrip.

Theorem C09_base64_injective : forall x y,
  bytes_ok x -> bytes_ok y -> base64_encode x = base64_encode y -> x = y.
Proof. exact base64_encode_inj. Qed.
Print Assumptions C09_base64_injective.

Theorem C09_plain : forall u p, bytes_ok u -> bytes_ok p ->
  sasl_plain_encode u p [c_plus] = plain_encode u p /\
  base64_decode (plain_encode u p) = Some (u ++ 0 :: u ++ 0 :: p).
Proof. exact plain_correct. Qed.
Print Assumptions C09_plain.

(* invited with "+", PLAIN never gives up; invited with anything else both built-in
   mechanisms decline (the empty response, which the handler turns into an error) *)
Theorem C09_plain_never_empty : forall u p, sasl_plain_encode u p [c_plus] <> [].
Proof. exact sasl_plain_never_empty. Qed.
Print Assumptions C09_plain_never_empty.

Theorem C09_builtin_decline : forall a b ps, ps <> [c_plus] ->
  sasl_plain_encode a b ps = [] /\ sasl_external_encode a ps = [].
Proof. exact builtin_decline. Qed.
Print Assumptions C09_builtin_decline.

(* end to end: chunk the PLAIN response, let the server reassemble the lines and decode *)
Theorem C09_plain_delivered : forall u p, bytes_ok u -> bytes_ok p ->
  exists cs resp,
    sasl_chunks (sasl_plain_encode u p [c_plus]) = Ok cs /\
    Forall (fun c => (length (chunk_param c) <= 400)%nat) cs /\
    reassemble [] (List.map chunk_param cs) = Some resp /\
    base64_decode resp = Some (u ++ 0 :: u ++ 0 :: p).
Proof. exact plain_delivered. Qed.
Print Assumptions C09_plain_delivered.

(* ---- fail-closed ------------------------------------------------------------------
   m is ANY mechanism (any method name, any function from challenge parameters to a
   response), c any configuration using it with tracking on.  Histories range over the
   alphabet AUTHENTICATE, 900-908 (in_alphabet); the theorems hold from every negotiation
   state ns whose Connect has not returned, in particular from the state reached when
   CAP ACK started the authentication (C09_ack_starts_authentication below). *)

(* what one event elicits, exactly as the code behaves (Spec/SaslSpec.v step_spec):
   900/901/907 nothing; 903 CAP END; 902/904/905/906/908 the ERROR that ends Connect;
   AUTHENTICATE the chunked response, or the ERROR when the mechanism returns "" *)
Theorem C09_step : forall m c, cfg_sasl c = Some m -> cfg_tracking c = true ->
  forall ns e, in_alphabet e ->
  exists cn' outs, feed c (mkConn ns None) e = Ok (cn', outs) /\ step_spec m ns e cn' outs.
Proof. exact feed_step. Qed.
Print Assumptions C09_step.

(* CAP END is written only after 903: everything written in answer to a 903-free prefix of
   a history is an AUTHENTICATE line (the rest h2 of the history is arbitrary) *)
Theorem C09_fail_closed_no_cap_end : forall m c, cfg_sasl c = Some m -> cfg_tracking c = true ->
  forall h1 h2 cn cn' outs,
  Forall in_alphabet h1 -> Forall (fun e => ev_cmd e <> n903) h1 ->
  run c cn (h1 ++ h2) = Ok (cn', outs) ->
  exists cn1 o1 o2,
    run c cn h1 = Ok (cn1, o1) /\ run c cn1 h2 = Ok (cn', o2) /\ outs = o1 ++ o2 /\
    Forall (fun w => ev_cmd w = c_AUTHENTICATE) (writes_of o1) /\ ~ In cap_end (writes_of o1).
Proof. exact no_cap_end_before_success. Qed.
Print Assumptions C09_fail_closed_no_cap_end.

(* the first failure numeric, or the first challenge the mechanism answers with "",
   makes Connect return the ErrEvent; the event elicits no write and nothing whatsoever is
   written afterwards, whatever follows (h2 is arbitrary, a later 903 included) *)
Theorem C09_fail_closed : forall m c, cfg_sasl c = Some m -> cfg_tracking c = true ->
  forall h1 e h2 ns,
  Forall in_alphabet h1 -> Forall (fun x => fatalb m x = false) h1 ->
  in_alphabet e -> fatalb m e = true ->
  exists o1,
    run c (mkConn ns None) h1 = Ok (mkConn ns None, o1) /\
    run c (mkConn ns None) (h1 ++ e :: h2) =
      Ok (mkConn ns (Some (fatal_text m e)), o1 ++ [InjectError (fatal_text m e)]).
Proof. exact fails_closed. Qed.
Print Assumptions C09_fail_closed.

(* ... and Connect returns an error in no other case *)
Theorem C09_error_iff_fatal : forall m c, cfg_sasl c = Some m -> cfg_tracking c = true ->
  forall h ns cn' outs,
  Forall in_alphabet h -> run c (mkConn ns None) h = Ok (cn', outs) ->
  (cn_returned cn' <> None <-> Exists (fun e => fatalb m e = true) h).
Proof. exact returned_iff_fatal. Qed.
Print Assumptions C09_error_iff_fatal.

Theorem C09_success : forall m c, cfg_sasl c = Some m -> cfg_tracking c = true ->
  forall ns e, in_alphabet e -> ev_cmd e = n903 ->
  feed c (mkConn ns None) e = Ok (mkConn ns None, [Write cap_end]).
Proof. exact success_ends_negotiation. Qed.
Print Assumptions C09_success.

(* no slice in the chunk loop is ever out of range: no history, in or outside the alphabet,
   with or without a mechanism, makes the model panic *)
Theorem C09_never_panics : forall c h cn, exists r, run c cn h = Ok r.
Proof. exact run_total. Qed.
Print Assumptions C09_never_panics.

(* ---- no secret is logged -------------------------------------------------------------
   strip_raw (StripRaw) and pretty_rest (Event.Pretty after its Sensitive/Echo/ERROR tests)
   are arbitrary functions. *)

(* the send-path loggers (debugLogEvent for sent and for dropped events, Pretty -> Out) do
   not depend on the parameters of a Sensitive event; Out gets nothing at all *)
Theorem C09_no_secret_logged : forall strip_raw pretty_rest e ps dropped,
  ev_sensitive e = true ->
  debug_log strip_raw dropped (with_params e ps) = debug_log strip_raw dropped e /\
  out_log strip_raw pretty_rest (with_params e ps) = out_log strip_raw pretty_rest e /\
  out_log strip_raw pretty_rest e = [].
Proof. exact loggers_ignore_sensitive_params. Qed.
Print Assumptions C09_no_secret_logged.

(* every event the client builds from a secret is Sensitive *)
Theorem C09_secret_events_sensitive :
  (forall pw, ev_sensitive (pass_event pw) = true) /\
  (forall w, ev_sensitive (webirc_event w) = true) /\
  (forall u p, ev_sensitive (oper_event u p) = true) /\
  (forall p, ev_sensitive (chunk_event (Payload p)) = true).
Proof. exact secret_events_sensitive. Qed.
Print Assumptions C09_secret_events_sensitive.

(* non-interference, end to end: configurations that differ only in secrets (cfg_low_eq:
   server password, WEBIRC fields, mechanism responses of equal length) log the same
   records during registration and during every history of server events (any events,
   not only the alphabet), and reach the same Connect result *)
Theorem C09_registration_log_ni : forall strip_raw pretty_rest c1 c2, cfg_low_eq c1 c2 ->
  registration_log strip_raw pretty_rest c1 = registration_log strip_raw pretty_rest c2.
Proof. exact registration_log_ni. Qed.
Print Assumptions C09_registration_log_ni.

Theorem C09_session_log_ni : forall strip_raw pretty_rest c1 c2 h cn, cfg_low_eq c1 c2 ->
  session_log strip_raw pretty_rest c1 cn h = session_log strip_raw pretty_rest c2 cn h.
Proof. exact session_log_ni. Qed.
Print Assumptions C09_session_log_ni.

Theorem C09_run_ni : forall c1 c2 h cn, cfg_low_eq c1 c2 ->
  exists cn' o1 o2, run c1 cn h = Ok (cn', o1) /\ run c2 cn h = Ok (cn', o2) /\
    List.map redact_out o1 = List.map redact_out o2.
Proof. exact run_ni. Qed.
Print Assumptions C09_run_ni.

Theorem C09_oper_log_constant : forall strip_raw pretty_rest u p u' p',
  write_log strip_raw pretty_rest (oper_event u p) = write_log strip_raw pretty_rest (oper_event u' p').
Proof. exact oper_log_constant. Qed.
Print Assumptions C09_oper_log_constant.

(* ---- fail-closed for mechanisms that keep state ---------------------------------------
   "all mechanisms implementing SASLMech": a Go mechanism may answer differently at every
   call.  A step pairs the server's event with the mechanism as it behaves at that step
   (Model/Sasl.v run_stateful); a pure mechanism is the special case C09_stateful_pure. *)
Theorem C09_stateful_pure : forall c m h cn,
  run_stateful c cn (List.map (fun e => (m, e)) h) = run (set_sasl c m) cn h.
Proof. exact rs_pure. Qed.
Print Assumptions C09_stateful_pure.

Theorem C09_stateful_no_cap_end : forall c, cfg_tracking c = true ->
  forall s1 s2 cn cn' outs,
  Forall step_in_alphabet s1 -> Forall (fun x => ev_cmd (snd x) <> n903) s1 ->
  run_stateful c cn (s1 ++ s2) = Ok (cn', outs) ->
  exists cn1 o1 o2,
    run_stateful c cn s1 = Ok (cn1, o1) /\ run_stateful c cn1 s2 = Ok (cn', o2) /\ outs = o1 ++ o2 /\
    Forall (fun w => ev_cmd w = c_AUTHENTICATE) (writes_of o1) /\ ~ In cap_end (writes_of o1).
Proof. exact rs_no_cap_end_before_success. Qed.
Print Assumptions C09_stateful_no_cap_end.

Theorem C09_stateful_fail_closed : forall c, cfg_tracking c = true ->
  forall s1 m e s2 ns,
  Forall step_in_alphabet s1 -> Forall (fun x => step_fatalb x = false) s1 ->
  in_alphabet e -> fatalb m e = true ->
  exists o1,
    run_stateful c (mkConn ns None) s1 = Ok (mkConn ns None, o1) /\
    run_stateful c (mkConn ns None) (s1 ++ (m, e) :: s2) =
      Ok (mkConn ns (Some (fatal_text m e)), o1 ++ [InjectError (fatal_text m e)]).
Proof. exact rs_fails_closed. Qed.
Print Assumptions C09_stateful_fail_closed.

Theorem C09_stateful_error_iff_fatal : forall c, cfg_tracking c = true ->
  forall steps ns cn' outs,
  Forall step_in_alphabet steps -> run_stateful c (mkConn ns None) steps = Ok (cn', outs) ->
  (cn_returned cn' <> None <-> Exists (fun x => step_fatalb x = true) steps).
Proof. exact rs_returned_iff_fatal. Qed.
Print Assumptions C09_stateful_error_iff_fatal.

(* per-event non-interference (holds for whichever mechanism is in force at that event,
   so it covers mechanisms that keep state as well) *)
Theorem C09_step_ni : forall c1 c2 cn e, cfg_low_eq c1 c2 ->
  exists cn' o1 o2, feed c1 cn e = Ok (cn', o1) /\ feed c2 cn e = Ok (cn', o2) /\
    List.map redact_out o1 = List.map redact_out o2.
Proof. exact feed_ni. Qed.
Print Assumptions C09_step_ni.

(* history-level non-interference for mechanisms that keep state: the two runs use
   pairwise low-equivalent mechanisms at every step *)
Theorem C09_stateful_session_log_ni : forall strip_raw pretty_rest c1 c2 s1 s2 cn,
  cfg_low_eq c1 c2 -> steps_low_eq s1 s2 ->
  session_log_stateful strip_raw pretty_rest c1 cn s1 =
  session_log_stateful strip_raw pretty_rest c2 cn s2.
Proof. exact session_log_stateful_ni. Qed.
Print Assumptions C09_stateful_session_log_ni.

(* ---- CAP lines while the exchange is running -------------------------------------------
   The server may send CAP lines between AUTHENTICATE <mech> and 903 (capabilities
   acknowledged on separate lines, cap-notify NEW/DEL, a repeated LS, a NAK).  handleCAP is
   Model/Cap.v handle_cap with STS disabled; is_nak/is_del/is_final_ls/is_ack, cap_tokens,
   cap_token_name are Spec/CapSpec.v's reply patterns, en_after_ack ns ps is enabledCap after
   the tokens of an ACK line (Proofs/CapProofs.v), requestable k: k is a built-in capability
   or sasl, sasl_enabled ns: sasl is in enabledCap. *)

(* CAP ACK starts (or re-starts) the authentication: an ACK that acknowledges sasl, or
   arrives while sasl is acknowledged, and does not take it away with "-sasl", is answered
   by AUTHENTICATE <method> and nothing else -- in particular not by CAP END *)
Theorem C09_ack_starts_authentication : forall c m ns e,
  cfg_sasl c = Some m -> cfg_tracking c = true -> cap_event e ->
  is_ack (ev_params e) = true -> ~ In (45 :: s_sasl) (cap_tokens (ev_params e)) ->
  sasl_enabled ns \/ In s_sasl (cap_tokens (ev_params e)) ->
  feed c (mkConn ns None) e =
    Ok (mkConn (mkSt [] (en_after_ack ns (ev_params e)) (st_sts ns)) None,
        [Sasl.Write (plain_ev c_AUTHENTICATE [mech_method m])]).
Proof. exact ack_starts_authentication. Qed.
Print Assumptions C09_ack_starts_authentication.

(* exactly which CAP lines the current code answers with CAP END, in any state: a NAK; a
   final LS/NEW when tmpCap is empty and the line advertises nothing requestable; an ACK
   after whose tokens sasl is not acknowledged.  Every other CAP line writes no CAP END. *)
Theorem C09_cap_end_iff : forall c m ns e, cfg_sasl c = Some m ->
  (In cap_end (writes_of (snd (Sasl.handle_cap c ns e))) <->
   is_nak (ev_params e) = true /\ is_del (ev_params e) = false \/
   (is_final_ls (ev_params e) = true /\ is_nak (ev_params e) = false /\ is_del (ev_params e) = false /\
    st_tmp ns = [] /\
    forall k, In k (List.map cap_token_name (cap_tokens (ev_params e))) -> ~ requestable k) \/
   (is_ack (ev_params e) = true /\ is_del (ev_params e) = false /\
    amem s_sasl (en_after_ack ns (ev_params e)) = false)).
Proof. exact cap_end_iff. Qed.
Print Assumptions C09_cap_end_iff.

(* a CAP line other than NAK, a DEL/ACK taking sasl away, or a final LS/NEW advertising
   nothing requestable (cap_quiet), arriving while sasl is acknowledged: sasl stays
   acknowledged and no CAP END is written *)
Theorem C09_cap_quiet_step : forall c m ns e,
  cfg_sasl c = Some m -> sasl_enabled ns -> cap_quiet (ev_params e) ->
  sasl_enabled (fst (Sasl.handle_cap c ns e)) /\
  ~ In cap_end (writes_of (snd (Sasl.handle_cap c ns e))).
Proof. exact cap_quiet_step. Qed.
Print Assumptions C09_cap_quiet_step.

(* execLoop on a CAP line: handleCAP's state and writes, Connect goes on *)
Theorem C09_cap_line_step : forall c ns e, cfg_tracking c = true -> cap_event e ->
  feed c (mkConn ns None) e =
    Ok (mkConn (fst (Sasl.handle_cap c ns e)) None, snd (Sasl.handle_cap c ns e)).
Proof. exact feed_cap. Qed.
Print Assumptions C09_cap_line_step.

(* CAP END only after 903, over histories that mix AUTHENTICATE, 900-908 and quiet CAP
   lines (in_alphabet_cap), from any state in which sasl is acknowledged: nothing written
   before the first 903 is CAP END, and sasl is still acknowledged *)
Theorem C09_fail_closed_no_cap_end_cap : forall c m, cfg_sasl c = Some m -> cfg_tracking c = true ->
  forall h1 h2 cn cn' outs,
  Forall in_alphabet_cap h1 -> Forall (fun e => ev_cmd e <> n903) h1 -> sasl_enabled (cn_ns cn) ->
  run c cn (h1 ++ h2) = Ok (cn', outs) ->
  exists cn1 o1 o2,
    run c cn h1 = Ok (cn1, o1) /\ run c cn1 h2 = Ok (cn', o2) /\ outs = o1 ++ o2 /\
    ~ In cap_end (writes_of o1) /\ sasl_enabled (cn_ns cn1).
Proof. exact no_cap_end_before_success_cap. Qed.
Print Assumptions C09_fail_closed_no_cap_end_cap.

(* failure numerics and give-ups stay fatal whatever CAP lines (any, NAK included) are
   interleaved, and nothing is written afterwards *)
Theorem C09_fail_closed_cap : forall c m, cfg_sasl c = Some m -> cfg_tracking c = true ->
  forall h1 e h2 ns,
  Forall in_alphabet_anycap h1 -> Forall (fun x => fatalb m x = false) h1 ->
  in_alphabet_anycap e -> fatalb m e = true ->
  exists ns' o1,
    run c (mkConn ns None) h1 = Ok (mkConn ns' None, o1) /\
    run c (mkConn ns None) (h1 ++ e :: h2) =
      Ok (mkConn ns' (Some (fatal_text m e)), o1 ++ [InjectError (fatal_text m e)]).
Proof. exact fails_closed_cap. Qed.
Print Assumptions C09_fail_closed_cap.

Theorem C09_error_iff_fatal_cap : forall c m, cfg_sasl c = Some m -> cfg_tracking c = true ->
  forall h ns cn' outs,
  Forall in_alphabet_anycap h -> run c (mkConn ns None) h = Ok (cn', outs) ->
  (cn_returned cn' <> None <-> Exists (fun e => fatalb m e = true) h).
Proof. exact returned_iff_fatal_cap. Qed.
Print Assumptions C09_error_iff_fatal_cap.

(* the same for mechanisms that keep state *)
Theorem C09_stateful_no_cap_end_cap : forall c, cfg_tracking c = true ->
  forall s1 s2 cn cn' outs,
  Forall step_in_alphabet_cap s1 -> Forall (fun x => ev_cmd (snd x) <> n903) s1 ->
  sasl_enabled (cn_ns cn) ->
  run_stateful c cn (s1 ++ s2) = Ok (cn', outs) ->
  exists cn1 o1 o2,
    run_stateful c cn s1 = Ok (cn1, o1) /\ run_stateful c cn1 s2 = Ok (cn', o2) /\ outs = o1 ++ o2 /\
    ~ In cap_end (writes_of o1) /\ sasl_enabled (cn_ns cn1).
Proof. exact rsx_no_cap_end_before_success. Qed.
Print Assumptions C09_stateful_no_cap_end_cap.

Theorem C09_stateful_fail_closed_cap : forall c, cfg_tracking c = true ->
  forall s1 m e s2 ns,
  Forall step_in_alphabet_anycap s1 -> Forall (fun x => step_fatalb x = false) s1 ->
  in_alphabet_anycap e -> fatalb m e = true ->
  exists ns' o1,
    run_stateful c (mkConn ns None) s1 = Ok (mkConn ns' None, o1) /\
    run_stateful c (mkConn ns None) (s1 ++ (m, e) :: s2) =
      Ok (mkConn ns' (Some (fatal_text m e)), o1 ++ [InjectError (fatal_text m e)]).
Proof. exact rsx_fails_closed. Qed.
Print Assumptions C09_stateful_fail_closed_cap.

Theorem C09_stateful_error_iff_fatal_cap : forall c, cfg_tracking c = true ->
  forall steps ns cn' outs,
  Forall step_in_alphabet_anycap steps -> run_stateful c (mkConn ns None) steps = Ok (cn', outs) ->
  (cn_returned cn' <> None <-> Exists (fun x => step_fatalb x = true) steps).
Proof. exact rsx_returned_iff_fatal. Qed.
Print Assumptions C09_stateful_error_iff_fatal_cap.

(* ---- write faults -----------------------------------------------------------------------
   sendLoop returns the I/O error of a failed write unchanged; internalConnect prints it
   ("received error, beginning cleanup: %v") and Connect returns it.  Neither depends on the
   event whose write failed; the Debug lines caused by a Sensitive event whose write fails
   do not depend on its parameters (strip_raw arbitrary). *)
Theorem C09_write_fault_error_independent : forall fault e e',
  send_loop_error fault e = send_loop_error fault e'.
Proof. exact send_error_independent_of_event. Qed.
Print Assumptions C09_write_fault_error_independent.

Theorem C09_write_fault_ni : forall strip_raw w e ps, ev_sensitive e = true ->
  write_fault_log strip_raw w (with_params e ps) = write_fault_log strip_raw w e /\
  write_fault_result w (with_params e ps) = write_fault_result w e /\
  write_fault_log strip_raw w e = [t_gt ++ t_extra ++ ev_cmd e ++ t_rparen; t_cleanup ++ w].
Proof. exact write_fault_ni. Qed.
Print Assumptions C09_write_fault_ni.

Theorem C09_secret_write_fault_constant : forall strip_raw w,
  (forall pw pw', write_fault_log strip_raw w (pass_event pw) = write_fault_log strip_raw w (pass_event pw')) /\
  (forall x x', write_fault_log strip_raw w (webirc_event x) = write_fault_log strip_raw w (webirc_event x')) /\
  (forall u p u' p', write_fault_log strip_raw w (oper_event u p) = write_fault_log strip_raw w (oper_event u' p')) /\
  (forall c c', write_fault_log strip_raw w (chunk_event (Payload c)) =
                write_fault_log strip_raw w (chunk_event (Payload c'))).
Proof. exact secret_write_fault_constant. Qed.
Print Assumptions C09_secret_write_fault_constant.

(* ---- PLAIN is stateless --------------------------------------------------------------------
   A sequence of Encode calls on one SASLPlain value whose fields change between the calls:
   every answer is base64 of the fields as they are at that call (and "" when the challenge
   is not "+"), independent of the other calls; in a sequence of exchanges each challenge is
   answered with the chunks of the current credential. *)
Theorem C09_plain_calls_current_fields : forall l,
  Forall2 (fun x r =>
             (snd x = [c_plus] ->
              r = plain_encode (fst (fst x)) (snd (fst x)) /\
              (bytes_ok (fst (fst x)) -> bytes_ok (snd (fst x)) ->
               base64_decode r = Some (fst (fst x) ++ 0 :: fst (fst x) ++ 0 :: snd (fst x)))) /\
             (snd x <> [c_plus] -> r = []))
          l (plain_calls l).
Proof. exact plain_calls_current_fields. Qed.
Print Assumptions C09_plain_calls_current_fields.

Theorem C09_plain_calls_no_memory : forall pre post pre' post' x,
  nth (length pre) (plain_calls (pre ++ x :: post)) [] =
  nth (length pre') (plain_calls (pre' ++ x :: post')) [].
Proof. exact plain_calls_no_memory. Qed.
Print Assumptions C09_plain_calls_no_memory.

Theorem C09_plain_sequence_delivers : forall c, cfg_tracking c = true ->
  forall (steps : list (str * str * event)) ns,
  Forall (fun x => challenge_plus (snd x)) steps ->
  exists outs,
    run_stateful c (mkConn ns None)
      (List.map (fun x => (plain_mech (fst (fst x)) (snd (fst x)), snd x)) steps) =
      Ok (mkConn ns None, outs) /\
    writes_of outs =
      flat_map (fun x => List.map chunk_event (chunks_of (plain_encode (fst (fst x)) (snd (fst x))))) steps.
Proof. exact plain_sequence_delivers. Qed.
Print Assumptions C09_plain_sequence_delivers.
