(* C09 -- SASL delivers the exact credential, fails closed and never logs secrets.
   Only statements here; proofs live in Proofs/SaslProofs.v (chunking, PLAIN),
   Proofs/Base64Lemmas.v (RFC 4648).  The model (Model/Sasl.v, Lib/Base64.v) mirrors
   cap_sasl.go, the sasl part of handleCAP, registerBuiltins' routing, execLoop's ERROR
   exit, the credential writes of internalConnect / Cmd.Oper and the Sensitive/Echo gates
   of the loggers; Spec/SaslSpec.v is the property's own reading of "chunks". *)
Require Import Bytes Utf8 Base64 Sasl SaslSpec Base64Lemmas SaslProofs.

(* ---- chunking ------------------------------------------------------------------ *)

(* For every non-empty response (all lengths): the loop does not run out of bounds, every
   AUTHENTICATE parameter is 1..400 bytes, the payloads concatenate to the response, and a
   lone "+" ends the list iff the length is a multiple of 400.  `chunked` adds that every
   payload chunk but the last is exactly 400 bytes and nothing else is sent. *)
Theorem C09_chunks : forall r, r <> [] ->
  exists cs, sasl_chunks r = Ok cs /\
    chunked r cs /\
    Forall (fun c => (1 <= length (chunk_param c) <= 400)%nat) cs /\
    concat (payloads cs) = r /\
    (ends_with_plus cs <-> (length r mod 400 = 0)%nat).
Proof. exact sasl_chunks_correct. Qed.
Print Assumptions C09_chunks.

(* the loop computes exactly the specified chunking, which is unique *)
Theorem C09_chunks_exact : forall r cs, r <> [] -> (sasl_chunks r = Ok cs <-> chunked r cs).
Proof. exact sasl_chunks_exact. Qed.
Print Assumptions C09_chunks_exact.

Theorem C09_chunks_shape : forall r cs, chunked r cs ->
  exists ps, ps <> [] /\ Forall (fun p => length p = 400%nat) (removelast ps) /\
    (0 < length (last ps []) <= 400)%nat /\
    cs = List.map Payload ps ++ (if Nat.eqb (length (last ps [])) 400 then [Plus] else []).
Proof. exact chunked_shape. Qed.
Print Assumptions C09_chunks_shape.

(* the server that reassembles the AUTHENTICATE parameters as IRCv3 prescribes gets the
   response back (unless the response itself ends in a 1-byte chunk "+", the one shape the
   wire format cannot distinguish from the empty chunk; base64 text never does) *)
Theorem C09_chunks_reassemble : forall r, r <> [] -> ~ last_chunk_is_plus r ->
  exists cs, sasl_chunks r = Ok cs /\ reassemble [] (List.map chunk_param cs) = Some r.
Proof. exact sasl_chunks_reassemble. Qed.
Print Assumptions C09_chunks_reassemble.

(* ---- PLAIN and base64 ------------------------------------------------------------ *)

Theorem C09_base64_roundtrip : forall x, bytes_ok x -> base64_decode (base64_encode x) = Some x.
Proof. exact base64_roundtrip. Qed.
Print Assumptions C09_base64_roundtrip.

Theorem C09_base64_injective : forall x y,
  bytes_ok x -> bytes_ok y -> base64_encode x = base64_encode y -> x = y.
Proof. exact base64_encode_inj. Qed.
Print Assumptions C09_base64_injective.

Theorem C09_plain : forall u p, bytes_ok u -> bytes_ok p ->
  sasl_plain_encode u p [c_plus] = plain_encode u p /\
  base64_decode (plain_encode u p) = Some (u ++ 0 :: u ++ 0 :: p).
Proof. exact plain_correct. Qed.
Print Assumptions C09_plain.

(* invited with "+", PLAIN never gives up; invited with anything else both built-in
   mechanisms decline (the empty response, which the handler turns into an error) *)
Theorem C09_plain_never_empty : forall u p, sasl_plain_encode u p [c_plus] <> [].
Proof. exact sasl_plain_never_empty. Qed.
Print Assumptions C09_plain_never_empty.

Theorem C09_builtin_decline : forall a b ps, ps <> [c_plus] ->
  sasl_plain_encode a b ps = [] /\ sasl_external_encode a ps = [].
Proof. exact builtin_decline. Qed.
Print Assumptions C09_builtin_decline.

(* end to end: chunk the PLAIN response, let the server reassemble the lines and decode *)
Theorem C09_plain_delivered : forall u p, bytes_ok u -> bytes_ok p ->
  exists cs resp,
    sasl_chunks (sasl_plain_encode u p [c_plus]) = Ok cs /\
    Forall (fun c => (length (chunk_param c) <= 400)%nat) cs /\
    reassemble [] (List.map chunk_param cs) = Some resp /\
    base64_decode resp = Some (u ++ 0 :: u ++ 0 :: p).
Proof. exact plain_delivered. Qed.
Print Assumptions C09_plain_delivered.
