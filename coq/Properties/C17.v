(* C17 — Protocol obligations are met: PING is answered, nick collisions are retried.

   Statement (properties.jsonl): for every PING received the client promptly writes exactly
   one PONG carrying the same token, for tokens with or without spaces, independent of the
   flood limiter.  For every 433/436/437 nickname error it asks for exactly one alternative -
   by default the nickname with one more '_' appended on each successive collision (nick_,
   nick__, ...), so a nickname already rejected is not proposed again, or else the value
   returned by the configured collision callback, and nothing if that callback returns the
   empty string.

   Model: Model/PingNick.v (handlePING, nickCollisionHandler, handleConnect/handleNICK as far
   as state.nick goes, GetNick, the two output routes); environment and reference machine:
   Spec/PingNickSpec.v.  What "successive collision" means operationally: the current code
   keeps no counter; it builds on the nickname the numeric names (Params[1]) unless that is
   empty, contains SPACE or ',' or is a channel name, else on the client's own nickname.  The theorems about runs of collisions
   therefore speak about servers that name the nickname they refuse, as 433/436/437 do
   (sessions of Spec/PingNickSpec.v); C17_collision_any_numeric covers every other numeric. *)
Require Import Bytes AMap Tags Event CodecSpec.
Require Import Names PingNick PingNickSpec PingNickProofs PingNickWire.

(* PING: exactly one output, a PONG with the last parameter as its only parameter, handed
   to Client.write; in any state of a session. *)
Theorem C17_pong_exactly_one : forall params,
  handle_ping params = [mkOut Direct s_PONG [last_param params]].
Proof. exact handle_ping_exact. Qed.
Print Assumptions C17_pong_exactly_one.

Theorem C17_pong_in_session : forall cfg st src params,
  pn_step cfg st (mkEvent s_PING src params) = Ok (st, [cmd_pong (last_param params)]).
Proof. exact step_ping. Qed.
Print Assumptions C17_pong_in_session.

(* The same token at the peer.  For every PING whose token (Event.Last()) is wire-valid -
   valid UTF-8 without CR / LF; it may be empty, contain spaces, start with ':' - the single
   output, serialised by Event.Bytes and read back by the parser (Model/Event.v, the codec
   model of C01-C03), is PONG with exactly that token as its only parameter.  Tokens that
   are not wire-valid are altered by Event.Bytes (Example not_wire_valid_is_altered). *)
Theorem C17_pong : forall params,
  wire_valid (last_param params) = true ->
  exists o, handle_ping params = [o] /\ o_route o = Direct /\
            parse_event (event_bytes (wevent_of o)) =
              Ok (Some (mkWEvent None None s_PONG [last_param params])).
Proof. exact ping_pong_wire. Qed.
Print Assumptions C17_pong.

(* ... and it neither waits for nor moves the flood limiter, whatever the limiter's state
   (writeDelay, time since the last write), Config.AllowFlood and the event's length. *)
Theorem C17_pong_bypasses_limiter : forall params allow_flood wd since len,
  exists o, handle_ping params = [o] /\
            o_cmd o = s_PONG /\ o_params o = [last_param params] /\
            dispatch_out allow_flood wd since len o = (wd, 0%Z).
Proof. exact pong_bypasses_limiter. Qed.
Print Assumptions C17_pong_bypasses_limiter.

(* Default handler, runs of collisions.  For every configuration without a callback (tracking
   on or off), every client state [st] (before 001: [], after 001: any current nickname),
   every nickname [base] just asked for (Config.Nick at registration, or a later request;
   nick_like: any IsValidNick nickname and also non-ASCII ones),
   and every sequence of messages in which 433/436/437 (any mix, any source, target and
   text) refuse the nickname last asked for and any other messages (PING, 001, NICK changes
   of ourselves or others, anything else) are interleaved:
   - the client answers every refusal with exactly one NICK and writes no NICK otherwise;
   - the k-th refusal is answered with base ++ k underscores;
   - base and all proposals are pairwise different: no refused nickname is proposed again. *)
Theorem C17_collision_default : forall cfg items st base,
  pc_collide cfg = None ->
  nick_like base = true -> well_formed items -> no_user items ->
  exists outs,
    session cfg st base items = Ok outs /\
    List.map (filter is_nick_out) outs = expected_run base 0 items /\
    concat (expected_run base 0 items) = List.map cmd_nick (proposals base 0 items) /\
    NoDup (base :: proposals base 0 items).
Proof. exact collision_default_run_full. Qed.
Print Assumptions C17_collision_default.

(* the k-th of consecutive refusals, spelled out *)
Theorem C17_collision_default_kth : forall shells base j,
  (j < length shells)%nat ->
  nth j (proposals base 0 (List.map ICollide shells)) [] = base ++ repeat underscore (S j).
Proof. intros. apply (proposals_consecutive shells base 0 j). assumption. Qed.
Print Assumptions C17_collision_default_kth.

(* The same with requests of the application (Client.Cmd.Nick) interleaved: each refusal is
   answered with the refused nickname plus one '_' (expected_nicks restarts at the requested
   nickname). *)
Theorem C17_collision_default_general : forall cfg items st req,
  pc_collide cfg = None ->
  nick_like req = true -> well_formed items ->
  exists outs, session cfg st req items = Ok outs /\
               List.map (filter is_nick_out) outs = expected_nicks req items.
Proof. exact session_default. Qed.
Print Assumptions C17_collision_default_general.

(* Any 433/436/437 whatsoever (fewer parameters, a channel or garbage where the nickname
   belongs): exactly one NICK; it is the named nickname, or else the current one, plus '_';
   it is never the nickname the numeric names. *)
Theorem C17_collision_any_numeric : forall cfg st params,
  pc_collide cfg = None ->
  exists b, nick_collision cfg st params = Ok [cmd_nick (b ++ [underscore])] /\
            ((exists t r, params = t :: b :: r /\ collision_named b = true) \/ b = current_nick cfg st) /\
            (forall t p r, params = t :: p :: r -> collision_named p = true -> b ++ [underscore] <> p).
Proof. exact collision_default_any. Qed.
Print Assumptions C17_collision_any_numeric.

(* Callback: exactly NICK (f current) when f current is not empty, nothing otherwise; in
   every state, for every 433/436/437 whatever its parameters. *)
Theorem C17_collision_callback : forall cfg st e f,
  pc_collide cfg = Some f -> is_collision_cmd (e_cmd e) = true ->
  pn_step cfg st e =
    Ok (st, match f (current_nick cfg st) with [] => [] | n => [cmd_nick n] end).
Proof. exact step_collision_callback. Qed.
Print Assumptions C17_collision_callback.

(* every nickname by IsValidNick (Config.Nick is one) satisfies the hypothesis *)
Theorem C17_valid_nick_is_nick_like : forall n, is_valid_nick n = true -> nick_like n = true.
Proof. exact valid_nick_is_nick_like. Qed.
Print Assumptions C17_valid_nick_is_nick_like.

(* Not a defect but the reason for the "names the nickname it refuses" hypothesis: the handler
   keeps no counter, so numerics that carry no nickname (here "433 *", before 001) are all
   answered alike. *)
Theorem C17_collision_unnamed_repeats :
  session (mkPnCfg (bs "me") true None) pn_init (bs "me")
          [IEvent (mkEvent s_433 None [bs "*"]); IEvent (mkEvent s_433 None [bs "*"])] =
    Ok [[cmd_nick (bs "me_")]; [cmd_nick (bs "me_")]].
Proof. exact collision_unnamed_repeats. Qed.
Print Assumptions C17_collision_unnamed_repeats.
