(* C07 — Connect always terminates cleanly and reports why.
   Theorems about the machine of Model/Lifecycle.v; proofs in Proofs/Lifecycle*.v. *)
Require Import Bytes Lifecycle LifecycleSpec LifecycleChecker.
From Coq Require Import List.
Import ListNotations.

(* The executable trace checker used by the correspondence suite is sound: a trace it
   accepts is the visible part of a trace of the machine. *)
Theorem C07_accepts_sound : forall fuel tr,
  accepts fuel tr = true ->
  exists tr' s, visible tr' = tr /\ wexec (init (trace_budget tr)) tr' s.
Proof. exact accepts_sound. Qed.
Print Assumptions C07_accepts_sound.

Require Import LifecycleSteps LifecycleInv LifecycleTerm.

(* From every reachable state in which a terminating stimulus has occurred (the group
   context is cancelled - Close() took effect or a loop failed -, Close() has been called,
   the QUIT has been written, the peer has closed, or an ERROR has been dequeued by the
   normal branch of execLoop) every schedule reaches Returned within `measure s` steps,
   environment actions included, and until then some goroutine of the library can always
   move: no schedule runs for ever and none blocks. *)
Theorem C07_terminates : forall b tr s,
  exec b tr s -> ending s = true -> all_paths (fun s => returned s = true) (measure s) s.
Proof. exact terminates. Qed.
Print Assumptions C07_terminates.

(* the explicit measure decreases on every transition of the machine *)
Theorem C07_measure_decreases : forall s l s', step s l s' -> measure s' < measure s.
Proof. exact step_measure_dec. Qed.
Print Assumptions C07_measure_decreases.
