(* C07 — Connect always terminates cleanly and reports why.

   Statements about the machine of Model/Lifecycle.v (connect goroutine, execLoop with its
   normal and drain-on-cancel branches, readLoop and its decode goroutine, sendLoop, pingLoop,
   context group, bounded rx/tx, a peer that may send lines / send ERROR / close at any point,
   an application that may call Close / Quit / Send at any point, any number of consecutive
   connections of one client). `exec b tr s`: s is reached from the initial state by some
   schedule showing the non-Tau labels tr, the environment acting at most b times. Every
   theorem quantifies over all schedules and all environment behaviours. Proofs in
   Proofs/Lifecycle*.v; satisfiability of the hypotheses: the Examples there
   (terminates_example, returns_nil_reachable, returns_errevent_reachable, live_reachable,
   error_then_close_errevent / _ioerr, accepts_example). *)
Require Import Bytes Lifecycle LifecycleSpec LifecycleChecker LifecycleSteps LifecycleInv LifecycleTerm
  LifecycleResult LifecycleEvents.
From Coq Require Import List.
Import ListNotations.

(* ---- termination ---- *)
(* From every reachable state in which a terminating stimulus has occurred (the group context
   is cancelled - Close() took effect, or a loop failed: write error, read error / peer EOF,
   unparsable line, ping timeout -, Close() has been called, the QUIT has been written, the
   peer has closed, an ERROR has been dequeued by the normal branch of execLoop, or - earlier
   still - an ERROR sits in the receive queue or a QUIT in the send queue), every
   schedule reaches Returned within `measure s` steps, environment actions included, and
   until then some goroutine of the library can always move: no schedule runs for ever and
   none blocks. *)
Theorem C07_terminates : forall b tr s,
  exec b tr s -> ending s = true -> all_paths (fun s => returned s = true) (measure s) s.
Proof. exact terminates. Qed.
Print Assumptions C07_terminates.

(* the explicit measure (budget of the environment, lines in flight, queued events and
   output, distance of every actor from its end) decreases on every transition *)
Theorem C07_measure_decreases : forall s l s', step s l s' -> measure s' < measure s.
Proof. exact step_measure_dec. Qed.
Print Assumptions C07_measure_decreases.

(* ---- the result ---- *)
(* Whatever Connect returns is allowed by the history of that connection: nil only if the
   application asked (Close(), or a QUIT handed to Send/Quit); ErrEvent t only for an ERROR t
   this connection's peer sent; an I/O error only if the peer closed or the write of a line
   other than the QUIT failed (a failed write of the QUIT itself is ignored); a parse error
   only for an unparsable line; a ping timeout only if the ticker said so. *)
Theorem C07_result : forall b tr s r,
  exec b tr s -> cpc s = CRet r ->
  let f := feat_of tr in
  (r = ENil /\ f_close f = true) \/
  (exists t, r = EErrEvent t /\ In t (f_errors f)) \/
  (r = EIO /\ f_peer_closed f = true) \/
  (r = EParse /\ f_bad f = true) \/
  (r = ETimedOut /\ f_tick f = true) \/
  (r = EIO /\ f_wfail f = true).
Proof. exact result_cases. Qed.
Print Assumptions C07_result.

(* nil after Close/Quit, when nothing else happened - in particular also when the socket's
   sending direction broke and the write of the QUIT line itself failed (LWFault may occur in
   tr; f_wfail records only failed writes of other lines) *)
Theorem C07_result_nil : forall b tr s r,
  exec b tr s -> cpc s = CRet r ->
  f_errors (feat_of tr) = [] -> f_peer_closed (feat_of tr) = false ->
  f_bad (feat_of tr) = false -> f_tick (feat_of tr) = false -> f_wfail (feat_of tr) = false -> r = ENil.
Proof. exact result_nil. Qed.
Print Assumptions C07_result_nil.

(* ErrEvent with the server's text after ERROR, when the application did not ask to close
   and the peer stayed *)
Theorem C07_result_error : forall b tr s r t,
  exec b tr s -> cpc s = CRet r ->
  f_close (feat_of tr) = false -> f_errors (feat_of tr) = [t] -> f_peer_closed (feat_of tr) = false ->
  f_bad (feat_of tr) = false -> f_tick (feat_of tr) = false -> f_wfail (feat_of tr) = false -> r = EErrEvent t.
Proof. exact result_error. Qed.
Print Assumptions C07_result_error.

(* a non-nil I/O error after the peer closed *)
Theorem C07_result_eof : forall b tr s r,
  exec b tr s -> cpc s = CRet r ->
  f_close (feat_of tr) = false -> f_errors (feat_of tr) = [] ->
  f_bad (feat_of tr) = false -> f_tick (feat_of tr) = false -> r = EIO.
Proof. exact result_eof. Qed.
Print Assumptions C07_result_eof.

(* ERROR t then an immediate close: exactly { ErrEvent t, I/O error } (both are reachable:
   Examples error_then_close_errevent, error_then_close_ioerr) *)
Theorem C07_result_error_then_close : forall b tr s r t,
  exec b tr s -> cpc s = CRet r ->
  f_close (feat_of tr) = false -> f_errors (feat_of tr) = [t] ->
  f_bad (feat_of tr) = false -> f_tick (feat_of tr) = false -> r = EErrEvent t \/ r = EIO.
Proof. exact result_error_then_close. Qed.
Print Assumptions C07_result_error_then_close.

(* ---- flush ---- *)
(* execLoop is a faithful FIFO consumer: at any time what was queued on this connection is
   what was delivered, then the event being handed over, then the queue *)
Theorem C07_flush_fifo : forall b tr s,
  exec b tr s -> live s = true -> enqueued_of tr = delivered_of tr ++ held s ++ rx s.
Proof. exact flush_fifo. Qed.
Print Assumptions C07_flush_fifo.

(* when Connect returns ErrEvent t that ERROR is the last event delivered, and every event
   queued before it was delivered to the handlers before it, in order *)
Theorem C07_flush : forall b tr s t,
  exec b tr s -> cpc s = CRet (EErrEvent t) ->
  exists pre post, delivered_of tr = pre ++ [EvError t] /\ enqueued_of tr = pre ++ [EvError t] ++ post.
Proof. exact flush_before_error. Qed.
Print Assumptions C07_flush.

(* ---- lifecycle events, and the state at the return ---- *)
(* exactly one INITIALIZED and one DISCONNECTED, CLOSED in between iff the result is nil; the
   socket is closed, IsConnected() is false, the four loops are gone, and the one goroutine
   that may remain (the decoder of a read abandoned on cancellation) can only exit *)
Theorem C07_lifecycle_events : forall b tr s r,
  exec b tr s -> cpc s = CRet r ->
  lc_of tr = [LInit] ++ (if err_is_nil r then [LClosed] else []) ++ [LDisc] /\
  sock_closed s = true /\ (conn_set s && connected s) = false /\ loops_done s = true /\
  (linger s = true -> step_linger s <> []).
Proof. exact lifecycle_events. Qed.
Print Assumptions C07_lifecycle_events.

(* ---- connecting again ---- *)
(* internalConnect starts every connection of the client from scratch (state.reset,
   drainQueues, a fresh group) ... *)
Theorem C07_reconnect : forall regs ping s,
  let s' := fresh_conn regs ping s in
  rx s' = [] /\ tx s' = [] /\ tracked s' = [] /\ inbuf s' = [] /\ cancelled s' = false /\ gerr s' = ENil.
Proof. exact reconnect_fresh. Qed.
Print Assumptions C07_reconnect.

(* ... and nothing of an earlier connection reaches it: on every connection the tracked state
   is the result of exactly the events delivered on it, every one of which was queued on it,
   every one of which this connection's peer sent *)
Theorem C07_reconnect_no_stale : forall b tr s,
  exec b tr s -> live s = true ->
  tracked s = delivered_of tr /\
  (forall e, In e (delivered_of tr) -> In e (enqueued_of tr)) /\
  (forall e, In e (enqueued_of tr) -> In e (sent_of tr)).
Proof. exact reconnect_no_stale. Qed.
Print Assumptions C07_reconnect_no_stale.

(* ... nor does anything an earlier connection had queued for sending: whatever the peer of a
   connection reads is one of this connection's registration lines, something handed to Send
   after this Connect was called, or a PING of its ping loop *)
Theorem C07_reconnect_no_stale_output : forall b tr s o s',
  exec b tr s -> live s = true -> step s (LPeerRecv o) s' -> In o (outs_of tr).
Proof. exact no_stale_output. Qed.
Print Assumptions C07_reconnect_no_stale_output.

(* ---- the trace checker of the correspondence ---- *)
(* a trace `accepts` accepts is the visible part of a trace of the machine *)
Theorem C07_accepts_sound : forall fuel tr,
  accepts fuel tr = true ->
  exists tr' s, visible tr' = tr /\ wexec (init (trace_budget tr)) tr' s.
Proof. exact accepts_sound. Qed.
Print Assumptions C07_accepts_sound.
