(* C07 — Connect always terminates cleanly and reports why.
   Theorems about the machine of Model/Lifecycle.v; proofs in Proofs/Lifecycle*.v. *)
Require Import Bytes Lifecycle LifecycleSpec LifecycleChecker.
From Coq Require Import List.
Import ListNotations.

(* The executable trace checker used by the correspondence suite is sound: a visible
   trace it accepts is a trace of the machine. *)
Theorem C07_accepts_sound : forall fuel tr,
  accepts fuel tr = true -> exists s, wexec (init (trace_budget tr)) tr s.
Proof. exact accepts_sound. Qed.
Print Assumptions C07_accepts_sound.
