(* C07 — Connect always terminates cleanly and reports why.
   Theorems about the machine of Model/Lifecycle.v; proofs in Proofs/Lifecycle*.v. *)
Require Import Bytes Lifecycle LifecycleSpec LifecycleChecker.
From Coq Require Import List.
Import ListNotations.

(* The executable trace checker used by the correspondence suite is sound: a trace it
   accepts is the visible part of a trace of the machine. *)
Theorem C07_accepts_sound : forall fuel tr,
  accepts fuel tr = true ->
  exists tr' s, visible tr' = tr /\ wexec (init (trace_budget tr)) tr' s.
Proof. exact accepts_sound. Qed.
Print Assumptions C07_accepts_sound.
