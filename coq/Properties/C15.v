(* C15 — Names: validators match their grammar; identity is RFC1459 case-insensitive.
   Only statements here; proofs live in Proofs/. *)
Require Import Bytes Names NameGrammar NamesProofs.

Theorem C15_nick_exact : forall s, is_valid_nick s = true <-> nick_grammar s.
Proof. exact is_valid_nick_iff. Qed.
Print Assumptions C15_nick_exact.

Theorem C15_user_exact : forall s, is_valid_user s = true <-> user_grammar s.
Proof. exact is_valid_user_iff. Qed.
Print Assumptions C15_user_exact.

Theorem C15_channel_exact : forall s, is_valid_channel s = true <-> chan_grammar s.
Proof. exact is_valid_channel_iff. Qed.
Print Assumptions C15_channel_exact.

Theorem C15_fold_bytewise : forall s i,
  nth_error (to_rfc1459 s) i = option_map fold_spec (nth_error s i).
Proof. exact to_rfc1459_nth. Qed.
Print Assumptions C15_fold_bytewise.

Theorem C15_fold_length : forall s, length (to_rfc1459 s) = length s.
Proof. exact to_rfc1459_length. Qed.
Print Assumptions C15_fold_length.

Theorem C15_fold_idempotent : forall s, to_rfc1459 (to_rfc1459 s) = to_rfc1459 s.
Proof. exact to_rfc1459_idem. Qed.
Print Assumptions C15_fold_idempotent.

Theorem C15_fold_table : forall b,
  (65 <= b <= 90 -> fold1 b = b + 32) /\ (91 <= b <= 94 -> fold1 b = b + 32) /\
  (b < 65 \/ 94 < b -> fold1 b = b).
Proof. exact fold1_table. Qed.
Print Assumptions C15_fold_table.
