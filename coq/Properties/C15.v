(* C15 — Names: validators match their grammar; identity is RFC1459 case-insensitive.
   Only statements here; proofs live in Proofs/. *)
Require Import Bytes AMap Names NameGrammar NamesProofs State StateGetters Event SourceEq NamesKeyedProofs.

Theorem C15_nick_exact : forall s, is_valid_nick s = true <-> nick_grammar s.
Proof. exact is_valid_nick_iff. Qed.
Print Assumptions C15_nick_exact.

Theorem C15_user_exact : forall s, is_valid_user s = true <-> user_grammar s.
Proof. exact is_valid_user_iff. Qed.
Print Assumptions C15_user_exact.

Theorem C15_channel_exact : forall s, is_valid_channel s = true <-> chan_grammar s.
Proof. exact is_valid_channel_iff. Qed.
Print Assumptions C15_channel_exact.

Theorem C15_fold_bytewise : forall s i,
  nth_error (to_rfc1459 s) i = option_map fold_spec (nth_error s i).
Proof. exact to_rfc1459_nth. Qed.
Print Assumptions C15_fold_bytewise.

Theorem C15_fold_length : forall s, length (to_rfc1459 s) = length s.
Proof. exact to_rfc1459_length. Qed.
Print Assumptions C15_fold_length.

Theorem C15_fold_idempotent : forall s, to_rfc1459 (to_rfc1459 s) = to_rfc1459 s.
Proof. exact to_rfc1459_idem. Qed.
Print Assumptions C15_fold_idempotent.

Theorem C15_fold_table : forall b,
  (65 <= b <= 90 -> fold1 b = b + 32) /\ (91 <= b <= 94 -> fold1 b = b + 32) /\
  (b < 65 \/ 94 < b -> fold1 b = b).
Proof. exact fold1_table. Qed.
Print Assumptions C15_fold_table.

(* every name-keyed query gives the same answer for any two names with the same fold
   (LookupUser, LookupChannel, IsInChannel, User.InChannel, Channel.UserIn, Perms.Lookup with
   and without its ok flag) *)
Theorem C15_keyed : forall a b, to_rfc1459 a = to_rfc1459 b ->
  (forall s, g_lookup_user s a = g_lookup_user s b) /\
  (forall s, g_lookup_channel s a = g_lookup_channel s b) /\
  (forall s, g_is_in_channel s a = g_is_in_channel s b) /\
  (forall u, g_user_in_channel u a = g_user_in_channel u b) /\
  (forall c, g_channel_user_in c a = g_channel_user_in c b) /\
  (forall u, g_perms_lookup u a = g_perms_lookup u b) /\
  (forall u, perms_lookup u a = perms_lookup u b).
Proof. exact keyed_all. Qed.
Print Assumptions C15_keyed.

(* Source.ID and Source.Equals depend on the name through its fold only *)
Theorem C15_keyed_source : forall a b, to_rfc1459 a = to_rfc1459 b ->
  (forall i h i' h', source_id (mkWSource a i h) = source_id (mkWSource b i' h')) /\
  (forall i h o, source_equals (Some (mkWSource a i h)) o = source_equals (Some (mkWSource b i h)) o).
Proof. exact keyed_source_all. Qed.
Print Assumptions C15_keyed_source.
