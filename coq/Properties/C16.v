(* C16 — Flood protection bounds the send rate.
   Only statements here; proofs live in Proofs/RateProofs.v.  The model (Model/Rate.v)
   mirrors conn.go: `rate` is ircConn.rate on nanoseconds in Z, `run` a sequence of rate
   calls against arbitrary clock readings, `run_sync` one sender whose events are each
   stamped by sendLoop before the next Send, `step`/`exec` the client as a machine in which
   rate calls, enqueues and sendLoop deliveries interleave. *)
Require Import Bytes Rate RateProofs.
Open Scope Z_scope.

(* the delay is 0 or exactly the event's cost (1 s + 10 ms per byte); it is the cost
   exactly when the accumulated delay exceeds 8 s *)
Theorem C16_delay_is_cost : forall s now chars,
  let '(s', d) := rate s now chars in
  (d = 0 \/ d = cost chars) /\
  (threshold < wd s' -> d = cost chars) /\
  (wd s' <= threshold -> d = 0) /\
  0 <= wd s' /\
  wd s' = Z.max 0 (wd s + cost chars - (now - last s)) /\
  last s' = last s.
Proof. exact delay_is_cost. Qed.
Print Assumptions C16_delay_is_cost.

Theorem C16_cost : forall chars, cost chars = 1000000000 + chars * 10000000.
Proof. exact cost_linear. Qed.
Print Assumptions C16_cost.

(* any call sequence, any clock readings: whenever a call is not held, everything charged
   so far fits in 8 s plus everything forgiven so far *)
Theorem C16_bucket : forall w cs e ch,
  0 <= w -> 0 <= ch ->
  nth (length cs) (snd (run w (cs ++ [(e, ch)]))) 1 = 0 ->
  w + sum_cost (cs ++ [(e, ch)]) <= threshold + sum_el (cs ++ [(e, ch)]).
Proof. exact bucket. Qed.
Print Assumptions C16_bucket.

Theorem C16_bucket_count : forall w cs e ch,
  0 <= w -> Forall (fun c => 0 <= snd c) (cs ++ [(e, ch)]) ->
  nth (length cs) (snd (run w (cs ++ [(e, ch)]))) 1 = 0 ->
  Z.of_nat (length (cs ++ [(e, ch)])) * second <= threshold + sum_el (cs ++ [(e, ch)]).
Proof. exact bucket_count. Qed.
Print Assumptions C16_bucket_count.

Theorem C16_bucket_burst : forall w cs ch,
  0 <= w -> Forall (fun c => 0 <= snd c /\ fst c = 0) (cs ++ [(0, ch)]) ->
  nth (length cs) (snd (run w (cs ++ [(0, ch)]))) 1 = 0 ->
  (length (cs ++ [(0%Z, ch)]) <= 8)%nat.
Proof. exact bucket_burst. Qed.
Print Assumptions C16_bucket_burst.
