(* C16 — Flood protection bounds the send rate.
   Only statements here; proofs live in Proofs/RateProofs.v.  The model (Model/Rate.v)
   mirrors conn.go as repaired ("the flood limiter credits elapsed time only once"): `rate`
   is ircConn.rate on nanoseconds in Z, `run` a sequence of rate calls against arbitrary
   forgiven times, `run_sync` one sender whose events are each stamped by sendLoop before
   the next Send, `step`/`exec` the client as a machine in which rate calls, enqueues and
   sendLoop deliveries interleave.  The arithmetic before the repair and the schedule on
   which it failed: Spec/RateBeforeRepair.v, Proofs/RateBeforeRepairProofs.v. *)
Require Import Bytes Rate RateProofs.
Open Scope Z_scope.

(* the delay is 0 or exactly the event's cost (1 s + 10 ms per byte); it is the cost
   exactly when the accumulated delay exceeds 8 s *)
Theorem C16_delay_is_cost : forall s now chars,
  let '(s', d) := rate s now chars in
  (d = 0 \/ d = cost chars) /\
  (threshold < wd s' -> d = cost chars) /\
  (wd s' <= threshold -> d = 0) /\
  0 <= wd s' /\
  wd s' = Z.max 0 (wd s + cost chars - (now - Z.max (last s) (lastr s))) /\
  last s' = last s /\ lastr s' = now.
Proof. exact delay_is_cost. Qed.
Print Assumptions C16_delay_is_cost.

Theorem C16_cost : forall chars, cost chars = 1000000000 + chars * 10000000.
Proof. exact cost_linear. Qed.
Print Assumptions C16_cost.

(* any call sequence, any clock readings: whenever a call is not held, everything charged
   so far fits in 8 s plus everything forgiven so far *)
Theorem C16_bucket : forall w cs e ch,
  0 <= w -> 0 <= ch ->
  nth (length cs) (snd (run w (cs ++ [(e, ch)]))) 1 = 0 ->
  w + sum_cost (cs ++ [(e, ch)]) <= threshold + sum_el (cs ++ [(e, ch)]).
Proof. exact bucket. Qed.
Print Assumptions C16_bucket.

Theorem C16_bucket_count : forall w cs e ch,
  0 <= w -> Forall (fun c => 0 <= snd c) (cs ++ [(e, ch)]) ->
  nth (length cs) (snd (run w (cs ++ [(e, ch)]))) 1 = 0 ->
  Z.of_nat (length (cs ++ [(e, ch)])) * second <= threshold + sum_el (cs ++ [(e, ch)]).
Proof. exact bucket_count. Qed.
Print Assumptions C16_bucket_count.

Theorem C16_bucket_burst : forall w cs ch,
  0 <= w -> Forall (fun c => 0 <= snd c /\ fst c = 0) (cs ++ [(0, ch)]) ->
  nth (length cs) (snd (run w (cs ++ [(0, ch)]))) 1 = 0 ->
  (length (cs ++ [(0%Z, ch)]) <= 8)%nat.
Proof. exact bucket_burst. Qed.
Print Assumptions C16_bucket_burst.

(* ---- the hold clause, full strength --------------------------------------------------- *)
(* "Once the client has used its initial burst allowance every further event passed to Send
   is held for at least its cost": for EVERY schedule of rate calls, enqueues and sendLoop
   deliveries whose clock readings do not run backwards — any number of senders, any delay
   of sendLoop in stamping lastWrite — a rate call made when the cost charged so far
   (accumulated delay at the start + all events rated, this one included) exceeds 8 s plus
   ALL the real time elapsed since the start is returned exactly the event's cost.
   (Satisfiable: hold_all_schedules_sat.  The sleep itself — time.After never fires early —
   and the program order of one goroutine's actions are outside the model.) *)
Theorem C16_hold : forall acts now e r0,
  0 <= wd r0 -> 0 <= ev_len e -> lens_ok acts ->
  monotone (Z.max (last r0) (lastr r0)) (acts ++ [ARate now e]) ->
  threshold + (now - Z.max (last r0) (lastr r0)) < wd r0 + charged (acts ++ [ARate now e]) ->
  snd (step (fst (exec (sys0 r0) acts)) (ARate now e)) = Some (cost (ev_len e)).
Proof. exact hold_all_schedules. Qed.
Print Assumptions C16_hold.

(* ---- one sender, each event stamped by sendLoop before the next Send ---------------- *)
(* (gap, chars, slack) per event: all non-negative.  After any number of events the cost
   written fits in 8 s plus the real time elapsed: at most 8 + t/1s lines by time t.
   Full strength would be: the same bound on lines for ANY number of concurrent senders
   ("sustained output never exceeds about one short message per second ... from several
   goroutines").  That is not true of the code, by design: each held event sleeps its own
   cost concurrently, so N senders obtain N lines per cost interval — every one of them
   held for its cost (C16_hold).  Proved: the bound for one sender. *)
Theorem C16_wallclock_partial : forall steps s,
  sync_state s -> wd s <= threshold -> Forall step_ok steps ->
  let t := last (fst (run_sync s steps)) - last s in
  wd s + sum_cost3 steps <= threshold + t /\
  Z.of_nat (length steps) * second <= threshold + t.
Proof. exact wallclock_sync. Qed.
Print Assumptions C16_wallclock_partial.

Theorem C16_wallclock_prefix_partial : forall a b s,
  sync_state s -> wd s <= threshold -> Forall step_ok (a ++ b) ->
  snd (run_sync s a) = firstn (length a) (snd (run_sync s (a ++ b))) /\
  Z.of_nat (length a) * second <= threshold + (last (fst (run_sync s a)) - last s).
Proof. exact wallclock_sync_prefix. Qed.
Print Assumptions C16_wallclock_prefix_partial.

(* the same budget for one sender under ANY staleness of lastWrite (tight loops, pieces of
   one split Send): a step is (wait, chars, forgiven); the only link to the clock is that
   the time forgiven so far never exceeds the time elapsed since the start (credit_ok —
   every stretch is forgiven at most once, the invariant behind C16_hold).  After any
   number of events the cost written fits in 8 s plus the time until the last Send returned. *)
Theorem C16_wallclock_one_sender_partial : forall steps w t0,
  0 <= w <= threshold -> Forall step1_ok steps -> credit_ok w t0 [] steps ->
  w + sum_cost3 steps <= threshold + (end_one w t0 steps - t0) /\
  Z.of_nat (length steps) * second <= threshold + (end_one w t0 steps - t0).
Proof. exact wallclock_one. Qed.
Print Assumptions C16_wallclock_one_sender_partial.

(* every held event of that sender is stamped no earlier than its cost after its Send *)
Theorem C16_hold_sync : forall a s gap chars slack,
  sync_state s -> Forall step_ok (a ++ [(gap, chars, slack)]) ->
  let s1 := fst (run_sync s a) in
  let now := last s1 + gap in
  threshold + (now - last s) < wd s + sum_cost3 (a ++ [(gap, chars, slack)]) ->
  snd (run_sync s (a ++ [(gap, chars, slack)])) =
  snd (run_sync s a) ++ [(now, cost chars, now + cost chars + slack)].
Proof. exact hold_sync. Qed.
Print Assumptions C16_hold_sync.

(* ---- bypass ------------------------------------------------------------------------- *)
(* a schedule fragment without a rate call returns no delay and leaves writeDelay alone;
   Send with AllowFlood, Cmd.Ping and Cmd.Pong contribute exactly one enqueue and no rate
   call (Send with flood protection on does contribute one) *)
Theorem C16_bypass : forall acts s,
  forallb (fun a => negb (is_rate a)) acts = true ->
  snd (exec s acts) = [] /\ wd (rs (fst (exec s acts))) = wd (rs s) /\
  lastr (rs (fst (exec s acts))) = lastr (rs s).
Proof. exact no_rate_no_delay. Qed.
Print Assumptions C16_bypass.

Theorem C16_bypass_entry_points : forall now e,
  forallb (fun a => negb (is_rate a)) (send_piece true now e) = true /\
  forallb (fun a => negb (is_rate a)) (ping_actions e) = true /\
  forallb (fun a => negb (is_rate a)) (pong_actions e) = true /\
  send_piece true now e = [AEnq e] /\ ping_actions e = [AEnq e] /\ pong_actions e = [AEnq e] /\
  existsb is_rate (send_piece false now e) = true.
Proof. exact bypass_entry_points. Qed.
Print Assumptions C16_bypass_entry_points.

(* every exported sender (table entry_points of Model/Rate.v, one row per exported method of
   *Commands in commands.go plus Client.Send and Client.Quit; compared with the source by
   suite rate.entry and exercised on the wire by scenario H of rate.wire): exactly Ping and
   Pong go straight to Client.write, all others end in Client.Send ... *)
Theorem C16_entry_points_routes : forall name r,
  In (name, r) entry_points -> (r = ViaWrite <-> (name = bs "Ping" \/ name = bs "Pong")).
Proof. exact entry_points_routes. Qed.
Print Assumptions C16_entry_points_routes.

Theorem C16_entry_points_table : length entry_points = 39%nat /\ NoDup (map fst entry_points).
Proof. exact entry_points_count. Qed.
Print Assumptions C16_entry_points_table.

(* ... what a path contributes to a schedule, whatever GlobalFormat is ... *)
Theorem C16_entry_actions : forall gf now e,
  entry_actions gf false ViaSend now e = [ARate now e; AEnq e] /\
  entry_actions gf true ViaSend now e = [AEnq e] /\
  (forall allow, entry_actions gf allow ViaWrite now e = [AEnq e]) /\
  (forall allow r, entry_actions true allow r now e = entry_actions false allow r now e).
Proof. exact entry_actions_shape. Qed.
Print Assumptions C16_entry_actions.

(* ... so "no matter how fast the application calls the send helpers": after any monotone
   schedule, with the allowance used, an event handed to ANY sender that ends in Client.Send
   is returned exactly its cost, then queued ... *)
Theorem C16_entry_point_held : forall name gf acts now e r0,
  entry_route name = Some ViaSend ->
  0 <= wd r0 -> 0 <= ev_len e -> lens_ok acts ->
  monotone (Z.max (last r0) (lastr r0)) (acts ++ [ARate now e]) ->
  threshold + (now - Z.max (last r0) (lastr r0)) < wd r0 + charged (acts ++ [ARate now e]) ->
  snd (exec (fst (exec (sys0 r0) acts)) (entry_actions gf false ViaSend now e)) = [cost (ev_len e)].
Proof. exact entry_point_held. Qed.
Print Assumptions C16_entry_point_held.

(* ... and an event handed to Ping/Pong, or to anything with AllowFlood, is queued with no
   rate call, no delay and no charge *)
Theorem C16_entry_point_not_rated : forall gf allow r now e s,
  r = ViaWrite \/ allow = true ->
  snd (exec s (entry_actions gf allow r now e)) = [] /\
  wd (rs (fst (exec s (entry_actions gf allow r now e)))) = wd (rs s).
Proof. exact entry_point_not_rated. Qed.
Print Assumptions C16_entry_point_not_rated.

Theorem C16_allow_flood : forall pieces s t g id,
  tx s = [] ->
  snd (send_flood true s t g id pieces) = t /\
  wd (rs (fst (send_flood true s t g id pieces))) = wd (rs s) /\
  tx (fst (send_flood true s t g id pieces)) = [] /\
  wire_events (fst (send_flood true s t g id pieces)) = wire_events s ++ pieces_events g id pieces.
Proof. exact send_flood_allow. Qed.
Print Assumptions C16_allow_flood.

(* ---- the limiter state is framed ------------------------------------------------------ *)
(* The limiter state has two writers: rate (writeDelay, lastRate) and sendLoop (lastWrite).
   Everything the client does is a schedule of ARate / AEnq / ADeliver — Sends of any
   goroutine, keep-alives, and the replies that handlers of inbound traffic write (PONG,
   CAP, AUTHENTICATE) or send (WHO/MODE after JOIN, NICK after a collision).  Over any such
   schedule with a monotone clock the accumulated delay is at least what it was, plus
   everything charged, minus the real time elapsed: nothing but the passing of time
   forgives (C16_bypass: without a rate call writeDelay and lastRate are untouched).
   ASSUMPTION checked on the implementation by suite rate.inbound and scenario I of
   rate.wire, not a theorem: the handlers of inbound events have no other access to the
   limiter state (it is not part of their footprint; the handlers themselves are modelled
   in Model/State.v without the connection's fields). *)
Theorem C16_limiter_frame : forall acts now e r0,
  0 <= wd r0 -> lens_ok acts ->
  monotone (Z.max (last r0) (lastr r0)) (acts ++ [ARate now e]) ->
  let s' := fst (exec (sys0 r0) acts) in
  let T0 := Z.max (last r0) (lastr r0) in
  wd r0 + charged acts - (Z.max (last (rs s')) (lastr (rs s')) - T0) <= wd (rs s') /\
  Z.max (last (rs s')) (lastr (rs s')) <= now /\
  wd r0 - (now - T0) <= wd (rs s').
Proof. exact limiter_frame. Qed.
Print Assumptions C16_limiter_frame.

(* ---- order -------------------------------------------------------------------------- *)
Theorem C16_order : forall g acts s,
  events_of g (wire_events (fst (exec s acts))) ++ events_of g (tx (fst (exec s acts))) =
  events_of g (wire_events s) ++ events_of g (tx s) ++ events_of g (enq_of acts).
Proof. exact order_per_sender. Qed.
Print Assumptions C16_order.

Theorem C16_order_drained : forall g acts r,
  tx (fst (exec (sys0 r) acts)) = [] ->
  events_of g (wire_events (fst (exec (sys0 r) acts))) = events_of g (enq_of acts).
Proof. exact order_drained. Qed.
Print Assumptions C16_order_drained.
