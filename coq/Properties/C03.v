(* C03 — One event is exactly one wire line; CR/LF can never smuggle a second command;
   Event.Len never under-reports.  Only statements here; proofs live in Proofs/. *)
Require Import Bytes Utf8 AMap WireOut GoUpper Tags Event Commands SendPath WireLines
  C03Utf8 C03Proofs.

(* For EVERY event (no well-formedness hypothesis): Bytes() contains no CR and no LF and
   is valid UTF-8. *)
Theorem C03_no_crlf : forall e,
  ~ In 13 (event_bytes e) /\ ~ In 10 (event_bytes e) /\ valid_utf8 (event_bytes e) = true.
Proof. exact event_bytes_no_crlf. Qed.
Print Assumptions C03_no_crlf.

(* What sendLoop writes for one event is body CR LF with no CR/LF in the body, whether
   or not message-tags was negotiated. *)
Theorem C03_one_line : forall message_tags e,
  wire_line (send_loop_write message_tags e) (event_bytes (strip_tags message_tags e)).
Proof. exact one_line. Qed.
Print Assumptions C03_one_line.

(* Observed at the socket: a peer that cuts the byte stream of ANY sequence of events
   after every LF recovers exactly one piece per event, namely that event's line. *)
Theorem C03_stream : forall message_tags es,
  cut_lf (concat (map (send_loop_write message_tags) es)) = map (send_loop_write message_tags) es.
Proof. exact stream_lines. Qed.
Print Assumptions C03_stream.

(* Len() (and LenOpts with either flag) is the length of the buffer Bytes() assembles
   before cleaning it, for every event ... *)
Theorem C03_len_buffer : forall flag e, event_len_opts flag e = length (event_raw_bytes e).
Proof. exact event_len_raw. Qed.
Print Assumptions C03_len_buffer.

(* ... hence never under-reports ... *)
Theorem C03_len_ge : forall e, (length (event_bytes e) <= event_len e)%nat.
Proof. exact len_ge. Qed.
Print Assumptions C03_len_ge.

(* ... and is exact for CR/LF-free valid UTF-8 events (any tag map, also one over the
   4094-byte limit: no `tags_fit` hypothesis is needed for the current code). *)
Theorem C03_len_eq : forall e, plain_event e -> event_len e = length (event_bytes e).
Proof. exact len_eq. Qed.
Print Assumptions C03_len_eq.
