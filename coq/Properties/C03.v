(* C03 — One event is exactly one wire line; CR/LF can never smuggle a second command;
   Event.Len never under-reports.  Only statements here; proofs live in Proofs/. *)
Require Import Bytes Utf8 AMap WireOut GoUpper Tags Event Commands SendPath WireLines
  HelperSpec C03Utf8 C03Proofs C03Command C03Total C03Helpers.

(* For EVERY event (no well-formedness hypothesis): Bytes() contains no CR and no LF and
   is valid UTF-8. *)
Theorem C03_no_crlf : forall e,
  ~ In 13 (event_bytes e) /\ ~ In 10 (event_bytes e) /\ valid_utf8 (event_bytes e) = true.
Proof. exact event_bytes_no_crlf. Qed.
Print Assumptions C03_no_crlf.

(* What sendLoop writes for one event is body CR LF with no CR/LF in the body, whether
   or not message-tags was negotiated. *)
Theorem C03_one_line : forall message_tags e,
  wire_line (send_loop_write message_tags e) (event_bytes (strip_tags message_tags e)).
Proof. exact one_line. Qed.
Print Assumptions C03_one_line.

(* Observed at the socket: a peer that cuts the byte stream of ANY sequence of events
   after every LF recovers exactly one piece per event, namely that event's line. *)
Theorem C03_stream : forall message_tags es,
  cut_lf (concat (map (send_loop_write message_tags) es)) = map (send_loop_write message_tags) es.
Proof. exact stream_lines. Qed.
Print Assumptions C03_stream.

(* Len() (and LenOpts with either flag) is the length of the buffer Bytes() assembles
   before cleaning it, for every event ... *)
Theorem C03_len_buffer : forall flag e, event_len_opts flag e = length (event_raw_bytes e).
Proof. exact event_len_raw. Qed.
Print Assumptions C03_len_buffer.

(* ... hence never under-reports ... *)
Theorem C03_len_ge : forall e, (length (event_bytes e) <= event_len e)%nat.
Proof. exact len_ge. Qed.
Print Assumptions C03_len_ge.

(* ... and is exact for CR/LF-free valid UTF-8 events (any tag map, also one over the
   4094-byte limit: no `tags_fit` hypothesis is needed for the current code). *)
Theorem C03_len_eq : forall e, plain_event e -> event_len e = length (event_bytes e).
Proof. exact len_eq. Qed.
Print Assumptions C03_len_eq.

(* Client.Send of ANY event, for EVERY splitter standing for splitMessage: every line
   that reaches the socket is one wire line (of one of the pieces Event.split made) ... *)
Theorem C03_send_lines : forall splitter message_tags max e line,
  In line (send splitter message_tags max e) ->
  exists e1, In e1 (event_split splitter max e) /\
             wire_line line (event_bytes (strip_tags message_tags e1)).
Proof. exact send_lines. Qed.
Print Assumptions C03_send_lines.

(* ... and the peer, cutting the byte stream of any sequence of Send calls after every
   LF, sees exactly those lines. *)
Theorem C03_send_stream : forall splitter message_tags max es,
  cut_lf (concat (flat_map (send splitter message_tags max) es))
  = flat_map (send splitter message_tags max) es.
Proof. exact send_stream. Qed.
Print Assumptions C03_send_stream.

(* Single-token command: when the cleaned command (invalid UTF-8, CR, LF removed) is a
   non-empty token without SPACE that does not start with '@' or ':', the written tag
   section (if any) is "@.." without SPACE and the written source (if any) is non-empty
   without SPACE, then the written line PARSES (no panic, not nil) and its command is
   the upper-cased cleaned command.  Params are arbitrary (hostile). *)
Theorem C03_command : forall e,
  single_token (cleaned (we_cmd e)) ->
  tags_section_ok (we_tags e) -> source_section_ok (we_src e) ->
  (2 <= length (event_bytes e))%nat ->
  exists e', parse_event (event_bytes e) = Ok (Some e') /\
             we_cmd e' = go_to_upper (cleaned (we_cmd e)).
Proof. exact command_of_bytes_total. Qed.
Print Assumptions C03_command.

(* go_to_upper is Go's strings.ToUpper exactly on ASCII: byte-wise a-z -> A-Z *)
Theorem C03_upper_ascii : forall s, Forall (fun b => b < 128) s -> go_to_upper s = to_upper_ascii s.
Proof. exact go_to_upper_ascii. Qed.
Print Assumptions C03_upper_ascii.

(* Every Cmd.* helper, all argument strings, every splitter, message-tags on or off:
   every line written is one wire line that parses to the helper's documented command.
   Untrusted text passed to a helper can therefore not inject another command. *)
Theorem C03_helpers : forall k c, helper_out k c ->
  forall splitter message_tags max line,
  In line (send splitter message_tags max (to_wevent c)) ->
  exists body e', wire_line line body /\ parse_event body = Ok (Some e') /\ we_cmd e' = k.
Proof. exact helper_lines. Qed.
Print Assumptions C03_helpers.

(* ParseEvent's model never panics (needed above; this is also C02's totality clause). *)
Theorem C03_parse_total : forall s, exists r, parse_event s = Ok r.
Proof. exact parse_event_total. Qed.
Print Assumptions C03_parse_total.

(* Commands.SendRaw: the model never panics; the events it hands to Send are events, so
   C03_send_lines / C03_send_stream / C03_command apply to them as to any other. *)
Theorem C03_send_raw_total : forall raws, exists evs, send_raw_events raws = Ok evs.
Proof. exact send_raw_total. Qed.
Print Assumptions C03_send_raw_total.
