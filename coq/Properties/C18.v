(* C18 — The command handler runs exactly the addressed command with the right arguments.
   Only statements here; definitions in Model/CmdHandler.v (the code: New, Add, Execute of
   cmdhandler/cmd.go) and Spec/CmdSpec.v (the statement), proofs and the Examples that
   show the hypotheses satisfiable (ex_invoke, ex_usage, ex_near_misses, ex_add) in
   Proofs/CmdProofs.v.

   Vocabulary (Spec/CmdSpec.v):
     name_ok n                      n is 1..20 bytes, each a-z, 0-9, '-' or '_'
     addresses prefix text n raw    text = prefix ++ n ++ (nothing | SPACE ++ raw), name_ok n,
                                    raw without '\n' (so `.*` and `$` see the whole rest)
     args_split raw args            raw empty: no arguments; else the pieces between ALL the
                                    spaces of raw (adjacent, leading and trailing spaces
                                    delimit empty arguments, as strings.Split does)
     bad_registration t cmd         a name/alias is invalid after lower-casing, or the
                                    lower-cased name and aliases repeat a key, or one of them
                                    is already a key of the table
   An outcome is ONE value: Nothing, one Invoke (the `go cmd.Fn(client, in)`), or one reply;
   "exactly once" is this, and the Go-side oracle counts the calls it observes. *)
Require Import Bytes GoLower Ctcp WireOut CmdHandler CmdSpec CmdProofs.

(* ---- Execute ---- *)

(* A PRIVMSG with a source whose text addresses n, a registered name or alias other than
   the built-in "help": with at least MinArgs arguments the outcome is the invocation of
   that command with the arguments split on single spaces and the raw remainder; with
   fewer it is the usage reply, and no function runs.  For EVERY prefix byte string (no
   hypothesis on it: regex metacharacters, the empty prefix, ...). *)
Theorem C18_invoke : forall h e src n raw c args,
  ev_source e = Some src -> ev_command e = PRIVMSG ->
  addresses (h_prefix h) (last_param e) n raw -> n <> help_name ->
  tbl_get n (h_cmds h) = Some c -> args_split raw args ->
  ((c_minargs c <= Z.of_nat (length args))%Z -> execute h e = Invoke c args raw) /\
  ((Z.of_nat (length args) < c_minargs c)%Z ->
     execute h e = Reply (fst (reply_route e src))
                         (snd (reply_route e src) ++ usage_text (h_prefix h) n) /\
     forall c' a' r', execute h e <> Invoke c' a' r').
Proof. exact invoke_addressed. Qed.
Print Assumptions C18_invoke.

(* The converse: whenever a function runs, all of the above held - there was a source, the
   command was PRIVMSG, the text is  prefix ++ name ++ (nothing | SPACE ++ raw)  with a valid
   name that is registered and not "help" and a newline-free remainder, the arguments are
   the split of the remainder and reach MinArgs.  So a different prefix, an unknown name,
   an upper-case name, more than 20 name bytes, another IRC command, a missing source run
   nothing.  Again for EVERY prefix. *)
Theorem C18_nothing_else : forall h e c args raw,
  execute h e = Invoke c args raw ->
  exists src n, ev_source e = Some src /\ ev_command e = PRIVMSG /\
    addresses (h_prefix h) (last_param e) n raw /\ n <> help_name /\
    tbl_get n (h_cmds h) = Some c /\ args_split raw args /\
    (c_minargs c <= Z.of_nat (length args))%Z.
Proof. exact invoke_only_addressed. Qed.
Print Assumptions C18_nothing_else.

(* what the regular expression (and the prefix test before it) accepts is exactly what the
   statement calls an addressed text *)
Theorem C18_match_exact : forall prefix text n raw,
  cmd_match prefix text = Some (n, raw) <-> addresses prefix text n raw.
Proof. exact cmd_match_iff. Qed.
Print Assumptions C18_match_exact.

(* "exactly the addressed command": a text addresses at most one name and remainder *)
Theorem C18_addressed_unique : forall prefix text n raw n' raw',
  addresses prefix text n raw -> addresses prefix text n' raw' -> n = n' /\ raw = raw'.
Proof. exact addresses_unique. Qed.
Print Assumptions C18_addressed_unique.

(* "split on single spaces" determines the arguments, and how many there are *)
Theorem C18_args_unique : forall raw a b, args_split raw a -> args_split raw b -> a = b.
Proof. exact args_split_unique. Qed.
Print Assumptions C18_args_unique.

Theorem C18_args_exist : forall raw, args_split raw (split_args raw).
Proof. exact split_args_spec. Qed.
Print Assumptions C18_args_exist.

Theorem C18_args_count : forall raw args, args_split raw args ->
  length args = match raw with [] => 0%nat | _ => S (count_byte 32 raw) end.
Proof. exact args_count. Qed.
Print Assumptions C18_args_count.

(* the near-misses of the statement, one by one *)
Theorem C18_no_source : forall h e, ev_source e = None -> execute h e = Nothing.
Proof. exact no_source_nothing. Qed.
Print Assumptions C18_no_source.

Theorem C18_other_command : forall h e, ev_command e <> PRIVMSG -> execute h e = Nothing.
Proof. exact other_command_nothing. Qed.
Print Assumptions C18_other_command.

Theorem C18_unknown_name : forall h e n raw,
  addresses (h_prefix h) (last_param e) n raw -> n <> help_name ->
  tbl_get n (h_cmds h) = None -> execute h e = Nothing.
Proof. exact unknown_name_nothing. Qed.
Print Assumptions C18_unknown_name.

(* `.` does not match '\n' and `$` (no (?m)) is the end of the text only *)
Theorem C18_newline : forall h e c args raw,
  In 10 (last_param e) -> ~ In 10 (h_prefix h) -> execute h e <> Invoke c args raw.
Proof. exact newline_never_invokes. Qed.
Print Assumptions C18_newline.

(* ---- sequences of messages ---- *)

(* k messages in a row: the i-th outcome is the outcome of the i-th message alone, so each
   invocation has exactly its own arguments whatever came before or comes after (that the
   implementation keeps nothing between calls - no shared buffers behind Input.Args - is
   what suite cmd.seq tests while earlier functions are still running) *)
Theorem C18_sequence_independent : forall h es i,
  nth_error (execute_seq h es) i = option_map (execute h) (nth_error es i).
Proof. exact execute_seq_nth. Qed.
Print Assumptions C18_sequence_independent.

Theorem C18_sequence_invoke_iff : forall h es i c args raw,
  nth_error (execute_seq h es) i = Some (Invoke c args raw) <->
  exists e src n, nth_error es i = Some e /\ ev_source e = Some src /\ ev_command e = PRIVMSG /\
    addresses (h_prefix h) (last_param e) n raw /\ n <> help_name /\
    tbl_get n (h_cmds h) = Some c /\ args_split raw args /\
    (c_minargs c <= Z.of_nat (length args))%Z.
Proof. exact execute_seq_invoke_iff. Qed.
Print Assumptions C18_sequence_invoke_iff.

(* ---- the built-in help ---- *)

(* a text that addresses "help" never runs a function, registered "help" or not *)
Theorem C18_help_never_invokes : forall h e c args raw,
  execute h e = Invoke c args raw ->
  forall raw', ~ addresses (h_prefix h) (last_param e) help_name raw'.
Proof. exact help_never_invokes. Qed.
Print Assumptions C18_help_never_invokes.

Theorem C18_help_generic : forall h e src,
  ev_source e = Some src -> ev_command e = PRIVMSG ->
  addresses (h_prefix h) (last_param e) help_name [] ->
  execute h e = ReplyHelp HelpGeneric (fst (reply_route e src)) (snd (reply_route e src)).
Proof. exact help_generic. Qed.
Print Assumptions C18_help_generic.

Theorem C18_help_of_registered : forall h e src raw a0 rest k c,
  ev_source e = Some src -> ev_command e = PRIVMSG ->
  addresses (h_prefix h) (last_param e) help_name raw ->
  args_split raw (a0 :: rest) -> lower_ascii_img a0 = Some k -> tbl_get k (h_cmds h) = Some c ->
  execute h e = ReplyHelp (if c_has_help c then HelpText c else HelpNoDoc)
                          (fst (reply_route e src)) (snd (reply_route e src)).
Proof. exact help_of_registered. Qed.
Print Assumptions C18_help_of_registered.

Theorem C18_help_of_unknown : forall h e src raw a0 rest,
  ev_source e = Some src -> ev_command e = PRIVMSG ->
  addresses (h_prefix h) (last_param e) help_name raw ->
  args_split raw (a0 :: rest) ->
  (forall k, lower_ascii_img a0 = Some k -> tbl_get k (h_cmds h) = None) ->
  execute h e = ReplyHelp HelpUnknown (fst (reply_route e src)) (snd (reply_route e src)).
Proof. exact help_of_unknown. Qed.
Print Assumptions C18_help_of_unknown.

(* the usage reply quotes  prefix ++ "help " ++ n ; that text, sent as it is, is answered
   with the documentation of the very command that was short of arguments *)
Theorem C18_usage_points_to_help : forall h e src n c,
  ev_source e = Some src -> ev_command e = PRIVMSG ->
  name_ok n -> tbl_get n (h_cmds h) = Some c ->
  last_param e = h_prefix h ++ usage_c ++ n ->
  execute h e = ReplyHelp (if c_has_help c then HelpText c else HelpNoDoc)
                          (fst (reply_route e src)) (snd (reply_route e src)).
Proof. exact usage_then_help. Qed.
Print Assumptions C18_usage_points_to_help.

(* where replies go (Commands.ReplyTo): to the channel with "nick, " in front, else to the
   sender *)
Theorem C18_reply_to_channel : forall e src p0 ps,
  ev_params e = p0 :: ps -> Names.is_valid_channel p0 = true ->
  reply_route e src = (p0, src ++ [44; 32]).
Proof. exact reply_route_channel. Qed.
Print Assumptions C18_reply_to_channel.

Theorem C18_reply_to_sender : forall e src,
  (forall p0 ps, ev_params e = p0 :: ps -> Names.is_valid_channel p0 = false) ->
  reply_route e src = (src, []).
Proof. exact reply_route_private. Qed.
Print Assumptions C18_reply_to_sender.

(* what is written for the usage reply when prefix, sender and target are plain ASCII without
   CR/LF: one PRIVMSG line, the text behind a colon (wire2 = Event.Bytes on this shape) *)
Theorem C18_usage_reply_wire : forall prefix n target lead,
  clean prefix -> clean target -> clean lead -> name_ok n ->
  wire2 PRIVMSG target (lead ++ usage_text prefix n) =
  PRIVMSG ++ [32] ++ target ++ [32; 58] ++ lead ++ usage_text prefix n.
Proof. exact usage_reply_wire. Qed.
Print Assumptions C18_usage_reply_wire.

(* ---- Add ---- *)

(* registering an invalid or duplicate name/alias is rejected, the table is what it was;
   and an error is returned for no other reason *)
Theorem C18_add_rejects : forall t cmd,
  (bad_registration t cmd -> exists err, add t cmd = (t, Some err)) /\
  (forall t' err, add t cmd = (t', Some err) -> t' = t /\ bad_registration t cmd).
Proof. exact add_rejects_full. Qed.
Print Assumptions C18_add_rejects.

(* so nothing that can be invoked changes *)
Theorem C18_add_rejected_changes_nothing : forall t cmd prefix e,
  bad_registration t cmd ->
  execute (mk_handler prefix (fst (add t cmd))) e = execute (mk_handler prefix t) e.
Proof. exact rejected_changes_nothing. Qed.
Print Assumptions C18_add_rejected_changes_nothing.

(* an acceptable registration succeeds: every claimed key addresses the stored command
   (lower-cased name and aliases, negative MinArgs raised to 0), every other key what it did *)
Theorem C18_add_accepts : forall t cmd name als,
  reg_keys cmd = Some (name :: als) -> ~ bad_registration t cmd ->
  snd (add t cmd) = None /\
  forall k, tbl_get k (fst (add t cmd)) =
            if existsb (fun k' => streqb k' k) (name :: als) then Some (stored cmd name als)
            else tbl_get k t.
Proof. exact add_accepts_lookup. Qed.
Print Assumptions C18_add_accepts.

(* no registration ever changes which command an existing key addresses *)
Theorem C18_add_preserves : forall t cmd k c,
  tbl_get k t = Some c -> tbl_get k (fst (add t cmd)) = Some c.
Proof. exact add_preserves. Qed.
Print Assumptions C18_add_preserves.

(* in every table Add can build, a key is a valid name and is the name or an alias of the
   command it addresses, which is addressed by its name and all its aliases *)
Theorem C18_table_wellformed : forall t, reachable t ->
  forall k c, tbl_get k t = Some c ->
    name_ok k /\ (k = c_name c \/ In k (c_aliases c)) /\ (0 <= c_minargs c)%Z /\
    name_ok (c_name c) /\ Forall name_ok (c_aliases c) /\
    tbl_get (c_name c) t = Some c /\ (forall a, In a (c_aliases c) -> tbl_get a t = Some c).
Proof. exact reachable_wf. Qed.
Print Assumptions C18_table_wellformed.

(* registration and invocation together *)
Theorem C18_registered_then_invoked : forall t cmd name als prefix e src k raw args,
  reg_keys cmd = Some (name :: als) -> ~ bad_registration t cmd ->
  In k (name :: als) -> k <> help_name ->
  ev_source e = Some src -> ev_command e = PRIVMSG ->
  addresses prefix (last_param e) k raw -> args_split raw args ->
  (c_minargs (stored cmd name als) <= Z.of_nat (length args))%Z ->
  execute (mk_handler prefix (fst (add t cmd))) e = Invoke (stored cmd name als) args raw.
Proof. exact registered_then_invoked. Qed.
Print Assumptions C18_registered_then_invoked.

(* "invalid" spelled out: strings.ToLower's result (as far as it is ASCII) is a valid name *)
Theorem C18_lower_valid : forall s l,
  lower_valid s = Some l <-> lower_ascii_img s = Some l /\ name_ok l.
Proof. exact lower_valid_spec. Qed.
Print Assumptions C18_lower_valid.

(* on pure ASCII input that is plain ASCII lower-casing *)
Theorem C18_lower_ascii : forall s,
  is_ascii s = true -> lower_ascii_img s = Some (to_lower_ascii s).
Proof. exact lower_ascii_img_ascii. Qed.
Print Assumptions C18_lower_ascii.
