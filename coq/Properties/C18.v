(* C18 — The command handler runs exactly the addressed command with the right arguments.
   Only statements here; definitions in Model/CmdHandler.v (the code) and Spec/CmdSpec.v
   (the statement), proofs in Proofs/CmdProofs.v. *)
Require Import Bytes Ctcp CmdHandler CmdSpec CmdProofs.

(* A PRIVMSG with a source whose text is  prefix ++ n ++ (nothing | SPACE ++ raw), n a
   registered name or alias other than the built-in "help", raw newline free: with at least
   MinArgs arguments the outcome is the one invocation of that command with the arguments
   split on single spaces and the raw remainder; with fewer it is the usage reply and no
   invocation.  For EVERY prefix byte string (no hypothesis on it: regex metacharacters,
   the empty prefix, ...).  "Exactly once": an outcome is a single value; Invoke stands for
   the one `go cmd.Fn(client, in)` of Execute (the Go-side oracle counts the calls). *)
Theorem C18_invoke : forall h e src n raw c args,
  ev_source e = Some src -> ev_command e = PRIVMSG ->
  addresses (h_prefix h) (last_param e) n raw -> n <> help_name ->
  tbl_get n (h_cmds h) = Some c -> args_split raw args ->
  ((c_minargs c <= Z.of_nat (length args))%Z -> execute h e = Invoke c args raw) /\
  ((Z.of_nat (length args) < c_minargs c)%Z ->
     execute h e = Reply (fst (reply_route e src))
                         (snd (reply_route e src) ++ usage_text (h_prefix h) n) /\
     forall c' a' r', execute h e <> Invoke c' a' r').
Proof. exact invoke_addressed. Qed.
Print Assumptions C18_invoke.

(* The converse: whenever a function runs, all of the above held. *)
Theorem C18_nothing_else : forall h e c args raw,
  execute h e = Invoke c args raw ->
  exists src n, ev_source e = Some src /\ ev_command e = PRIVMSG /\
    name_ok n /\ n <> help_name /\ ~ In 10 raw /\
    tbl_get n (h_cmds h) = Some c /\ args_split raw args /\
    (c_minargs c <= Z.of_nat (length args))%Z /\
    (has_fffd (h_prefix h) = false -> addresses (h_prefix h) (last_param e) n raw) /\
    (exists p', (length p' <= length (h_prefix h))%nat /\
                ((last_param e = p' ++ n /\ raw = []) \/ last_param e = p' ++ n ++ 32 :: raw)).
Proof. exact invoke_only_addressed. Qed.
Print Assumptions C18_nothing_else.

Theorem C18_addressed_unique : forall prefix text n raw n' raw',
  addresses prefix text n raw -> addresses prefix text n' raw' -> n = n' /\ raw = raw'.
Proof. exact addresses_unique. Qed.
Print Assumptions C18_addressed_unique.

Theorem C18_args_unique : forall raw a b, args_split raw a -> args_split raw b -> a = b.
Proof. exact args_split_unique. Qed.
Print Assumptions C18_args_unique.
