(* C19 — Glob implements exact '*' wildcard matching.
   Only statements here; proofs live in Proofs/GlobProofs.v.  `glob` (Model/Glob.v) mirrors
   format.go Glob with checked slicing (result `Ok b` / `Panic`); the spec readings
   `matches`/`pieces`, `wild`, `decomposes`/`literals` are in Spec/GlobSpec.v.  All
   statements quantify over ALL byte strings (lists of N), including the empty pattern, the
   pattern "*", patterns without '*', consecutive stars and repeated substrings. *)
Require Import Bytes Glob GlobSpec GlobProofs.

(* the property: true exactly on the wildcard relation over the pattern's pieces *)
Theorem C19_exact : forall i p, glob i p = Ok true <-> matches i (pieces p).
Proof. exact glob_exact. Qed.
Print Assumptions C19_exact.

(* ... and false (not a panic) exactly off it *)
Theorem C19_exact_false : forall i p, glob i p = Ok false <-> ~ matches i (pieces p).
Proof. exact glob_false_iff. Qed.
Print Assumptions C19_exact_false.

Theorem C19_never_panics : forall i p, exists b, glob i p = Ok b.
Proof. exact glob_total. Qed.
Print Assumptions C19_never_panics.

(* the same relation without any notion of piece: byte-level wildcard matching *)
Theorem C19_exact_bytewise : forall i p, glob i p = Ok true <-> wild i p.
Proof. exact glob_exact_wild. Qed.
Print Assumptions C19_exact_bytewise.

(* the statement's own words: input = l0 ++ g1 ++ l1 ++ ... ++ gn ++ ln for the literal
   pieces l0..ln of the pattern and some gaps g1..gn (disjoint, in order) *)
Theorem C19_decomposition : forall i p, glob i p = Ok true <-> decomposes i p.
Proof. exact glob_exact_decomposes. Qed.
Print Assumptions C19_decomposition.

(* first / last piece clauses (the first literal is empty iff the pattern starts with '*',
   the last is empty iff it ends with '*', so these cover both halves of each clause) *)
Theorem C19_first_piece_is_prefix : forall i p,
  glob i p = Ok true -> exists r, i = hd [] (literals p) ++ r.
Proof. exact glob_first_piece. Qed.
Print Assumptions C19_first_piece_is_prefix.

Theorem C19_last_piece_is_suffix : forall i p,
  glob i p = Ok true -> exists r, i = r ++ last (literals p) [].
Proof. exact glob_last_piece. Qed.
Print Assumptions C19_last_piece_is_suffix.

(* the code's special cases are instances *)
Theorem C19_literal_pattern : forall i p, ~ In star p -> (glob i p = Ok true <-> i = p).
Proof. exact glob_literal_pattern. Qed.
Print Assumptions C19_literal_pattern.

Theorem C19_only_stars : forall i p, p <> [] -> Forall (fun c => c = star) p -> glob i p = Ok true.
Proof. exact glob_all_stars. Qed.
Print Assumptions C19_only_stars.
