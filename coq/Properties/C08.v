(* C08 — Capability negotiation is safe, complete and always concludes; HasCapability
   reports exactly the capabilities acknowledged and not since deleted; message tags go on
   the wire only while message-tags is enabled.
   Only statements here; definitions in Model/Cap.v (the Go code) and Spec/CapSpec.v (the
   property's vocabulary); proofs in Proofs/CapProofs.v. *)
Require Import Bytes CapLib StsState Cap CapSpec CapProofs.

(* ---- safety of CAP REQ ---------------------------------------------------------
   For every configuration, every history h of server CAP lines processed on this connection
   (from the reset state) and every further line i: every name in a CAP REQ written in
   reaction to i was advertised by an LS/NEW line of h ++ [i] and is supported (built-in
   list, Config.SupportedCaps, sasl with SASL configured, sts with STS enabled on a
   plaintext configuration).  The names are read off the wire text (split on SPACE).  The
   order in which Go iterates tmpCap is arbitrary: any `in_ord i` that neither invents nor
   drops keys. *)
Theorem C08_req_safe : forall cfg s0 h i toks name,
  ord_sound (in_ord i) -> ord_complete (in_ord i) ->
  In (Write s_CAP [s_REQ; toks]) (snd (cap_step cfg (cap_after cfg (cap_init s0) h) i)) ->
  In name (split_byte 32 toks) ->
  advertised_in (h ++ [i]) name /\ supported_spec cfg name.
Proof. exact C08_req_safe_proof. Qed.
Print Assumptions C08_req_safe.

(* sasl => SASL configured, sts => not DisableSTS and not SSL — unless the application
   itself listed the name in Config.SupportedCaps *)
Theorem C08_req_sasl_sts : forall cfg,
  (supported_spec cfg s_sasl -> c_sasl cfg <> None \/ In s_sasl (akeys (c_supported cfg))) /\
  (supported_spec cfg s_sts ->
     (c_disable_sts cfg = false /\ c_ssl cfg = false) \/ In s_sts (akeys (c_supported cfg))).
Proof. exact C08_req_sasl_sts_proof. Qed.
Print Assumptions C08_req_sasl_sts.

(* supported_spec is exactly what possibleCapList yields when no STS failure is recent;
   a recent failure only removes sts *)
Theorem C08_supported_exact : forall cfg k,
  (forall r, amem k (possible_caps cfg r) = true -> supported_spec cfg k) /\
  (supported_spec cfg k -> amem k (possible_caps cfg false) = true).
Proof. exact C08_supported_exact_proof. Qed.
Print Assumptions C08_supported_exact.

(* completeness of a request (any state): the final line of a listing requests every
   capability it advertises that the client can support at that moment *)
Theorem C08_req_complete : forall cfg st i name,
  ord_complete (in_ord i) ->
  is_final_ls (in_params i) = true ->
  advertised_by (in_params i) name ->
  amem name (possible_caps cfg (recently_failed (in_now i) (st_sts st))) = true ->
  exists names, snd (cap_step cfg st i) = [out_REQ names] /\ In name names.
Proof. exact C08_req_complete_proof. Qed.
Print Assumptions C08_req_complete.

(* Every reply pattern is answered by exactly one conclusion, for EVERY state (reachable or
   not), configuration, clock value and CAP REQ token order.  Hypotheses on parameter counts
   are the pattern predicates of Spec/CapSpec.v: NAK/DEL >= 2 params, final LS/NEW exactly 3,
   continuation lines >= 4, ACK exactly 3.  A line matching none of them (e.g. a bare
   "CAP * LS" without a list) is answered by nothing. *)
Theorem C08_concludes : forall ord cfg tls now st ps,
  let r := handle_cap ord cfg tls now st ps in
  (is_nak ps = true -> snd r = [out_END]) /\
  (is_final_ls ps = true ->
     (snd r = [out_END] /\ st_tmp (fst r) = []) \/
     (st_tmp (fst r) <> [] /\ snd r = [out_REQ (ord (akeys (st_tmp (fst r))))])) /\
  (is_ack ps = true ->
     snd r = [out_END] \/
     (exists mech, c_sasl cfg = Some mech /\ amem s_sasl (st_enabled (fst r)) = true /\
                   snd r = [out_AUTH mech]) \/
     (snd r = [Upgrade] /\ tls = false /\ c_disable_sts cfg = false /\
      amem s_sts (st_enabled (fst r)) = true) \/
     (exists v, snd r = [InjectError v] /\ c_disable_sts cfg = false /\
                aget s_sts (st_enabled (fst r)) = Some v)) /\
  (is_cont_ls ps = true -> snd r = []) /\
  (is_del ps = true -> snd r = []) /\
  (expects_conclusion ps = false -> snd r = []).
Proof. exact C08_concludes_proof. Qed.
Print Assumptions C08_concludes.

(* Over whole histories: everything the handler emits is a conclusion, and their number is
   the number of replies that expect one — no reply pattern leaves a round open, none is
   answered twice. *)
Theorem C08_rounds_concluded : forall cfg st h,
  Forall (fun outs => forallb is_conclusion outs = true) (cap_outs cfg st h) /\
  length (concat (cap_outs cfg st h)) =
  length (filter (fun i => expects_conclusion (in_params i)) h).
Proof. exact C08_rounds_concluded_proof. Qed.
Print Assumptions C08_rounds_concluded.

Theorem C08_tags_gated : forall en tags,
  tag_section_present (send_loop_tags en tags) = true <->
  has_tags tags /\ amem s_message_tags en = true.
Proof. exact C08_tags_gated_proof. Qed.
Print Assumptions C08_tags_gated.

Theorem C08_ls_first : forall cfg,
  (c_tracking cfg = true ->
     exists pre post,
       registration_writes cfg = pre ++ (s_CAP, [s_LS; s_302]) :: post /\
       (forall w, In w pre -> fst w = s_WEBIRC \/ fst w = s_PASS) /\
       post = [(s_NICK, [c_nick cfg]);
               (s_USER, [c_user cfg; s_star; s_star;
                         match c_name cfg with [] => c_user cfg | nm => nm end])]) /\
  (c_tracking cfg = false -> forall w, In w (registration_writes cfg) -> fst w <> s_CAP).
Proof. exact C08_ls_first_proof. Qed.
Print Assumptions C08_ls_first.

(* ---- HasCapability ---------------------------------------------------------------
   enabledCap after a history holds exactly the names added by an ACK token and not removed
   since (history_ops flattens the history to one operation per ACK / DEL token). *)
Theorem C08_enabled_exact : forall cfg s0 h k,
  amem k (st_enabled (cap_after cfg (cap_init s0) h)) = true <-> enabled_by (history_ops h) k.
Proof. exact C08_enabled_exact_proof. Qed.
Print Assumptions C08_enabled_exact.

(* HasCapability(n) is true iff the client is connected and, for some ASCII case variant k
   of n, some line acknowledged k (Spec acked_by) and no later line removed it (Spec
   removed_by: a DEL naming k byte for byte — the part of a token before '=' — or, once
   removals are understood, an ACK listing "-k").  Proven for either value of
   ack_removal_aware. *)
Theorem C08_has_capability : forall cfg s0 h connected n,
  has_capability connected (st_enabled (cap_after cfg (cap_init s0) h)) n = true <->
  connected = true /\
  exists k, to_lower_ascii k = to_lower_ascii n /\
  exists h1 i h2, h = h1 ++ i :: h2 /\ acked_by (in_params i) k /\
                  forall j, In j h2 -> ~ removed_by (in_params j) k.
Proof. exact C08_has_capability_proof. Qed.
Print Assumptions C08_has_capability.

(* The statement in plain terms, for servers that never acknowledge a removal (no ACK token
   starts with '-'; girc itself never requests one): true iff connected and some ACK listed a
   case variant k that no later DEL listed. *)
Theorem C08_has_capability_plain : forall cfg s0 h connected n,
  no_removal_acks h ->
  (has_capability connected (st_enabled (cap_after cfg (cap_init s0) h)) n = true <->
   connected = true /\
   exists k, to_lower_ascii k = to_lower_ascii n /\
   exists h1 i h2, h = h1 ++ i :: h2 /\
     (is_ack (in_params i) = true /\ In k (cap_tokens (in_params i))) /\
     forall j, In j h2 ->
       ~ (is_del (in_params j) = true /\ In k (List.map cap_token_name (cap_tokens (in_params j))))).
Proof. exact C08_has_capability_plain_proof. Qed.
Print Assumptions C08_has_capability_plain.

(* the same through the operation ledger (the form that survives a change of what an ACK
   token means, see Spec/CapSpec.v ack_ops) *)
Theorem C08_has_capability_ops : forall cfg s0 h connected n,
  has_capability connected (st_enabled (cap_after cfg (cap_init s0) h)) n = true <->
  connected = true /\
  exists k, to_lower_ascii k = to_lower_ascii n /\ enabled_by (history_ops h) k.
Proof. exact C08_has_capability_ops_proof. Qed.
Print Assumptions C08_has_capability_ops.

(* tag gating along a history: a tag section reaches the socket iff the event has tags and
   "message-tags" (this exact spelling) is acknowledged and not since deleted *)
Theorem C08_tags_gated_history : forall cfg s0 h tags,
  tag_section_present (send_loop_tags (st_enabled (cap_after cfg (cap_init s0) h)) tags) = true <->
  has_tags tags /\ enabled_by (history_ops h) s_message_tags.
Proof. exact C08_tags_gated_history_proof. Qed.
Print Assumptions C08_tags_gated_history.

(* The known finding (KNOWN_FINDINGS.txt class ack-removal-ignored), stated so that it is
   true of the current code and of the repaired code: after CAP ACK :-message-tags the model
   of the CURRENT handleCAP (ack_removal_aware = false) still reports message-tags, reports
   "-message-tags" as a capability and still writes tags; the repaired one does none of it. *)
Theorem C08_ack_removal_finding :
  let en := st_enabled (cap_after ex_cfg (cap_init sts_init) ex_removal_h) in
  has_capability true en (bs "message-tags") = negb ack_removal_aware /\
  has_capability true en (bs "-message-tags") = negb ack_removal_aware /\
  has_capability true en (bs "away-notify") = true /\
  tag_section_present (send_loop_tags en (Some [(bs "k", bs "v")])) = negb ack_removal_aware.
Proof. exact C08_ack_removal_finding_proof. Qed.
Print Assumptions C08_ack_removal_finding.

(* ---- rounds ----------------------------------------------------------------------
   C08_req_safe speaks about the connection ("advertised earlier on this connection").  The
   two theorems below speak about the ROUND a REQ belongs to. *)

(* Every ACK that the client answers by CAP END or by AUTHENTICATE (i.e. every ACK that does
   not end the connection) leaves tmpCap empty — on the SASL path too.  Any state. *)
Theorem C08_ack_clears_tmp : forall ord cfg tls now st ps,
  is_ack ps = true ->
  let r := handle_cap ord cfg tls now st ps in
  (snd r = [out_END] \/ exists mech, snd r = [out_AUTH mech]) ->
  st_tmp (fst r) = [].
Proof. exact C08_ack_clears_tmp_proof. Qed.
Print Assumptions C08_ack_clears_tmp.

(* On a connection that is still alive, every name on the wire of a CAP REQ is on offer
   (Spec offered): listed by an LS/NEW line since the last line that concluded a round and
   not withdrawn since.  What concludes a round / withdraws a name depends on
   tmp_prune_aware: for the CURRENT code (false) only an ACK concludes a round — names
   listed before a NAK, or deleted while pending, are still requested (finding
   tmpcap-not-pruned, C08_tmpcap_prune_finding below); with the proposed fix (true) a NAK
   concludes the round too and a DEL withdraws the name.  Proven for both values. *)
Theorem C08_req_on_offer : forall cfg s0 h i toks name,
  ord_sound (in_ord i) -> ord_complete (in_ord i) ->
  alive cfg (cap_init s0) h ->
  In (Write s_CAP [s_REQ; toks]) (snd (cap_step cfg (cap_after cfg (cap_init s0) h) i)) ->
  In name (split_byte 32 toks) ->
  In name (offered (h ++ [i])).
Proof. exact C08_req_on_offer_proof. Qed.
Print Assumptions C08_req_on_offer.

Theorem C08_offered_advertised : forall h k, In k (offered h) -> advertised_in h k.
Proof. exact C08_offered_advertised_proof. Qed.
Print Assumptions C08_offered_advertised.

(* The finding tmpcap-not-pruned, true of the current and of the repaired code:
   LS :sasl message-tags / NAK / NEW :batch            => REQ contains batch, and sasl,
                                                          message-tags iff tmpCap is not pruned;
   LS * :multi-prefix batch / DEL :multi-prefix / LS :away-notify
                                                       => REQ contains away-notify, batch, and
                                                          multi-prefix iff tmpCap is not pruned. *)
Theorem C08_tmpcap_prune_finding :
  let r1 := req_names (snd (cap_step ex_cfg (cap_after ex_cfg (cap_init sts_init) ex_nak_h)
                                     (ex_in [bs "me"; s_NEW; bs "batch"]))) in
  let r2 := req_names (snd (cap_step ex_cfg (cap_after ex_cfg (cap_init sts_init) ex_del_h)
                                     (ex_in [bs "*"; s_LS; bs "away-notify"]))) in
  existsb (streqb (bs "batch")) r1 = true /\
  existsb (streqb (bs "sasl")) r1 = negb tmp_prune_aware /\
  existsb (streqb (bs "message-tags")) r1 = negb tmp_prune_aware /\
  existsb (streqb (bs "away-notify")) r2 = true /\
  existsb (streqb (bs "batch")) r2 = true /\
  existsb (streqb (bs "multi-prefix")) r2 = negb tmp_prune_aware.
Proof. exact C08_tmpcap_prune_finding_proof. Qed.
Print Assumptions C08_tmpcap_prune_finding.
