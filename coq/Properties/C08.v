(* C08 — Capability negotiation is safe, complete and always concludes; HasCapability
   reports exactly the capabilities acknowledged and not since deleted; message tags go on
   the wire only while message-tags is enabled.
   Only statements here; definitions in Model/Cap.v (the Go code) and Spec/CapSpec.v (the
   property's vocabulary); proofs in Proofs/CapProofs.v. *)
Require Import Bytes CapLib StsState Cap CapSpec CapProofs.

(* Every reply pattern is answered by exactly one conclusion, for EVERY state (reachable or
   not), configuration, clock value and CAP REQ token order.  Hypotheses on parameter counts
   are the pattern predicates of Spec/CapSpec.v: NAK/DEL >= 2 params, final LS/NEW exactly 3,
   continuation lines >= 4, ACK exactly 3.  A line matching none of them (e.g. a bare
   "CAP * LS" without a list) is answered by nothing. *)
Theorem C08_concludes : forall ord cfg tls now st ps,
  let r := handle_cap ord cfg tls now st ps in
  (is_nak ps = true -> snd r = [out_END]) /\
  (is_final_ls ps = true ->
     (snd r = [out_END] /\ st_tmp (fst r) = []) \/
     (st_tmp (fst r) <> [] /\ snd r = [out_REQ (ord (akeys (st_tmp (fst r))))])) /\
  (is_ack ps = true ->
     snd r = [out_END] \/
     (exists mech, c_sasl cfg = Some mech /\ amem s_sasl (st_enabled (fst r)) = true /\
                   snd r = [out_AUTH mech]) \/
     (snd r = [Upgrade] /\ tls = false /\ c_disable_sts cfg = false /\
      amem s_sts (st_enabled (fst r)) = true) \/
     (exists v, snd r = [InjectError v] /\ c_disable_sts cfg = false /\
                aget s_sts (st_enabled (fst r)) = Some v)) /\
  (is_cont_ls ps = true -> snd r = []) /\
  (is_del ps = true -> snd r = []) /\
  (expects_conclusion ps = false -> snd r = []).
Proof. exact C08_concludes_proof. Qed.
Print Assumptions C08_concludes.

(* Over whole histories: everything the handler emits is a conclusion, and their number is
   the number of replies that expect one — no reply pattern leaves a round open, none is
   answered twice. *)
Theorem C08_rounds_concluded : forall cfg st h,
  Forall (fun outs => forallb is_conclusion outs = true) (cap_outs cfg st h) /\
  length (concat (cap_outs cfg st h)) =
  length (filter (fun i => expects_conclusion (in_params i)) h).
Proof. exact C08_rounds_concluded_proof. Qed.
Print Assumptions C08_rounds_concluded.

Theorem C08_tags_gated : forall en tags,
  tag_section_present (send_loop_tags en tags) = true <->
  has_tags tags /\ amem s_message_tags en = true.
Proof. exact C08_tags_gated_proof. Qed.
Print Assumptions C08_tags_gated.

Theorem C08_ls_first : forall cfg,
  (c_tracking cfg = true ->
     exists pre post,
       registration_writes cfg = pre ++ (s_CAP, [s_LS; s_302]) :: post /\
       (forall w, In w pre -> fst w = s_WEBIRC \/ fst w = s_PASS) /\
       post = [(s_NICK, [c_nick cfg]);
               (s_USER, [c_user cfg; s_star; s_star;
                         match c_name cfg with [] => c_user cfg | nm => nm end])]) /\
  (c_tracking cfg = false -> forall w, In w (registration_writes cfg) -> fst w <> s_CAP).
Proof. exact C08_ls_first_proof. Qed.
Print Assumptions C08_ls_first.
