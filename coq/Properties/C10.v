(* C10 — Strict transport security: a valid policy forces TLS and is never downgraded.
   Statements only; the proofs are in Proofs/StsProofs.v.  The model: Model/Cap.v (handleCAP
   with the sts block), Model/StsState.v (strictTransport), Model/Sts.v (server(), newConn,
   the startConn loop of internalConnect); the vocabulary of the statements: Spec/StsSpec.v.
   The clock is an explicit input everywhere (`now`, the times inside the connection
   scripts); every theorem holds for all clock values. *)
Require Import Bytes CapLib StsState Cap Sts StsSpec StsProofs.

(* ---- upgrade --------------------------------------------------------------- *)
(* One acknowledgement: on a plaintext connection, STS not disabled, the server acknowledges
   an sts policy with a usable port: handleCAP writes nothing (no CAP END, no AUTHENTICATE),
   its only effect is the upgrade (beginUpgrade, close) with the policy port recorded. *)
Theorem C10_upgrade_ack : forall ord cfg now st a toks v p,
  c_disable_sts cfg = false ->
  aget s_sts (ack_enabled st toks) = Some v ->
  usable_port v p ->
  handle_cap ord cfg false now st (ack_params a toks) =
  (mkSt (st_tmp st) (ack_enabled st toks) (set_begin_upgrade true (set_upgrade_port p (st_sts st))), [Upgrade]).
Proof. exact ack_upgrade_event. Qed.
Print Assumptions C10_upgrade_ack.

(* the value that comes with the acknowledgement is the advertised one *)
Theorem C10_ack_carries_advertised_policy : forall st toks,
  acks_sts toks -> aget s_sts (ack_enabled st toks) = Some (advertised_policy st).
Proof. exact acks_sts_value. Qed.
Print Assumptions C10_ack_carries_advertised_policy.

(* beginUpgrade is a transient flag: a Connect call that starts with it cleared (a new client;
   every call after one that returned) returns with it cleared.  The theorems about calls
   below assume it cleared at the start; this lemma discharges that for every later call. *)
Theorem C10_begin_upgrade_cleared : forall ord cfg port conns s,
  begin_upgrade s = false -> begin_upgrade (snd (start_conn ord cfg port s conns)) = false.
Proof. exact start_conn_begin. Qed.
Print Assumptions C10_begin_upgrade_cleared.

(* One Connect call.  No hypothesis restricts cs_end c: whether the teardown of the plaintext
   connection reports nil (the client's own Close()) or an I/O error (the server hangs up at
   the moment of the acknowledgement), the call redials (52091d0).
   The connection on which the upgrade happens logs no write in or after
   the acknowledgement (its last event's output is exactly the upgrade, nothing follows on
   that connection), and the SAME call goes on with the remaining scripts under the new
   policy: the next dial goes to the policy port with TLS. *)
Theorem C10_upgrade : forall ord cfg port s c rest st outs,
  c_ssl cfg = false -> sts_enabled s = false -> cs_dial_ok c = true -> c_tracking cfg = true ->
  run_events ord cfg false (cap_init s) (cs_events c) = (st, outs, StopUpgrade) ->
  exists pre p,
    outs = pre ++ [[Upgrade]] /\ Forall only_writes pre /\ (21 <= p)%Z /\
    c_disable_sts cfg = false /\
    let s1 := set_begin_upgrade false (set_upgrade_port p s) in
    start_conn ord cfg port s (c :: rest) =
    (mkLog port false true outs :: fst (fst (start_conn ord cfg port s1 rest)),
     snd (fst (start_conn ord cfg port s1 rest)), snd (start_conn ord cfg port s1 rest)) /\
    sts_enabled s1 = true /\ upgrade_port s1 = p /\
    (forall c2 rest2, rest = c2 :: rest2 ->
       exists l ret s', start_conn ord cfg port s1 rest = ([l], ret, s') /\ dialled l p true /\
                        l_connected l = cs_dial_ok c2).
Proof. exact upgrade_connect. Qed.
Print Assumptions C10_upgrade.

(* the teardown outcome of the connection that is given up is irrelevant to the whole call *)
Theorem C10_upgrade_teardown_irrelevant : forall ord cfg port s c rest st outs e1 e2,
  c_ssl cfg = false -> sts_enabled s = false -> cs_dial_ok c = true -> c_tracking cfg = true ->
  run_events ord cfg false (cap_init s) (cs_events c) = (st, outs, StopUpgrade) ->
  start_conn ord cfg port s (with_end e1 c :: rest) = start_conn ord cfg port s (with_end e2 c :: rest).
Proof. exact upgrade_teardown_irrelevant. Qed.
Print Assumptions C10_upgrade_teardown_irrelevant.

(* ---- persistence ----------------------------------------------------------- *)
(* While a policy is held, a Connect call dials exactly once: the policy port, with TLS. *)
Theorem C10_persist : forall ord cfg port s c rest,
  begin_upgrade s = false -> sts_enabled s = true ->
  exists l ret s', start_conn ord cfg port s (c :: rest) = ([l], ret, s') /\
                   dialled l (upgrade_port s) true.
Proof. exact persist_call. Qed.
Print Assumptions C10_persist.

(* … and the policy (same port) is still held after the call unless the dial failed with
   the policy expired and fallback allowed, or the server sent an invalid policy. *)
Theorem C10_persist_retained : forall ord cfg port s c rest,
  begin_upgrade s = false -> sts_enabled s = true ->
  let r := start_conn ord cfg port s (c :: rest) in
  (sts_enabled (snd r) = true /\ upgrade_port (snd r) = upgrade_port s) \/
  (snd (fst r) = RSTSUpgradeFailed /\ cs_dial_ok c = false /\
   sts_expired (cs_dial_now c) s = true /\ c_disable_fallback cfg = false) \/
  (snd (fst r) = RErrEvent /\ policy_dropped (snd r)).
Proof. exact persist_retained. Qed.
Print Assumptions C10_persist_retained.

(* ---- no downgrade ---------------------------------------------------------- *)
(* A failed dial under a policy: ErrSTSUpgradeFailed, that one TLS dial and no other in the
   call; the policy is dropped exactly when it had expired and fallback is allowed. *)
Theorem C10_no_downgrade : forall ord cfg port s c rest,
  sts_enabled s = true -> cs_dial_ok c = false ->
  start_conn ord cfg port s (c :: rest) =
  ([mkLog (upgrade_port s) true false []], RSTSUpgradeFailed,
   if sts_expired (cs_dial_now c) s && negb (c_disable_fallback cfg)
   then sts_reset (set_last_failed (cs_dial_now c) s) else s).
Proof. exact no_downgrade_dial. Qed.
Print Assumptions C10_no_downgrade.

Theorem C10_no_downgrade_dropped_iff : forall ord cfg port s c rest,
  sts_enabled s = true -> cs_dial_ok c = false ->
  (sts_enabled (snd (start_conn ord cfg port s (c :: rest))) = false <->
   sts_expired (cs_dial_now c) s = true /\ c_disable_fallback cfg = false).
Proof. exact no_downgrade_dial_dropped_iff. Qed.
Print Assumptions C10_no_downgrade_dropped_iff.

(* A failed handshake under a policy: an error (not ErrSTSUpgradeFailed: tlsHandshake is
   lazy, the failure surfaces as an I/O error), no other dial, the policy kept as it is. *)
Theorem C10_no_downgrade_handshake : forall ord cfg port s c rest,
  begin_upgrade s = false ->
  sts_enabled s = true -> cs_dial_ok c = true -> cs_hs_ok c = false ->
  start_conn ord cfg port s (c :: rest) = ([mkLog (upgrade_port s) true true []], ROther, s).
Proof. exact no_downgrade_handshake. Qed.
Print Assumptions C10_no_downgrade_handshake.

(* ---- invalid policies ------------------------------------------------------ *)
Theorem C10_invalid_ack : forall ord cfg tls now st a toks v,
  c_disable_sts cfg = false ->
  aget s_sts (ack_enabled st toks) = Some v ->
  (tls = false /\ no_usable_port v) \/ (tls = true /\ no_duration v) ->
  snd (handle_cap ord cfg tls now st (ack_params a toks)) = [InjectError v] /\
  policy_dropped (st_sts (fst (handle_cap ord cfg tls now st (ack_params a toks)))).
Proof. exact ack_invalid_event. Qed.
Print Assumptions C10_invalid_ack.

(* One Connect call: the injected ERROR makes Connect return an error; nothing was written
   in answer to the acknowledgement; the policy is gone and server() is the configured
   address again. *)
Theorem C10_invalid : forall ord cfg port s c rest st outs,
  begin_upgrade s = false ->
  cs_dial_ok c = true -> (c_ssl cfg || sts_enabled s = true -> cs_hs_ok c = true) -> c_tracking cfg = true ->
  run_events ord cfg (c_ssl cfg || sts_enabled s) (cap_init s) (cs_events c) = (st, outs, StopError) ->
  start_conn ord cfg port s (c :: rest) =
    ([mkLog (server_port port s) (c_ssl cfg || sts_enabled s) true outs], RErrEvent, st_sts st) /\
  policy_dropped (st_sts st) /\ server_port port (st_sts st) = port /\
  exists pre v, outs = pre ++ [[InjectError v]] /\ Forall only_writes pre.
Proof. exact invalid_connect. Qed.
Print Assumptions C10_invalid.

(* ---- TLS: the port key is ignored ------------------------------------------ *)
(* On a TLS connection an acknowledged policy with a duration ends the round regularly;
   the policy afterwards is a function of duration and preload only. *)
Theorem C10_tls_ignores_port : forall ord cfg now st a toks v d,
  c_disable_sts cfg = false ->
  aget s_sts (ack_enabled st toks) = Some v ->
  cv_get s_duration v = Some d ->
  handle_cap ord cfg true now st (ack_params a toks) =
  finish_ack cfg (ack_enabled st toks) (with_preload v (set_persistence (atoi_go d) now (st_sts st))).
Proof. exact ack_tls_event. Qed.
Print Assumptions C10_tls_ignores_port.

(* … and nothing a server says on a TLS connection causes another dial or changes the port
   of the policy, short of an invalid policy (which drops it). *)
Theorem C10_tls_single_dial : forall ord cfg port s c rest,
  begin_upgrade s = false ->
  c_ssl cfg || sts_enabled s = true ->
  exists l ret s', start_conn ord cfg port s (c :: rest) = ([l], ret, s') /\
                   dialled l (server_port port s) true /\
                   (ret = RErrEvent -> policy_dropped s') /\
                   (ret <> RErrEvent ->
                    upgrade_port s' = upgrade_port s \/
                    (ret = RSTSUpgradeFailed \/ ret = ROther) /\ cs_dial_ok c = false /\
                    sts_expired (cs_dial_now c) s = true /\ c_disable_fallback cfg = false /\ policy_dropped s').
Proof. exact tls_single_dial. Qed.
Print Assumptions C10_tls_single_dial.

(* ---- disabled --------------------------------------------------------------- *)
Theorem C10_disabled_ack : forall ord cfg tls now st a toks,
  c_disable_sts cfg = true ->
  handle_cap ord cfg tls now st (ack_params a toks) = finish_ack cfg (ack_enabled st toks) (st_sts st).
Proof. exact ack_disabled_event. Qed.
Print Assumptions C10_disabled_ack.

Theorem C10_disabled : forall ord cfg port s c rest,
  begin_upgrade s = false ->
  c_disable_sts cfg = true ->
  exists l ret s', start_conn ord cfg port s (c :: rest) = ([l], ret, s') /\
                   dialled l (server_port port s) (c_ssl cfg || sts_enabled s) /\
                   ret <> RErrEvent /\ Forall only_writes (l_outs l) /\
                   (sts_enabled s = false -> sts_enabled s' = false /\ ret <> RSTSUpgradeFailed).
Proof. exact disabled_connect. Qed.
Print Assumptions C10_disabled.

(* ---- the same with the hypothesis on the acknowledgement itself ------------- *)
(* The connection script is pre ++ ACK :: post: the lines before the acknowledgement did not
   end the connection; the acknowledgement lists sts and the advertised policy has a usable
   port p.  Then the connection's log ends with the upgrade — nothing of `post` is handled,
   nothing is written in or after the acknowledgement — and the same call dials (p, TLS) next. *)
Theorem C10_upgrade_from_ack : forall ord cfg port s c rest pre now a toks post st1 outs1 p,
  c_ssl cfg = false -> sts_enabled s = false -> cs_dial_ok c = true -> c_tracking cfg = true ->
  c_disable_sts cfg = false ->
  cs_events c = pre ++ (now, ack_params a toks) :: post ->
  run_events ord cfg false (cap_init s) pre = (st1, outs1, StopNone) ->
  acks_sts toks -> usable_port (advertised_policy st1) p ->
  let s1 := set_begin_upgrade false (set_upgrade_port p s) in
  start_conn ord cfg port s (c :: rest) =
    (mkLog port false true (outs1 ++ [[Upgrade]]) :: fst (fst (start_conn ord cfg port s1 rest)),
     snd (fst (start_conn ord cfg port s1 rest)), snd (start_conn ord cfg port s1 rest)) /\
  Forall only_writes outs1 /\
  sts_enabled s1 = true /\ upgrade_port s1 = p /\
  (forall c2 rest2, rest = c2 :: rest2 ->
     exists l ret s', start_conn ord cfg port s1 rest = ([l], ret, s') /\ dialled l p true /\
                      l_connected l = cs_dial_ok c2).
Proof. exact upgrade_from_ack. Qed.
Print Assumptions C10_upgrade_from_ack.

Theorem C10_invalid_from_ack : forall ord cfg port s c rest pre now a toks post st1 outs1,
  let tls := c_ssl cfg || sts_enabled s in
  begin_upgrade s = false ->
  cs_dial_ok c = true -> (tls = true -> cs_hs_ok c = true) -> c_tracking cfg = true ->
  c_disable_sts cfg = false ->
  cs_events c = pre ++ (now, ack_params a toks) :: post ->
  run_events ord cfg tls (cap_init s) pre = (st1, outs1, StopNone) ->
  acks_sts toks ->
  (tls = false /\ no_usable_port (advertised_policy st1)) \/ (tls = true /\ no_duration (advertised_policy st1)) ->
  exists s',
    start_conn ord cfg port s (c :: rest) =
      ([mkLog (server_port port s) tls true (outs1 ++ [[InjectError (advertised_policy st1)]])], RErrEvent, s') /\
    Forall only_writes outs1 /\ policy_dropped s' /\ server_port port s' = port.
Proof. exact invalid_from_ack. Qed.
Print Assumptions C10_invalid_from_ack.

(* ---- persistence over any number of later Connect calls --------------------- *)
Theorem C10_persist_calls : forall ord cfg port calls s k sb c res,
  begin_upgrade s = false ->
  nth_error (policies_before ord cfg port s calls) k = Some sb ->
  nth_error calls k = Some c -> c <> [] ->
  nth_error (connects ord cfg port s calls) k = Some res ->
  sts_enabled sb = true ->
  exists l, fst (fst res) = [l] /\ dialled l (upgrade_port sb) true.
Proof. exact persist_calls. Qed.
Print Assumptions C10_persist_calls.

(* ---- DisableSTS / configured SSL: never requested, never acted on ------------ *)
(* Requested: composes with C08 (CAP REQ lists only keys of possibleCapList).  For EVERY
   configuration: sts is offered iff the application listed it in SupportedCaps (the documented
   way to negotiate it oneself), or STS is not disabled, SSL is not configured and we are not
   inside the five-minute window after a fallback.  So "not requested with DisableSTS / SSL"
   holds exactly when SupportedCaps does not list sts. *)
Theorem C10_requested_iff : forall cfg recent,
  amem s_sts (possible_caps cfg recent) =
  amem s_sts (c_supported cfg) ||
  (negb (c_disable_sts cfg) && negb (c_ssl cfg) && negb (recent && negb (c_disable_fallback cfg))).
Proof. exact possible_caps_sts_general. Qed.
Print Assumptions C10_requested_iff.

(* Acted on: C10_disabled_ack and C10_disabled above carry NO hypothesis on SupportedCaps -
   with DisableSTS the policy is never acted on (regular end of round, policy untouched, one
   dial, no ErrEvent), also when the application lists sts and it is therefore requested and
   acknowledged.  With configured SSL the clause needs the hypothesis (C10_ssl): if the
   application lists sts, the code does evaluate the policy on the TLS connection. *)

Theorem C10_ssl : forall ord cfg port s c rest,
  begin_upgrade s = false ->
  c_ssl cfg = true -> aget s_sts (c_supported cfg) = None -> sts_enabled s = false ->
  honest_run ord cfg true (cap_init s) (if c_tracking cfg then cs_events c else []) ->
  exists l ret s', start_conn ord cfg port s (c :: rest) = ([l], ret, s') /\
                   dialled l port true /\ Forall only_writes (l_outs l) /\
                   ret <> RErrEvent /\ ret <> RSTSUpgradeFailed /\ sts_enabled s' = false.
Proof. exact ssl_connect. Qed.
Print Assumptions C10_ssl.

(* ---- renewal ------------------------------------------------------------------ *)
(* Every duration acknowledged on a TLS connection restarts the policy's clock, whatever was
   stored before (same value or not): persistenceReceived = now, persistenceDuration = the
   acknowledged value, port untouched. *)
Theorem C10_tls_renewal : forall ord cfg now st a toks v d,
  c_disable_sts cfg = false ->
  aget s_sts (ack_enabled st toks) = Some v ->
  cv_get s_duration v = Some d ->
  let s' := st_sts (fst (handle_cap ord cfg true now st (ack_params a toks))) in
  persistence_received s' = now /\ persistence_duration s' = atoi_go d /\
  upgrade_port s' = upgrade_port (st_sts st).
Proof. exact tls_renewal. Qed.
Print Assumptions C10_tls_renewal.

(* … and a dial that fails within `duration` whole seconds of the last receipt is a failure
   under an unexpired policy: ErrSTSUpgradeFailed, no other dial, the policy kept as it is. *)
Theorem C10_no_downgrade_unexpired : forall ord cfg port s c rest,
  sts_enabled s = true -> cs_dial_ok c = false ->
  (persistence_received s <= cs_dial_now c)%Z ->
  (cs_dial_now c - persistence_received s < (persistence_duration s + 1) * second_ns)%Z ->
  start_conn ord cfg port s (c :: rest) = ([mkLog (upgrade_port s) true false []], RSTSUpgradeFailed, s).
Proof. exact no_downgrade_unexpired. Qed.
Print Assumptions C10_no_downgrade_unexpired.
