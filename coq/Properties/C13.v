(* C13 — State getters return isolated snapshots.
   Only statements here; proofs live in Proofs/Heap*.v. Model: Model/Heap.v (objects with
   identities, slices = (array, offset, len, cap), the Copy methods and the in-place
   mutators of state.go / modes.go as written, getters = copy under the lock).
   Vocabulary (Spec/HeapSpec.v): creach h K = what a holder of the handles K can reach;
   live_objs h s = what the tracked state reaches; HeapInv = every tracked pointer is
   allocated; Isolated w K = HeapInv + the client's reach is allocated and disjoint from
   the tracked state's; client_step = ANY change of the heap a memory-safe holder of K can
   cause (arbitrary writes to what it reaches, allocation, no forged pointers). *)
Require Import Bytes AMap Names State Heap HeapSpec HeapLemmas HeapCopy HeapClient HeapTheorems HeapExamples HeapWf HeapWfHandlers HeapWfIso.
Local Open Scope nat_scope.

(* ---- the Copy methods ---- *)

Theorem C13_user_copy_fresh : forall h o h' o', user_copy h o = Ok (h', o') ->
  (forall x, x < length h -> hget h' x = hget h x) /\
  (forall x, In x (reach h' o') -> length h <= x < length h').
Proof. exact user_copy_fresh_frame. Qed.
Print Assumptions C13_user_copy_fresh.

Theorem C13_channel_copy_fresh : forall h o h' o', channel_copy h o = Ok (h', o') ->
  (forall x, x < length h -> hget h' x = hget h x) /\
  (forall x, In x (reach h' o') -> length h <= x < length h').
Proof. exact channel_copy_fresh_frame. Qed.
Print Assumptions C13_channel_copy_fresh.

Theorem C13_user_copy_value : forall h o h' o', user_copy h o = Ok (h', o') ->
  user_value h' o' = user_value h o /\ user_value h o <> None.
Proof. exact user_copy_value. Qed.
Print Assumptions C13_user_copy_value.

Theorem C13_channel_copy_value : forall h o h' o', channel_copy h o = Ok (h', o') ->
  chan_value h' o' = chan_value h o /\ chan_value h o <> None.
Proof. exact channel_copy_value. Qed.
Print Assumptions C13_channel_copy_value.

(* ---- C13_disjoint: LookupUser / LookupChannel ----
   In any state satisfying HeapInv: the call writes no existing object, everything
   reachable from the returned object is disjoint from everything the tracked state
   reaches, and the returned object has the deep value of the tracked one. *)
Theorem C13_disjoint_user : forall w nick h' o', HeapInv w -> lookup_user_g w nick = Ok (h', Some o') ->
  (forall x, x < length (w_heap w) -> hget h' x = hget (w_heap w) x) /\
  disjoint (reach h' o') (live_objs h' (w_st w)) /\
  exists uid, lookup_user_h w nick = Some uid /\
              user_value h' o' = user_value (w_heap w) uid /\ user_value (w_heap w) uid <> None.
Proof. exact lookup_user_disjoint. Qed.
Print Assumptions C13_disjoint_user.

Theorem C13_disjoint_channel : forall w name h' o', HeapInv w -> lookup_channel_g w name = Ok (h', Some o') ->
  (forall x, x < length (w_heap w) -> hget h' x = hget (w_heap w) x) /\
  disjoint (reach h' o') (live_objs h' (w_st w)) /\
  exists cid, lookup_channel_h w name = Some cid /\
              chan_value h' o' = chan_value (w_heap w) cid /\ chan_value (w_heap w) cid <> None.
Proof. exact lookup_channel_disjoint. Qed.
Print Assumptions C13_disjoint_channel.

(* ---- Users() / Channels(), element-wise: every element is disjoint from the tracked
   state, lies entirely in memory allocated by the call, has the value of one tracked
   object; every tracked object is represented; as many elements as tracked objects ---- *)
Theorem C13_users_elementwise : forall w h' l, HeapInv w -> users_g w = Ok (h', l) ->
  (forall x, x < length (w_heap w) -> hget h' x = hget (w_heap w) x) /\
  (forall o', In o' l -> disjoint (reach h' o') (live_objs h' (w_st w)) /\
                         exists k o, In (k, o) (hs_users (w_st w)) /\ user_value h' o' = user_value (w_heap w) o) /\
  (forall k o, In (k, o) (hs_users (w_st w)) -> exists o', In o' l /\ user_value h' o' = user_value (w_heap w) o) /\
  (forall o', In o' l -> forall x, In x (reach h' o') -> length (w_heap w) <= x < length h') /\
  length l = length (hs_users (w_st w)).
Proof. exact users_elementwise. Qed.
Print Assumptions C13_users_elementwise.

Theorem C13_channels_elementwise : forall w h' l, HeapInv w -> channels_g w = Ok (h', l) ->
  (forall x, x < length (w_heap w) -> hget h' x = hget (w_heap w) x) /\
  (forall o', In o' l -> disjoint (reach h' o') (live_objs h' (w_st w)) /\
                         exists k o, In (k, o) (hs_channels (w_st w)) /\ chan_value h' o' = chan_value (w_heap w) o) /\
  (forall k o, In (k, o) (hs_channels (w_st w)) -> exists o', In o' l /\ chan_value h' o' = chan_value (w_heap w) o) /\
  (forall o', In o' l -> forall x, In x (reach h' o') -> length (w_heap w) <= x < length h') /\
  length l = length (hs_channels (w_st w)).
Proof. exact channels_elementwise. Qed.
Print Assumptions C13_channels_elementwise.

(* the RESULT SLICE of Users() / Channels() ([]*User / []*Channel): a new object L -- it did
   not exist before the call, so nothing reachable before the call reaches it and no two
   calls return the same array --, holding exactly the copies; isolation is kept with the
   slice and its elements added to what the client holds (so slot writes -- nil, swap -- are
   client steps like any other: C13_client_op_is_client_step covers OpSlotNil / OpSlotSwap) *)
Theorem C13_users_listing_fresh : forall w K h' L l, Isolated w K -> users_listing_g w = Ok (h', L, l) ->
  exists hF, users_g w = Ok (hF, l) /\ h' = hF ++ [CPtrs (List.map Some l)] /\ L = length hF /\
             length (w_heap w) <= L /\ Isolated (mkWorld h' (w_st w)) ((L :: l) ++ K).
Proof. exact users_listing_fresh. Qed.
Print Assumptions C13_users_listing_fresh.

Theorem C13_channels_listing_fresh : forall w K h' L l, Isolated w K -> channels_listing_g w = Ok (h', L, l) ->
  exists hF, channels_g w = Ok (hF, l) /\ h' = hF ++ [CPtrs (List.map Some l)] /\ L = length hF /\
             length (w_heap w) <= L /\ Isolated (mkWorld h' (w_st w)) ((L :: l) ++ K).
Proof. exact channels_listing_fresh. Qed.
Print Assumptions C13_channels_listing_fresh.

(* every getter call keeps isolation, its results joining what the client holds *)
Theorem C13_getters_keep_isolation : forall w K, Isolated w K ->
  (forall n h' r, lookup_user_g w n = Ok (h', r) -> Isolated (mkWorld h' (w_st w)) (handles_of r ++ K)) /\
  (forall n h' r, lookup_channel_g w n = Ok (h', r) -> Isolated (mkWorld h' (w_st w)) (handles_of r ++ K)) /\
  (forall h' l, users_g w = Ok (h', l) -> Isolated (mkWorld h' (w_st w)) (l ++ K)) /\
  (forall h' l, channels_g w = Ok (h', l) -> Isolated (mkWorld h' (w_st w)) (l ++ K)).
Proof. exact getters_keep_isolation. Qed.
Print Assumptions C13_getters_keep_isolation.

(* ---- C13_snapshot_writes_frame: ANY sequence of steps of a memory-safe client through
   what it holds leaves every tracked value unchanged and every later getter result
   unchanged (and keeps isolation) ---- *)
Theorem C13_snapshot_writes_frame : forall w K h' K', Isolated w K -> client_steps (w_heap w) K h' K' ->
  let w' := mkWorld h' (w_st w) in
  Isolated w' K' /\
  live_users_value w' = live_users_value w /\ live_channels_value w' = live_channels_value w /\
  same_getters w w'.
Proof. exact snapshot_writes_frame. Qed.
Print Assumptions C13_snapshot_writes_frame.

(* the executable client operations of the model (field / element writes, append within
   capacity or growing, sort, in-place delete, truncate, aliasing two snapshots,
   Perms = nil, Modes.Apply) are such steps *)
Theorem C13_client_op_is_client_step : forall g h K op,
  bounded h (creach h K) -> incl (op_handles op) K -> client_step h K (client_op g h op) K.
Proof. exact client_op_is_client_step. Qed.
Print Assumptions C13_client_op_is_client_step.

(* ---- C13_live_writes_frame: any later history of server events (for every append growth
   policy g) leaves every object the client holds, and everything reachable from it,
   unchanged ---- *)
Theorem C13_live_writes_frame : forall g cfg l w K w', Isolated w K -> run_h g cfg w l = Ok w' ->
  Isolated w' K /\
  (forall o, In o K -> user_value (w_heap w') o = user_value (w_heap w) o /\
                       chan_value (w_heap w') o = chan_value (w_heap w) o) /\
  (forall x, In x (creach (w_heap w) K) -> hget (w_heap w') x = hget (w_heap w) x).
Proof. exact live_writes_frame. Qed.
Print Assumptions C13_live_writes_frame.

(* HeapInv is preserved by the live mutators *)
Theorem C13_heap_inv_preserved : forall g cfg l w w', HeapInv w -> run_h g cfg w l = Ok w' -> HeapInv w'.
Proof. exact heap_inv_preserved. Qed.
Print Assumptions C13_heap_inv_preserved.

(* ---- isolation is an invariant of every interleaving of server events, client steps
   and getter calls, from the initial state ---- *)
Theorem C13_isolation_invariant : forall g cfg w K, steps g cfg (world_init, []) (w, K) -> Isolated w K.
Proof. exact reachable_isolated. Qed.
Print Assumptions C13_isolation_invariant.

(* ---- non-vacuity ---- *)
Theorem C13_example_isolated : Isolated ex_world1 [ex_o] /\
  length (hs_users (w_st ex_world1)) = 3 /\ length (hs_channels (w_st ex_world1)) = 1 /\
  option_map vc_users (chan_value (w_heap ex_world1) ex_o) = Some [bs "alice"; bs "bob"; bs "me"].
Proof. exact ex_isolated. Qed.
Print Assumptions C13_example_isolated.

(* ---- documented lemma, not counted against C13 (these methods are documented to return
   references and the property names the four Client getters): the member getters of state.go
   (User.Channels, Channel.Users, Trusted, Admins) are NOT isolated: a reachable state, a snapshot u held by the client, User.Channels(c) on
   it returns an object of the tracked state, and one field write through it changes
   what the client tracks ---- *)
Theorem C13_member_getters_refuted :
  exists w K u l c,
    steps go_grow ex_cfg (world_init, []) (w, K) /\ In u K /\
    user_channels_g w u = Ok l /\ In c l /\
    In c (live_objs (w_heap w) (w_st w)) /\
    live_channels_value (mkWorld (client_op go_grow (w_heap w) (OpSetField c FCTopic (bs "defaced"))) (w_st w))
      <> live_channels_value w.
Proof. exact member_getters_refuted. Qed.
Print Assumptions C13_member_getters_refuted.

(* ... and with one Copy per element (notes/proposed-fixes/member-getter-live-object.diff;
   model functions user_channels_copied_g / channel_users_copied_g) they keep isolation *)
Theorem C13_member_getters_copied_isolated : forall w K, Isolated w K ->
  (forall u h' l, user_channels_copied_g w u = Ok (h', l) -> Isolated (mkWorld h' (w_st w)) (l ++ K)) /\
  (forall c h' l, channel_users_copied_g w c = Ok (h', l) -> Isolated (mkWorld h' (w_st w)) (l ++ K)).
Proof. exact member_getters_copied_isolated. Qed.
Print Assumptions C13_member_getters_copied_isolated.

Theorem C13_filtered_getters_copied_isolated : forall w K test c h' l,
  Isolated w K -> channel_filtered_copied_g test w c = Ok (h', l) -> Isolated (mkWorld h' (w_st w)) (l ++ K).
Proof. exact filtered_getters_copied_isolated. Qed.
Print Assumptions C13_filtered_getters_copied_isolated.

(* ---- the strong heap invariant HeapWf (Spec/HeapSpec.v): every tracked object is well
   typed and in bounds and tracked objects share no memory among themselves (a PART in
   one channel can never shift another channel's array). It holds initially, is kept by
   every history of events, implies HeapInv, and on such states no getter can panic. ---- *)
Theorem C13_heapwf_init : HeapWf world_init.
Proof. exact HeapWf_init. Qed.
Print Assumptions C13_heapwf_init.

Theorem C13_heapwf_preserved : forall g cfg l w w', HeapWf w -> run_h g cfg w l = Ok w' -> HeapWf w'.
Proof. exact run_Wf. Qed.
Print Assumptions C13_heapwf_preserved.

Theorem C13_heapwf_heapinv : forall w, HeapWf w -> HeapInv w.
Proof. exact HeapWf_HeapInv. Qed.
Print Assumptions C13_heapwf_heapinv.

Theorem C13_getters_total : forall w, HeapWf w ->
  (forall n, exists r, lookup_user_g w n = Ok r) /\ (forall n, exists r, lookup_channel_g w n = Ok r) /\
  (exists r, users_g w = Ok r) /\ (exists r, channels_g w = Ok r).
Proof. exact getters_total. Qed.
Print Assumptions C13_getters_total.

(* isolation AND the strong invariant hold in every state reachable by any interleaving of
   server events, client steps and getter calls *)
Theorem C13_isolation_wf_invariant : forall g cfg w K, steps g cfg (world_init, []) (w, K) -> Isolated w K /\ HeapWf w.
Proof. exact reachable_isolated_wf. Qed.
Print Assumptions C13_isolation_wf_invariant.

Theorem C13_example_wf : HeapWf ex_world1 /\ Isolated ex_world1 [ex_o].
Proof. exact ex_wf. Qed.
Print Assumptions C13_example_wf.
