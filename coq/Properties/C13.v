(* C13 — State getters return isolated snapshots.
   Only statements here; proofs live in Proofs/Heap*.v; the model is Model/Heap.v. *)
Require Import Bytes AMap Names State Heap HeapLemmas HeapCopy.
Local Open Scope nat_scope.

(* User.Copy / Channel.Copy never write an existing object, and every object reachable
   from the copy was allocated by the copy (it did not exist before the call). *)
Theorem C13_user_copy_fresh : forall h o h' o', user_copy h o = Ok (h', o') ->
  (forall x, x < length h -> hget h' x = hget h x) /\
  (forall x, In x (reach h' o') -> length h <= x < length h').
Proof. intros h o h' o' H. split; [apply (user_copy_frame _ _ _ _ H)|exact (user_copy_fresh _ _ _ _ H)]. Qed.
Print Assumptions C13_user_copy_fresh.

Theorem C13_channel_copy_fresh : forall h o h' o', channel_copy h o = Ok (h', o') ->
  (forall x, x < length h -> hget h' x = hget h x) /\
  (forall x, In x (reach h' o') -> length h <= x < length h').
Proof. intros h o h' o' H. split; [apply (channel_copy_frame _ _ _ _ H)|exact (channel_copy_fresh _ _ _ _ H)]. Qed.
Print Assumptions C13_channel_copy_fresh.

(* ... and the copy has exactly the deep value of the original. *)
Theorem C13_user_copy_value : forall h o h' o', user_copy h o = Ok (h', o') ->
  user_value h' o' = user_value h o /\ user_value h o <> None.
Proof. exact user_copy_value. Qed.
Print Assumptions C13_user_copy_value.

Theorem C13_channel_copy_value : forall h o h' o', channel_copy h o = Ok (h', o') ->
  chan_value h' o' = chan_value h o /\ chan_value h o <> None.
Proof. exact channel_copy_value. Qed.
Print Assumptions C13_channel_copy_value.
