(* C06 — Handler dispatch is exactly-once, ordered and correctly routed.
   Only statements here; proofs live in Proofs/. *)
From Coq Require Import Permutation.
Require Import Bytes AMap Dispatch DispatchSpec DispatchTableProofs DispatchMachine
  DispatchMachineProofs.

(* ---- the handler table (sequential) ---------------------------------------------- *)

Theorem C06_register_case_insensitive : forall t internal bg c1 c2 u v,
  go_upper c1 = go_upper c2 -> register t internal bg c1 u v = register t internal bg c2 u v.
Proof. exact register_case_insensitive. Qed.
Print Assumptions C06_register_case_insensitive.

(* Every registration history keeps the table in step with the registry of the
   statement (Rel), and Remove returns what the statement says.  Hypotheses: fresh uids
   never repeat, contain no ':' and are not empty (uid_ok); command tokens of
   registrations contain no ':' and are not empty (cmd_ok, inside tops_ok / top_ok). *)
Theorem C06_table_refines : forall (uid_of : N -> str) (decl : N -> hdecl),
  uid_ok uid_of ->
  forall ops, tops_ok uid_of decl [] ops ->
  Rel uid_of decl (run_tops uid_of decl empty_table ops) (sp_run decl [] ops).
Proof. exact table_refines. Qed.
Print Assumptions C06_table_refines.

Theorem C06_table_step : forall (uid_of : N -> str) (decl : N -> hdecl),
  uid_ok uid_of ->
  forall t reg o, Rel uid_of decl t reg -> top_ok uid_of decl reg o ->
  Rel uid_of decl (fst (apply_top uid_of decl t o)) (fst (sp_apply decl reg o)) /\
  snd (apply_top uid_of decl t o) = snd (sp_apply decl reg o).
Proof. exact table_step. Qed.
Print Assumptions C06_table_step.

(* One RunHandlers call on a table in step with the registry runs exactly the handlers
   registered for the event's command (as upper-cased at registration) or for "*", the
   command groups only when the event is not an echo; no handler twice.  Hypothesis:
   the received command is not "*". *)
Theorem C06_dispatch_exact : forall (uid_of : N -> str) (decl : N -> hdecl),
  uid_ok uid_of ->
  forall t reg e, Rel uid_of decl t reg -> ev_cmd e <> star ->
  NoDup (dispatch_ids t e) /\
  (forall h, In h (dispatch_ids t e) <-> In h reg /\ routed decl h e = true) /\
  Permutation (dispatch_ids t e) (sp_targets decl reg e).
Proof. exact table_dispatch. Qed.
Print Assumptions C06_dispatch_exact.

(* ---- every schedule of the interleaving machine ------------------------------------------------- *)

(* Vocabulary: a run is an action list tr with [exec sc (init sc) tr = Some s] (s the state
   it ends in); [wf_sc sc]: handler ids are created once, command tokens have no ':' and
   are not empty, received commands are not "*", the uid oracle never repeats;
   [reg_of sc tr1]: the registry after the operations that took effect in tr1 (the
   linearisation: ALin / ATmpRemove in trace order); [route]: the phase in which a
   handler runs for an event (None: the event is not for it). *)

(* C06_exactly_once.  For every schedule: event n starts handler h at most once; it starts
   it only if the snapshot (ASnap n k) of the phase k that h is routed to found h registered
   — around a concurrent Add/Remove the snapshot point decides; and a snapshot that finds h
   registered and routed does start it: the start is in the trace or the goroutine is one of
   those spawned and still waiting to be scheduled (s_sp + s_sg). *)
Theorem C06_exactly_once : forall sc, wf_sc sc -> forall tr s n h,
  exec sc (init sc) tr = Some s ->
  (cnt (is_start n h) tr <= 1)%nat /\
  (In (AStart n h) tr ->
     exists tr1 k tr2, tr = tr1 ++ ASnap n k :: tr2 /\ In h (reg_of sc tr1) /\
                       route (sc_decl sc) h (ev_at sc n) = Some k) /\
  (forall tr1 k tr2, tr = tr1 ++ ASnap n k :: tr2 -> In h (reg_of sc tr1) ->
     route (sc_decl sc) h (ev_at sc n) = Some k ->
     (cnt (is_start n h) tr + s_sp s n h + s_sg s n h = 1)%nat).
Proof. exact exactly_once. Qed.
Print Assumptions C06_exactly_once.

(* C06_ordered.  Every foreground handler started for event n has returned (or panicked and
   been recovered) before execLoop takes event n+1, and hence before any handler is
   started for a later event. *)
Theorem C06_ordered : forall sc, wf_sc sc -> forall tr1 tr2 s n h,
  exec sc (init sc) (tr1 ++ ADeliver (S n) :: tr2) = Some s ->
  is_bgh sc h = false ->
  In (AStart n h) (tr1 ++ ADeliver (S n) :: tr2) ->
  exists o, In (AEnd n h o) tr1.
Proof. exact ordered. Qed.
Print Assumptions C06_ordered.

Theorem C06_ordered_starts : forall sc, wf_sc sc -> forall tr1 tr2 s n m h h',
  exec sc (init sc) (tr1 ++ AStart m h' :: tr2) = Some s ->
  (n < m)%nat -> is_bgh sc h = false ->
  In (AStart n h) (tr1 ++ AStart m h' :: tr2) ->
  exists o, In (AEnd n h o) tr1.
Proof. exact ordered_starts. Qed.
Print Assumptions C06_ordered_starts.

(* C06_removed_silent.  A handler that was registered and is no longer registered when
   execLoop takes event n — removed by Remove, Clear, ClearAll, by its AddTmp wrapper or by
   its deadline goroutine — is not started for event n; handler ids are not reused. *)
Theorem C06_removed_silent : forall sc, wf_sc sc -> forall tr1 tr2 s n h,
  exec sc (init sc) (tr1 ++ ADeliver n :: tr2) = Some s ->
  In h (added sc tr1) -> ~ In h (reg_of sc tr1) ->
  ~ In (AStart n h) (tr1 ++ ADeliver n :: tr2).
Proof. exact removed_silent. Qed.
Print Assumptions C06_removed_silent.

Theorem C06_remove_true_removed : forall sc, wf_sc sc -> forall tr s i h,
  exec sc (init sc) tr = Some s -> In (ARet i (RRemove h) true) tr ->
  In h (added sc tr) /\ ~ In h (reg_of sc tr).
Proof. exact remove_true_removed. Qed.
Print Assumptions C06_remove_true_removed.

(* AddTmp: once the function has returned true or a deadline goroutine exists, and the
   finish calls these queue have all done their Remove (s_pend = 0), the handler is gone for
   good — whoever removed it — and done has been closed exactly once, or a finish is between
   its Remove and its once.Do(close(done)).  close(done) runs at most once, and only after a
   finish removed the handler. *)
Theorem C06_tmp_removed : forall sc, wf_sc sc -> forall tr s h,
  exec sc (init sc) tr = Some s -> hd_tmp (sc_decl sc h) = true ->
  (0 < cnt (is_end_true h) tr + deadlines sc tr h)%nat -> s_pend s h = 0%nat ->
  In h (added sc tr) /\ ~ In h (reg_of sc tr) /\
  (cnt (is_close h) tr = 1%nat \/ (cnt (is_close h) tr = 0%nat /\ (0 < s_toclose s h)%nat)).
Proof. exact tmp_removed. Qed.
Print Assumptions C06_tmp_removed.

Theorem C06_done_closed_once : forall sc, wf_sc sc -> forall tr s h,
  exec sc (init sc) tr = Some s -> (cnt (is_close h) tr <= 1)%nat.
Proof. exact done_closed_once. Qed.
Print Assumptions C06_done_closed_once.

Theorem C06_close_implies_removed : forall sc, wf_sc sc -> forall tr s h,
  exec sc (init sc) tr = Some s -> In (AClose h) tr ->
  In h (added sc tr) /\ ~ In h (reg_of sc tr).
Proof. exact close_implies_removed. Qed.
Print Assumptions C06_close_implies_removed.

(* C06_panic_isolated.  With a recover function installed, a schedule in which a handler
   panics and the schedule in which it returns instead are indistinguishable to every
   other step: the same later actions are enabled and lead to the same states (so the
   starts of all other handlers and events are unchanged), and the machine never crashes. *)
Theorem C06_panic_isolated : forall sc tr1 tr2 n h,
  sc_recover sc = true ->
  exec sc (init sc) (tr1 ++ AEnd n h OPanic :: tr2) =
  exec sc (init sc) (tr1 ++ AEnd n h (ORet false) :: tr2).
Proof. exact panic_isolated. Qed.
Print Assumptions C06_panic_isolated.

Theorem C06_recover_never_crashes : forall sc tr s,
  sc_recover sc = true -> exec sc (init sc) tr = Some s -> s_crashed s = false.
Proof. exact recover_never_crashes. Qed.
Print Assumptions C06_recover_never_crashes.

(* The dispatcher cannot get stuck: in every reachable state that has not crashed, either
   every event that has arrived is completely dispatched, or one of the dispatcher's own
   steps (take the next event, snapshot, wrapper signals / enters its handler, a running
   foreground handler returns, barrier) is enabled.  Together with C06_panic_isolated: a
   recovered panic does not stop later events from being delivered. *)
Theorem C06_dispatcher_progress : forall sc, wf_sc sc -> forall tr s,
  exec sc (init sc) tr = Some s -> s_crashed s = false ->
  s_disp s = DIdle (s_arrived s) \/
  exists a s', step sc s a = Some s' /\ dispatch_action a = true.
Proof. exact dispatcher_progress. Qed.
Print Assumptions C06_dispatcher_progress.

(* ---- trace acceptance ------------------------------------------------------------------------------ *)

(* soundness of the executable checker: an accepted observation is what an observer sees
   of some run of the machine on a well-formed scenario ... *)
Theorem C06_accepts_sound : forall sc cert obs,
  accepts sc cert obs = true -> uid_ok (sc_uid sc) ->
  wf_sc sc /\ exists s, exec sc (init sc) cert = Some s /\ filter observable cert = obs.
Proof. exact accepts_sound. Qed.
Print Assumptions C06_accepts_sound.

(* ... and therefore enjoys the theorems, stated on what was observed *)
Theorem C06_accepted_exactly_once : forall sc cert obs,
  accepts sc cert obs = true -> uid_ok (sc_uid sc) -> forall n h,
  (cnt (is_start n h) obs <= 1)%nat /\
  (In (AStart n h) obs -> In h (added sc cert) /\ routed (sc_decl sc) h (ev_at sc n) = true).
Proof. exact accepted_exactly_once. Qed.
Print Assumptions C06_accepted_exactly_once.

Theorem C06_accepted_ordered : forall sc cert obs,
  accepts sc cert obs = true -> uid_ok (sc_uid sc) -> forall o1 o2 n m h h',
  obs = o1 ++ AStart m h' :: o2 -> (n < m)%nat -> is_bgh sc h = false ->
  In (AStart n h) obs -> exists o, In (AEnd n h o) o1.
Proof. exact accepted_ordered. Qed.
Print Assumptions C06_accepted_ordered.

Theorem C06_accepted_removed_silent : forall sc cert obs,
  accepts sc cert obs = true -> uid_ok (sc_uid sc) -> forall o1 o2 i n h,
  obs = o1 ++ ARet i (RRemove h) true :: o2 -> In (AArrive n) o2 -> ~ In (AStart n h) obs.
Proof. exact accepted_removed_silent. Qed.
Print Assumptions C06_accepted_removed_silent.

Theorem C06_accepted_closed_silent : forall sc cert obs,
  accepts sc cert obs = true -> uid_ok (sc_uid sc) -> forall o1 o2 n h,
  obs = o1 ++ AClose h :: o2 -> In (AArrive n) o2 -> ~ In (AStart n h) obs.
Proof. exact accepted_closed_silent. Qed.
Print Assumptions C06_accepted_closed_silent.

Theorem C06_accepted_done_once : forall sc cert obs,
  accepts sc cert obs = true -> uid_ok (sc_uid sc) -> forall h,
  (cnt (is_close h) obs <= 1)%nat.
Proof. exact accepted_done_once. Qed.
Print Assumptions C06_accepted_done_once.

(* ---- which received lines are echoes ------------------------------------------------------------ *)

(* The events of a scenario are built by [received cmd src nick_at_read]: a line is an echo
   exactly when it is a PRIVMSG or NOTICE with a source whose RFC1459-folded nick equals the
   folded nick the client has when the line is read; the case of either nick is immaterial. *)
Theorem C06_echo_predicate : forall cmd src nick,
  is_echo cmd src nick = true <->
  (cmd = PRIVMSG_cmd \/ cmd = NOTICE_cmd) /\ src <> [] /\ Names.to_rfc1459 src = Names.to_rfc1459 nick.
Proof. exact is_echo_spec. Qed.
Print Assumptions C06_echo_predicate.

Theorem C06_echo_case_insensitive : forall cmd src nick src' nick',
  Names.to_rfc1459 src = Names.to_rfc1459 src' -> Names.to_rfc1459 nick = Names.to_rfc1459 nick' ->
  is_echo cmd src nick = is_echo cmd src' nick'.
Proof. exact is_echo_case. Qed.
Print Assumptions C06_echo_case_insensitive.
