(* C06 — Handler dispatch is exactly-once, ordered and correctly routed.
   Only statements here; proofs live in Proofs/. *)
Require Import Bytes AMap Dispatch DispatchTableProofs.

Theorem C06_register_case_insensitive : forall t internal bg c1 c2 u v,
  go_upper c1 = go_upper c2 -> register t internal bg c1 u v = register t internal bg c2 u v.
Proof. exact register_case_insensitive. Qed.
Print Assumptions C06_register_case_insensitive.
