(* C06 — Handler dispatch is exactly-once, ordered and correctly routed.
   Only statements here; proofs live in Proofs/. *)
From Coq Require Import Permutation.
Require Import Bytes AMap Dispatch DispatchSpec DispatchTableProofs.

(* ---- the handler table (sequential) ---------------------------------------------- *)

Theorem C06_register_case_insensitive : forall t internal bg c1 c2 u v,
  go_upper c1 = go_upper c2 -> register t internal bg c1 u v = register t internal bg c2 u v.
Proof. exact register_case_insensitive. Qed.
Print Assumptions C06_register_case_insensitive.

(* Every registration history keeps the table in step with the registry of the
   statement (Rel), and Remove returns what the statement says.  Hypotheses: fresh uids
   never repeat, contain no ':' and are not empty (uid_ok); command tokens of
   registrations contain no ':' and are not empty (cmd_ok, inside tops_ok / top_ok). *)
Theorem C06_table_refines : forall (uid_of : N -> str) (decl : N -> hdecl),
  uid_ok uid_of ->
  forall ops, tops_ok uid_of decl [] ops ->
  Rel uid_of decl (run_tops uid_of decl empty_table ops) (sp_run decl [] ops).
Proof. exact table_refines. Qed.
Print Assumptions C06_table_refines.

Theorem C06_table_step : forall (uid_of : N -> str) (decl : N -> hdecl),
  uid_ok uid_of ->
  forall t reg o, Rel uid_of decl t reg -> top_ok uid_of decl reg o ->
  Rel uid_of decl (fst (apply_top uid_of decl t o)) (fst (sp_apply decl reg o)) /\
  snd (apply_top uid_of decl t o) = snd (sp_apply decl reg o).
Proof. exact table_step. Qed.
Print Assumptions C06_table_step.

(* One RunHandlers call on a table in step with the registry runs exactly the handlers
   registered for the event's command (as upper-cased at registration) or for "*", the
   command groups only when the event is not an echo; no handler twice.  Hypothesis:
   the received command is not "*". *)
Theorem C06_dispatch_exact : forall (uid_of : N -> str) (decl : N -> hdecl),
  uid_ok uid_of ->
  forall t reg e, Rel uid_of decl t reg -> ev_cmd e <> star ->
  NoDup (dispatch_ids t e) /\
  (forall h, In h (dispatch_ids t e) <-> In h reg /\ routed decl h e = true) /\
  Permutation (dispatch_ids t e) (sp_targets decl reg e).
Proof. exact table_dispatch. Qed.
Print Assumptions C06_dispatch_exact.
