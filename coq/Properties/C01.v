(* C01 — Wire codec round trip.  Only statements here; proofs live in Proofs/. *)
Require Import Bytes AMap Tags Event TagsProofs.

(* The tag escaping table is lossless on every byte string. *)
Theorem C01_tag_unescape_escape : forall v, tag_unescape (tag_escape v) = v.
Proof. exact tag_unescape_escape. Qed.
Print Assumptions C01_tag_unescape_escape.
