(* C01 — Wire codec round trip.  Only statements here; proofs live in Proofs/.
   wf_event / canon / wevent_equiv / tags_equiv: Spec/CodecSpec.v. *)
Require Import Bytes AMap Tags Event Grammar CodecSpec TagsProofs RoundTrip.

(* Serialising a well-formed event (command token; middles non-empty, SPACE-free, not
   ':'-leading; arbitrary last parameter; nick[!user][@host] source; valid tag keys with
   wire-form values free of ';' and SPACE; valid UTF-8 without CR/LF; tag section within
   4094 bytes) and parsing the line gives the same command (upper-cased), parameters and
   source, and a tag map with the same keys and stored values. *)
Theorem C01_encode_parse : forall e, wf_event e ->
  exists e', parse_event (event_bytes e) = Ok (Some e') /\ wevent_equiv e' (canon e).
Proof. exact encode_parse. Qed.
Print Assumptions C01_encode_parse.

(* Without tags the result is syntactically the canonical event. *)
Theorem C01_encode_parse_notags : forall e, wf_event e -> we_tags e = None ->
  parse_event (event_bytes e) = Ok (Some (canon e)).
Proof. exact encode_parse_notags. Qed.
Print Assumptions C01_encode_parse_notags.

(* A tag read back through Tags.Get after the round trip equals the value given to
   Tags.Set (which stores tag_escape v). *)
Theorem C01_tag_values : forall e k v, wf_event e ->
  tags_lookup (we_tags e) k = Some (tag_escape v) ->
  exists e', parse_event (event_bytes e) = Ok (Some e') /\ tags_get (we_tags e') k = Some v.
Proof. exact encode_parse_tag_value. Qed.
Print Assumptions C01_tag_values.

(* Whatever Set accepts is an entry wf_event admits, and stays so under further Sets. *)
Theorem C01_set_entry_wf : forall t k v t', tags_set t k v = Some t' ->
  wf_tag_entry (k, tag_escape v) = true.
Proof. exact tags_set_entry_wf. Qed.
Print Assumptions C01_set_entry_wf.

Theorem C01_set_entries_wf : forall m k v m', forallb wf_tag_entry m = true ->
  tags_set (Some m) k v = Some (Some m') -> forallb wf_tag_entry m' = true.
Proof. exact tags_set_entries_wf. Qed.
Print Assumptions C01_set_entries_wf.

(* Get after Set, for every receiver: the value given, other keys untouched (Set on a nil
   Tags is refused: C01_tags_set_nil_error). *)
Theorem C01_tags_get_set : forall (t : wtags) k v t',
  tags_set t k v = Some t' ->
  tags_get t' k = Some v /\ (forall k', k' <> k -> tags_get t' k' = tags_get t k').
Proof. exact tags_get_set. Qed.
Print Assumptions C01_tags_get_set.

Theorem C01_tags_set_nil_error : forall k v, tags_set None k v = None.
Proof. exact tags_set_nil_error. Qed.
Print Assumptions C01_tags_set_nil_error.

(* The tag escaping table is lossless on every byte string. *)
Theorem C01_tag_unescape_escape : forall v, tag_unescape (tag_escape v) = v.
Proof. exact tag_unescape_escape. Qed.
Print Assumptions C01_tag_unescape_escape.

(* ParseSource and Source.writeTo are inverse on nick[!user][@host]. *)
Theorem C01_source_roundtrip : forall s, wf_wsource s = true -> wparse_source (source_write s) = Ok s.
Proof. exact source_roundtrip. Qed.
Print Assumptions C01_source_roundtrip.

(* Conversely: for every line of the C02 grammar (valid UTF-8, de-duplicated tag
   section within the limit), parsing it, serialising the result and parsing again yields
   the same event. *)
Require Import Utf8 StableProofs LineUtf8 SetFits.
Theorem C01_parse_stable : forall a, wf_ast a -> valid_utf8 (render a) = true -> ast_tags_fit a = true ->
  exists e e', parse_event (render a) = Ok (Some e) /\
               parse_event (event_bytes e) = Ok (Some e') /\ wevent_equiv e' e.
Proof. exact parse_stable_line. Qed.
Print Assumptions C01_parse_stable.

(* The same, stated on lines: wf_lineb is the grammar recogniser of C02 (exact by
   C02_recogniser); line_tags_fit: the de-duplicated tag section is within the limit. *)
Require Import LineGrammar RecogniserProofs.
Theorem C01_parse_stable_line : forall l e,
  wf_lineb l = true -> valid_utf8 l = true -> line_tags_fit l = true ->
  parse_event l = Ok (Some e) ->
  exists e', parse_event (event_bytes e) = Ok (Some e') /\ wevent_equiv e' e.
Proof. exact parse_stable_wf_line. Qed.
Print Assumptions C01_parse_stable_line.

(* Tag maps built through the API -- Tags{} followed by successful Tags.Set calls -- meet
   every condition wf_event puts on a tag map, including the 4094-byte limit: the tag
   hypothesis of C01_encode_parse holds for them. *)
Theorem C01_api_built_wf : forall m, api_built m -> wf_wtags (Some m) = true.
Proof. exact api_built_wf. Qed.
Print Assumptions C01_api_built_wf.
