(* C01 — Wire codec round trip.  Only statements here; proofs live in Proofs/.
   wf_event / canon / wevent_equiv / tags_equiv: Spec/CodecSpec.v. *)
Require Import Bytes AMap Tags Event Grammar CodecSpec TagsProofs RoundTrip.

(* Serialising a well-formed event (command token; middles non-empty, SPACE-free, not
   ':'-leading; arbitrary last parameter; nick[!user][@host] source; valid tag keys with
   wire-form values free of ';' and SPACE; valid UTF-8 without CR/LF; tag section within
   4094 bytes) and parsing the line gives the same command (upper-cased), parameters and
   source, and a tag map with the same keys and stored values. *)
Theorem C01_encode_parse : forall e, wf_event e ->
  exists e', parse_event (event_bytes e) = Ok (Some e') /\ wevent_equiv e' (canon e).
Proof. exact encode_parse. Qed.
Print Assumptions C01_encode_parse.

(* Without tags the result is syntactically the canonical event. *)
Theorem C01_encode_parse_notags : forall e, wf_event e -> we_tags e = None ->
  parse_event (event_bytes e) = Ok (Some (canon e)).
Proof. exact encode_parse_notags. Qed.
Print Assumptions C01_encode_parse_notags.

(* A tag read back through Tags.Get after the round trip equals the value given to
   Tags.Set (which stores tag_escape v). *)
Theorem C01_tag_values : forall e k v, wf_event e ->
  tags_lookup (we_tags e) k = Some (tag_escape v) ->
  exists e', parse_event (event_bytes e) = Ok (Some e') /\ tags_get (we_tags e') k = Some v.
Proof. exact encode_parse_tag_value. Qed.
Print Assumptions C01_tag_values.

(* Whatever Set accepts is an entry wf_event admits, and stays so under further Sets. *)
Theorem C01_set_entry_wf : forall t k v t', tags_set t k v = Some t' ->
  wf_tag_entry (k, tag_escape v) = true.
Proof. exact tags_set_entry_wf. Qed.
Print Assumptions C01_set_entry_wf.

Theorem C01_set_entries_wf : forall m k v m', forallb wf_tag_entry m = true ->
  tags_set (Some m) k v = Some (Some m') -> forallb wf_tag_entry m' = true.
Proof. exact tags_set_entries_wf. Qed.
Print Assumptions C01_set_entries_wf.

(* Get after Set on a (non-nil) map: the value given, other keys untouched. *)
Theorem C01_tags_get_set : forall (m : tagmap) k v t',
  tags_set (Some m) k v = Some t' ->
  tags_get t' k = Some v /\ (forall k', k' <> k -> tags_get t' k' = tags_get (Some m) k').
Proof. exact tags_get_set. Qed.
Print Assumptions C01_tags_get_set.

(* The tag escaping table is lossless on every byte string. *)
Theorem C01_tag_unescape_escape : forall v, tag_unescape (tag_escape v) = v.
Proof. exact tag_unescape_escape. Qed.
Print Assumptions C01_tag_unescape_escape.

(* ParseSource and Source.writeTo are inverse on nick[!user][@host]. *)
Theorem C01_source_roundtrip : forall s, wf_wsource s = true -> wparse_source (source_write s) = Ok s.
Proof. exact source_roundtrip. Qed.
Print Assumptions C01_source_roundtrip.

(* Finding tags-set-nil: on a nil Tags the Go method reports success and loses the value
   (the model mirrors it); stated so that the discrepancy with C01_tags_get_set is visible. *)
Theorem C01_tags_set_nil_refuted :
  exists k v t', tags_set None k v = Some t' /\ tags_get t' k = None.
Proof. exact tags_set_nil_loses_value. Qed.
Print Assumptions C01_tags_set_nil_refuted.
