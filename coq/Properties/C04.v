(* C04 — Tracked state equals what a conformant server's message history implies.
   Only statements here; proofs live in Proofs/.

   FULL STATEMENT (Spec/NetRef.v: ref_run, conformant_history, abs; Model/State.v: run):

     C04_refines : forall cfg h, conformant_history h = true ->
       exists s out, run cfg state_init h = Ok (s, out) /\ abs s = ref_run h.

   with C04_getters (every getter of Model/StateGetters.v on s is the corresponding view of
   abs s), C04_mode_removal and C04_users_forgotten as corollaries about the state API. *)
Require Import Bytes AMap SMap Names State StateGetters NetRef NetRefLemmas.

(* HasMode after one MODE/324 message, for every mode that is a setting under the server's
   CHANMODES/PREFIX (classes B, C, D): the sign of its last occurrence decides; a mode the
   message does not mention keeps its state.  Stated on the reference model's fold. *)
Theorem C04_mode_removal_ref : forall cm pm x, is_setting cm pm x ->
  forall flags args add c,
  mode_has x (rc_modes (mode_walk cm pm flags args add c)) =
  match last_sign flags add x with Some b => b | None => mode_has x (rc_modes c) end.
Proof. exact mode_walk_has. Qed.
Print Assumptions C04_mode_removal_ref.

Theorem C04_mode_args_follow_classes_ref : forall cm pm x a c,
  mode_arg x (rc_modes (mode_walk cm pm [43; x] [a] true c)) =
  (if (x =? 43) || (x =? 45) then mode_arg x (rc_modes c) else
   match mode_class cm pm x with
   | MArg | MSetArg => match a with [] => None | _ => Some a end
   | MFlag => None
   | MList | MPrefix => mode_arg x (rc_modes c)
   end).
Proof. exact mode_walk_one_arg. Qed.
Print Assumptions C04_mode_args_follow_classes_ref.
