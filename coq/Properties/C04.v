(* C04 — Tracked state equals what a conformant server's message history implies.
   Only statements here; proofs live in Proofs/ (C04Proofs, C04Getters, Refine*, NetRefLemmas).

   Model/State.v `run cfg state_init h` is the impl-model of the client processing the
   received history h (the state handlers of builtin.go, modes.go, cap.go, cap_tags.go).
   Spec/NetRef.v: `told_run h` is the reference model's told-state ("what the client has been
   told": joined channels with topic, modes and ONE membership relation; one record per nick;
   server options; MOTD; users forgotten exactly when they share no joined channel),
   `conformant_history h` says that a correct server may send h, `abs s` is the told-state an
   implementation state stands for (it forgets list order, the redundant direction of the
   membership relation and the mode classes frozen in each channel).
   Model/StateGetters.v models the read side of the state API. *)
Require Import Bytes AMap SMap Names State StateGetters NetRef.
Require Import StateInv NetRefLemmas StateRefine C04Getters ToldEq C04Proofs.

(* every conformant history is processed without panic and leaves the client in the state
   that stands for exactly what it has been told *)
Theorem C04_refines : forall cfg h, conformant_history h = true ->
  exists s out, run cfg state_init h = Ok (s, out) /\ abs s = told_run h.
Proof. exact refines_told. Qed.
Print Assumptions C04_refines.

(* the one-step simulation it is proven from (Inv: C05's structural invariant; Fresh: every
   channel's mode classes are those of the current server options; RWf: canonical form) *)
Theorem C04_refines_step : forall cfg s e, Inv s -> Fresh s -> RWf (abs s) -> conformant (abs s) e = true ->
  exists s' out, handle cfg s e = Ok (s', out) /\ Inv s' /\ Fresh s' /\ RWf (abs s') /\ abs s' = told_step (abs s) e.
Proof. exact refines_step_told. Qed.
Print Assumptions C04_refines_step.

(* the statement is about the state API: each getter is the corresponding view of abs s *)
Theorem C04_getters : forall cfg s, Inv s ->
  let r := abs s in
  g_nick cfg s = v_nick cfg r /\ g_ident cfg s = v_ident cfg r /\ g_host s = v_host r /\ g_motd s = v_motd r /\
  (forall k, g_server_option s k = v_option r k) /\
  g_channel_list s = v_channel_list r /\ g_user_list s = v_user_list r /\
  (forall name, g_is_in_channel s name = v_is_in_channel r name) /\
  (* LookupChannel: name, topic, modes, UserList and each member's privilege flags *)
  (forall name, option_map (abs_chan s (fold name)) (g_lookup_channel s name) = v_lookup_channel r name) /\
  (forall k c, v_channel_users (abs_chan s k c) = c_users c) /\
  (* LookupUser: nick, ident, host, realname, account, away; the derived channel list; privileges *)
  (forall nick, option_map abs_user (g_lookup_user s nick) = v_lookup_user r nick) /\
  (forall nick u, g_lookup_user s nick = Some u -> u_chans u = v_user_channels r (fold nick)) /\
  (forall nick u chan, g_lookup_user s nick = Some u -> In (fold chan) (u_chans u) ->
     Some (match g_perms_lookup u chan with Some p => p | None => perms0 end) = v_perm r chan nick) /\
  (* Modes.HasMode / Get / String *)
  (forall k c x, (x <? 128) = true -> g_has_mode c [x] = mode_has x (rc_modes (abs_chan s k c))) /\
  (forall k c x, (x <? 128) = true -> g_mode_get c [x] = mode_arg x (rc_modes (abs_chan s k c))) /\
  (forall k c, g_modes_string c = v_modes_string (rc_modes (abs_chan s k c))).
Proof. exact getters_all. Qed.
Print Assumptions C04_getters.

(* a channel mode set by '+x' is reported until a later '-x': after any conformant history,
   one more MODE message leaves HasMode(x) = the sign of the last occurrence of x in it, and
   unchanged when x does not occur -- for every x that is a setting (classes B, C, D) *)
Theorem C04_mode_removal : forall cfg h e target flags args x,
  conformant_history (h ++ [e]) = true -> e_cmd e = c_MODE -> e_params e = target :: flags :: args ->
  exists s o s' o', run cfg state_init h = Ok (s, o) /\ run cfg state_init (h ++ [e]) = Ok (s', o') /\
    forall c, g_lookup_channel s target = Some c ->
      is_setting (ref_chanmodes (abs s)) (ref_prefix_modes (abs s)) x -> (x <? 128) = true ->
      exists c', g_lookup_channel s' target = Some c' /\
        g_has_mode c' [x] = match last_sign flags true x with Some b => b | None => g_has_mode c [x] end.
Proof. exact mode_removal. Qed.
Print Assumptions C04_mode_removal.

(* the same on the reference model's fold, and: arguments follow the CHANMODES classes *)
Theorem C04_mode_removal_ref : forall cm pm x, is_setting cm pm x ->
  forall flags args add c,
  mode_has x (rc_modes (mode_walk cm pm flags args add c)) =
  match last_sign flags add x with Some b => b | None => mode_has x (rc_modes c) end.
Proof. exact mode_walk_has. Qed.
Print Assumptions C04_mode_removal_ref.

Theorem C04_mode_args_follow_classes_ref : forall cm pm x a c,
  mode_arg x (rc_modes (mode_walk cm pm [43; x] [a] true c)) =
  (if (x =? 43) || (x =? 45) then mode_arg x (rc_modes c) else
   match mode_class cm pm x with
   | MArg | MSetArg => match a with [] => None | _ => Some a end
   | MFlag => None
   | MList | MPrefix => mode_arg x (rc_modes c)
   end).
Proof. exact mode_walk_one_arg. Qed.
Print Assumptions C04_mode_args_follow_classes_ref.

(* users are forgotten exactly when they share no tracked channel: in every reachable state *)
Theorem C04_users_forgotten : forall cfg h s o nick, run cfg state_init h = Ok (s, o) -> nick <> [] ->
  (g_lookup_user s nick <> None <-> exists c, In c (g_channels s) /\ g_channel_user_in c nick = true).
Proof. exact users_forgotten. Qed.
Print Assumptions C04_users_forgotten.

(* on conformant histories the literal reading told_run and the reading ref_run (which does
   not record again what a message merely repeats about a known user) are the same state;
   conformant_history is defined along ref_run *)
Theorem C04_told_is_ref : forall h, conformant_history h = true -> told_run h = ref_run h.
Proof. exact told_run_eq. Qed.
Print Assumptions C04_told_is_ref.

(* told-states stay in canonical form, so "=" above is equality of contents *)
Theorem C04_told_canonical : forall h, RWf (ref_run h).
Proof. exact told_canonical. Qed.
Print Assumptions C04_told_canonical.

(* the hypotheses are satisfiable: two channels, a case-only rename, multi-prefix NAMES,
   "+ntk key", "-k key", "+l 5", a PART *)
Theorem C04_example_conformant : conformant_history ex_history = true.
Proof. exact ex_conformant. Qed.
Print Assumptions C04_example_conformant.

Theorem C04_example_told :
  let r := told_run ex_history in
  v_channel_list r = [bs "#Chan"; bs "&Two"] /\ v_user_list r = [bs "Alice"; bs "me"] /\
  option_map (fun c => (v_channel_users c, v_modes_string (rc_modes c), mode_has 107 (rc_modes c), mode_arg 108 (rc_modes c)))
     (v_lookup_channel r (bs "#CHAN")) = Some ([bs "alice"; bs "me"], bs "+ntl 5", false, Some (bs "5")) /\
  v_perm r (bs "#chan") (bs "ALICE") = Some (mkPerms false false true false true) /\
  v_perm r (bs "&TWO") (bs "alice") = Some (mkPerms false false false false true) /\
  v_lookup_user r (bs "bob") = None /\ v_user_channels r (bs "alice") = [bs "#chan"; bs "&two"].
Proof. exact ex_told. Qed.
Print Assumptions C04_example_told.
