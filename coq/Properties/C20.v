(* C20 — Formatting helpers are compositional: codes in, codes out, text untouched.
   Only statements here; proofs live in Proofs/FormatProofs.v.  `fmt`, `trim_fmt order`,
   `strip_raw` (Model/Format.v) mirror format.go Fmt / TrimFmt / StripRaw; pieces, `render`,
   `expected`, `literals`, `trim_expected` and the side conditions are in Spec/FmtSpec.v.
   All statements quantify over ALL byte strings / piece sequences (lists of N). *)
Require Import Bytes Format FmtSpec FormatProofs FormatTrimStable.
From Coq Require Import Permutation.

(* ---- StripRaw ---- *)

(* the result contains none of the seven control bytes 01 02 03 0f 16 1d 1f *)
Theorem C20_strip_clean : forall s b, In b ctrl_bytes -> ~ In b (strip_raw s).
Proof. exact strip_raw_clean_bytes. Qed.
Print Assumptions C20_strip_clean.

(* unchanged for input that has none *)
Theorem C20_strip_identity : forall s, ctrl_free s -> strip_raw s = s.
Proof. exact strip_raw_id. Qed.
Print Assumptions C20_strip_identity.

Theorem C20_strip_idempotent : forall s, strip_raw (strip_raw s) = strip_raw s.
Proof. exact strip_raw_idem. Qed.
Print Assumptions C20_strip_idempotent.

(* StripRaw ranges over a Go map: whatever the iteration order, the result is the same *)
Theorem C20_strip_any_map_order : forall order s,
  Permutation order code_values -> strip_raw_ord order s = strip_raw s.
Proof. exact strip_raw_any_order. Qed.
Print Assumptions C20_strip_any_map_order.

(* nothing is added or reordered, and ordinary text - every byte that is not a control
   byte, a digit or a comma - is untouched *)
Theorem C20_strip_subsequence : forall s, subseq (strip_raw s) s.
Proof. exact strip_raw_subseq. Qed.
Print Assumptions C20_strip_subsequence.

Theorem C20_strip_text_untouched : forall s, plain_text (strip_raw s) = plain_text s.
Proof. exact strip_raw_plain. Qed.
Print Assumptions C20_strip_text_untouched.

(* ---- Fmt: text without braces is left unchanged (either brace missing is enough) ---- *)

Theorem C20_fmt_identity : forall s, brace_free s -> fmt s = s.
Proof. exact fmt_brace_free. Qed.
Print Assumptions C20_fmt_identity.

Theorem C20_fmt_identity_no_open : forall s, ~ In fmt_open s -> fmt s = s.
Proof. exact fmt_no_open. Qed.
Print Assumptions C20_fmt_identity_no_open.

Theorem C20_fmt_identity_no_close : forall s, ~ In fmt_close s -> fmt s = s.
Proof. exact fmt_no_close. Qed.
Print Assumptions C20_fmt_identity_no_close.

(* ---- Fmt on piece sequences: brace-free literals, known tokens in any letter case ---- *)

Theorem C20_fmt : forall ps,
  lits_ok brace_free ps -> Forall known1 ps -> fmt (render ps) = expected ps.
Proof. exact fmt_pieces_brace_free. Qed.
Print Assumptions C20_fmt.

(* stronger: a literal may contain '}' as long as it has no '{' *)
Theorem C20_fmt_no_open : forall ps,
  lits_ok no_open ps -> Forall known1 ps -> fmt (render ps) = expected ps.
Proof. exact fmt_pieces. Qed.
Print Assumptions C20_fmt_no_open.

(* beyond the statement: a {word} of letters that is not a known name is deleted
   (`expected1` gives it the empty string); Fmt("use {braces} here") = "use  here" *)
Theorem C20_fmt_words : forall ps,
  lits_ok no_open ps -> Forall word_or_known ps -> fmt (render ps) = expected ps.
Proof. exact fmt_pieces_words. Qed.
Print Assumptions C20_fmt_words.

(* ---- TrimFmt: for EVERY iteration order of the two maps, exactly the lower-case {name}
   tokens are removed.  `trim_expected` keeps the literals, the tokens whose name is not,
   byte for byte, a key of fmtColors/fmtCodes ({RED}, {foo}) and all {fg,bg} pairs. ---- *)

Theorem C20_trim : forall order ps,
  Permutation order trim_names -> lits_ok brace_free ps -> Forall tok_wf ps ->
  trim_fmt order (render ps) = trim_expected ps.
Proof. exact trim_fmt_any_order_brace_free. Qed.
Print Assumptions C20_trim.

Theorem C20_trim_no_open : forall order ps,
  Permutation order trim_names -> lits_ok no_open ps -> Forall tok_wf ps ->
  trim_fmt order (render ps) = trim_expected ps.
Proof. exact trim_fmt_any_order_no_open. Qed.
Print Assumptions C20_trim_no_open.

(* ---- TrimFmt on ARBITRARY text (stray and nested braces included).  Go runs all colour
   names in some order, then all code names in some order.  `trim_stable s` (Model/Format.v)
   says: deleting at once all colour tokens present in s leaves no colour token, and
   deleting at once all code tokens present in that leaves no code token.  Then every such
   order returns that same text - in particular the one suite fmt.trim prints for the
   canonical order.  ("{b{i}}" is not stable, and there the orders really differ:
   Proofs/FormatTrimStable.v trim_stable_examples.) ---- *)

Theorem C20_trim_any_text : forall oc od s,
  trim_stable s = true -> Permutation oc color_names -> Permutation od code_names ->
  trim_fmt (oc ++ od) s = strip_tokens code_names (strip_tokens color_names s).
Proof. exact trim_fmt_stable. Qed.
Print Assumptions C20_trim_any_text.

Theorem C20_trim_any_text_canonical : forall oc od s,
  trim_stable s = true -> Permutation oc color_names -> Permutation od code_names ->
  trim_fmt (oc ++ od) s = trim_fmt trim_names s.
Proof. exact trim_fmt_stable_canonical. Qed.
Print Assumptions C20_trim_any_text_canonical.

(* ---- StripRaw after Fmt: the literal pieces, whenever no text following a colour token
   begins with a digit or a comma.  `colourish` = a colour name, a {fg,bg} pair, or {c}/{clear},
   whose code is the bare colour introducer \x03.  With "colour token" read as the names of
   fmtColors and pairs only, the clause is false - Fmt("{c}5") = "\x035" strips to ""
   (C20_strip_fmt_literal_reading_refuted below) - and no implementation could satisfy it
   together with the other clauses: Fmt must return "\x035" for "{c}5" (documented
   sequences), and "\x035" is itself the colour sequence "colour 5", which StripRaw must
   remove.  The reading with {c}/{clear} included is the satisfiable one. ---- *)

Theorem C20_strip_fmt : forall ps,
  lits_ok (fun s => brace_free s /\ ctrl_free s) ps -> Forall known1 ps -> spaced colourish ps ->
  strip_raw (fmt (render ps)) = literals ps.
Proof. exact strip_fmt_pieces_brace_free. Qed.
Print Assumptions C20_strip_fmt.

Theorem C20_strip_fmt_no_open : forall ps,
  lits_ok (fun s => no_open s /\ ctrl_free s) ps -> Forall known1 ps -> spaced colourish ps ->
  strip_raw (fmt (render ps)) = literals ps.
Proof. exact strip_fmt_pieces. Qed.
Print Assumptions C20_strip_fmt_no_open.

(* the stated side condition is sufficient, not necessary.  Exactly two shapes are eaten:
   ",digit" after a single colour token and a digit after {c}/{clear}; a digit after a
   colour token (girc's own test "{red}1234") or anything after a {fg,bg} pair is harmless
   because colour numbers are always written with two digits. *)
Theorem C20_strip_fmt_exact_condition : forall ps,
  lits_ok (fun s => no_open s /\ ctrl_free s) ps -> Forall known1 ps -> spaced_sharp ps ->
  strip_raw (fmt (render ps)) = literals ps.
Proof. exact strip_fmt_pieces_sharp. Qed.
Print Assumptions C20_strip_fmt_exact_condition.

Theorem C20_stated_condition_implies_exact : forall ps, spaced colourish ps -> spaced_sharp ps.
Proof. exact spaced_implies_sharp. Qed.
Print Assumptions C20_stated_condition_implies_exact.

Theorem C20_strip_fmt_literal_reading_refuted :
  exists ps,
    lits_ok (fun s => brace_free s /\ ctrl_free s) ps /\ Forall known1 ps /\ spaced colour_tok ps /\
    fmt (render ps) = [3; 53] /\ strip_raw (fmt (render ps)) = [] /\ literals ps = [53].
Proof. exact strip_fmt_literal_reading_refuted. Qed.
Print Assumptions C20_strip_fmt_literal_reading_refuted.
