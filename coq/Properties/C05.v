(* C05 — No server input can crash, wedge or structurally corrupt the client.
   Only statements here; proofs live in Proofs/StateInv.v. *)
Require Import Bytes AMap Names State StateInv.

Theorem C05_inv_init : Inv state_init.
Proof. exact inv_init. Qed.
Print Assumptions C05_inv_init.

(* the state mutators of state.go never dereference a missing entry and keep the invariant *)
Theorem C05_delete_channel : forall s name, Inv s -> exists s', delete_channel s name = Ok s' /\ Inv s'.
Proof. exact delete_channel_inv. Qed.
Print Assumptions C05_delete_channel.

Theorem C05_delete_user_one : forall s chan nick, chan <> [] -> Inv s ->
  exists s', delete_user s chan nick = Ok s' /\ Inv s'.
Proof. exact delete_user_one_inv. Qed.
Print Assumptions C05_delete_user_one.
