(* C05 — No server input can crash, wedge or structurally corrupt the client.
   Only statements here; proofs live in Proofs/StateInv.v and Proofs/StateHandlers.v.

   `handle cfg s e` is the impl-model (Model/State.v) of everything the tracked-state
   handlers of builtin.go / modes.go / cap.go / cap_tags.go do for ONE received event e —
   an arbitrary event: any command, any number of parameters, with or without a source,
   naming known or unknown users and channels.  A Go panic (nil map entry dereference,
   index out of range) is the explicit result `Panic`.  `Inv` is the structural
   consistency statement of the property (C05_inv_meaning spells it out). *)
Require Import Bytes AMap Names State OrderLemmas StateInv StateHandlers StatePerms ClientStep ClientStepProofs.
Require Ctcp Sasl Cap StsState.

(* Inv is exactly the property's consistency clause *)
Theorem C05_inv_meaning : forall s, Inv s <->
  (forall kc c ku u, alookup kc (st_channels s) = Some c -> alookup ku (st_users s) = Some u ->
     (In ku (c_users c) <-> In kc (u_chans u))) /\
  (forall kc c n, alookup kc (st_channels s) = Some c -> In n (c_users c) -> exists u, alookup n (st_users s) = Some u) /\
  (forall ku u cn, alookup ku (st_users s) = Some u -> In cn (u_chans u) -> exists c, alookup cn (st_channels s) = Some c) /\
  (forall kc c, alookup kc (st_channels s) = Some c ->
     fold (c_name c) = kc /\ ssorted (c_users c) /\ NoDup (c_users c) /\ Forall (fun n => fold n = n) (c_users c)) /\
  (forall ku u, alookup ku (st_users s) = Some u ->
     fold (u_nick u) = ku /\ ssorted (u_chans u) /\ NoDup (u_chans u) /\ Forall (fun n => fold n = n) (u_chans u) /\ u_chans u <> []).
Proof. exact inv_meaning. Qed.
Print Assumptions C05_inv_meaning.

Theorem C05_inv_init : Inv state_init.
Proof. exact inv_init. Qed.
Print Assumptions C05_inv_init.

(* no event makes a handler panic, in any consistent state *)
Theorem C05_no_panic : forall cfg s e, Inv s -> handle cfg s e <> Panic.
Proof. exact handle_no_panic. Qed.
Print Assumptions C05_no_panic.

(* every handler keeps the state consistent, on every event *)
Theorem C05_inv : forall cfg s e s' out, Inv s -> handle cfg s e = Ok (s', out) -> Inv s'.
Proof. exact handle_keeps_inv. Qed.
Print Assumptions C05_inv.

(* hence: after every sequence of events from the initial state the client has neither
   panicked nor corrupted its state *)
Theorem C05_all_histories : forall cfg h, exists s out, run cfg state_init h = Ok (s, out) /\ Inv s.
Proof. exact all_histories. Qed.
Print Assumptions C05_all_histories.

(* ... and still answers a PING (the model-level half of "does not stop processing"; the
   real goroutines are observed by suite state.liveness) *)
Theorem C05_ping_after_every_history : forall cfg h src tag ps,
  exists s out s', run cfg state_init h = Ok (s, out) /\ Inv s /\
    handle cfg s (ping_event src tag ps) = Ok (s', [OutSend s_PONG [last ps []]]) /\ Inv s'.
Proof. exact ping_after_every_history. Qed.
Print Assumptions C05_ping_after_every_history.

(* the state mutators of state.go never dereference a missing entry and keep the invariant *)
Theorem C05_delete_channel : forall s name, Inv s -> exists s', delete_channel s name = Ok s' /\ Inv s'.
Proof. exact delete_channel_inv. Qed.
Print Assumptions C05_delete_channel.

Theorem C05_delete_user : forall s chan nick, Inv s -> exists s', delete_user s chan nick = Ok s' /\ Inv s'.
Proof. exact delete_user_inv. Qed.
Print Assumptions C05_delete_user.

(* renameUser, including a rename onto a nick that is already tracked *)
Theorem C05_rename_user : forall s from to, Inv s -> exists s', rename_user s from to = Ok s' /\ Inv s'.
Proof. exact rename_user_inv. Qed.
Print Assumptions C05_rename_user.

(* non-vacuity: Inv holds of a populated state reached by a concrete, partly hostile history *)
Theorem C05_populated_example : exists s o, run ex_cfg state_init ex_history = Ok (s, o) /\ Inv s /\
  List.map (fun kv => (fst kv, c_users (snd kv))) (st_channels s) =
    [(bs "#chan", [bs "bob"; bs "me"]); (bs "#c{1}", [bs "bob"; bs "me"])] /\
  List.map (fun kv => (fst kv, u_nick (snd kv), u_chans (snd kv))) (st_users s) =
    [(bs "bob", bs "BOB", [bs "#chan"; bs "#c{1}"]); (bs "me", bs "me", [bs "#chan"; bs "#c{1}"])].
Proof. exact populated_state_inv. Qed.
Print Assumptions C05_populated_example.

(* ---- widened: everything a received line reaches that could panic ----
   client_step (Model/ClientStep.v) = the tracked-state handlers, then handleSASL /
   handleSASLError, handleCAP and the CTCP stage of RunHandlers with the default
   repliers (the models of C09, C08 and C14, used unchanged).  The one hypothesis:
   Client.conn is non-nil while the event is handled (Model/Ctcp.v still has the FINGER
   replier dereference it; /repo 187fc3e made the replier return instead). *)
Theorem C05_client_no_panic : forall cfg cs e, Inv (cs_state cs) -> Ctcp.connected (cc_env cfg) = true ->
  client_step cfg cs e <> Panic.
Proof. exact client_step_no_panic. Qed.
Print Assumptions C05_client_no_panic.

Theorem C05_client_all_histories : forall cfg sts h, Ctcp.connected (cc_env cfg) = true ->
  exists cs out, client_run cfg (client_init sts) h = Ok (cs, out) /\ Inv (cs_state cs).
Proof. exact client_all_histories. Qed.
Print Assumptions C05_client_all_histories.

(* ---- the permission maps (not part of the property's text; the design added the clause
   "the keys of a user's permission map are exactly its ChannelList") ----
   Full clause:  forall reachable s, ku, u, cn:
       alookup ku (st_users s) = Some u -> (In cn (u_chans u) <-> alookup cn (u_perms u) <> None).
   Proved: the direction "every listed channel has an entry".  The other direction is false
   of the code as it is: handleMODE stores an entry for any tracked user named in a
   channel-mode change, member of that channel or not (finding mode-perms-for-non-member). *)
Theorem C05_perms_cover_partial : forall cfg h s o, run cfg state_init h = Ok (s, o) ->
  forall ku u cn, alookup ku (st_users s) = Some u -> In cn (u_chans u) -> alookup cn (u_perms u) <> None.
Proof. exact all_histories_cover_flat. Qed.
Print Assumptions C05_perms_cover_partial.

Theorem C05_perms_only_listed_refuted : exists s o, run ex_cfg state_init perms_history = Ok (s, o) /\
  ~ (forall ku u cn, alookup ku (st_users s) = Some u -> alookup cn (u_perms u) <> None -> In cn (u_chans u)).
Proof. exact perms_only_listed_refuted. Qed.
Print Assumptions C05_perms_only_listed_refuted.

(* non-vacuity of the widened statement: a connected configuration (SASL PLAIN) and a history
   through every stage; outputs by kind: WHO, MODE (state), a CTCP reply (the source-less
   VERSION request gets none), CAP REQ, AUTHENTICATE <credential>, the queued ERROR *)
Theorem C05_client_example :
  Ctcp.connected (cc_env cex_cfg) = true /\
  exists cs o, client_run cex_cfg (client_init StsState.sts_init) cex_history = Ok (cs, o) /\
    Inv (cs_state cs) /\
    List.map (fun x => match x with CSend _ => 1 | CSasl _ => 2 | CCap _ => 3 | CCtcp _ => 4 end) o = [1; 1; 4; 3; 2; 2] /\
    client_disconnects cex_cfg (client_init StsState.sts_init) cex_history = Ok true.
Proof. exact client_example. Qed.
Print Assumptions C05_client_example.

(* ---- the same at the level of BYTES ON THE SOCKET (capstone; Model/React.v) ----
   `React.react cfg rs line` composes, unchanged, the models of the other properties into the
   client's whole synchronous reaction to one raw line as ReadString('\n') returns it:
   ParseEvent (C01/C02 codec model; nil => RParseFail, the connection ends with ErrParseEvent),
   conversion to the handlers' event, client_step (above), nickCollisionHandler (C17 model),
   then every resulting event through Client.Send = Event.split with the current
   MaxEventLength (C11 model) / Client.write, sendLoop's tag gate and Event.Bytes (C03 model).
   The result is RPanic, RParseFail or RStep state' lines (the raw lines written, in order).
   RInv = Inv of the tracked state; conn_up = Client.conn is non-nil (as on the path from the
   socket).  Proofs: Proofs/ReactProofs.v, Proofs/ReactWire.v. *)
Require React ReactProofs ReactWire Split SplitProofs.

(* no byte string makes the client panic: the reaction is a step or the parse failure *)
Theorem C05_bytes_total : forall cfg rs line, ReactProofs.RInv rs -> ReactProofs.conn_up cfg ->
  React.react cfg rs line <> React.RPanic.
Proof. exact ReactProofs.react_total. Qed.
Print Assumptions C05_bytes_total.

(* ... and whenever it returns a step, on any bytes and any configuration, the tracked state
   is structurally consistent again *)
Theorem C05_bytes_inv : forall cfg rs line rs' outs, ReactProofs.RInv rs ->
  React.react cfg rs line = React.RStep rs' outs -> ReactProofs.RInv rs'.
Proof. exact ReactProofs.react_inv. Qed.
Print Assumptions C05_bytes_inv.

(* hence for EVERY sequence of raw lines from a fresh connection: the session runs to its end
   (all lines read, or a line ParseEvent rejects, or an ERROR event), never panics, and the
   state is consistent *)
Theorem C05_bytes_all_histories : forall cfg sts lines, ReactProofs.conn_up cfg ->
  exists s, React.react_run cfg (React.react_init sts) 0 lines = Ok s /\ ReactProofs.RInv (React.ss_state s).
Proof. exact ReactProofs.react_all_histories. Qed.
Print Assumptions C05_bytes_all_histories.

(* every line the client writes in response - ALL outputs of every reaction: WHO/MODE after our
   own JOIN, PONG, NICK after 433/436/437, CAP REQ/END, AUTHENTICATE, CTCP replies incl. the
   pieces of a split one - contains no CR and no LF, is valid UTF-8 and parses back
   (ParseEvent's model) to an event whose command is one of the seven the reaction uses *)
Theorem C05_bytes_outputs_wellformed : forall cfg rs line rs' outs, ReactProofs.conn_up cfg ->
  React.react cfg rs line = React.RStep rs' outs ->
  Forall (fun l => ~ In 13 l /\ ~ In 10 l /\ Utf8.valid_utf8 l = true /\
                   exists e', Event.parse_event l = Ok (Some e') /\ In (Event.we_cmd e') ReactWire.reaction_cmds) outs.
Proof. exact ReactWire.react_outputs_wellformed. Qed.
Print Assumptions C05_bytes_outputs_wellformed.

(* the first three clauses need no hypothesis at all *)
Theorem C05_bytes_outputs_no_crlf : forall cfg rs line rs' outs,
  React.react cfg rs line = React.RStep rs' outs ->
  Forall (fun l => ~ In 13 l /\ ~ In 10 l /\ Utf8.valid_utf8 l = true) outs.
Proof. exact ReactWire.react_outputs_no_crlf. Qed.
Print Assumptions C05_bytes_outputs_no_crlf.

(* liveness at the model level, in bytes: in ANY state of a connection that has not ended, a
   line that parses to PING with a wire-valid token (valid UTF-8 without CR/LF; spaces, a
   leading ':' or nothing at all are fine) is answered by exactly one line, and that line
   parses to PONG with exactly that token *)
Theorem C05_bytes_ping : forall cfg rs line w, React.rs_closed rs = false ->
  Event.parse_event line = Ok (Some w) -> Event.we_cmd w = PingNick.s_PING ->
  PingNickWire.wire_valid (last (Event.we_params w) []) = true ->
  exists rs' l, React.react cfg rs line = React.RStep rs' [l] /\ React.rs_closed rs' = false /\
    Event.parse_event l = Ok (Some (Event.mkWEvent None None PingNick.s_PONG [last (Event.we_params w) []])).
Proof. exact ReactWire.react_ping. Qed.
Print Assumptions C05_bytes_ping.

(* the line limit: every line of a reaction belongs to an event handed to Send / write (same
   command, no tags, no source; PRIVMSG / NOTICE only through Client.Send); if that event is a
   PRIVMSG / NOTICE - the CTCP replies, text chosen by the requester - and its command and
   target (plus the CTCP frame) fit into MaxEventLength of the state after the step, the line is
   at most MaxEventLength bytes, or - only when fewer than 4 bytes remain for text - command,
   target and one character (C11_fits / C11_send_fits) *)
Theorem C05_bytes_privmsg_fits : forall cfg rs line rs' outs, ReactProofs.conn_up cfg ->
  React.react cfg rs line = React.RStep rs' outs ->
  Forall (fun l =>
    exists o, ReactWire.plain_out o /\ ReactWire.line_of (React.message_tags_on (Cap.st_enabled (ClientStep.cs_cap (React.rs_client rs')))) o l /\
      (Split.is_msg_cmd (Event.we_cmd (ReactWire.wout_event o)) = true ->
       (SplitProofs.cmd_target_len (React.to_sevent (ReactWire.wout_event o)) <= Split.max_event_length (ClientStep.cs_state (React.rs_client rs')))%Z ->
       ReactWire.fits_limit (Split.max_event_length (ClientStep.cs_state (React.rs_client rs')))
                            (SplitProofs.cmd_target_len (React.to_sevent (ReactWire.wout_event o))) l)) outs.
Proof. exact ReactWire.react_privmsg_fits. Qed.
Print Assumptions C05_bytes_privmsg_fits.

(* ... which is about something: a CTCP PING with 720 bytes of text is answered in two NOTICE
   lines of 392 and 368 bytes (MaxEventLength = 395) *)
Theorem C05_bytes_fits_example :
  exists rs' outs, React.react ReactWire.ex_cfg (React.react_init StsState.sts_init) ReactWire.ex_long_ping = React.RStep rs' outs /\
    Split.max_event_length (ClientStep.cs_state (React.rs_client rs')) = 395%Z /\
    List.map (@length N) outs = [392; 368]%nat /\
    Forall (fun l => prefixb (bs "NOTICE alice :" ++ [1] ++ bs "PING lorem") l = true) outs.
Proof. exact ReactWire.react_fits_example. Qed.
Print Assumptions C05_bytes_fits_example.

(* one line, one source of output: for every event at most ONE stage of the reaction (state
   handlers / SASL / CAP / CTCP stage / collision handler) writes anything, so the order of the
   lines of one reaction is always fixed by one piece of sequential code although the handlers
   of an event run concurrently *)
Theorem C05_bytes_single_source : forall cfg cs e cs' couts nouts,
  ClientStep.client_step (React.rc_client cfg) cs e = Ok (cs', couts) ->
  React.collide_stage cfg (ClientStep.cs_state cs) e = Ok nouts -> ReactWire.source_of couts nouts.
Proof. exact ReactWire.react_single_source. Qed.
Print Assumptions C05_bytes_single_source.

(* non-vacuity: a ten-line raw session (001, 005, JOIN, 353, MODE, CTCP VERSION, PING, NICK,
   KICK, a NUL byte) with what the client writes for each line and how the session ends *)
Theorem C05_bytes_example :
  ReactProofs.conn_up ReactWire.ex_cfg /\
  exists s, React.react_run ReactWire.ex_cfg (React.react_init StsState.sts_init) 0 ReactWire.ex_lines = Ok s /\
    React.ss_outs s =
      [ []; [];
        [bs "WHO #chan %tacuhnr,1"; bs "MODE #chan"];
        []; [];
        [bs "NOTICE alice :" ++ [1] ++ bs "VERSION verif 1.0" ++ [1]];
        [bs "PONG :tok en"];
        []; [] ] /\
    React.ss_end s = React.ParseFailed 9 /\
    ReactProofs.RInv (React.ss_state s) /\
    List.map (fun kv => (fst kv, State.c_users (snd kv)))
             (State.st_channels (ClientStep.cs_state (React.rs_client (React.ss_state s)))) =
      [(bs "#chan", [bs "carol"; bs "me"])] /\
    State.st_nick (ClientStep.cs_state (React.rs_client (React.ss_state s))) = bs "me".
Proof. exact ReactWire.react_session_example. Qed.
Print Assumptions C05_bytes_example.
