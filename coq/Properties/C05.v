(* C05 — No server input can crash, wedge or structurally corrupt the client.
   Only statements here; proofs live in Proofs/StateInv.v and Proofs/StateHandlers.v.

   `handle cfg s e` is the impl-model (Model/State.v) of everything the tracked-state
   handlers of builtin.go / modes.go / cap.go / cap_tags.go do for ONE received event e —
   an arbitrary event: any command, any number of parameters, with or without a source,
   naming known or unknown users and channels.  A Go panic (nil map entry dereference,
   index out of range) is the explicit result `Panic`.  `Inv` is the structural
   consistency statement of the property (C05_inv_meaning spells it out). *)
Require Import Bytes AMap Names State OrderLemmas StateInv StateHandlers StatePerms ClientStep ClientStepProofs.
Require Ctcp Sasl Cap StsState.

(* Inv is exactly the property's consistency clause *)
Theorem C05_inv_meaning : forall s, Inv s <->
  (forall kc c ku u, alookup kc (st_channels s) = Some c -> alookup ku (st_users s) = Some u ->
     (In ku (c_users c) <-> In kc (u_chans u))) /\
  (forall kc c n, alookup kc (st_channels s) = Some c -> In n (c_users c) -> exists u, alookup n (st_users s) = Some u) /\
  (forall ku u cn, alookup ku (st_users s) = Some u -> In cn (u_chans u) -> exists c, alookup cn (st_channels s) = Some c) /\
  (forall kc c, alookup kc (st_channels s) = Some c ->
     fold (c_name c) = kc /\ ssorted (c_users c) /\ NoDup (c_users c) /\ Forall (fun n => fold n = n) (c_users c)) /\
  (forall ku u, alookup ku (st_users s) = Some u ->
     fold (u_nick u) = ku /\ ssorted (u_chans u) /\ NoDup (u_chans u) /\ Forall (fun n => fold n = n) (u_chans u) /\ u_chans u <> []).
Proof. exact inv_meaning. Qed.
Print Assumptions C05_inv_meaning.

Theorem C05_inv_init : Inv state_init.
Proof. exact inv_init. Qed.
Print Assumptions C05_inv_init.

(* no event makes a handler panic, in any consistent state *)
Theorem C05_no_panic : forall cfg s e, Inv s -> handle cfg s e <> Panic.
Proof. exact handle_no_panic. Qed.
Print Assumptions C05_no_panic.

(* every handler keeps the state consistent, on every event *)
Theorem C05_inv : forall cfg s e s' out, Inv s -> handle cfg s e = Ok (s', out) -> Inv s'.
Proof. exact handle_keeps_inv. Qed.
Print Assumptions C05_inv.

(* hence: after every sequence of events from the initial state the client has neither
   panicked nor corrupted its state *)
Theorem C05_all_histories : forall cfg h, exists s out, run cfg state_init h = Ok (s, out) /\ Inv s.
Proof. exact all_histories. Qed.
Print Assumptions C05_all_histories.

(* ... and still answers a PING (the model-level half of "does not stop processing"; the
   real goroutines are observed by suite state.liveness) *)
Theorem C05_ping_after_every_history : forall cfg h src tag ps,
  exists s out s', run cfg state_init h = Ok (s, out) /\ Inv s /\
    handle cfg s (ping_event src tag ps) = Ok (s', [OutSend s_PONG [last ps []]]) /\ Inv s'.
Proof. exact ping_after_every_history. Qed.
Print Assumptions C05_ping_after_every_history.

(* the state mutators of state.go never dereference a missing entry and keep the invariant *)
Theorem C05_delete_channel : forall s name, Inv s -> exists s', delete_channel s name = Ok s' /\ Inv s'.
Proof. exact delete_channel_inv. Qed.
Print Assumptions C05_delete_channel.

Theorem C05_delete_user : forall s chan nick, Inv s -> exists s', delete_user s chan nick = Ok s' /\ Inv s'.
Proof. exact delete_user_inv. Qed.
Print Assumptions C05_delete_user.

(* renameUser, including a rename onto a nick that is already tracked *)
Theorem C05_rename_user : forall s from to, Inv s -> exists s', rename_user s from to = Ok s' /\ Inv s'.
Proof. exact rename_user_inv. Qed.
Print Assumptions C05_rename_user.

(* non-vacuity: Inv holds of a populated state reached by a concrete, partly hostile history *)
Theorem C05_populated_example : exists s o, run ex_cfg state_init ex_history = Ok (s, o) /\ Inv s /\
  List.map (fun kv => (fst kv, c_users (snd kv))) (st_channels s) =
    [(bs "#chan", [bs "bob"; bs "me"]); (bs "#c{1}", [bs "bob"; bs "me"])] /\
  List.map (fun kv => (fst kv, u_nick (snd kv), u_chans (snd kv))) (st_users s) =
    [(bs "bob", bs "BOB", [bs "#chan"; bs "#c{1}"]); (bs "me", bs "me", [bs "#chan"; bs "#c{1}"])].
Proof. exact populated_state_inv. Qed.
Print Assumptions C05_populated_example.

(* ---- widened: everything a received line reaches that could panic ----
   client_step (Model/ClientStep.v) = the tracked-state handlers, then handleSASL /
   handleSASLError, handleCAP and the CTCP stage of RunHandlers with the default
   repliers (the models of C09, C08 and C14, used unchanged).  The one hypothesis:
   Client.conn is non-nil while the event is handled (Model/Ctcp.v still has the FINGER
   replier dereference it; /repo 187fc3e made the replier return instead). *)
Theorem C05_client_no_panic : forall cfg cs e, Inv (cs_state cs) -> Ctcp.connected (cc_env cfg) = true ->
  client_step cfg cs e <> Panic.
Proof. exact client_step_no_panic. Qed.
Print Assumptions C05_client_no_panic.

Theorem C05_client_all_histories : forall cfg sts h, Ctcp.connected (cc_env cfg) = true ->
  exists cs out, client_run cfg (client_init sts) h = Ok (cs, out) /\ Inv (cs_state cs).
Proof. exact client_all_histories. Qed.
Print Assumptions C05_client_all_histories.

(* ---- the permission maps (not part of the property's text; the design added the clause
   "the keys of a user's permission map are exactly its ChannelList") ----
   Full clause:  forall reachable s, ku, u, cn:
       alookup ku (st_users s) = Some u -> (In cn (u_chans u) <-> alookup cn (u_perms u) <> None).
   Proved: the direction "every listed channel has an entry".  The other direction is false
   of the code as it is: handleMODE stores an entry for any tracked user named in a
   channel-mode change, member of that channel or not (finding mode-perms-for-non-member). *)
Theorem C05_perms_cover_partial : forall cfg h s o, run cfg state_init h = Ok (s, o) ->
  forall ku u cn, alookup ku (st_users s) = Some u -> In cn (u_chans u) -> alookup cn (u_perms u) <> None.
Proof. exact all_histories_cover_flat. Qed.
Print Assumptions C05_perms_cover_partial.

Theorem C05_perms_only_listed_refuted : exists s o, run ex_cfg state_init perms_history = Ok (s, o) /\
  ~ (forall ku u cn, alookup ku (st_users s) = Some u -> alookup cn (u_perms u) <> None -> In cn (u_chans u)).
Proof. exact perms_only_listed_refuted. Qed.
Print Assumptions C05_perms_only_listed_refuted.

(* non-vacuity of the widened statement: a connected configuration (SASL PLAIN) and a history
   through every stage; outputs by kind: WHO, MODE (state), a CTCP reply (the source-less
   VERSION request gets none), CAP REQ, AUTHENTICATE <credential>, the queued ERROR *)
Theorem C05_client_example :
  Ctcp.connected (cc_env cex_cfg) = true /\
  exists cs o, client_run cex_cfg (client_init StsState.sts_init) cex_history = Ok (cs, o) /\
    Inv (cs_state cs) /\
    List.map (fun x => match x with CSend _ => 1 | CSasl _ => 2 | CCap _ => 3 | CCtcp _ => 4 end) o = [1; 1; 4; 3; 2; 2] /\
    client_disconnects cex_cfg (client_init StsState.sts_init) cex_history = Ok true.
Proof. exact client_example. Qed.
Print Assumptions C05_client_example.
