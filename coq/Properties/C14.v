(* C14 — CTCP encoding round-trips and automatic replies obey the reply discipline.
   Only statements here; proofs live in Proofs/CtcpProofs.v, the model in Model/Ctcp.v,
   the property's own definitions (ctcp_message, not_ctcp_cause, answers) in Spec/CtcpSpec.v. *)
Require Import Bytes Names Ctcp CtcpSpec CtcpProofs.

(* Decoding a PRIVMSG or NOTICE whose text was produced by the encoder returns the same
   command and text - for every command made of A-Z/0-9 and EVERY text (empty, with
   leading/trailing spaces, with 0x01 inside) -, carries the source over and flags it as
   a reply exactly when it is a NOTICE. *)
Theorem C14_roundtrip : forall cmd text k src target,
  cmd <> [] -> Forall tag_byte cmd -> k = PRIVMSG \/ k = NOTICE ->
  decode_ctcp (mk_event src k [target; encode_ctcp_raw cmd text]) =
    Ok (Some (mk_ctcp src cmd text (streqb k NOTICE))).
Proof. exact roundtrip. Qed.
Print Assumptions C14_roundtrip.

(* DecodeCTCP accepts exactly the CTCP messages, with exactly their fields ... *)
Theorem C14_decode_exact : forall e c, decode_ctcp e = Ok (Some c) <-> ctcp_message e c.
Proof. exact decode_exact. Qed.
Print Assumptions C14_decode_exact.

(* ... everything else is "not CTCP" ... *)
Theorem C14_decode_none : forall e, decode_ctcp e = Ok None <-> ~ is_ctcp e.
Proof. exact decode_none_iff. Qed.
Print Assumptions C14_decode_none.

(* ... and it cannot panic (no index out of range on any event). *)
Theorem C14_decode_total : forall e, exists r, decode_ctcp e = Ok r.
Proof. exact decode_total. Qed.
Print Assumptions C14_decode_total.
