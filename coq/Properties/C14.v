(* C14 — CTCP encoding round-trips and automatic replies obey the reply discipline.
   Only statements here; proofs live in Proofs/CtcpProofs.v, the model in Model/Ctcp.v,
   the property's own definitions (ctcp_message, not_ctcp_cause, answers) in Spec/CtcpSpec.v. *)
Require Import Bytes Names GoUpperAscii Ctcp CtcpSpec CtcpProofs CtcpTableProofs.

(* Decoding a PRIVMSG or NOTICE whose text was produced by the encoder returns the same
   command and text - for every command made of A-Z/0-9 and EVERY text (empty, with
   leading/trailing spaces, with 0x01 inside) -, carries the source over and flags it as
   a reply exactly when it is a NOTICE. *)
Theorem C14_roundtrip : forall cmd text k src target,
  cmd <> [] -> Forall tag_byte cmd -> k = PRIVMSG \/ k = NOTICE ->
  decode_ctcp (mk_event src k [target; encode_ctcp_raw cmd text]) =
    Ok (Some (mk_ctcp src cmd text (streqb k NOTICE))).
Proof. exact roundtrip. Qed.
Print Assumptions C14_roundtrip.

(* DecodeCTCP accepts exactly the CTCP messages, with exactly their fields ... *)
Theorem C14_decode_exact : forall e c, decode_ctcp e = Ok (Some c) <-> ctcp_message e c.
Proof. exact decode_exact. Qed.
Print Assumptions C14_decode_exact.

(* ... everything else is "not CTCP" ... *)
Theorem C14_decode_none : forall e, decode_ctcp e = Ok None <-> ~ is_ctcp e.
Proof. exact decode_none_iff. Qed.
Print Assumptions C14_decode_none.

(* ... and it cannot panic (no index out of range on any event). *)
Theorem C14_decode_total : forall e, exists r, decode_ctcp e = Ok r.
Proof. exact decode_total. Qed.
Print Assumptions C14_decode_total.

(* "Anything not delimited by 0x01 on both ends or with an invalid command is not CTCP":
   the listed causes (parameter count, IRC command, length < 3, first byte, last byte, empty
   command part, a byte outside A-Z/0-9 in the command part) are exactly the events
   DecodeCTCP rejects. *)
Theorem C14_not_ctcp : forall e, not_ctcp_cause e <-> decode_ctcp e = Ok None.
Proof. exact not_ctcp_exact. Qed.
Print Assumptions C14_not_ctcp.

(* The reply discipline, default handler table, any environment (Config.Version/Name, runtime
   texts, clock, connected or not): for every event the CTCP stage of RunHandlers writes at most one event, and
   if it writes one then the event was a PRIVMSG that decodes as CTCP, has a source, is not
   ACTION, has a default replier or else a source that is a valid nickname; the output is a
   source-less NOTICE to the folded nickname of the requester carrying a CTCP payload. *)
Theorem C14_replies : forall v e outs,
  ctcp_stage (default_table v) e = Ok outs ->
  (length outs <= 1)%nat /\
  forall o, In o outs ->
    ev_command e = PRIVMSG /\
    exists c name, decode_ctcp e = Ok (Some c) /\ ev_source e = Some name /\
      c_command c <> CTCP_ACTION /\
      (known_query (c_command c) \/ is_valid_nick (to_rfc1459 name) = true) /\
      is_answer_to name o.
Proof. exact stage_discipline_any. Qed.
Print Assumptions C14_replies.

(* ... and exactly which answer: the stage's output is the one the relation `answers` of
   Spec/CtcpSpec.v determines (known query -> its reply text; unknown, not ACTION, valid nick
   -> ERRMSG; otherwise nothing). *)
Theorem C14_replies_exact : forall v e outs,
  ctcp_stage (default_table v) e = Ok outs <-> answers v e outs.
Proof. exact stage_exact. Qed.
Print Assumptions C14_replies_exact.

(* Never in response to a NOTICE - connected or not. *)
Theorem C14_notice_silent : forall v e, ev_command e = NOTICE -> ctcp_stage (default_table v) e = Ok [].
Proof. exact notice_silent. Qed.
Print Assumptions C14_notice_silent.

(* Two clients can never drive each other into a reply loop: the stage applied to anything
   that carries the command of one of its own outputs - with any source, any parameters, in
   any environment - yields nothing. *)
Theorem C14_no_loop : forall v e outs o,
  ctcp_stage (default_table v) e = Ok outs -> In o outs ->
  forall v' src params, ctcp_stage (default_table v') (mk_event src (ev_command o) params) = Ok [].
Proof. exact no_loop. Qed.
Print Assumptions C14_no_loop.

(* The stage cannot panic, connected or not (no nil source dereference, no empty CTCP type
   handed to SendCTCPReply, no index out of range; since 187fc3e handleCTCPFinger answers
   nothing when client.conn is nil - `answers` says so through finger_unanswerable). *)
Theorem C14_never_panics : forall v e, exists outs, ctcp_stage (default_table v) e = Ok outs.
Proof. exact stage_total_any. Qed.
Print Assumptions C14_never_panics.

(* ---- handlers registered by the program (Set / SetBg / Clear / ClearAll) ---- *)

(* parseCMD: a name is rejected, or is the wildcard (only "*" itself), or is registered under
   a key that a decoded command can equal ... *)
Theorem C14_parse_cmd_keys : forall n,
  parse_cmd n = [] \/ parse_cmd n = ctcp_wildcard \/ ctcp_tag (parse_cmd n).
Proof. exact parse_cmd_keys. Qed.
Print Assumptions C14_parse_cmd_keys.

Theorem C14_parse_cmd_wildcard : forall n, parse_cmd n = ctcp_wildcard <-> n = ctcp_wildcard.
Proof. exact parse_cmd_wild_iff. Qed.
Print Assumptions C14_parse_cmd_wildcard.

(* ... every command DecodeCTCP can produce can be registered, under itself or any ASCII
   spelling of it ("version" serves VERSION) ... *)
Theorem C14_parse_cmd_ascii : forall n, is_ascii n = true -> ctcp_tag (to_upper_ascii n) ->
  parse_cmd n = to_upper_ascii n.
Proof. exact parse_cmd_ascii. Qed.
Print Assumptions C14_parse_cmd_ascii.

(* ... and no decoded command equals the wildcard key, so the wildcard handler runs once. *)
Theorem C14_decoded_not_wildcard : forall e c, ctcp_message e c -> c_command c <> ctcp_wildcard.
Proof. exact decoded_not_wildcard. Qed.
Print Assumptions C14_decoded_not_wildcard.

(* Set and Clear act on the table like on a finite map keyed by parseCMD's result. *)
Theorem C14_set_lookup : forall t n h k,
  (parse_cmd n = [] -> table_set t n h = t) /\
  (parse_cmd n <> [] -> lookup (parse_cmd n) (table_set t n h) = Some h) /\
  (k <> parse_cmd n -> lookup k (table_set t n h) = lookup k t).
Proof. exact set_lookup. Qed.
Print Assumptions C14_set_lookup.

Theorem C14_clear_lookup : forall t n k,
  (parse_cmd n <> [] -> lookup (parse_cmd n) (table_clear t n) = None) /\
  (k <> parse_cmd n -> lookup k (table_clear t n) = lookup k t).
Proof. exact clear_lookup. Qed.
Print Assumptions C14_clear_lookup.

(* Every key of a table built from the default one by Set/SetBg/Clear/ClearAll is the
   wildcard or a well-formed command. *)
Theorem C14_table_keys : forall v ops k h,
  lookup k (apply_ops v (default_table v) ops) = Some h -> k = ctcp_wildcard \/ ctcp_tag k.
Proof. exact table_keys. Qed.
Print Assumptions C14_table_keys.

(* CTCP.call with ANY table: the wildcard handler's output, then the output of the command's
   handler - or, when there is none, what the library itself adds (lib_errmsg): *)
Theorem C14_call_structure : forall t c,
  ctcp_call t c =
    w <- run_opt (lookup ctcp_wildcard t) c ;;
    r <- match lookup (c_command c) t with Some h => h c | None => Ok (lib_errmsg c) end ;;
    Ok (w ++ r).
Proof. exact call_structure. Qed.
Print Assumptions C14_call_structure.

(* ... at most the one ERRMSG NOTICE to the requester, never for a reply, never for ACTION,
   never without a source that is a valid nickname. *)
Theorem C14_library_adds : forall c o, In o (lib_errmsg c) ->
  c_reply c = false /\ c_command c <> CTCP_ACTION /\
  exists name, c_source c = Some name /\ is_valid_nick (to_rfc1459 name) = true /\
    lib_errmsg c = [o] /\ o = notice (to_rfc1459 name) (encode_ctcp_raw CTCP_ERRMSG errmsg_text).
Proof. exact lib_errmsg_discipline. Qed.
Print Assumptions C14_library_adds.

(* No reply loop for programs that register their own handlers: start from the default
   table, apply any sequence of Set/SetBg/Clear/ClearAll; if every handler set stays silent
   on replies (as the documentation of CTCPEvent.Reply asks), no NOTICE elicits anything.
   (Example careless_handler_loops: without that hypothesis two clients do loop.) *)
Theorem C14_user_table_no_loop : forall v ops e,
  Forall op_reply_silent ops -> ev_command e = NOTICE ->
  ctcp_stage (apply_ops v (default_table v) ops) e = Ok [].
Proof. exact user_table_no_loop. Qed.
Print Assumptions C14_user_table_no_loop.

(* The library part of the stage cannot panic with any table of handlers that do not. *)
Theorem C14_user_table_never_panics : forall t e, table_total t -> exists outs, ctcp_stage t e = Ok outs.
Proof. exact stage_total_table. Qed.
Print Assumptions C14_user_table_never_panics.

(* ---- the sending side (commands.go SendCTCP, SendCTCPReply) ---- *)

(* They panic exactly on the empty CTCP type ... *)
Theorem C14_send_panic : forall target k msg,
  (send_ctcp target k msg = Panic <-> k = []) /\ (send_ctcp_reply target k msg = Panic <-> k = []).
Proof. exact send_panic_iff. Qed.
Print Assumptions C14_send_panic.

(* ... and for a well-formed type what they send is, for whoever receives it, the CTCP request
   (PRIVMSG) resp. reply (NOTICE) with the same type and text. *)
Theorem C14_send_roundtrip : forall target k msg src, ctcp_tag k ->
  exists q r, send_ctcp target k msg = Ok q /\ send_ctcp_reply target k msg = Ok r /\
    decode_ctcp (mk_event src (ev_command q) (ev_params q)) = Ok (Some (mk_ctcp src k msg false)) /\
    decode_ctcp (mk_event src (ev_command r) (ev_params r)) = Ok (Some (mk_ctcp src k msg true)).
Proof. exact send_roundtrip. Qed.
Print Assumptions C14_send_roundtrip.

(* The encoder does not validate the type: SendCTCP(target, "version", ...) goes out and is
   not CTCP for the receiver. *)
Theorem C14_send_bad_type : forall target k msg src q, ~ In 32 k -> ~ Forall tag_byte k ->
  send_ctcp target k msg = Ok q ->
  decode_ctcp (mk_event src (ev_command q) (ev_params q)) = Ok None.
Proof. exact send_bad_type. Qed.
Print Assumptions C14_send_bad_type.

(* ---- histories ---- *)

(* Any sequence of incoming events: the answers are at most one per PRIVMSG in it, every one
   a source-less NOTICE answering a sourced PRIVMSG of the sequence. *)
Theorem C14_history : forall v inbox outs,
  stage_all (default_table v) inbox = Ok outs ->
  (length outs <= length (filter (fun e => streqb (ev_command e) PRIVMSG) inbox))%nat /\
  Forall (fun o => ev_command o = NOTICE /\ ev_source o = None /\
                   exists e name, In e inbox /\ ev_command e = PRIVMSG /\ ev_source e = Some name /\
                                  is_answer_to name o) outs.
Proof. exact stage_all_discipline. Qed.
Print Assumptions C14_history.

(* Two clients alone on a network (Spec/CtcpSpec.v `volley`): whatever arrives at A, however
   many rounds of mutual answering are allowed, the exchange ends after A's own answers. *)
Theorem C14_two_clients : forall va vb na nb inbox rounds, (2 <= rounds)%nat ->
  exists outs, stage_all (default_table va) inbox = Ok outs /\
    volley rounds va vb na nb inbox = Ok (outs, true).
Proof. exact volley_ends. Qed.
Print Assumptions C14_two_clients.

(* ---- isolation between the stages of RunHandlers ---- *)

(* Model/Ctcp.v run_handlers: every ordinary handler works on a copy of the event, DecodeCTCP on
   another one.  Whatever handlers do to the event they were given (first component of their
   result), the CTCP part of what RunHandlers writes is the stage applied to the event as
   received: the answer still goes to the original source.  (That RunHandlers really makes
   these copies is what the mutating handlers of suites ctcp.replies / ctcp.table check.) *)
Theorem C14_dispatch_isolation : forall hs t e,
  run_handlers hs t e = (c <- ctcp_stage t e ;; Ok (flat_map (fun h => snd (h e)) hs ++ c)).
Proof. exact run_handlers_isolated. Qed.
Print Assumptions C14_dispatch_isolation.
