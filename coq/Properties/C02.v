(* C02 — The parser conforms to the message grammar and is total.
   Only statements here; proofs live in Proofs/. *)
Require Import Bytes AMap Tags Event ParseNF.

(* Totality: Go panics (index out of range, slice bounds) are explicit in the model as
   `Panic`; no byte string makes ParseEvent, ParseTags or ParseSource reach one. *)
Theorem C02_total : forall s, parse_event s <> Panic.
Proof. exact parse_event_total. Qed.
Print Assumptions C02_total.

Theorem C02_total_tags : forall s, parse_tags s <> Panic.
Proof. exact parse_tags_no_panic. Qed.
Print Assumptions C02_total_tags.

Theorem C02_total_source : forall s, wparse_source s <> Panic.
Proof. exact wparse_source_no_panic. Qed.
Print Assumptions C02_total_source.
