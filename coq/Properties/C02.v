(* C02 — The parser conforms to the message grammar and is total.
   Only statements here; proofs live in Proofs/. *)
Require Import Bytes AMap Tags Event Grammar LineGrammar ParseNF GrammarProofs RecogniserProofs.

(* Every line of the grammar (Spec/Grammar.v: optional tags, optional source, command of
   >= 2 letters or 3 digits, any number of middles separated by runs of SPACE, optional
   trailing, optional CR/LF) parses to exactly the structure the grammar assigns. *)
Theorem C02_grammar : forall a, wf_ast a -> parse_event (render a) = Ok (Some (meaning a)).
Proof. exact grammar_parse. Qed.
Print Assumptions C02_grammar.

(* ... where the tag values of `meaning`, read through Tags.Get, are the unescaped value
   of the LAST occurrence of the key ("" for a tag without "=value"). *)
Theorem C02_tag_values : forall l k, tags_get (Some (meaning_tags l)) k = spec_tag_value l k.
Proof. exact meaning_tags_get. Qed.
Print Assumptions C02_tag_values.

(* The grammar has an exact executable recogniser: wf_lineb l holds exactly for the
   renderings of well-formed ASTs, so C02_grammar can be read as a statement about all
   lines accepted by wf_lineb. *)
Theorem C02_recogniser : forall l, wf_lineb l = true <-> exists a, wf_ast a /\ render a = l.
Proof. exact wf_line_iff. Qed.
Print Assumptions C02_recogniser.

Theorem C02_grammar_lines : forall l a, wf_lineb l = true -> parse_ast l = Some a ->
  parse_event l = Ok (Some (meaning a)).
Proof. exact grammar_parse_line. Qed.
Print Assumptions C02_grammar_lines.

(* A valid server-time tag becomes the event timestamp; without one, or with an
   unparseable one, the timestamp is the local receive time.  time.Parse is a parameter. *)
Theorem C02_server_time : forall (T : Type) (parse_time : str -> option T) a, wf_ast a ->
  exists e, parse_event (render a) = Ok (Some e) /\
    (forall v t, ast_time a = Some v -> parse_time v = Some t ->
       event_timestamp parse_time e = FromServer t) /\
    (forall v, ast_time a = Some v -> parse_time v = None -> event_timestamp parse_time e = LocalNow) /\
    (ast_time a = None -> event_timestamp parse_time e = LocalNow).
Proof. exact grammar_server_time. Qed.
Print Assumptions C02_server_time.

(* Totality: Go panics (index out of range, slice bounds) are explicit in the model as
   `Panic`; no byte string makes ParseEvent, ParseTags or ParseSource reach one. *)
Theorem C02_total : forall s, parse_event s <> Panic.
Proof. exact parse_event_total. Qed.
Print Assumptions C02_total.

Theorem C02_total_tags : forall s, parse_tags s <> Panic.
Proof. exact parse_tags_no_panic. Qed.
Print Assumptions C02_total_tags.

Theorem C02_total_source : forall s, wparse_source s <> Panic.
Proof. exact wparse_source_no_panic. Qed.
Print Assumptions C02_total_source.
