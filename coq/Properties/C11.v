(* C11 — Outgoing messages respect the line limit without losing content.
   Only statements here; proofs live in Proofs/SplitProofs.v.  Model: Model/Split.v
   (splitMessage, Event.split, Join/List, MaxEventLength) and Model/State.v
   (handle_isupport); specification vocabulary: Spec/SplitSpec.v. *)
Require Import Bytes Utf8 AMap WireOut Ctcp State Split SplitSpec SplitUtf8 SplitProofs SplitWords SplitValid SplitContent SplitTokens.

(* splitMessage returns for every text and every width (also <= 0): no slice is out of
   range and the word loop terminates (Panic also stands for "out of fuel"). *)
Theorem C11_no_panic : forall text w, split_message text w <> Panic.
Proof. exact split_message_no_panic. Qed.
Print Assumptions C11_no_panic.

Theorem C11_event_no_panic : forall e max, event_split e max <> Panic.
Proof. exact event_split_no_panic. Qed.
Print Assumptions C11_event_no_panic.

(* Every piece of splitMessage is at most w bytes; when w < 4 (less than the longest
   character) a piece may instead be at most 4 bytes (the code puts one character on it). *)
Theorem C11_fits_message : forall text w ps, split_message text w = Ok ps ->
  Forall (fun p => (Zlen p <= w)%Z \/ ((w < 4)%Z /\ (Zlen p <= 4)%Z)) ps.
Proof. exact split_message_fits. Qed.
Print Assumptions C11_fits_message.

(* Event.split: when command and target (cmd_target_len: "COMMAND target :" plus tag
   overhead, plus the CTCP frame and its one reserved byte) fit, every piece is at most
   max bytes in the measure of Event.LenOpts without the source; in the boundary case
   max - cmd_target_len < 4 a piece may instead carry one character, i.e. be at most
   cmd_target_len + 4 bytes.  All texts: control codes, multi-byte, invalid UTF-8,
   newlines, CTCP. *)
Theorem C11_fits : forall e max es, event_split e max = Ok es ->
  se_params e <> [] -> is_msg_cmd (se_command e) = true -> (cmd_target_len e <= max)%Z ->
  Forall (fun p => (Z.of_nat (len_nosrc p) <= max)%Z \/
                   ((max - cmd_target_len e < 4)%Z /\ (Z.of_nat (len_nosrc p) <= cmd_target_len e + 4)%Z)) es.
Proof. exact event_split_fits. Qed.
Print Assumptions C11_fits.

(* ... and the bytes written for a tag-less event are at most that measure (plus the
   source, which Commands.Message/Notice/Action never set). *)
Theorem C11_fits_wire : forall e, se_tagov e = 0%nat -> (length (event_bytes e) <= len_opts e)%nat.
Proof. exact event_bytes_length. Qed.
Print Assumptions C11_fits_wire.

(* Put together for what Commands.Message / Notice / Action hand to Client.Send (no tags,
   no source): every line written is at most MaxEventLength bytes when command and target
   fit, with the same one-character boundary case. *)
Theorem C11_send_fits : forall st e es,
  se_tagov e = 0%nat -> se_source e = None -> se_params e <> [] -> is_msg_cmd (se_command e) = true ->
  send st e = Ok es -> (cmd_target_len e <= max_event_length st)%Z ->
  Forall (fun p =>
    (Z.of_nat (length (event_bytes p)) <= max_event_length st)%Z \/
    ((max_event_length st - cmd_target_len e < 4)%Z /\
     (Z.of_nat (length (event_bytes p)) <= cmd_target_len e + 4)%Z)) es.
Proof. exact send_fits_wire. Qed.
Print Assumptions C11_send_fits.

(* With Config.GlobalFormat, Send formats the last parameter (Fmt, Model/Format.v) BEFORE it
   splits (global_format): the bound holds for the formatted message ... *)
Theorem C11_send_gf_fits : forall st e es,
  se_tagov e = 0%nat -> se_source e = None -> se_params e <> [] -> is_msg_cmd (se_command e) = true ->
  send_gf st e = Ok es -> (cmd_target_len (global_format e) <= max_event_length st)%Z ->
  Forall (fun p =>
    (Z.of_nat (length (event_bytes p)) <= max_event_length st)%Z \/
    ((max_event_length st - cmd_target_len (global_format e) < 4)%Z /\
     (Z.of_nat (length (event_bytes p)) <= cmd_target_len (global_format e) + 4)%Z)) es.
Proof. exact send_gf_fits_wire. Qed.
Print Assumptions C11_send_gf_fits.

(* ... and the pieces are C11_shape's for the FORMATTED event: a message that Fmt turns into
   a CTCP ({ctcp}ACTION ...{ctcp}) is split as that CTCP, every piece in its frame. *)
Theorem C11_send_gf_shape : forall st e es, send_gf st e = Ok es ->
  let f := global_format e in
  es = [f] \/
  (se_params f <> [] /\ is_msg_cmd (se_command f) = true /\
   exists text wrap w pieces,
     split_message text w = Ok pieces /\
     es = List.map (fun q => with_params f (set_last (se_params f) (wrap q))) pieces /\
     Forall (same_frame f) es /\
     match ctcp_of f with
     | Some c => text = Ctcp.c_text c /\ wrap = ctcp_wrap (Ctcp.c_command c) /\ w = (max_event_length st - cmd_target_len f)%Z
     | None => text = last (se_params f) [] /\ wrap = (fun q => q) /\ w = (max_event_length st - cmd_target_len f)%Z
     end).
Proof. exact send_gf_shape. Qed.
Print Assumptions C11_send_gf_shape.

(* Pieces keep command, source, tags, every parameter but the last, and the CTCP frame
   with the same CTCP command; their payloads are splitMessage of the (CTCP) text. *)
Theorem C11_shape : forall e max es, event_split e max = Ok es ->
  es = [e] \/
  (se_params e <> [] /\ is_msg_cmd (se_command e) = true /\
   exists text wrap w pieces,
     split_message text w = Ok pieces /\
     es = List.map (fun q => with_params e (set_last (se_params e) (wrap q))) pieces /\
     Forall (same_frame e) es /\
     match ctcp_of e with
     | Some c => text = Ctcp.c_text c /\ wrap = ctcp_wrap (Ctcp.c_command c) /\ w = (max - cmd_target_len e)%Z
     | None => text = last (se_params e) [] /\ wrap = (fun q => q) /\ w = (max - cmd_target_len e)%Z
     end).
Proof. exact event_split_shape. Qed.
Print Assumptions C11_shape.

(* Plain text (none of the seven formatting control codes): the pieces are a layout of the
   text's words (Spec/SplitSpec.v `layout`): each piece is a non-empty list of non-empty
   chunks joined by single spaces; gluing every chunk marked "continued" to the chunk
   that follows gives back exactly the words, in order; a continued chunk is the last of
   its piece, so its continuation starts the next piece.  Hence nothing is dropped,
   duplicated, reordered or fused and no separator appears inside a word.
   msg_words text = the non-empty entries of splitMessage's own word list for the
   sanitised (ToValidUTF8 "?"), edge-trimmed text. *)
Theorem C11_content : forall text w ps,
  Forall (fun b => is_code b = false) text ->
  split_message text w = Ok ps -> layout (msg_words text) ps.
Proof. exact split_message_content. Qed.
Print Assumptions C11_content.

(* ... where these words are the tokenisation, in the relational sense of
   Spec/SplitSpec.v `tokenised`, of the sanitised text with its edges trimmed: the text is
   separators (TAB LF VT FF CR SPACE NEL NBSP) and words, each word non-empty, free of
   separators and followed by a separator or the end. *)
Theorem C11_words : forall text,
  tokenised (trim_space (to_valid_utf8 qmark text)) (msg_words text).
Proof. exact msg_words_tokenised. Qed.
Print Assumptions C11_words.

(* no empty piece; and no piece at all for a text without words *)
Theorem C11_content_nonempty : forall ws ps, layout ws ps -> Forall (fun p => p <> []) ps.
Proof. exact layout_nonempty. Qed.
Print Assumptions C11_content_nonempty.

Theorem C11_content_nothing : forall ps, layout [] ps -> ps = [].
Proof. exact layout_nil. Qed.
Print Assumptions C11_content_nothing.

(* For every text (also with control codes or invalid UTF-8): every piece is well-formed
   UTF-8, i.e. chunk boundaries are character boundaries, and the final ToValidUTF8 pass
   of splitMessage changes nothing. *)
Theorem C11_pieces_valid : forall text w ps, split_message text w = Ok ps -> Forall wf ps.
Proof. exact split_message_wf. Qed.
Print Assumptions C11_pieces_valid.

Theorem C11_final_pass_identity : forall text w, split_message text w = split_raw text w.
Proof. exact split_message_raw. Qed.
Print Assumptions C11_final_pass_identity.

(* Join: every channel exactly once and in order ... *)
Theorem C11_join : forall chans mel,
  Forall (fun c => c <> [] /\ ~ In 44%N c) chans ->
  flat_map (split_byte 44) (join_batches chans mel) = chans.
Proof. exact join_batches_concat. Qed.
Print Assumptions C11_join.

(* ... no JOIN without a channel ... *)
Theorem C11_join_nonempty : forall chans mel,
  Forall (fun c => c <> []) chans -> Forall (fun b => b <> []) (join_batches chans mel).
Proof. exact join_batches_nonempty. Qed.
Print Assumptions C11_join_nonempty.

(* ... and "JOIN " ++ batch fits, unless the batch is one of the given channels, too
   long by itself. *)
Theorem C11_join_fits : forall chans mel,
  Forall (fun b => (Zlen JOIN + 1 + Zlen b <= mel)%Z \/ In b chans) (join_batches chans mel).
Proof. exact join_batches_fit. Qed.
Print Assumptions C11_join_fits.

Theorem C11_list : forall chans mel,
  Forall (fun c => c <> [] /\ ~ In 44%N c) chans ->
  flat_map (split_byte 44) (list_batches chans mel) = chans.
Proof. exact join_batches_concat. Qed.
Print Assumptions C11_list.

Theorem C11_list_nonempty : forall chans mel,
  Forall (fun c => c <> []) chans -> Forall (fun b => b <> []) (list_batches chans mel).
Proof. exact join_batches_nonempty. Qed.
Print Assumptions C11_list_nonempty.

Theorem C11_list_fits : forall chans mel,
  Forall (fun b => (Zlen LIST + 1 + Zlen b <= mel)%Z \/ In b chans) (list_batches chans mel).
Proof. exact join_batches_fit. Qed.
Print Assumptions C11_list_fits.

(* After any sequence of 005 lines: with L the advertised LINELEN (512 when the server
   never sent one) and P the prefix estimate from NICKLEN/MAXNICKLEN/USERLEN/HOSTLEN,
   MaxEventLength = L - 2 - P, under the code's own guard P < L (P < 510 when no
   LINELEN was sent). *)
Theorem C11_limit : forall evs,
  let s := fold_left handle_isupport evs state_init in
  let P := prefix_estimate (st_opts s) in
  (forall L, opt_num (st_opts s) k_LINELEN = Some L -> (P < L)%Z ->
     max_event_length s = (L - 2 - P)%Z) /\
  (alookup k_LINELEN (st_opts s) = None -> (P < 510)%Z ->
     max_event_length s = (512 - 2 - P)%Z).
Proof. exact max_event_length_formula. Qed.
Print Assumptions C11_limit.

(* The same on a client object that was connected before: after the reset that precedes
   every connection (reset_conn = state.reset(false)), only THIS connection's 005 lines
   count, whatever state s0 the earlier connections left behind ... *)
Theorem C11_limit_reconnect : forall s0 evs,
  let s := fold_left handle_isupport evs (reset_conn s0) in
  let P := prefix_estimate (st_opts s) in
  (forall L, opt_num (st_opts s) k_LINELEN = Some L -> (P < L)%Z ->
     max_event_length s = (L - 2 - P)%Z) /\
  (alookup k_LINELEN (st_opts s) = None -> (P < 510)%Z ->
     max_event_length s = (512 - 2 - P)%Z).
Proof. exact max_event_length_reconnect. Qed.
Print Assumptions C11_limit_reconnect.

(* ... and options and both limits are exactly those of a first connection that sees the
   same lines (also where the guard fails). *)
Theorem C11_limit_reconnect_fresh : forall s0 evs,
  same_limits (fold_left handle_isupport evs (reset_conn s0)) (fold_left handle_isupport evs state_init).
Proof. exact reconnect_as_fresh. Qed.
Print Assumptions C11_limit_reconnect_fresh.

(* One accepted 005 line, without any guard: the exact new limits. *)
Theorem C11_limit_step : forall s e, isupport_accepted e ->
  let s' := handle_isupport s e in
  let opts' := isupport_tokens (st_opts s) (tl (e_params e)) in
  let L := match opt_num opts' k_LINELEN with Some t => t | None => st_maxline s end in
  st_opts s' = opts' /\
  st_maxline s' = match opt_num opts' k_LINELEN with Some t => (t - 2)%Z | None => st_maxline s end /\
  st_maxprefix s' = if (prefix_estimate opts' <? L)%Z then prefix_estimate opts' else st_maxprefix s.
Proof. exact handle_isupport_step. Qed.
Print Assumptions C11_limit_step.

Theorem C11_limit_ignored : forall s e, ~ isupport_accepted e -> handle_isupport s e = s.
Proof. exact handle_isupport_rejected. Qed.
Print Assumptions C11_limit_ignored.
