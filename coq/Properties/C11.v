(* C11 — Outgoing messages respect the line limit without losing content.
   Only statements here; proofs live in Proofs/SplitProofs.v.  Model: Model/Split.v
   (splitMessage, Event.split, Join/List, MaxEventLength) and Model/State.v
   (handle_isupport); specification vocabulary: Spec/SplitSpec.v. *)
Require Import Bytes Utf8 AMap WireOut State Split SplitSpec SplitProofs.

(* splitMessage returns for every text and every width (also <= 0): no slice is out of
   range and the word loop terminates (Panic also stands for "out of fuel"). *)
Theorem C11_no_panic : forall text w, split_message text w <> Panic.
Proof. exact split_message_no_panic. Qed.
Print Assumptions C11_no_panic.

Theorem C11_event_no_panic : forall e max, event_split e max <> Panic.
Proof. exact event_split_no_panic. Qed.
Print Assumptions C11_event_no_panic.

(* Join: every channel exactly once and in order ... *)
Theorem C11_join : forall chans mel,
  Forall (fun c => c <> [] /\ ~ In 44%N c) chans ->
  flat_map (split_byte 44) (join_batches chans mel) = chans.
Proof. exact join_batches_concat. Qed.
Print Assumptions C11_join.

(* ... no JOIN without a channel ... *)
Theorem C11_join_nonempty : forall chans mel,
  Forall (fun c => c <> []) chans -> Forall (fun b => b <> []) (join_batches chans mel).
Proof. exact join_batches_nonempty. Qed.
Print Assumptions C11_join_nonempty.

(* ... and "JOIN " ++ batch fits, unless the batch is one of the given channels, too
   long by itself. *)
Theorem C11_join_fits : forall chans mel,
  Forall (fun b => (Zlen JOIN + 1 + Zlen b <= mel)%Z \/ In b chans) (join_batches chans mel).
Proof. exact join_batches_fit. Qed.
Print Assumptions C11_join_fits.

Theorem C11_list : forall chans mel,
  Forall (fun c => c <> [] /\ ~ In 44%N c) chans ->
  flat_map (split_byte 44) (list_batches chans mel) = chans.
Proof. exact join_batches_concat. Qed.
Print Assumptions C11_list.

Theorem C11_list_nonempty : forall chans mel,
  Forall (fun c => c <> []) chans -> Forall (fun b => b <> []) (list_batches chans mel).
Proof. exact join_batches_nonempty. Qed.
Print Assumptions C11_list_nonempty.

Theorem C11_list_fits : forall chans mel,
  Forall (fun b => (Zlen LIST + 1 + Zlen b <= mel)%Z \/ In b chans) (list_batches chans mel).
Proof. exact join_batches_fit. Qed.
Print Assumptions C11_list_fits.

(* After any sequence of 005 lines: with L the advertised LINELEN (512 when the server
   never sent one) and P the prefix estimate from NICKLEN/MAXNICKLEN/USERLEN/HOSTLEN,
   MaxEventLength = L - 2 - P, under the code's own guard P < L (P < 510 when no
   LINELEN was sent). *)
Theorem C11_limit : forall evs,
  let s := fold_left handle_isupport evs state_init in
  let P := prefix_estimate (st_opts s) in
  (forall L, opt_num (st_opts s) k_LINELEN = Some L -> (P < L)%Z ->
     max_event_length s = (L - 2 - P)%Z) /\
  (alookup k_LINELEN (st_opts s) = None -> (P < 510)%Z ->
     max_event_length s = (512 - 2 - P)%Z).
Proof. exact max_event_length_formula. Qed.
Print Assumptions C11_limit.

(* One accepted 005 line, without any guard: the exact new limits. *)
Theorem C11_limit_step : forall s e, isupport_accepted e ->
  let s' := handle_isupport s e in
  let opts' := isupport_tokens (st_opts s) (tl (e_params e)) in
  let L := match opt_num opts' k_LINELEN with Some t => t | None => st_maxline s end in
  st_opts s' = opts' /\
  st_maxline s' = match opt_num opts' k_LINELEN with Some t => (t - 2)%Z | None => st_maxline s end /\
  st_maxprefix s' = if (prefix_estimate opts' <? L)%Z then prefix_estimate opts' else st_maxprefix s.
Proof. exact handle_isupport_step. Qed.
Print Assumptions C11_limit_step.

Theorem C11_limit_ignored : forall s e, ~ isupport_accepted e -> handle_isupport s e = s.
Proof. exact handle_isupport_rejected. Qed.
Print Assumptions C11_limit_ignored.
