// racehunt: the search tool of property C12.  Built with `go build -race`, it drives one girc
// client through a scripted server conversation (registration, ISUPPORT, joins, NAMES, parts,
// kicks, quits, nick and mode changes, topics, AWAY/ACCOUNT/CHGHOST, WHO replies, CAP traffic,
// CTCP requests) while many goroutines use the documented concurrent-safe API: state getters
// (and the snapshots they return), senders, handler and CTCP registrars, connection queries,
// a closer; user handlers call back into the client.  A data race is reported by the race
// detector (GORACE log_path=...), a deadlock by the watchdog (all goroutine stacks are dumped
// and the exit code is 3).  Exit code 0: the round completed.
//
// It is NOT part of the proof: it turns a violated lock discipline into a concrete schedule
// when it can (bin/locks-racehunt), and runs in the thorough tier.
package main

import (
	"bufio"
	"flag"
	"fmt"
	"math/rand"
	"net"
	"os"
	"runtime"
	"runtime/pprof"
	"strings"
	"sync"
	"sync/atomic"
	"time"

	"github.com/lrstanley/girc"
)

var (
	seed     = flag.Int64("seed", 1, "PRNG seed of the event script")
	rounds   = flag.Int("rounds", 2, "connections per run (the client is reused)")
	events   = flag.Int("events", 400, "server events per connection")
	workers  = flag.Int("workers", 4, "goroutines per API group")
	watchdog = flag.Duration("watchdog", 60*time.Second, "an API call (getter, registrar) or a phase of the driver that makes no progress for this long is a deadlock (senders: twice as long, girc's own write timeout is 30 s)")
	known    = flag.Bool("known", false, "also provoke the unrepaired known findings (STS upgrade, CTCP FINGER, CTCP handler that registers)")
	dumpTo   = flag.String("dump", "", "file for the goroutine dump on deadlock")
	flood    = flag.Bool("flood", true, "Config.AllowFlood: false sends through the rate limiter (ircConn.rate under ircConn.mu), slower")
)

var nicks = []string{"alice", "bob", "carol", "dave", "erin", "frank", "Grace", "heidi[1]", "ivan^", "judy"}
var chans = []string{"#one", "#two", "#Three", "#four"}

type script struct {
	r     *rand.Rand
	me    string
	in    map[string]map[string]bool // channel -> nick set (server view)
	lines []string
}

func (s *script) add(format string, a ...interface{}) {
	s.lines = append(s.lines, fmt.Sprintf(format, a...))
}

func (s *script) pick(xs []string) string { return xs[s.r.Intn(len(xs))] }

func (s *script) build(n int) {
	s.in = map[string]map[string]bool{}
	s.add(":srv 001 %s :Welcome", s.me)
	s.add(":srv 004 %s srv ircd-1.0 iow ntk", s.me)
	s.add(":srv 005 %s NETWORK=TestNet PREFIX=(qaohv)~&@%%+ CHANMODES=beI,k,l,imnpst CHANTYPES=# NICKLEN=30 LINELEN=1024 :are supported", s.me)
	s.add(":srv CAP %s LS :account-notify away-notify chghost multi-prefix userhost-in-names extended-join account-tag message-tags", s.me)
	s.add(":srv CAP %s ACK :account-notify away-notify chghost multi-prefix userhost-in-names extended-join", s.me)
	s.add(":srv 375 %s :- motd start", s.me)
	s.add(":srv 372 %s :- line one", s.me)
	for _, c := range chans[:3] {
		s.join(s.me, c)
		s.names(c)
	}
	for i := 0; i < n; i++ {
		c := s.pick(chans)
		nk := s.pick(nicks)
		switch s.r.Intn(20) {
		case 0, 1, 2:
			s.join(nk, c)
		case 3:
			if s.in[c][nk] {
				s.add(":%s!u@h PART %s :bye", nk, c)
				delete(s.in[c], nk)
			}
		case 4:
			s.add(":%s!u@h QUIT :gone", nk)
			for _, m := range s.in {
				delete(m, nk)
			}
		case 5:
			nn := s.pick(nicks)
			if nn != nk {
				s.add(":%s!u@h NICK %s", nk, nn)
				for _, m := range s.in {
					if m[nk] {
						delete(m, nk)
						m[nn] = true
					}
				}
			}
		case 6, 7, 8:
			s.add(":op!o@h MODE %s %s %s", c, s.pick([]string{"+o", "-o", "+v", "-v", "+h"}), nk)
		case 9:
			s.add(":op!o@h MODE %s %s", c, s.pick([]string{"+nt", "-m", "+k key", "-k key", "+l 10", "+b *!*@bad"}))
		case 10:
			s.add(":srv 324 %s %s +ntk key", s.me, c)
		case 11:
			s.add(":%s!u@h TOPIC %s :topic %d", nk, c, i)
		case 12:
			s.add(":op!o@h KICK %s %s :out", c, nk)
			delete(s.in[c], nk)
		case 13:
			s.names(c)
		case 14:
			s.add(":%s!u@h AWAY :brb", nk)
			s.add(":%s!u@h ACCOUNT acc%d", nk, i%3)
		case 15:
			s.add(":%s!u@h CHGHOST newu new.host", nk)
			s.add(":srv 352 %s %s u h srv %s H@ :0 Real Name", s.me, c, nk)
		case 16:
			s.add(":%s!u@h PRIVMSG %s :hello %d", nk, c, i)
			s.add("@account=acc :%s!u@h PRIVMSG %s :tagged", nk, s.me)
		case 17:
			s.add(":%s!u@h PRIVMSG %s :\x01%s\x01", nk, s.me, s.pick([]string{"VERSION", "PING 123", "TIME", "SOURCE", "WHATEVER x"}))
			if *known {
				s.add(":%s!u@h PRIVMSG %s :\x01FINGER\x01", nk, s.me)
				s.add(":%s!u@h PRIVMSG %s :\x01REGISTER\x01", nk, s.me)
			}
		case 18:
			s.add(":srv CAP %s %s :%s", s.me, s.pick([]string{"NEW", "DEL"}), s.pick([]string{"away-notify", "batch", "chghost"}))
			s.add("PING :srv%d", i)
		case 19:
			// we part and come back, or change our own nick
			if s.r.Intn(2) == 0 {
				s.add(":%s!me@h PART %s", s.me, c)
				delete(s.in, c)
				s.join(s.me, c)
				s.names(c)
			} else {
				nn := s.me + "_"
				if strings.HasSuffix(s.me, "_") {
					nn = strings.TrimSuffix(s.me, "_")
				}
				s.add(":%s!me@h NICK %s", s.me, nn)
				s.me = nn
			}
		}
	}
	if *known {
		s.add(":srv CAP %s LS :sts=port=6697", s.me)
		s.add(":srv CAP %s ACK :sts", s.me)
	}
}

func (s *script) join(nk, c string) {
	if s.in[c] == nil {
		if nk != s.me {
			return
		}
		s.in[c] = map[string]bool{}
	}
	s.in[c][nk] = true
	s.add(":%s!u@h JOIN %s acc :Real", nk, c)
}

func (s *script) names(c string) {
	if s.in[c] == nil {
		return
	}
	var l []string
	for nk := range s.in[c] {
		l = append(l, s.pick([]string{"", "@", "+", "@+", "~"})+nk+"!u@h")
	}
	l = append(l, "@op!o@h")
	s.add(":srv 353 %s = %s :%s", s.me, c, strings.Join(l, " "))
	s.add(":srv 366 %s %s :End", s.me, c)
}

// libGoroutines: the stacks of all goroutines that are inside package girc (or were created
// by it), "" when there is none.
func libGoroutines() string {
	var b strings.Builder
	pprof.Lookup("goroutine").WriteTo(&b, 2)
	var out []string
	for _, g := range strings.Split(b.String(), "\n\n") {
		if strings.Contains(g, "github.com/lrstanley/girc") && !strings.Contains(g, "main.libGoroutines") {
			out = append(out, g)
		}
	}
	return strings.Join(out, "\n\n")
}

var sink int64

func use(xs ...interface{}) { atomic.AddInt64(&sink, int64(len(xs))) }

func getters(c *girc.Client, r *rand.Rand) {
	switch r.Intn(16) {
	case 0:
		use(c.GetNick(), c.GetID(), c.GetIdent(), c.GetHost())
	case 1:
		for _, ch := range c.Channels() {
			use(ch.Name, ch.Topic, len(ch.UserList), ch.Modes.String(), ch.Len(), ch.UserIn("alice"), ch.Lifetime())
			ch.UserList = append(ch.UserList, "x") // snapshots are ours
			_, _ = ch.Modes.Get("k")
			use(ch.Modes.HasMode("n"))
		}
	case 2:
		for _, u := range c.Users() {
			use(u.Nick, u.Host, u.Extras.Account, u.Extras.Away, len(u.ChannelList), u.InChannel("#one"), u.IsActive())
			p, _ := u.Perms.Lookup("#one")
			use(p.IsAdmin(), p.IsTrusted())
			u.ChannelList = nil
		}
	case 3:
		use(c.ChannelList(), c.UserList())
	case 4:
		if ch := c.LookupChannel(chans[r.Intn(len(chans))]); ch != nil {
			use(ch.Name, len(ch.UserList), ch.Modes.String())
			for _, u := range ch.Users(c) {
				use(u != nil)
			}
			use(len(ch.Trusted(c)), len(ch.Admins(c)))
		}
	case 5:
		if u := c.LookupUser(nicks[r.Intn(len(nicks))]); u != nil {
			use(u.Nick, u.Ident, u.LastActive, u.Lifetime(), u.Active())
			use(len(u.Channels(c)))
			b, _ := u.Perms.MarshalJSON()
			use(len(b))
		}
	case 6:
		use(c.IsInChannel("#one"), c.IsInChannel("#nope"))
	case 7:
		v, ok := c.GetServerOption("NETWORK")
		n, ok2 := c.GetServerOptionInt("NICKLEN")
		use(v, ok, n, ok2, c.NetworkName(), c.ServerVersion(), c.ServerMOTD())
	case 8:
		use(c.HasCapability("away-notify"), c.HasCapability("sasl"))
	case 9:
		use(c.IsConnected(), c.Latency(), c.MaxEventLength(), c.Lifetime())
	case 10:
		up, err := c.Uptime()
		since, err2 := c.ConnSince()
		use(up, err, since, err2)
	case 11:
		use(c.Server(), c.String())
	case 12:
		use(c.Handlers.Len(), c.Handlers.Count("PRIVMSG"), c.Handlers.String())
	case 13:
		st, err := c.TLSConnectionState()
		use(st, err)
	default:
		use(c.GetNick(), c.IsConnected())
	}
}

// sendOK is cleared shortly before the connection is closed: a sender blocked on the full
// tx queue keeps Client.mu read-locked for up to 30 s (girc's write timeout), which stalls
// the clean-up of Connect; that is a stall with a bound, not the deadlock we hunt.
var sendOK int32

// connq hammers the connection queries (Client.mu / ircConn.mu), so that some of them are in
// flight whenever a connection is set up or torn down.
func connq(c *girc.Client, r *rand.Rand) {
	up, err := c.Uptime()
	since, err2 := c.ConnSince()
	use(up, err, since, err2, c.IsConnected(), c.Latency())
	if r.Intn(4) == 0 {
		st, err3 := c.TLSConnectionState()
		use(st, err3)
	}
}

func senders(c *girc.Client, r *rand.Rand) {
	if atomic.LoadInt32(&sendOK) == 0 {
		time.Sleep(200 * time.Microsecond)
		return
	}
	switch r.Intn(7) {
	case 0:
		c.Cmd.Message("#one", "{red,blue}hi{c} {b}there{b} {green,black}x{c}")
	case 1:
		c.Cmd.Notice("bob", "{yellow,red}psst{c}")
		use(girc.Fmt("{teal,white}direct{c}"), girc.TrimFmt("{red}x"))
	case 2:
		c.Cmd.Who("#two")
	case 3:
		c.Cmd.Mode("#one", "+v", "bob")
	case 4:
		c.Send(&girc.Event{Command: girc.PRIVMSG, Params: []string{"#one", strings.Repeat("long ", 200)}})
	case 5:
		c.Cmd.Join("#five")
		c.Cmd.Part("#five")
	case 6:
		c.Cmd.SendCTCP("bob", "PING", "1")
	}
	time.Sleep(time.Duration(r.Intn(300)) * time.Microsecond)
}

func registrars(c *girc.Client, r *rand.Rand) {
	switch r.Intn(5) {
	case 0:
		id := c.Handlers.Add(girc.PRIVMSG, func(cl *girc.Client, e girc.Event) { use(cl.GetNick()) })
		time.Sleep(time.Duration(r.Intn(500)) * time.Microsecond)
		c.Handlers.Remove(id)
	case 1:
		id := c.Handlers.AddBg(girc.JOIN, func(cl *girc.Client, e girc.Event) { use(cl.LookupChannel(e.Params[0])) })
		time.Sleep(time.Duration(r.Intn(500)) * time.Microsecond)
		c.Handlers.Remove(id)
	case 2:
		rm := r.Intn(2) == 0
		id, done := c.Handlers.AddTmp(girc.MODE, 2*time.Millisecond, func(cl *girc.Client, e girc.Event) bool {
			use(cl.UserList())
			return rm
		})
		if r.Intn(2) == 0 {
			c.Handlers.Remove(id)
		}
		_ = done
	case 3:
		c.CTCP.Set("WHATEVER", func(cl *girc.Client, ev girc.CTCPEvent) { use(cl.GetNick(), ev.Text) })
		c.CTCP.SetBg("OTHER", func(cl *girc.Client, ev girc.CTCPEvent) {})
		c.CTCP.Clear("OTHER")
	case 4:
		c.Handlers.Clear(girc.NOTICE)
		use(c.Handlers.Count(girc.NOTICE))
	}
}

func main() {
	flag.Parse()
	r := rand.New(rand.NewSource(*seed))
	cfg := girc.Config{Server: "dummy.int", Port: 6667, Nick: "hunter", User: "hunt", Name: "race hunt", AllowFlood: *flood,
		GlobalFormat: true} // Send runs the text through Fmt
	if !*flood {
		// Through the rate limiter every Send sleeps a second or more once a few lines were
		// sent: keep the round short (the fake server does not answer PING, and handlers that
		// send would hold up event dispatch), the point is concurrent Send/rate calls.
		cfg.PingDelay = -1
		if *events > 30 {
			*events = 30
		}
	}
	c := girc.New(cfg)

	// handlers that call back into the client
	c.Handlers.Add(girc.ALL_EVENTS, func(cl *girc.Client, e girc.Event) {
		use(cl.GetNick(), cl.IsConnected())
		if e.Source != nil {
			if u := cl.LookupUser(e.Source.Name); u != nil {
				use(u.Nick, len(u.ChannelList))
			}
		}
	})
	c.Handlers.Add(girc.UPDATE_STATE, func(cl *girc.Client, e girc.Event) { use(cl.ChannelList(), cl.GetHost()) })
	c.Handlers.Add(girc.UPDATE_GENERAL, func(cl *girc.Client, e girc.Event) { use(cl.ServerMOTD(), cl.GetNick()) })
	c.Handlers.AddBg(girc.PRIVMSG, func(cl *girc.Client, e girc.Event) {
		if *flood {
			cl.Cmd.Reply(e, "ack")
		}
	})
	c.Handlers.Add(girc.JOIN, func(cl *girc.Client, e girc.Event) {
		if ch := cl.LookupChannel(e.Params[0]); ch != nil {
			use(ch.Len())
		}
		if *flood {
			cl.Cmd.Who(e.Params[0])
		}
	})
	c.CTCP.Set("*", func(cl *girc.Client, ev girc.CTCPEvent) { use(cl.GetNick(), cl.UserList()) })
	if *known {
		c.CTCP.Set("REGISTER", func(cl *girc.Client, ev girc.CTCPEvent) { cl.CTCP.Clear("NOTHING") })
		c.Handlers.Add(girc.STS_UPGRADE_INIT, func(cl *girc.Client, e girc.Event) { use(cl.GetNick()) })
	}

	var phase atomic.Value
	phase.Store("start")
	finished := make(chan struct{})
	// progress stamps (unix nanoseconds): one per worker, one for the driver
	nworkers := *workers * 5
	stamps := make([]int64, nworkers+1)
	kinds := make([]string, nworkers+1)
	now := func() int64 { return time.Now().UnixNano() }
	for i := range stamps {
		stamps[i] = now()
	}
	kinds[nworkers] = "driver"
	tick := func(i int) { atomic.StoreInt64(&stamps[i], now()) }
	fail := func(msg string) {
		os.Stderr.WriteString(msg)
		if *dumpTo != "" {
			if f, err := os.Create(*dumpTo); err == nil {
				f.WriteString(msg)
				pprof.Lookup("goroutine").WriteTo(f, 2)
				f.Close()
			}
		} else {
			pprof.Lookup("goroutine").WriteTo(os.Stderr, 2)
		}
		os.Exit(3)
	}
	go func() {
		for {
			select {
			case <-finished:
				return
			case <-time.After(time.Second):
			}
			for i := range stamps {
				limit := *watchdog
				if kinds[i] == "senders" || kinds[i] == "driver" {
					limit = 2 * *watchdog
				}
				if age := time.Duration(now() - atomic.LoadInt64(&stamps[i])); age > limit {
					fail(fmt.Sprintf("DEADLOCK: %s #%d made no progress for %v in phase %q (seed %d, GOMAXPROCS %d)\n",
						kinds[i], i, age.Round(time.Second), phase.Load(), *seed, runtime.GOMAXPROCS(0)))
				}
			}
		}
	}()

	// API goroutines run across connections (also while disconnected)
	var stop int32
	var wg sync.WaitGroup
	widx := 0
	for g := 0; g < *workers; g++ {
		for k, fn := range []func(*girc.Client, *rand.Rand){getters, getters, senders, registrars, connq} {
			wg.Add(1)
			kinds[widx] = []string{"getters", "getters", "senders", "registrars", "connq"}[k]
			go func(fn func(*girc.Client, *rand.Rand), sd int64, me int) {
				defer wg.Done()
				rr := rand.New(rand.NewSource(sd))
				for atomic.LoadInt32(&stop) == 0 {
					fn(c, rr)
					tick(me)
					if rr.Intn(8) == 0 {
						runtime.Gosched()
					}
				}
			}(fn, r.Int63(), widx)
			widx++
		}
	}

	for round := 0; round < *rounds; round++ {
		phase.Store(fmt.Sprintf("round %d: connect", round))
		cli, srv := net.Pipe()
		sc := &script{r: rand.New(rand.NewSource(*seed + int64(round)*7919)), me: "hunter"}
		sc.build(*events)
		ready := make(chan struct{})
		var once sync.Once
		hid := c.Handlers.Add(girc.INITIALIZED, func(cl *girc.Client, e girc.Event) { once.Do(func() { close(ready) }) })
		// the last line of the script: when its handler has run, every earlier event was dispatched
		marker := make(chan struct{})
		var monce sync.Once
		mid := c.Handlers.Add("399", func(cl *girc.Client, e girc.Event) { monce.Do(func() { close(marker) }) })
		sc.lines = append(sc.lines, ":srv 399 hunter :end of script")

		// the server: read and discard what the client sends, play the script
		go func() {
			br := bufio.NewReader(srv)
			for {
				if _, err := br.ReadString('\n'); err != nil {
					return
				}
			}
		}()
		done := make(chan error, 1)
		go func() { done <- c.MockConnect(cli) }()
		<-ready
		tick(nworkers)
		atomic.StoreInt32(&sendOK, 1)
		phase.Store(fmt.Sprintf("round %d: events", round))
		for i, l := range sc.lines {
			srv.SetWriteDeadline(time.Now().Add(100 * time.Second))
			if _, err := srv.Write([]byte(l + "\r\n")); err != nil {
				break
			}
			tick(nworkers)
			if i%16 == 0 {
				time.Sleep(time.Duration(sc.r.Intn(400)) * time.Microsecond)
			}
		}
		atomic.StoreInt32(&sendOK, 0)
		// blocks for ever if event dispatch is stuck: the watchdog reports it
		ended := false
		select {
		case <-marker:
		case err := <-done:
			// the client gave the connection up by itself (e.g. its own ping timeout)
			fmt.Printf("racehunt: round %d: connection ended before the end of the script: %v\n", round, err)
			ended = true
			done <- err
		}
		_ = ended
		tick(nworkers)
		time.Sleep(150 * time.Millisecond)
		phase.Store(fmt.Sprintf("round %d: close", round))
		// the closer (after the connection is up: synchronised through the INITIALIZED handler)
		var cw sync.WaitGroup
		for k := 0; k < 2; k++ {
			cw.Add(1)
			go func() { defer cw.Done(); c.Close() }()
		}
		cw.Wait()
		tick(nworkers)
		<-done
		tick(nworkers)
		srv.Close()
		c.Handlers.Remove(hid)
		c.Handlers.Remove(mid)
		phase.Store(fmt.Sprintf("round %d: disconnected", round))
		time.Sleep(10 * time.Millisecond)
	}
	phase.Store("stopping workers")
	atomic.StoreInt32(&stop, 1)
	wg.Wait()
	// every goroutine the library started must be gone some time after the last connection was
	// closed (background handlers, rate-limit sleeps and handleConnect's 2 s nap get a grace period)
	phase.Store("waiting for library goroutines to finish")
	var parked string
	for i := 0; i < 100; i++ {
		tick(nworkers)
		parked = libGoroutines()
		if parked == "" {
			break
		}
		time.Sleep(200 * time.Millisecond)
	}
	close(finished)
	if parked != "" {
		msg := fmt.Sprintf("LEAK: goroutines of the library are still parked 20 s after the last connection was closed (seed %d, GOMAXPROCS %d)\n%s\n", *seed, runtime.GOMAXPROCS(0), parked)
		os.Stderr.WriteString(msg)
		if *dumpTo != "" {
			_ = os.WriteFile(*dumpTo, []byte(msg), 0o644)
		}
		os.Exit(5)
	}
	fmt.Printf("racehunt: completed seed=%d rounds=%d events=%d GOMAXPROCS=%d sink=%d\n", *seed, *rounds, *events, runtime.GOMAXPROCS(0), atomic.LoadInt64(&sink))
}
