package main

import (
	"go/ast"
	"go/token"
	"go/types"
)

// publishedWrites finds assignments of the function's own frame to local variables that are
// captured by a function literal AFTER that literal has been published to other goroutines.
//
// A literal is published when it (or a local closure variable that refers to it, directly or
// through further closure variables) is an argument of a call that is not a synchronous
// standard-library helper (registration: register/sregister/Set/AddBg/..., any package or
// dynamic call), or the function of a `go` statement.  From that point on another goroutine
// may run it.  A write of the enclosing function to one of its captured variables is ordered
// before every run of the literal only if it completes before the publishing call starts, or
// if the publishing call sits in a critical section that syntactically encloses the write
// too (X.Lock() ... publish ... write ... X.Unlock() in one statement list: whoever finds the
// literal has to take X after that Unlock).  Every other such write is reported as a write
// of the location class "captured:<func>.<var>", whose guard nobody ever holds: a violating
// fact of the lock-set check ("captured variable written after publication").
//
// This is a syntactic rule of the translator (trusted, like the rest of it): reads of the
// enclosing function, writes inside the literals themselves and captured variables reached
// through pointers are not covered.
func (w *world) publishedWrites(f *Fn) map[*ast.Ident]string {
	if f.pubDone {
		return f.pubw
	}
	f.pubDone = true
	f.pubw = map[*ast.Ident]string{}
	if f.decl == nil || f.decl.Body == nil {
		return f.pubw
	}
	info := f.ps.info
	body := f.decl.Body

	obj := func(id *ast.Ident) types.Object {
		if o := info.Defs[id]; o != nil {
			return o
		}
		return info.Uses[id]
	}
	// local closure variables
	closures := map[types.Object]*ast.FuncLit{}
	ast.Inspect(body, func(n ast.Node) bool {
		switch s := n.(type) {
		case *ast.AssignStmt:
			if len(s.Lhs) == len(s.Rhs) {
				for i := range s.Lhs {
					if lit, ok := unparen(s.Rhs[i]).(*ast.FuncLit); ok {
						if id, ok := s.Lhs[i].(*ast.Ident); ok && obj(id) != nil {
							closures[obj(id)] = lit
						}
					}
				}
			}
		case *ast.ValueSpec:
			if len(s.Names) == len(s.Values) {
				for i := range s.Names {
					if lit, ok := unparen(s.Values[i]).(*ast.FuncLit); ok && obj(s.Names[i]) != nil {
						closures[obj(s.Names[i])] = lit
					}
				}
			}
		}
		return true
	})
	// variables of f's frame captured by a literal, closure variables followed
	var captured func(lit *ast.FuncLit, seen map[*ast.FuncLit]bool, out map[types.Object]bool)
	captured = func(lit *ast.FuncLit, seen map[*ast.FuncLit]bool, out map[types.Object]bool) {
		if seen[lit] {
			return
		}
		seen[lit] = true
		ast.Inspect(lit.Body, func(n ast.Node) bool {
			id, ok := n.(*ast.Ident)
			if !ok {
				return true
			}
			v, ok := info.Uses[id].(*types.Var)
			if !ok || v.IsField() || v.Pkg() == nil {
				return true
			}
			// declared in f (parameters and results included), outside this literal
			if v.Pos() < f.decl.Pos() || v.Pos() > f.decl.End() || (v.Pos() >= lit.Pos() && v.Pos() <= lit.End()) {
				return true
			}
			if inner, ok := closures[v]; ok {
				captured(inner, seen, out)
				return true
			}
			out[v] = true
			return true
		})
	}
	// literal (or closure variable) behind an argument expression
	litOf := func(e ast.Expr) *ast.FuncLit {
		for {
			e = unparen(e)
			if c, ok := e.(*ast.CallExpr); ok && len(c.Args) == 1 {
				if tv, ok := info.Types[c.Fun]; ok && tv.IsType() { // conversion, e.g. HandlerFunc(func...)
					e = c.Args[0]
					continue
				}
			}
			break
		}
		switch x := e.(type) {
		case *ast.FuncLit:
			return x
		case *ast.Ident:
			if o := info.Uses[x]; o != nil {
				return closures[o]
			}
		}
		return nil
	}
	syncStdlib := func(c *ast.CallExpr) bool {
		var fn *types.Func
		switch fun := unparen(c.Fun).(type) {
		case *ast.Ident:
			fn, _ = info.Uses[fun].(*types.Func)
		case *ast.SelectorExpr:
			if sel := info.Selections[fun]; sel != nil {
				fn, _ = sel.Obj().(*types.Func)
			} else {
				fn, _ = info.Uses[fun.Sel].(*types.Func)
			}
		}
		if fn == nil || fn.Pkg() == nil || w.ours(fn.Pkg()) {
			return false
		}
		return !(fn.Pkg().Path() == "time" && fn.Name() == "AfterFunc")
	}

	type pub struct {
		vars    map[types.Object]bool
		stmt    ast.Stmt
		callPos token.Pos // start of the publishing call
		callEnd token.Pos
		safeEnd token.Pos // end of the enclosing critical section, if any
	}
	var pubs []*pub

	isLockCall := func(s ast.Stmt, names ...string) string {
		es, ok := s.(*ast.ExprStmt)
		if !ok {
			return ""
		}
		c, ok := es.X.(*ast.CallExpr)
		if !ok {
			return ""
		}
		sel, ok := c.Fun.(*ast.SelectorExpr)
		if !ok {
			return ""
		}
		for _, n := range names {
			if sel.Sel.Name == n {
				return exprString(sel.X)
			}
		}
		return ""
	}
	// walk statement lists so that the enclosing critical section of a publication can be found
	var walkList func(list []ast.Stmt)
	var walkStmt func(s ast.Stmt, list []ast.Stmt, idx int)
	record := func(lit *ast.FuncLit, call ast.Node, s ast.Stmt, list []ast.Stmt, idx int) {
		p := &pub{vars: map[types.Object]bool{}, stmt: s, callPos: call.Pos(), callEnd: call.End()}
		captured(lit, map[*ast.FuncLit]bool{}, p.vars)
		if len(p.vars) == 0 {
			return
		}
		// X.Lock() earlier in the same list without an X.Unlock() in between, and the X.Unlock() after
		held := map[string]bool{}
		for i := 0; i < idx; i++ {
			if x := isLockCall(list[i], "Lock", "RLock"); x != "" {
				held[x] = true
			}
			if x := isLockCall(list[i], "Unlock", "RUnlock"); x != "" {
				delete(held, x)
			}
		}
		for i := idx + 1; i < len(list) && len(held) > 0; i++ {
			if x := isLockCall(list[i], "Unlock", "RUnlock"); x != "" && held[x] {
				p.safeEnd = list[i].Pos()
				break
			}
		}
		pubs = append(pubs, p)
	}
	walkStmt = func(s ast.Stmt, list []ast.Stmt, idx int) {
		if s == nil {
			return
		}
		// publications inside this statement (not inside nested statement lists or literals)
		ast.Inspect(s, func(n ast.Node) bool {
			switch x := n.(type) {
			case *ast.FuncLit:
				return false
			case *ast.BlockStmt:
				if n != ast.Node(s) {
					return false
				}
			case *ast.GoStmt:
				if lit := litOf(x.Call.Fun); lit != nil {
					record(lit, x.Call, s, list, idx)
				}
				for _, a := range x.Call.Args {
					if lit := litOf(a); lit != nil {
						record(lit, x.Call, s, list, idx)
					}
				}
			case *ast.CallExpr:
				if tv, ok := info.Types[x.Fun]; ok && tv.IsType() {
					return true
				}
				if syncStdlib(x) {
					return true
				}
				for _, a := range x.Args {
					if lit := litOf(a); lit != nil {
						record(lit, x, s, list, idx)
					}
				}
			}
			return true
		})
		// nested lists
		switch x := s.(type) {
		case *ast.BlockStmt:
			walkList(x.List)
		case *ast.IfStmt:
			walkList(x.Body.List)
			if x.Else != nil {
				walkStmt(x.Else, nil, 0)
			}
		case *ast.ForStmt:
			walkList(x.Body.List)
		case *ast.RangeStmt:
			walkList(x.Body.List)
		case *ast.SwitchStmt:
			for _, c := range x.Body.List {
				walkList(c.(*ast.CaseClause).Body)
			}
		case *ast.TypeSwitchStmt:
			for _, c := range x.Body.List {
				walkList(c.(*ast.CaseClause).Body)
			}
		case *ast.SelectStmt:
			for _, c := range x.Body.List {
				walkList(c.(*ast.CommClause).Body)
			}
		case *ast.LabeledStmt:
			walkStmt(x.Stmt, list, idx)
		}
	}
	walkList = func(list []ast.Stmt) {
		for i, s := range list {
			walkStmt(s, list, i)
		}
	}
	walkList(body.List)
	if len(pubs) == 0 {
		return f.pubw
	}
	// writes of f's own frame (not inside literals) to captured variables
	mark := func(id *ast.Ident, s ast.Stmt) {
		o := obj(id)
		if o == nil {
			return
		}
		for _, p := range pubs {
			if !p.vars[o] {
				continue
			}
			after := s == p.stmt || s.Pos() >= p.callEnd
			if s == p.stmt && s.Pos() < p.callPos {
				// the assignment whose right-hand side is the publishing call: it completes after it
				after = true
			}
			if !after {
				continue
			}
			if p.safeEnd != token.NoPos && s.Pos() < p.safeEnd {
				continue // inside the critical section that also contains the publication
			}
			f.pubw[id] = "captured:" + f.name + "." + id.Name
		}
	}
	ast.Inspect(body, func(n ast.Node) bool {
		switch s := n.(type) {
		case *ast.FuncLit:
			return false
		case *ast.AssignStmt:
			if s.Tok == token.DEFINE {
				return true
			}
			for _, l := range s.Lhs {
				if id, ok := unparen(l).(*ast.Ident); ok {
					mark(id, s)
				}
			}
		case *ast.IncDecStmt:
			if id, ok := unparen(s.X).(*ast.Ident); ok {
				mark(id, s)
			}
		}
		return true
	})
	return f.pubw
}
