package main

import (
	"fmt"
	"go/ast"
	"go/types"
	"sort"
	"strings"
)

// ---- printing ----

func modeS(w bool) string {
	if w {
		return "MW"
	}
	return "MR"
}

func (w *world) coqNode(n *Node) string {
	switch n.K {
	case KSkip:
		return "Skip"
	case KAcq:
		return fmt.Sprintf("Acq %d %s", n.M, modeS(n.W))
	case KRel:
		return fmt.Sprintf("Rel %d %s", n.M, modeS(n.W))
	case KDefer:
		switch n.D {
		case 'r':
			return fmt.Sprintf("Defer (DRel %d %s)", n.M, modeS(n.W))
		case 'c':
			return fmt.Sprintf("Defer (DCall %d)", n.F.outID)
		}
		return "Defer DYield"
	case KRd:
		return fmt.Sprintf("Rd %d", n.L)
	case KWr:
		return fmt.Sprintf("Wr %d", n.L)
	case KCall:
		return fmt.Sprintf("Call %d", n.F.outID)
	case KGo:
		return "Go (" + w.coqNode(n.Kids[0]) + ")"
	case KSeq:
		s := w.coqNode(n.Kids[len(n.Kids)-1])
		for i := len(n.Kids) - 2; i >= 0; i-- {
			s = "Seq (" + w.coqNode(n.Kids[i]) + ") (" + s + ")"
		}
		return s
	case KAlt:
		var p []string
		for _, k := range n.Kids {
			p = append(p, w.coqNode(k))
		}
		if len(p) == 0 {
			return "Alt []"
		}
		return "Alt [" + strings.Join(p, "; ") + "]"
	case KLoop:
		return "Loop (" + w.coqNode(n.Kids[0]) + ")"
	case KBlock:
		return fmt.Sprintf("Block %d (%s)", n.Lbl, w.coqNode(n.Kids[0]))
	case KJump:
		return fmt.Sprintf("Jump %d", n.Lbl)
	case KRet:
		return "Ret"
	case KCallback:
		return "Callback"
	case KJoin:
		return "Join"
	}
	return "Unknown"
}

func (w *world) txtNode(n *Node, ind string, b *strings.Builder) {
	p := func(s string) { b.WriteString(ind + s + "\n") }
	switch n.K {
	case KSkip:
		p("skip")
	case KAcq:
		p(fmt.Sprintf("ACQ %s %s   (%s)", w.mutexes[n.M], modeS(n.W), n.Note))
	case KRel:
		p(fmt.Sprintf("REL %s %s   (%s)", w.mutexes[n.M], modeS(n.W), n.Note))
	case KDefer:
		switch n.D {
		case 'r':
			p(fmt.Sprintf("DEFER REL %s %s", w.mutexes[n.M], modeS(n.W)))
		case 'c':
			p("DEFER CALL " + n.F.name)
		default:
			p("DEFER CALLBACK " + n.Note)
		}
	case KRd:
		p(fmt.Sprintf("rd %s   (%s)", w.locs[n.L], n.Note))
	case KWr:
		p(fmt.Sprintf("WR %s   (%s)", w.locs[n.L], n.Note))
	case KCall:
		p("call " + n.F.name)
	case KGo:
		p("go {")
		w.txtNode(n.Kids[0], ind+"  ", b)
		p("}")
	case KSeq:
		for _, k := range n.Kids {
			w.txtNode(k, ind, b)
		}
	case KAlt:
		if len(n.Kids) == 0 {
			p("HALT (explicit panic)")
		}
		for i, k := range n.Kids {
			if i == 0 {
				p("alt {")
			} else {
				p("} or {")
			}
			w.txtNode(k, ind+"  ", b)
		}
		p("}")
	case KLoop:
		p("loop {")
		w.txtNode(n.Kids[0], ind+"  ", b)
		p("}")
	case KBlock:
		p(fmt.Sprintf("block L%d {", n.Lbl))
		w.txtNode(n.Kids[0], ind+"  ", b)
		p("}")
	case KJump:
		p(fmt.Sprintf("jump L%d", n.Lbl))
	case KRet:
		if n.Note != "" {
			p("ret (" + n.Note + ")")
		} else {
			p("ret")
		}
	case KCallback:
		p("CALLBACK " + n.Note)
	case KJoin:
		p("JOIN (WaitGroup.Wait)")
	case KUnknown:
		p("UNKNOWN " + n.Note)
	}
}

func (w *world) emitted() []*Fn {
	var out []*Fn
	for _, f := range w.order {
		if f.relevant {
			out = append(out, f)
		}
	}
	return out
}

func (w *world) dump() string {
	var b strings.Builder
	b.WriteString("\n==== statement trees (functions without any action are elided) ====\n")
	for _, f := range w.emitted() {
		cls := ""
		if c, ok := w.entries[f]; ok {
			cls = "   [entry: " + c + "]"
		}
		fmt.Fprintf(&b, "\nfunc #%d %s%s\n", f.outID, f.name, cls)
		w.txtNode(f.body, "  ", &b)
	}
	return b.String()
}

func coqStr(s string) string { return "\"" + strings.ReplaceAll(s, "\"", "'") + "\"" }

func (w *world) exclCoq(name string, es []exclEntry, warn *[]string) string {
	var items []string
	for _, e := range es {
		var fids []int
		for _, f := range w.emitted() {
			base := f.name
			if i := strings.Index(base, "@"); i >= 0 {
				base = base[:i]
			}
			if e.Site != "" {
				// the outlined call site: "<func>[@variant]/<site>"
				if j := strings.Index(f.name, "/"); j >= 0 && f.name[j+1:] == e.Site {
					b2 := f.name[:j]
					if i := strings.Index(b2, "@"); i >= 0 {
						b2 = b2[:i]
					}
					if b2 == e.Func {
						fids = append(fids, f.outID)
					}
				}
				continue
			}
			if j := strings.Index(base, "/"); j >= 0 {
				continue
			}
			if f.name == e.Func || base == e.Func {
				fids = append(fids, f.outID)
			}
		}
		if len(fids) == 0 {
			*warn = append(*warn, fmt.Sprintf("%s: function %q is not in the facts (stale entry)", name, e.Func))
			continue
		}
		var item string
		switch e.Kind {
		case "loc":
			id, ok := w.locID[e.Item]
			if !ok {
				*warn = append(*warn, fmt.Sprintf("%s: location %q of %q is not in the facts (stale entry)", name, e.Item, e.Func))
				continue
			}
			item = fmt.Sprintf("XLoc %d", id)
		case "yield":
			item = "XYield"
		case "order":
			id, ok := w.mutexID[e.Item]
			if !ok {
				*warn = append(*warn, fmt.Sprintf("%s: mutex %q of %q is not in the facts (stale entry)", name, e.Item, e.Func))
				continue
			}
			item = fmt.Sprintf("XOrd %d", id)
		default:
			*warn = append(*warn, fmt.Sprintf("%s: unknown kind %q", name, e.Kind))
			continue
		}
		for _, fid := range fids {
			items = append(items, fmt.Sprintf("(%d, %s)", fid, item))
		}
	}
	return fmt.Sprintf("Definition %s : list (nat * xitem) :=\n  [%s].\n", name, strings.Join(items, "; "))
}

func natList(xs []int) string {
	var p []string
	for _, x := range xs {
		p = append(p, fmt.Sprint(x))
	}
	return "[" + strings.Join(p, "; ") + "]"
}

func strList(xs []string) string {
	var p []string
	for _, x := range xs {
		p = append(p, coqStr(x))
	}
	return "[" + strings.Join(p, ";\n   ") + "]"
}

func (w *world) coq(repo string) string {
	var b strings.Builder
	b.WriteString("(* GENERATED by harness/cmd/lockfacts from the Go source of package girc (non-test files,\n")
	b.WriteString("   build tag verif off) and conf/C12.known.json.  Data only.  Do not edit: it is rewritten\n")
	b.WriteString("   by the pre_cmd of conf/C12.json on every `bin/check C12`. *)\n")
	b.WriteString("From Coq Require Import List String.\nRequire Import Locks.\nImport ListNotations.\nOpen Scope string_scope.\n\n")
	fmt.Fprintf(&b, "Definition mutex_names : list string :=\n  %s.\n\n", strList(w.mutexes))
	fmt.Fprintf(&b, "Definition loc_names : list string :=\n  %s.\n\n", strList(w.locs))
	fmt.Fprintf(&b, "(* guarding mutex of every location class *)\nDefinition loc_guard : list nat := %s.\n\n", natList(w.locMu))
	rank := make([]int, len(w.mutexes))
	for i := range rank {
		rank[i] = i
	}
	fmt.Fprintf(&b, "(* rank of every mutex in the intended acquisition order (outermost first) *)\nDefinition mutex_rank : list nat := %s.\n\n", natList(rank))
	em := w.emitted()
	var names []string
	for _, f := range em {
		names = append(names, f.name)
	}
	fmt.Fprintf(&b, "Definition fn_names : list string :=\n  %s.\n\n", strList(names))
	var ids []string
	for _, f := range em {
		fmt.Fprintf(&b, "(* %s *)\nDefinition fn_%d : stmt :=\n  %s.\n\n", f.name, f.outID, w.coqNode(f.body))
		ids = append(ids, fmt.Sprintf("fn_%d", f.outID))
	}
	fmt.Fprintf(&b, "Definition fn_bodies : list stmt :=\n  [%s].\n\n", strings.Join(ids, "; "))
	var ents []string
	for _, f := range em {
		if c, ok := w.entries[f]; ok {
			ents = append(ents, fmt.Sprintf("(%d, %s)", f.outID, coqStr(c)))
		}
	}
	fmt.Fprintf(&b, "(* entry points with their thread class *)\nDefinition entry_points : list (nat * string) :=\n  [%s].\n\n", strings.Join(ents, "; "))
	var warn []string
	b.WriteString("(* facts excluded from the obligation and reported as KNOWN-FINDING (conf/C12.known.json) *)\n")
	b.WriteString(w.exclCoq("known_findings", w.mc.Known, &warn))
	b.WriteString("\n(* accesses outside the lock discipline by design, with reasons in conf/C12.known.json *)\n")
	b.WriteString(w.exclCoq("by_design", w.mc.Design, &warn))
	w.notes = append(w.notes, warn...)
	b.WriteString("\nDefinition facts : program :=\n  {| p_funs := fn_bodies; p_guard := loc_guard; p_rank := mutex_rank;\n     p_entries := map fst entry_points; p_excl := known_findings ++ by_design |}.\n")
	return b.String()
}

// ---- audit ----

func (w *world) audit() {
	var b strings.Builder
	cats := map[string]int{}
	var missing []string
	nsync := 0
	for _, ps := range w.pkgs {
		for _, f := range ps.files {
			ast.Inspect(f, func(n ast.Node) bool {
				switch e := n.(type) {
				case *ast.CallExpr:
					s, ok := e.Fun.(*ast.SelectorExpr)
					if !ok {
						return true
					}
					var fn *types.Func
					if sel := ps.info.Selections[s]; sel != nil {
						fn, _ = sel.Obj().(*types.Func)
					} else {
						fn, _ = ps.info.Uses[s.Sel].(*types.Func)
					}
					if fn == nil || fn.Pkg() == nil || fn.Pkg().Path() != "sync" {
						return true
					}
					nsync++
					if _, ok := w.seenSync[e.Pos()]; !ok {
						missing = append(missing, fmt.Sprintf("%s: sync call %s.%s not in the tree", w.pos(e.Pos()), exprString(s.X), s.Sel.Name))
					}
				case *ast.SelectorExpr:
					sel := ps.info.Selections[e]
					if sel == nil || sel.Kind() != types.FieldVal {
						return true
					}
					v := sel.Obj().(*types.Var)
					owner := w.structOf[v]
					if _, g := w.guardMu[owner]; !g {
						return true
					}
					c := w.seenSel[e.Sel.Pos()]
					if c == "" {
						missing = append(missing, fmt.Sprintf("%s: selector %s on guarded type %s not classified", w.pos(e.Pos()), exprString(e), owner))
					}
					cats[c]++
				}
				return true
			})
		}
	}
	fmt.Fprintf(&b, "lockfacts audit: %d sync calls in the source, %d missing from the trees\n", nsync, len(missing))
	fmt.Fprintf(&b, "lockfacts audit: selectors on guarded types: %d emitted as accesses, %d snapshot (not live), %d unguarded by configuration, %d mutex fields, %d on objects allocated in the same function, %d unclassified\n",
		cats["access"], cats["snapshot"], cats["unguarded"], cats["mutex"], cats["fresh"], cats[""])
	for _, m := range missing {
		b.WriteString("  MISSING " + m + "\n")
	}
	for _, u := range w.unknowns {
		b.WriteString("  UNKNOWN " + u + "\n")
	}
	if len(missing) > 0 {
		w.auditFailed = true
	}
	w.auditText = b.String()
}

func (w *world) report() string {
	var b strings.Builder
	em := w.emitted()
	cls := map[string]int{}
	for _, f := range em {
		if c, ok := w.entries[f]; ok {
			cls[c]++
		}
	}
	fmt.Fprintf(&b, "lockfacts: %d functions/variants/literals translated, %d with lock-relevant actions emitted; %d mutexes, %d location classes\n",
		len(w.order), len(em), len(w.mutexes), len(w.locs))
	var cs []string
	for _, k := range sortedKeys(cls) {
		cs = append(cs, fmt.Sprintf("%s=%d", k, cls[k]))
	}
	fmt.Fprintf(&b, "lockfacts: entry points by thread class: %s\n", strings.Join(cs, " "))
	fmt.Fprintf(&b, "lockfacts: mutexes (rank order): %s\n", strings.Join(w.mutexes, " < "))
	var in []string
	for k := range w.instNotes {
		in = append(in, k)
	}
	sort.Strings(in)
	fmt.Fprintf(&b, "lockfacts: mutex instances by receiver expression: %s\n", strings.Join(in, "; "))
	b.WriteString(w.auditText)
	for _, n := range w.notes {
		b.WriteString("lockfacts: NOTE " + n + "\n")
	}
	if len(w.unknowns) > 0 {
		fmt.Fprintf(&b, "lockfacts: %d Unknown node(s): the Coq check will fail\n", len(w.unknowns))
	}
	return b.String()
}
