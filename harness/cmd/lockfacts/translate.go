package main

import (
	"fmt"
	"go/ast"
	"go/token"
	"go/types"
	"sort"
	"strconv"
	"strings"
)

// ---- tree language ----

type Kind int

const (
	KSkip Kind = iota
	KAcq
	KRel
	KDefer
	KRd
	KWr
	KCall
	KGo
	KSeq
	KAlt
	KLoop
	KBlock
	KJump
	KRet
	KCallback
	KJoin
	KWait // potentially unbounded blocking operation
	KUnknown
)

type Node struct {
	K    Kind
	M    int  // mutex (Acq, Rel, Defer 'r')
	W    bool // write mode
	L    int  // location
	F    *Fn  // callee (Call, Defer 'c')
	D    byte // Defer kind: 'r' release, 'c' call, 'y' yield (dynamic call)
	Lbl  int
	Kids []*Node
	Note string
}

// neverHeld: the guard of locations that no lock protects (goroutine-confined fields, captured
// variables written after publication); nobody acquires it.
const neverHeld = "(never held)"

func skip() *Node { return &Node{K: KSkip} }

func seq(ns ...*Node) *Node {
	var kids []*Node
	for _, n := range ns {
		if n == nil || n.K == KSkip {
			continue
		}
		if n.K == KSeq {
			kids = append(kids, n.Kids...)
		} else {
			kids = append(kids, n)
		}
	}
	switch len(kids) {
	case 0:
		return skip()
	case 1:
		return kids[0]
	}
	return &Node{K: KSeq, Kids: kids}
}

// ---- functions ----

type Fn struct {
	id     int
	name   string
	obj    *types.Func
	decl   *ast.FuncDecl
	lit    *ast.FuncLit
	parent *Fn // enclosing function of a literal (shares its liveness environment)
	mask   uint
	ps     *pkgSrc
	body   *Node

	vparams   []types.Object // receiver/params of pointer-to-state-owned type, in order
	live      map[types.Object]bool
	cleansed  map[string]token.Pos  // "var.field" of a shallow copy re-assigned a fresh value at this position (top level of the body)
	shallow   map[types.Object]bool // struct values copied out of live state (and pointers to them): their slice/map/pointer fields still reference live memory
	fresh     map[types.Object]bool // locals that only ever hold objects allocated in this function
	envDone   bool
	retLive   int // 0 unknown, 1 computing, 2 false, 3 true
	relevant  bool
	outID     int // index in the emitted table, -1 if not emitted
	nlits     int
	closures  map[types.Object]*ast.FuncLit
	synthetic bool
	pubDone   bool
	goStarted bool // literal that is the function of a go statement
	pubw      map[*ast.Ident]string
}

func (f *Fn) root() *Fn {
	for f.parent != nil {
		f = f.parent
	}
	return f
}

type world struct {
	fset *token.FileSet
	pkgs []*pkgSrc
	mc   *modelConf

	decls    map[*types.Func]*ast.FuncDecl
	declPkg  map[*types.Func]*pkgSrc
	fns      map[string]*Fn
	order    []*Fn
	queue    []*Fn
	litFns   map[string]*Fn
	structOf map[*types.Var]string // field -> owning named struct
	guardMu  map[string]string     // guarded struct type -> mutex name
	muField  map[string]string     // guarded struct type -> name of its mutex field ("" embedded)
	owned    map[string]bool
	always   map[string]bool

	mutexes []string
	mutexID map[string]int
	locs    []string
	locID   map[string]int
	locMu   []int

	entries map[*Fn]string

	// audit
	seenSync    map[token.Pos]string
	seenSel     map[token.Pos]string
	unknowns    []string
	notes       []string
	instNotes   map[string]int
	sites       map[string]bool
	mutPkgVars  map[*types.Var]bool // package-level variables written by some function other than init
	siteUsed    map[string]bool
	auditFailed bool
	auditText   string
}

func newWorld(fset *token.FileSet, pkgs []*pkgSrc, mc *modelConf) *world {
	w := &world{fset: fset, pkgs: pkgs, mc: mc,
		decls: map[*types.Func]*ast.FuncDecl{}, declPkg: map[*types.Func]*pkgSrc{},
		fns: map[string]*Fn{}, litFns: map[string]*Fn{}, structOf: map[*types.Var]string{},
		guardMu: map[string]string{}, muField: map[string]string{}, owned: map[string]bool{}, always: map[string]bool{},
		mutexID: map[string]int{}, locID: map[string]int{}, entries: map[*Fn]string{},
		seenSync: map[token.Pos]string{}, seenSel: map[token.Pos]string{}, instNotes: map[string]int{}}
	w.sites = map[string]bool{}
	w.siteUsed = map[string]bool{}
	for _, l := range [][]exclEntry{mc.Known, mc.Design} {
		for _, e := range l {
			if e.Site != "" {
				w.sites[e.Func+"/"+e.Site] = true
			}
		}
	}
	for _, t := range mc.StateOwned {
		w.owned[t] = true
	}
	for _, t := range mc.AlwaysLive {
		w.always[t] = true
	}
	return w
}

func (w *world) ours(p *types.Package) bool {
	if p == nil {
		return false
	}
	for _, ps := range w.pkgs {
		if ps.pkg == p {
			return true
		}
	}
	return false
}

func (w *world) pos(p token.Pos) string {
	q := w.fset.Position(p)
	return fmt.Sprintf("%s:%d", shortFile(q.Filename), q.Line)
}

func shortFile(f string) string {
	if i := strings.LastIndex(f, "/"); i >= 0 {
		f = f[i+1:]
	}
	return f
}

func isSyncMutex(t types.Type) bool {
	n, ok := t.(*types.Named)
	if !ok || n.Obj().Pkg() == nil || n.Obj().Pkg().Path() != "sync" {
		return false
	}
	return n.Obj().Name() == "RWMutex" || n.Obj().Name() == "Mutex"
}

// sync.Once / sync.WaitGroup fields synchronise themselves
func isSyncOther(t types.Type) bool {
	n, ok := t.(*types.Named)
	if !ok || n.Obj().Pkg() == nil || n.Obj().Pkg().Path() != "sync" {
		return false
	}
	return n.Obj().Name() == "Once" || n.Obj().Name() == "WaitGroup"
}

// namedStruct: name of the package-local named struct type behind t (through one pointer).
func (w *world) namedStruct(t types.Type) string {
	if t == nil {
		return ""
	}
	if p, ok := t.Underlying().(*types.Pointer); ok {
		t = p.Elem()
	}
	n, ok := t.(*types.Named)
	if !ok || !w.ours(n.Obj().Pkg()) {
		return ""
	}
	if _, ok := n.Underlying().(*types.Struct); !ok {
		return ""
	}
	return n.Obj().Name()
}

func (w *world) mutex(name string) int {
	if id, ok := w.mutexID[name]; ok {
		return id
	}
	id := len(w.mutexes)
	w.mutexes = append(w.mutexes, name)
	w.mutexID[name] = id
	return id
}

func (w *world) loc(name string, mu string) int {
	if id, ok := w.locID[name]; ok {
		return id
	}
	id := len(w.locs)
	w.locs = append(w.locs, name)
	w.locID[name] = id
	w.locMu = append(w.locMu, w.mutex(mu))
	return id
}

// scanTypes: discover the lock-carrying structs and the owner of every field.
func (w *world) scanTypes() {
	for _, ps := range w.pkgs {
		sc := ps.pkg.Scope()
		names := sc.Names()
		sort.Strings(names)
		for _, nm := range names {
			tn, ok := sc.Lookup(nm).(*types.TypeName)
			if !ok {
				continue
			}
			st, ok := tn.Type().Underlying().(*types.Struct)
			if !ok {
				continue
			}
			var walk func(st *types.Struct, owner string)
			walk = func(st *types.Struct, owner string) {
				for i := 0; i < st.NumFields(); i++ {
					f := st.Field(i)
					w.structOf[f] = owner
					// fields of an anonymous struct-typed field belong to no named struct
					if inner, ok := f.Type().(*types.Struct); ok {
						walk(inner, "")
					}
				}
			}
			walk(st, nm)
			for i := 0; i < st.NumFields(); i++ {
				f := st.Field(i)
				if isSyncMutex(f.Type()) {
					if _, dup := w.guardMu[nm]; dup {
						w.unknowns = append(w.unknowns, fmt.Sprintf("struct %s has more than one mutex", nm))
					}
					if f.Embedded() {
						w.guardMu[nm] = nm
						w.muField[nm] = f.Name()
					} else {
						w.guardMu[nm] = nm + "." + f.Name()
						w.muField[nm] = f.Name()
					}
				}
			}
		}
	}
	// mutex ids in the configured rank order first
	for _, m := range w.mc.LockOrder {
		w.mutex(m)
	}
	var rest []string
	for _, m := range w.guardMu {
		rest = append(rest, m)
	}
	sort.Strings(rest)
	for _, m := range rest {
		w.mutex(m)
	}
	for t := range w.owned {
		w.guardMu[t] = "state"
	}
	// structs guarded by something that is not an RWMutex field (conf guarded_types): e.g. the
	// fields of ctxgroup.Group are written inside errOnce.Do only; Once.Do is modelled as an
	// exclusive section of the pseudo-mutex named there.  Declared in the configuration, so
	// that removing the Once does not remove the guard.
	for t, m := range w.mc.GuardedTypes {
		w.guardMu[t] = m
		w.mutex(m)
	}
}

func (w *world) collectDecls() {
	for _, ps := range w.pkgs {
		for _, f := range ps.files {
			for _, d := range f.Decls {
				fd, ok := d.(*ast.FuncDecl)
				if !ok || fd.Body == nil {
					continue
				}
				obj, _ := ps.info.Defs[fd.Name].(*types.Func)
				if obj == nil {
					continue
				}
				w.decls[obj] = fd
				w.declPkg[obj] = ps
			}
		}
	}
}

func (w *world) funcName(obj *types.Func) string {
	sig := obj.Type().(*types.Signature)
	prefix := ""
	if obj.Pkg() != nil && obj.Pkg().Path() == ctxgroupPath {
		prefix = "ctxgroup."
	}
	if r := sig.Recv(); r != nil {
		t := r.Type()
		if p, ok := t.(*types.Pointer); ok {
			t = p.Elem()
		}
		if n, ok := t.(*types.Named); ok {
			return prefix + n.Obj().Name() + "." + obj.Name()
		}
	}
	return prefix + obj.Name()
}

// variant parameters: receiver and parameters whose type is a pointer to a state-owned
// struct that can also be a snapshot.
func (w *world) variantParams(obj *types.Func) []types.Object {
	sig := obj.Type().(*types.Signature)
	var out []types.Object
	add := func(v *types.Var) {
		if v == nil {
			return
		}
		// pointers to state-owned structs (live / shallow copy / snapshot) and state-owned
		// structs passed by value (shallow copy / snapshot)
		n := w.namedStruct(v.Type())
		if n != "" && w.owned[n] && !w.always[n] {
			out = append(out, v)
		}
	}
	add(sig.Recv())
	for i := 0; i < sig.Params().Len(); i++ {
		add(sig.Params().At(i))
	}
	return out
}

func (w *world) getFn(obj *types.Func, mask uint) *Fn {
	// generic instantiations and the like resolve to their origin
	obj = obj.Origin()
	decl := w.decls[obj]
	if decl == nil {
		return nil
	}
	vp := w.variantParams(obj)
	if len(vp) == 0 {
		mask = 0
	}
	name := w.funcName(obj)
	if mask != 0 {
		// per variant parameter: 1 live, 2 shallow copy of a live object (two bits each, printed in base 4)
		name += "@live" + strconv.FormatUint(uint64(mask), 4)
	}
	if f, ok := w.fns[name]; ok {
		return f
	}
	f := &Fn{id: len(w.order), name: name, obj: obj, decl: decl, mask: mask, ps: w.declPkg[obj], vparams: vp,
		live: map[types.Object]bool{}, shallow: map[types.Object]bool{}, closures: map[types.Object]*ast.FuncLit{}, outID: -1}
	for i, p := range vp {
		switch (mask >> (2 * uint(i))) & 3 {
		case 1:
			f.live[p] = true
		case 2:
			f.shallow[p] = true
		}
	}
	w.fns[name] = f
	w.order = append(w.order, f)
	w.queue = append(w.queue, f)
	return f
}

func (w *world) getLit(parent *Fn, lit *ast.FuncLit) *Fn {
	key := fmt.Sprintf("%s$%d", parent.root().name, lit.Pos())
	if f, ok := w.litFns[key]; ok {
		return f
	}
	r := parent.root()
	r.nlits++
	f := &Fn{id: len(w.order), name: fmt.Sprintf("%s$%d", r.name, r.nlits), lit: lit, parent: parent, ps: parent.ps, outID: -1,
		shallow: map[types.Object]bool{}}
	w.litFns[key] = f
	w.order = append(w.order, f)
	w.queue = append(w.queue, f)
	return f
}

func (w *world) run() {
	w.scanTypes()
	w.scanPkgVars()
	w.collectDecls()
	// every declared function at least once (snapshot variant), in a stable order
	var objs []*types.Func
	for o := range w.decls {
		objs = append(objs, o)
	}
	sort.Slice(objs, func(i, j int) bool { return w.funcName(objs[i]) < w.funcName(objs[j]) })
	for _, o := range objs {
		w.getFn(o, 0)
	}
	for len(w.queue) > 0 {
		f := w.queue[0]
		w.queue = w.queue[1:]
		t := &tr{w: w, fn: f, info: f.ps.info, gotos: map[types.Object]*gotoLbl{}, lblOf: map[types.Object]*loopLbl{}}
		t.translate()
	}
	// exported API entry points
	for _, o := range objs {
		if !o.Exported() || o.Pkg().Path() != gircPath {
			continue
		}
		sig := o.Type().(*types.Signature)
		if r := sig.Recv(); r != nil {
			t := r.Type()
			if p, ok := t.(*types.Pointer); ok {
				t = p.Elem()
			}
			if n, ok := t.(*types.Named); !ok || !n.Obj().Exported() {
				continue
			}
		}
		f := w.getFn(o, 0)
		cls := "api"
		if c, ok := w.mc.Classes[f.name]; ok {
			cls = c
		}
		if _, dup := w.entries[f]; !dup {
			w.entries[f] = cls
		}
	}
	w.computeRelevant()
	w.audit()
}

// ---- relevance: functions whose trees contain no action at all are elided ----

func (n *Node) hasAction(rel map[*Fn]bool) bool {
	switch n.K {
	case KSkip, KJump, KRet:
		return false
	case KCall:
		return rel[n.F]
	case KDefer:
		if n.D == 'c' {
			return rel[n.F]
		}
		return true
	case KSeq, KAlt, KLoop, KBlock:
		if n.K == KAlt && len(n.Kids) == 0 {
			return true
		}
		for _, k := range n.Kids {
			if k.hasAction(rel) {
				return true
			}
		}
		return false
	case KGo:
		return n.Kids[0].hasAction(rel)
	}
	return true
}

func (w *world) computeRelevant() {
	rel := map[*Fn]bool{}
	for changed := true; changed; {
		changed = false
		for _, f := range w.order {
			if !rel[f] && f.body != nil && f.body.hasAction(rel) {
				rel[f] = true
				changed = true
			}
		}
	}
	n := 0
	for _, f := range w.order {
		f.relevant = rel[f]
		if f.relevant {
			f.outID = n
			n++
		}
	}
	for _, f := range w.order {
		if f.body != nil {
			f.body = simplify(f.body, rel)
		}
	}
}

func hasKind(n *Node, k Kind) bool {
	if n.K == k || (n.K == KDefer && n.D == 'y' && k == KCallback) {
		return true
	}
	if n.K == KGo {
		return false // another goroutine
	}
	for _, c := range n.Kids {
		if hasKind(c, k) {
			return true
		}
	}
	return false
}

func usesLabel(n *Node, l int) bool {
	if n.K == KJump && n.Lbl == l {
		return true
	}
	for _, k := range n.Kids {
		if usesLabel(k, l) {
			return true
		}
	}
	return false
}

func simplify(n *Node, rel map[*Fn]bool) *Node {
	switch n.K {
	case KCall:
		if !rel[n.F] {
			return skip()
		}
		return n
	case KDefer:
		if n.D == 'c' && !rel[n.F] {
			return skip()
		}
		return n
	case KSeq:
		var ks []*Node
		for _, k := range n.Kids {
			ks = append(ks, simplify(k, rel))
		}
		// statements after an unconditional Ret/Jump/halt are dead
		for i, k := range ks {
			if k.K == KRet || k.K == KJump || (k.K == KAlt && len(k.Kids) == 0) {
				ks = ks[:i+1]
				break
			}
		}
		return seq(ks...)
	case KAlt:
		var ks []*Node
		haveSkip := false
		for _, k := range n.Kids {
			s := simplify(k, rel)
			if s.K == KSkip {
				if haveSkip {
					continue
				}
				haveSkip = true
			}
			ks = append(ks, s)
		}
		if len(n.Kids) == 0 {
			return n // halt (explicit panic)
		}
		if len(ks) == 0 {
			return skip()
		}
		if len(ks) == 1 {
			return ks[0]
		}
		return &Node{K: KAlt, Kids: ks}
	case KLoop:
		b := simplify(n.Kids[0], rel)
		if b.K == KSkip {
			return skip()
		}
		return &Node{K: KLoop, Kids: []*Node{b}}
	case KBlock:
		b := simplify(n.Kids[0], rel)
		if !usesLabel(b, n.Lbl) {
			return b
		}
		return &Node{K: KBlock, Lbl: n.Lbl, Kids: []*Node{b}}
	case KGo:
		b := simplify(n.Kids[0], rel)
		if b.K == KSkip {
			return skip()
		}
		return &Node{K: KGo, Kids: []*Node{b}}
	}
	return n
}

// ---- per-function translation ----

type gotoLbl struct {
	fwd, back, exit   int
	pos               token.Pos
	usedFwd, usedBack bool
}

type loopLbl struct{ brk, cont int }

type tr struct {
	w               *world
	fn              *Fn
	info            *types.Info
	nlbl            int
	brk             []int
	cont            []int
	gotos           map[types.Object]*gotoLbl
	lblOf           map[types.Object]*loopLbl
	gotoTargets     map[types.Object]bool
	valueCtx        string
	siteCount       map[string]int
	inComm          bool // inside the communication of a select clause
	confHalf        string
	viaIndex        int // walking the container of an index expression
	inDefer         bool
	inGo            bool
	doneNotDeferred bool
	pubw            map[*ast.Ident]string // assignment targets that are captured variables written after publication
}

func (t *tr) newLbl() int { t.nlbl++; return t.nlbl }

func (t *tr) unknown(p token.Pos, msg string) *Node {
	s := fmt.Sprintf("%s in %s: %s", t.w.pos(p), t.fn.name, msg)
	t.w.unknowns = append(t.w.unknowns, s)
	return &Node{K: KUnknown, Note: s}
}

func (t *tr) typeOf(e ast.Expr) types.Type {
	if tv, ok := t.info.Types[e]; ok {
		return tv.Type
	}
	if id, ok := e.(*ast.Ident); ok {
		if o := t.info.Uses[id]; o != nil {
			return o.Type()
		}
		if o := t.info.Defs[id]; o != nil {
			return o.Type()
		}
	}
	return nil
}

func unparen(e ast.Expr) ast.Expr {
	for {
		p, ok := e.(*ast.ParenExpr)
		if !ok {
			return e
		}
		e = p.X
	}
}

func (t *tr) bodyOf() *ast.BlockStmt {
	if t.fn.lit != nil {
		return t.fn.lit.Body
	}
	return t.fn.decl.Body
}

func (t *tr) translate() {
	root := t.fn.root()
	t.w.ensureEnv(root)
	t.gotoTargets = map[types.Object]bool{}
	ast.Inspect(t.bodyOf(), func(n ast.Node) bool {
		if b, ok := n.(*ast.BranchStmt); ok && b.Tok == token.GOTO {
			if o := t.info.Uses[b.Label]; o != nil {
				t.gotoTargets[o] = true
			}
		}
		return true
	})
	if t.fn.decl != nil {
		t.pubw = t.w.publishedWrites(t.fn)
	} else {
		t.pubw = t.w.publishedWrites(root)
	}
	t.fn.body = t.stmtList(t.bodyOf().List)
	// WaitGroup.Done that is not deferred in a function that also makes a dynamic call: user
	// code may panic and be recovered by a deferred recover of the same goroutine, the Done is
	// skipped and the matching Wait blocks for ever.  Reported as a write nobody can guard.
	if t.doneNotDeferred && hasKind(t.fn.body, KCallback) {
		w := &Node{K: KWr, L: t.w.loc("waitgroup:"+t.fn.name+".Done-not-deferred-across-a-callback", neverHeld), Note: "WaitGroup.Done is not deferred"}
		t.fn.body = seq(w, t.fn.body)
	}
}

// ---- liveness environment ----

func refLike(ty types.Type) bool {
	switch ty.Underlying().(type) {
	case *types.Pointer, *types.Slice, *types.Map:
		return true
	}
	return false
}

func (w *world) ensureEnv(f *Fn) {
	if f.envDone {
		return
	}
	f.envDone = true
	t := &tr{w: w, fn: f, info: f.ps.info}
	body := t.bodyOf()
	mark := func(id *ast.Ident, rhsLive bool) bool {
		if id == nil || id.Name == "_" || !rhsLive {
			return false
		}
		o := t.info.Defs[id]
		if o == nil {
			o = t.info.Uses[id]
		}
		if o == nil || f.live[o] || !refLike(o.Type()) {
			return false
		}
		f.live[o] = true
		return true
	}
	// fresh locals: every assignment is a composite literal (or its address)
	f.fresh = map[types.Object]bool{}
	notFresh := map[types.Object]bool{}
	isAlloc := func(e ast.Expr) bool {
		e = unparen(e)
		if u, ok := e.(*ast.UnaryExpr); ok && u.Op == token.AND {
			e = unparen(u.X)
		}
		_, ok := e.(*ast.CompositeLit)
		return ok
	}
	noteAssign := func(l ast.Expr, r ast.Expr) {
		id, ok := l.(*ast.Ident)
		if !ok {
			return
		}
		o := t.info.Defs[id]
		if o == nil {
			o = t.info.Uses[id]
		}
		if o == nil {
			return
		}
		if r != nil && isAlloc(r) {
			f.fresh[o] = true
		} else {
			notFresh[o] = true
		}
	}
	ast.Inspect(body, func(n ast.Node) bool {
		switch s := n.(type) {
		case *ast.AssignStmt:
			for i := range s.Lhs {
				if len(s.Lhs) == len(s.Rhs) {
					noteAssign(s.Lhs[i], s.Rhs[i])
				} else {
					noteAssign(s.Lhs[i], nil)
				}
			}
		case *ast.ValueSpec:
			for i := range s.Names {
				if len(s.Names) == len(s.Values) {
					noteAssign(s.Names[i], s.Values[i])
				} else if len(s.Values) > 0 {
					noteAssign(s.Names[i], nil)
				}
			}
		case *ast.RangeStmt:
			if s.Key != nil {
				noteAssign(s.Key, nil)
			}
			if s.Value != nil {
				noteAssign(s.Value, nil)
			}
		}
		return true
	})
	for o := range notFresh {
		delete(f.fresh, o)
	}
	// parameters and results are never fresh
	// struct values copied out of live state
	markShallow := func(id *ast.Ident, rhs ast.Expr) bool {
		if id == nil || id.Name == "_" {
			return false
		}
		o := t.info.Defs[id]
		if o == nil {
			o = t.info.Uses[id]
		}
		if o == nil || f.shallow[o] {
			return false
		}
		n := w.namedStruct(o.Type())
		if _, isPtr := o.Type().Underlying().(*types.Pointer); n == "" || !w.owned[n] || w.always[n] {
			return false
		} else if isPtr {
			// a pointer to a shallow copy (p := &snapshot)
			if !t.shallow(rhs) {
				return false
			}
		} else if !(t.live(rhs) || t.shallow(rhs)) {
			return false
		}
		f.shallow[o] = true
		return true
	}
	for changed := true; changed; {
		changed = false
		ast.Inspect(body, func(n ast.Node) bool {
			switch s := n.(type) {
			case *ast.AssignStmt:
				if len(s.Lhs) == len(s.Rhs) {
					for i := range s.Lhs {
						if id, ok := s.Lhs[i].(*ast.Ident); ok && mark(id, t.live(s.Rhs[i])) {
							changed = true
						}
						if id, ok := s.Lhs[i].(*ast.Ident); ok && markShallow(id, s.Rhs[i]) {
							changed = true
						}
					}
				} else if len(s.Rhs) == 1 {
					l := t.live(s.Rhs[0])
					for i := range s.Lhs {
						if id, ok := s.Lhs[i].(*ast.Ident); ok && mark(id, l) {
							changed = true
						}
					}
				}
			case *ast.ValueSpec:
				if len(s.Names) == len(s.Values) {
					for i := range s.Names {
						if mark(s.Names[i], t.live(s.Values[i])) {
							changed = true
						}
						if markShallow(s.Names[i], s.Values[i]) {
							changed = true
						}
					}
				}
			case *ast.RangeStmt:
				if id, ok := s.Value.(*ast.Ident); ok && mark(id, t.live(s.X)) {
					changed = true
				}
			}
			return true
		})
	}
}

// cleansing: `v.f = <fresh value>` as a statement of the function body itself (not nested in
// a branch or loop) gives the field f of the shallow copy v a backing store of its own from
// that position on.
func (w *world) computeCleansed(f *Fn, t *tr) {
	f.cleansed = map[string]token.Pos{}
	for _, st := range t.bodyOf().List {
		as, ok := st.(*ast.AssignStmt)
		if !ok || len(as.Lhs) != len(as.Rhs) {
			continue
		}
		for i, l := range as.Lhs {
			sel, ok := unparen(l).(*ast.SelectorExpr)
			if !ok {
				continue
			}
			id, ok := unparen(sel.X).(*ast.Ident)
			if !ok || !t.shallow(id) || t.live(as.Rhs[i]) || t.shallow(as.Rhs[i]) {
				continue
			}
			key := id.Name + "." + sel.Sel.Name
			if _, dup := f.cleansed[key]; !dup {
				f.cleansed[key] = as.End()
			}
		}
	}
}

func (w *world) isStateType(ty types.Type) bool {
	n := w.namedStruct(ty)
	return n != "" && (n == "state" || w.always[n])
}

// live: does the expression denote (a reference into) the tracked state, as opposed to a
// snapshot made by Copy or an object supplied by the user?
func (t *tr) live(e ast.Expr) bool {
	e = unparen(e)
	if ty := t.typeOf(e); ty != nil && t.w.isStateType(ty) {
		return true
	}
	switch e := e.(type) {
	case *ast.Ident:
		o := t.info.Uses[e]
		if o == nil {
			o = t.info.Defs[e]
		}
		return o != nil && t.fn.root().live[o]
	case *ast.SelectorExpr:
		if sel := t.info.Selections[e]; sel != nil && sel.Kind() == types.FieldVal {
			if t.live(e.X) {
				return true
			}
			// a slice/map/pointer field of a shallow copy still references live memory
			return t.shallow(e.X) && refLike(sel.Obj().Type())
		}
	case *ast.IndexExpr:
		return t.live(e.X)
	case *ast.SliceExpr:
		return t.live(e.X)
	case *ast.StarExpr:
		return t.live(e.X)
	case *ast.UnaryExpr:
		if e.Op == token.AND {
			return t.live(e.X)
		}
	case *ast.TypeAssertExpr:
		return t.live(e.X)
	case *ast.CallExpr:
		if callee, recv := t.staticCallee(e); callee != nil && t.w.ours(callee.Pkg()) {
			if f := t.w.getFn(callee, t.maskFor(callee, recv, e.Args)); f != nil {
				return t.w.returnsLive(f)
			}
		}
	}
	return false
}

// hasRefs: does a value of this type carry slices, maps or pointers (memory shared with the
// object it was copied from)?
func hasRefs(ty types.Type, depth int) bool {
	if depth > 4 {
		return true
	}
	switch u := ty.Underlying().(type) {
	case *types.Pointer, *types.Slice, *types.Map:
		return true
	case *types.Struct:
		for i := 0; i < u.NumFields(); i++ {
			if hasRefs(u.Field(i).Type(), depth+1) {
				return true
			}
		}
	case *types.Array:
		return hasRefs(u.Elem(), depth+1)
	}
	return false
}

// shallow: does the expression denote (a pointer to, or a struct-valued part of) a struct VALUE
// that was copied out of live state?  Such a copy owns its scalar fields, but its slice, map
// and pointer fields still reference the tracked memory.
func (t *tr) shallow(e ast.Expr) bool {
	e = unparen(e)
	switch e := e.(type) {
	case *ast.Ident:
		o := t.info.Uses[e]
		if o == nil {
			o = t.info.Defs[e]
		}
		return o != nil && t.fn.root().shallow[o]
	case *ast.StarExpr:
		return t.shallow(e.X)
	case *ast.UnaryExpr:
		if e.Op == token.AND {
			return t.shallow(e.X)
		}
	case *ast.SelectorExpr:
		if sel := t.info.Selections[e]; sel != nil && sel.Kind() == types.FieldVal && t.shallow(e.X) {
			// a struct-valued field of a shallow copy is a shallow copy again
			if _, ok := sel.Obj().Type().Underlying().(*types.Struct); ok {
				return hasRefs(sel.Obj().Type(), 0)
			}
		}
	}
	return false
}

func (w *world) returnsLive(f *Fn) bool {
	switch f.retLive {
	case 1, 2:
		return false
	case 3:
		return true
	}
	f.retLive = 1
	w.ensureEnv(f)
	t := &tr{w: w, fn: f, info: f.ps.info}
	res := false
	sig := f.obj.Type().(*types.Signature)
	for i := 0; i < sig.Results().Len(); i++ {
		if f.live[sig.Results().At(i)] {
			res = true
		}
	}
	ast.Inspect(f.decl.Body, func(n ast.Node) bool {
		if _, ok := n.(*ast.FuncLit); ok {
			return false
		}
		if r, ok := n.(*ast.ReturnStmt); ok {
			for _, x := range r.Results {
				if ty := t.typeOf(x); ty != nil && refLike(ty) && t.live(x) {
					res = true
				}
			}
		}
		return true
	})
	if res {
		f.retLive = 3
	} else {
		f.retLive = 2
	}
	return res
}

// ---- calls ----

// staticCallee: the statically known function or method a call resolves to, with the
// receiver expression of a method call.
func (t *tr) staticCallee(e *ast.CallExpr) (*types.Func, ast.Expr) {
	switch f := unparen(e.Fun).(type) {
	case *ast.Ident:
		if fn, ok := t.info.Uses[f].(*types.Func); ok {
			return fn, nil
		}
	case *ast.SelectorExpr:
		if sel := t.info.Selections[f]; sel != nil {
			if sel.Kind() == types.MethodVal {
				fn := sel.Obj().(*types.Func)
				if r := fn.Type().(*types.Signature).Recv(); r != nil && types.IsInterface(r.Type()) {
					return nil, nil
				}
				return fn, f.X
			}
			return nil, nil
		}
		if fn, ok := t.info.Uses[f.Sel].(*types.Func); ok {
			return fn, nil
		}
	}
	return nil, nil
}

func (t *tr) maskFor(callee *types.Func, recv ast.Expr, args []ast.Expr) uint {
	vp := t.w.variantParams(callee.Origin())
	if len(vp) == 0 {
		return 0
	}
	sig := callee.Type().(*types.Signature)
	var mask uint
	for i, p := range vp {
		var arg ast.Expr
		if sig.Recv() != nil && p == types.Object(sig.Recv()) || (sig.Recv() != nil && callee.Origin().Type().(*types.Signature).Recv() == p) {
			arg = recv
		} else {
			osig := callee.Origin().Type().(*types.Signature)
			for j := 0; j < osig.Params().Len(); j++ {
				if osig.Params().At(j) == p && j < len(args) {
					arg = args[j]
				}
			}
		}
		if arg == nil {
			continue
		}
		_, isPtr := p.Type().Underlying().(*types.Pointer)
		switch {
		case t.live(arg) && isPtr:
			mask |= 1 << (2 * uint(i))
		case t.live(arg) || t.shallow(arg):
			// a struct passed by value out of live state, or (a pointer to) a shallow copy
			mask |= 2 << (2 * uint(i))
		}
	}
	return mask
}

func (t *tr) fieldKey(e ast.Expr) string {
	if s, ok := unparen(e).(*ast.SelectorExpr); ok {
		if sel := t.info.Selections[s]; sel != nil && sel.Kind() == types.FieldVal {
			if v, ok := sel.Obj().(*types.Var); ok {
				if o := t.w.structOf[v]; o != "" {
					return o + "." + v.Name()
				}
			}
		}
	}
	return ""
}

func exprString(e ast.Expr) string {
	switch e := e.(type) {
	case *ast.Ident:
		return e.Name
	case *ast.SelectorExpr:
		return exprString(e.X) + "." + e.Sel.Name
	case *ast.ParenExpr:
		return exprString(e.X)
	case *ast.StarExpr:
		return "*" + exprString(e.X)
	case *ast.UnaryExpr:
		return e.Op.String() + exprString(e.X)
	case *ast.IndexExpr:
		return exprString(e.X) + "[..]"
	case *ast.CallExpr:
		return exprString(e.Fun) + "(..)"
	}
	return "?"
}

// mutexOf: which mutex class does the receiver expression of a sync call denote?
func (t *tr) mutexOf(x ast.Expr, pre *[]*Node) (int, string, bool) {
	x = unparen(x)
	if u, ok := x.(*ast.UnaryExpr); ok && u.Op == token.AND {
		x = unparen(u.X)
	}
	ty := t.typeOf(x)
	if ty != nil {
		if p, ok := ty.Underlying().(*types.Pointer); ok {
			ty = p.Elem()
		}
	}
	if ty != nil && isSyncMutex(ty) {
		// X.mu : a named mutex field
		if s, ok := x.(*ast.SelectorExpr); ok {
			if sel := t.info.Selections[s]; sel != nil && sel.Kind() == types.FieldVal {
				v := sel.Obj().(*types.Var)
				owner := t.w.structOf[v]
				if mu, ok := t.w.guardMu[owner]; ok && t.w.muField[owner] == v.Name() {
					t.expr(s.X, false, pre)
					t.w.seenSel[s.Sel.Pos()] = "mutex"
					return t.w.mutex(mu), exprString(s.X), true
				}
			}
		}
		return 0, "", false
	}
	// promoted method of an embedded mutex: x has the struct type itself
	if n := t.w.namedStruct(ty); n != "" {
		if mu, ok := t.w.guardMu[n]; ok && mu == n {
			t.expr(x, false, pre)
			return t.w.mutex(mu), exprString(x), true
		}
	}
	return 0, "", false
}

// call translates a call expression into the effects of evaluating receiver and arguments
// (pre) and the action of the call itself (nil when it has none).
func (t *tr) call(e *ast.CallExpr, pre *[]*Node) *Node {
	fun := unparen(e.Fun)
	// conversion
	if tv, ok := t.info.Types[fun]; ok && tv.IsType() {
		for _, a := range e.Args {
			t.expr(a, false, pre)
		}
		return nil
	}
	args := func() {
		for _, a := range e.Args {
			t.expr(a, false, pre)
		}
	}
	// builtins
	if id, ok := fun.(*ast.Ident); ok {
		if b, ok := t.info.Uses[id].(*types.Builtin); ok {
			switch b.Name() {
			case "delete":
				t.expr(e.Args[1], false, pre)
				t.expr(e.Args[0], true, pre)
			case "copy":
				t.expr(e.Args[1], false, pre)
				t.expr(e.Args[0], true, pre)
			case "panic":
				args()
				// an explicit panic stops the goroutine: no continuation (see the design notes)
				return &Node{K: KAlt, Note: "panic"}
			default:
				args()
			}
			return nil
		}
	}
	// immediately invoked literal
	if lit, ok := fun.(*ast.FuncLit); ok {
		args()
		lf := t.w.getLit(t.fn, lit)
		if t.inGo {
			lf.goStarted = true
		}
		return &Node{K: KCall, F: lf}
	}
	callee, recv := t.staticCallee(e)
	if callee != nil {
		pkg := ""
		if callee.Pkg() != nil {
			pkg = callee.Pkg().Path()
		}
		sig := callee.Type().(*types.Signature)
		if pkg == "sync" && sig.Recv() != nil {
			rt := sig.Recv().Type()
			if p, ok := rt.(*types.Pointer); ok {
				rt = p.Elem()
			}
			rn := rt.(*types.Named).Obj().Name()
			switch rn {
			case "RWMutex", "Mutex":
				m, base, ok := t.mutexOf(recv, pre)
				if !ok {
					return t.unknown(e.Pos(), "sync."+rn+"."+callee.Name()+" on an unrecognised mutex "+exprString(recv))
				}
				t.w.seenSync[e.Pos()] = t.w.mutexes[m] + " via " + base
				t.w.instNotes[t.w.mutexes[m]+" <- "+normBase(base)]++
				switch callee.Name() {
				case "Lock":
					return &Node{K: KAcq, M: m, W: true, Note: base}
				case "RLock":
					return &Node{K: KAcq, M: m, W: false, Note: base}
				case "Unlock":
					return &Node{K: KRel, M: m, W: true, Note: base}
				case "RUnlock":
					return &Node{K: KRel, M: m, W: false, Note: base}
				}
				return t.unknown(e.Pos(), "sync."+rn+"."+callee.Name())
			case "WaitGroup":
				t.expr(recv, false, pre)
				args()
				t.w.seenSync[e.Pos()] = "WaitGroup." + callee.Name()
				if callee.Name() == "Done" && !t.inDefer {
					t.doneNotDeferred = true
				}
				if callee.Name() == "Wait" {
					return &Node{K: KJoin}
				}
				return nil
			case "Once":
				t.expr(recv, false, pre)
				t.w.seenSync[e.Pos()] = "Once." + callee.Name()
				if len(e.Args) == 1 {
					if lit, ok := unparen(e.Args[0]).(*ast.FuncLit); ok {
						c := &Node{K: KCall, F: t.w.getLit(t.fn, lit)}
						// X.once.Do(f) of a struct whose guard is that Once: an exclusive section
						if sx, ok := unparen(recv).(*ast.SelectorExpr); ok {
							if sel := t.info.Selections[sx]; sel != nil && sel.Kind() == types.FieldVal {
								v := sel.Obj().(*types.Var)
								owner := t.w.structOf[v]
								if mu, ok := t.w.mc.GuardedTypes[owner]; ok && mu == owner+"."+v.Name() {
									m := t.w.mutex(mu)
									t.w.instNotes[mu+" <- "+normBase(exprString(sx.X))]++
									return &Node{K: KAlt, Kids: []*Node{seq(&Node{K: KAcq, M: m, W: true, Note: "Once.Do"}, c, &Node{K: KRel, M: m, W: true, Note: "Once.Do"}), skip()}}
								}
							}
						}
						return &Node{K: KAlt, Kids: []*Node{c, skip()}}
					}
				}
				args()
				return &Node{K: KCallback, Note: "sync.Once.Do"}
			}
			return t.unknown(e.Pos(), "sync."+rn+"."+callee.Name())
		}
		if t.w.ours(callee.Pkg()) {
			if recv != nil {
				t.expr(recv, false, pre)
				// a value receiver copies the object
				if _, isPtr := sig.Recv().Type().(*types.Pointer); !isPtr {
					t.copyOf(recv, pre)
				}
			}
			old := t.valueCtx
			switch callee.Name() {
			case "register", "sregister", "AddHandler":
				t.valueCtx = "handler"
			case "Set", "SetBg":
				t.valueCtx = "ctcp-handler"
			case "Go":
				t.valueCtx = "loop"
			}
			args()
			t.valueCtx = old
			f := t.w.getFn(callee, t.maskFor(callee, recv, e.Args))
			if f == nil {
				return t.unknown(e.Pos(), "call of "+callee.Name()+" without a body")
			}
			return t.w.site(t, t.w.funcName(callee.Origin()), &Node{K: KCall, F: f})
		}
		// standard library
		rtn := ""
		if sig.Recv() != nil {
			rt := sig.Recv().Type()
			if p, ok := rt.(*types.Pointer); ok {
				rt = p.Elem()
			}
			if n, ok := rt.(*types.Named); ok {
				rtn = n.Obj().Name()
			}
		}
		if recv != nil {
			// which half of a confined reader/writer pair is used (conf confined_fields)
			old := t.confHalf
			if pkg == "bufio" && (rtn == "Writer" || rtn == "Reader") {
				t.confHalf = strings.ToLower(rtn)
			}
			t.expr(recv, false, pre)
			t.confHalf = old
		}
		full := pkg + "." + callee.Name()
		wait := ""
		switch {
		case pkg == "bufio" && (rtn == "Writer" || rtn == "Reader" || rtn == "ReadWriter") &&
			!map[string]bool{"Buffered": true, "Available": true, "Size": true, "Reset": true, "AvailableBuffer": true}[callee.Name()]:
			wait = "bufio." + rtn + "." + callee.Name()
		case full == "time.Sleep":
			wait = full
		case (pkg == "net" || pkg == "crypto/tls") && sig.Recv() != nil &&
			map[string]bool{"Read": true, "Write": true, "Dial": true, "DialContext": true, "Handshake": true, "HandshakeContext": true}[callee.Name()]:
			wait = pkg + "." + rtn + "." + callee.Name()
		}
		mutatesArg0 := map[string]bool{"sort.Strings": true, "sort.Ints": true, "sort.Slice": true, "sort.SliceStable": true,
			"sort.Sort": true, "sort.Stable": true, "sort.Float64s": true}
		var acts []*Node
		for i, a := range e.Args {
			if lit, ok := unparen(a).(*ast.FuncLit); ok {
				c := &Node{K: KCall, F: t.w.getLit(t.fn, lit)}
				if full == "time.AfterFunc" {
					acts = append(acts, &Node{K: KGo, Kids: []*Node{c}})
				} else {
					acts = append(acts, &Node{K: KLoop, Kids: []*Node{c}})
				}
				continue
			}
			t.expr(a, i == 0 && mutatesArg0[full], pre)
		}
		if wait != "" {
			acts = append(acts, &Node{K: KWait, Note: wait})
		}
		if len(acts) > 0 {
			return seq(acts...)
		}
		return nil
	}
	// dynamic call: through a function value or an interface
	key := t.fieldKey(fun)
	if s, ok := fun.(*ast.SelectorExpr); ok {
		if sel := t.info.Selections[s]; sel != nil && sel.Kind() == types.MethodVal {
			// interface method
			t.expr(s.X, false, pre)
			args()
			fn := sel.Obj().(*types.Func)
			if fn.Pkg() == nil || !t.w.ours(fn.Pkg()) {
				// interface of the standard library (error, io.Writer, net.Conn, ...)
				if fn.Pkg() != nil && fn.Pkg().Path() == "net" && (fn.Name() == "Read" || fn.Name() == "Write") {
					return &Node{K: KWait, Note: "net.Conn." + fn.Name()}
				}
				return nil
			}
			if _, ok := t.w.mc.Plugins[strings.SplitN(t.w.funcName(fn), ".", 2)[0]]; ok {
				if fn.Name() == "Dial" {
					return &Node{K: KWait, Note: t.w.funcName(fn)}
				}
				return nil
			}
			return &Node{K: KCallback, Note: t.w.funcName(fn)}
		}
	}
	// local closure variable
	if id, ok := fun.(*ast.Ident); ok {
		if o := t.info.Uses[id]; o != nil {
			if lit, ok := t.fn.root().closures[o]; ok {
				args()
				return &Node{K: KCall, F: t.w.getLit(t.fn, lit)}
			}
		}
	}
	t.expr(fun, false, pre)
	args()
	if key != "" {
		if _, ok := t.w.mc.HarmlessDynamic[key]; ok {
			return nil
		}
	}
	return &Node{K: KCallback, Note: exprString(fun)}
}

// site: a call site named in conf/C12.known.json ("site": "Callee#n", the n-th call of Callee
// in the source of the function) is outlined into a function of its own, so that an
// exclusion can be attached to this one call instead of the whole enclosing function.
func (w *world) site(t *tr, callee string, n *Node) *Node {
	if t.siteCount == nil {
		t.siteCount = map[string]int{}
	}
	t.siteCount[callee]++
	base := t.fn.root().name
	if i := strings.Index(base, "@"); i >= 0 {
		base = base[:i]
	}
	key := fmt.Sprintf("%s/%s#%d", base, callee, t.siteCount[callee])
	if !w.sites[key] {
		return n
	}
	name := fmt.Sprintf("%s/%s#%d", t.fn.root().name, callee, t.siteCount[callee])
	f, ok := w.fns[name]
	if !ok {
		f = &Fn{id: len(w.order), name: name, ps: t.fn.ps, outID: -1, body: n, envDone: true, synthetic: true}
		w.fns[name] = f
		w.order = append(w.order, f)
	}
	w.siteUsed[key] = true
	return &Node{K: KCall, F: f}
}

func normBase(b string) string {
	// c.state / client.state / s: normalise the client variable name
	b = strings.Replace(b, "client.", "c.", 1)
	return b
}

// copyOf: reading a whole struct (value receiver, *p dereference) of a guarded type.
func (t *tr) copyOf(x ast.Expr, out *[]*Node) {
	n := t.w.namedStruct(t.typeOf(x))
	if n == "" {
		return
	}
	if t.w.owned[n] && (t.w.always[n] || t.live(x)) {
		*out = append(*out, &Node{K: KRd, L: t.w.loc(t.locName(n, "(all)"), "state")})
	}
}

func (t *tr) locName(owner, field string) string {
	if a, ok := t.w.mc.LocAlias[owner]; ok {
		return a
	}
	return owner + "." + field
}

// ---- expressions ----

func (t *tr) funcValue(fn *types.Func, p token.Pos, ctx string) {
	if !t.w.ours(fn.Pkg()) {
		return
	}
	if r := fn.Type().(*types.Signature).Recv(); r != nil && types.IsInterface(r.Type()) {
		return
	}
	f := t.w.getFn(fn, 0)
	if f == nil {
		return
	}
	cls := "funcvalue"
	if ctx == "" {
		ctx = t.valueCtx
	}
	if ctx != "" {
		cls = ctx
	}
	if c, ok := t.w.mc.Classes[f.name]; ok {
		cls = c
	}
	if old, ok := t.w.entries[f]; !ok || old == "funcvalue" || old == "api" {
		t.w.entries[f] = cls
	}
}

func (t *tr) expr(e ast.Expr, wr bool, out *[]*Node) {
	switch e := e.(type) {
	case nil:
	case *ast.Ident:
		if v, ok := t.info.Uses[e].(*types.Var); ok && t.w.mutPkgVars[v] {
			// a package-level variable that some function writes: no lock guards it
			k := KRd
			if wr {
				k = KWr
			}
			*out = append(*out, &Node{K: k, L: t.w.loc("pkgvar:"+v.Name(), neverHeld), Note: v.Name() + " (package-level variable written at run time)"})
		}
		if fn, ok := t.info.Uses[e].(*types.Func); ok {
			t.funcValue(fn, e.Pos(), "")
		}
	case *ast.BasicLit:
	case *ast.ParenExpr:
		t.expr(e.X, wr, out)
	case *ast.SelectorExpr:
		t.selector(e, wr, out)
	case *ast.IndexExpr:
		t.expr(e.Index, false, out)
		t.viaIndex++
		t.expr(e.X, wr, out)
		t.viaIndex--
	case *ast.SliceExpr:
		t.expr(e.Low, false, out)
		t.expr(e.High, false, out)
		t.expr(e.Max, false, out)
		t.expr(e.X, wr, out)
	case *ast.StarExpr:
		t.expr(e.X, false, out)
		if n := t.w.namedStruct(t.typeOf(e.X)); n != "" && t.w.owned[n] && (t.w.always[n] || t.live(e.X)) {
			k := KRd
			if wr {
				k = KWr
			}
			*out = append(*out, &Node{K: k, L: t.w.loc(t.locName(n, "(all)"), "state")})
		}
	case *ast.UnaryExpr:
		t.expr(e.X, false, out)
		if e.Op == token.ARROW && !t.inComm {
			*out = append(*out, &Node{K: KWait, Note: "<-" + exprString(e.X)})
		}
	case *ast.BinaryExpr:
		t.expr(e.X, false, out)
		if e.Op == token.LAND || e.Op == token.LOR {
			var r []*Node
			t.expr(e.Y, false, &r)
			if len(r) > 0 {
				*out = append(*out, &Node{K: KAlt, Kids: []*Node{seq(r...), skip()}})
			}
		} else {
			t.expr(e.Y, false, out)
		}
	case *ast.CallExpr:
		if a := t.call(e, out); a != nil {
			*out = append(*out, a)
		}
	case *ast.CompositeLit:
		_, isStruct := t.typeOf(e).Underlying().(*types.Struct)
		if p, ok := t.typeOf(e).Underlying().(*types.Pointer); ok {
			_, isStruct = p.Elem().Underlying().(*types.Struct)
		}
		for _, el := range e.Elts {
			if kv, ok := el.(*ast.KeyValueExpr); ok {
				if !isStruct {
					t.expr(kv.Key, false, out)
				}
				t.expr(kv.Value, false, out)
			} else {
				t.expr(el, false, out)
			}
		}
	case *ast.KeyValueExpr:
		t.expr(e.Key, false, out)
		t.expr(e.Value, false, out)
	case *ast.FuncLit:
		// a literal used as a value: it may run at any time on any goroutine
		f := t.w.getLit(t.fn, e)
		if _, ok := t.w.entries[f]; !ok {
			t.w.entries[f] = "closure"
		}
	case *ast.TypeAssertExpr:
		t.expr(e.X, false, out)
	case *ast.ArrayType, *ast.MapType, *ast.ChanType, *ast.FuncType, *ast.InterfaceType, *ast.StructType, *ast.Ellipsis:
	default:
		*out = append(*out, t.unknown(e.Pos(), fmt.Sprintf("expression %T", e)))
	}
}

func (t *tr) selector(e *ast.SelectorExpr, wr bool, out *[]*Node) {
	sel := t.info.Selections[e]
	if sel == nil {
		// qualified identifier pkg.Name
		if fn, ok := t.info.Uses[e.Sel].(*types.Func); ok {
			t.funcValue(fn, e.Pos(), "")
		}
		return
	}
	switch sel.Kind() {
	case types.FieldVal:
		field := sel.Obj().(*types.Var)
		if len(sel.Index()) > 1 {
			// promoted field through an embedded struct
			if t.w.guardMu[t.w.structOf[field]] != "" {
				*out = append(*out, t.unknown(e.Pos(), "promoted field of a guarded struct: "+field.Name()))
			}
		}
		xt := t.typeOf(e.X)
		_, xptr := xt.Underlying().(*types.Pointer)
		t.expr(e.X, wr && !xptr, out)
		t.access(e, field, wr, out)
	case types.MethodVal:
		t.expr(e.X, false, out)
		t.funcValue(sel.Obj().(*types.Func), e.Pos(), "")
	case types.MethodExpr:
		t.funcValue(sel.Obj().(*types.Func), e.Pos(), "")
	}
}

func (t *tr) setSeen(p token.Pos, cat string) {
	rank := map[string]int{"": 0, "snapshot": 1, "unguarded": 1, "mutex": 1, "fresh": 1, "access": 2}
	if rank[cat] >= rank[t.w.seenSel[p]] {
		t.w.seenSel[p] = cat
	}
}

func (t *tr) access(e *ast.SelectorExpr, field *types.Var, wr bool, out *[]*Node) {
	owner := t.w.structOf[field]
	mu, guarded := t.w.guardMu[owner]
	if owner == "" || !guarded {
		return
	}
	if isSyncMutex(field.Type()) || isSyncOther(field.Type()) {
		t.setSeen(e.Sel.Pos(), "mutex")
		return
	}
	key := owner + "." + field.Name()
	if cf, ok := t.w.mc.Confined[key]; ok {
		// goroutine-confined field: every use is an exclusive access to the half that is used;
		// the location is guarded by a mutex nobody ever holds, and the owners of the half are
		// excluded by generated by_design entries, so a use anywhere else is a violating fact
		half := t.confHalf
		if half == "" {
			half = "ref"
		}
		_ = cf
		t.setSeen(e.Sel.Pos(), "access")
		k := KWr
		if half == "ref" && !wr {
			k = KRd
		}
		*out = append(*out, &Node{K: k, L: t.w.loc(key+"("+half+")", neverHeld), Note: exprString(e)})
		return
	}
	if _, ok := t.w.mc.Unguarded[key]; ok {
		t.setSeen(e.Sel.Pos(), "unguarded")
		return
	}
	if t.w.owned[owner] && !t.w.always[owner] && !t.live(e.X) {
		// a slice or map field of a struct value copied out of live state still points at the
		// tracked backing store: using it is a live access (overwriting the copy's own header is not)
		_, isSlice := field.Type().Underlying().(*types.Slice)
		_, isMap := field.Type().Underlying().(*types.Map)
		cleansed := false
		if id, ok := unparen(e.X).(*ast.Ident); ok {
			r := t.fn.root()
			if r.cleansed == nil {
				t.w.computeCleansed(r, &tr{w: t.w, fn: r, info: r.ps.info})
			}
			if p, ok := r.cleansed[id.Name+"."+field.Name()]; ok && p <= e.Pos() {
				cleansed = true
			}
		}
		if t.shallow(e.X) && (isSlice || isMap) && !(wr && t.viaIndex == 0) && !cleansed {
			t.setSeen(e.Sel.Pos(), "access")
			k := KRd
			if wr {
				k = KWr
			}
			*out = append(*out, &Node{K: k, L: t.w.loc(t.locName(owner, field.Name()), mu), Note: exprString(e) + " (shallow copy of a live object)"})
			return
		}
		t.setSeen(e.Sel.Pos(), "snapshot")
		return
	}
	if id, ok := unparen(e.X).(*ast.Ident); ok {
		if o := t.info.Uses[id]; o != nil && t.fn.root().fresh[o] {
			// an object allocated in this function and not yet shared
			t.setSeen(e.Sel.Pos(), "fresh")
			return
		}
	}
	t.setSeen(e.Sel.Pos(), "access")
	k := KRd
	if wr {
		k = KWr
	}
	*out = append(*out, &Node{K: k, L: t.w.loc(t.locName(owner, field.Name()), mu), Note: exprString(e)})
}

// ---- statements ----

func (t *tr) stmtList(list []ast.Stmt) *Node {
	for i, s := range list {
		ls, ok := s.(*ast.LabeledStmt)
		if !ok {
			continue
		}
		obj := t.info.Defs[ls.Label]
		if obj == nil || !t.gotoTargets[obj] {
			continue
		}
		g := &gotoLbl{fwd: t.newLbl(), back: t.newLbl(), exit: t.newLbl(), pos: ls.Pos()}
		t.gotos[obj] = g
		pre := t.stmtList(list[:i])
		rest := seq(t.labeled(ls), t.stmtList(list[i+1:]))
		if g.usedFwd {
			pre = &Node{K: KBlock, Lbl: g.fwd, Kids: []*Node{pre}}
		}
		if g.usedBack {
			inner := &Node{K: KBlock, Lbl: g.back, Kids: []*Node{seq(rest, &Node{K: KJump, Lbl: g.exit})}}
			rest = &Node{K: KBlock, Lbl: g.exit, Kids: []*Node{{K: KLoop, Kids: []*Node{inner}}}}
		}
		return seq(pre, rest)
	}
	var ns []*Node
	for _, s := range list {
		ns = append(ns, t.stmt(s))
	}
	return seq(ns...)
}

func (t *tr) labeled(ls *ast.LabeledStmt) *Node {
	obj := t.info.Defs[ls.Label]
	switch inner := ls.Stmt.(type) {
	case *ast.ForStmt, *ast.RangeStmt, *ast.SwitchStmt, *ast.TypeSwitchStmt, *ast.SelectStmt:
		l := &loopLbl{brk: t.newLbl(), cont: t.newLbl()}
		t.lblOf[obj] = l
		return t.breakable(inner, l)
	default:
		return t.stmt(ls.Stmt)
	}
}

func (t *tr) effects(e ast.Expr) *Node {
	var out []*Node
	t.expr(e, false, &out)
	return seq(out...)
}

func (t *tr) breakable(s ast.Stmt, l *loopLbl) *Node {
	if l == nil {
		l = &loopLbl{brk: t.newLbl(), cont: t.newLbl()}
	}
	switch s := s.(type) {
	case *ast.ForStmt:
		t.brk = append(t.brk, l.brk)
		t.cont = append(t.cont, l.cont)
		init := t.stmt(s.Init)
		cond := t.effects(s.Cond)
		body := t.stmtList(s.Body.List)
		post := t.stmt(s.Post)
		t.brk = t.brk[:len(t.brk)-1]
		t.cont = t.cont[:len(t.cont)-1]
		iter := seq(cond, &Node{K: KBlock, Lbl: l.cont, Kids: []*Node{body}}, post)
		return seq(init, &Node{K: KBlock, Lbl: l.brk, Kids: []*Node{seq(&Node{K: KLoop, Kids: []*Node{iter}}, cond)}})
	case *ast.RangeStmt:
		t.brk = append(t.brk, l.brk)
		t.cont = append(t.cont, l.cont)
		x := t.effects(s.X)
		var kv []*Node
		if s.Tok == token.ASSIGN {
			t.lhs(s.Key, &kv)
			t.lhs(s.Value, &kv)
		}
		body := t.stmtList(s.Body.List)
		t.brk = t.brk[:len(t.brk)-1]
		t.cont = t.cont[:len(t.cont)-1]
		iter := seq(seq(kv...), &Node{K: KBlock, Lbl: l.cont, Kids: []*Node{body}})
		return seq(x, &Node{K: KBlock, Lbl: l.brk, Kids: []*Node{{K: KLoop, Kids: []*Node{iter}}}})
	case *ast.SwitchStmt:
		t.brk = append(t.brk, l.brk)
		init := t.stmt(s.Init)
		tag := t.effects(s.Tag)
		var alts []*Node
		var caseEff []*Node
		hasDefault := false
		var defBody *Node
		for _, c := range s.Body.List {
			cc := c.(*ast.CaseClause)
			if cc.List == nil {
				hasDefault = true
				defBody = t.caseBody(cc.Body)
				continue
			}
			for _, x := range cc.List {
				caseEff = append(caseEff, t.effects(x))
			}
			alts = append(alts, seq(seq(caseEff...), t.caseBody(cc.Body)))
		}
		if hasDefault {
			alts = append(alts, seq(seq(caseEff...), defBody))
		} else {
			alts = append(alts, seq(caseEff...))
		}
		t.brk = t.brk[:len(t.brk)-1]
		return seq(init, &Node{K: KBlock, Lbl: l.brk, Kids: []*Node{seq(tag, &Node{K: KAlt, Kids: alts})}})
	case *ast.TypeSwitchStmt:
		t.brk = append(t.brk, l.brk)
		init := t.stmt(s.Init)
		asg := t.stmt(s.Assign)
		var alts []*Node
		hasDefault := false
		for _, c := range s.Body.List {
			cc := c.(*ast.CaseClause)
			if cc.List == nil {
				hasDefault = true
			}
			alts = append(alts, t.caseBody(cc.Body))
		}
		if !hasDefault {
			alts = append(alts, skip())
		}
		t.brk = t.brk[:len(t.brk)-1]
		return seq(init, &Node{K: KBlock, Lbl: l.brk, Kids: []*Node{seq(asg, &Node{K: KAlt, Kids: alts})}})
	case *ast.SelectStmt:
		t.brk = append(t.brk, l.brk)
		var alts []*Node
		bounded := false // a default clause or a timer case bounds the wait
		for _, c := range s.Body.List {
			cc := c.(*ast.CommClause)
			if cc.Comm == nil || t.timerComm(cc.Comm) {
				bounded = true
			}
			t.inComm = true
			comm := t.stmt(cc.Comm)
			t.inComm = false
			alts = append(alts, seq(comm, t.caseBody(cc.Body)))
		}
		if len(alts) == 0 {
			alts = append(alts, skip())
		}
		t.brk = t.brk[:len(t.brk)-1]
		sel := &Node{K: KBlock, Lbl: l.brk, Kids: []*Node{{K: KAlt, Kids: alts}}}
		if !bounded {
			return seq(&Node{K: KWait, Note: "select without default or timer"}, sel)
		}
		return sel
	}
	return t.unknown(s.Pos(), "breakable")
}

// unbufferedSendInGoroutine: a send statement outside a select, in a literal started by `go`,
// on a channel that the enclosing function made WITHOUT a buffer, while the enclosing function
// does not itself receive from it unconditionally (it hands the channel to somebody who may
// stop listening, e.g. a select with ctx.Done()): the goroutine is parked in `chan send` for
// ever.  Reported as a write of "chan:<func>.<var>.unbuffered-send-in-goroutine" (translator
// rule, outside the theorem).
func (t *tr) unbufferedSendInGoroutine(s *ast.SendStmt) string {
	if t.fn.lit == nil || !t.fn.goStarted {
		return ""
	}
	id, ok := unparen(s.Chan).(*ast.Ident)
	if !ok {
		return ""
	}
	o := t.info.Uses[id]
	root := t.fn.root()
	if o == nil || root.decl == nil {
		return ""
	}
	unbuffered, bareRecv := false, false
	var walk func(n ast.Node, inLit bool, inSelect bool)
	ast.Inspect(root.decl.Body, func(n ast.Node) bool {
		switch x := n.(type) {
		case *ast.AssignStmt:
			for i, l := range x.Lhs {
				if li, ok := l.(*ast.Ident); ok && (t.info.Defs[li] == o || t.info.Uses[li] == o) && i < len(x.Rhs) {
					if c, ok := unparen(x.Rhs[i]).(*ast.CallExpr); ok {
						if f, ok := c.Fun.(*ast.Ident); ok && f.Name == "make" && len(c.Args) >= 1 {
							if _, isChan := t.info.Types[c.Args[0]].Type.Underlying().(*types.Chan); isChan {
								unbuffered = len(c.Args) == 1
								if len(c.Args) == 2 {
									if tv := t.info.Types[c.Args[1]]; tv.Value != nil && tv.Value.String() == "0" {
										unbuffered = true
									}
								}
							}
						}
					}
				}
			}
		}
		return true
	})
	_ = walk
	// an unconditional receive in the enclosing function itself (outside literals and selects)
	var scan func(n ast.Node) bool
	scan = func(n ast.Node) bool {
		switch x := n.(type) {
		case *ast.FuncLit, *ast.SelectStmt:
			return false
		case *ast.UnaryExpr:
			if x.Op == token.ARROW {
				if ri, ok := unparen(x.X).(*ast.Ident); ok && t.info.Uses[ri] == o {
					bareRecv = true
				}
			}
		case *ast.RangeStmt:
			if ri, ok := unparen(x.X).(*ast.Ident); ok && t.info.Uses[ri] == o {
				bareRecv = true
			}
		}
		return true
	}
	ast.Inspect(root.decl.Body, scan)
	if unbuffered && !bareRecv {
		return "chan:" + root.name + "." + id.Name + ".unbuffered-send-in-goroutine"
	}
	return ""
}

// timerComm: is the communication a receive from a timer (time.After, Timer.C, Ticker.C)?
func (t *tr) timerComm(comm ast.Stmt) bool {
	var x ast.Expr
	switch c := comm.(type) {
	case *ast.ExprStmt:
		x = c.X
	case *ast.AssignStmt:
		if len(c.Rhs) == 1 {
			x = c.Rhs[0]
		}
	}
	u, ok := unparen(x).(*ast.UnaryExpr)
	if x == nil || !ok || u.Op != token.ARROW {
		return false
	}
	switch op := unparen(u.X).(type) {
	case *ast.CallExpr:
		if fn, _ := t.staticCallee(op); fn != nil && fn.Pkg() != nil && fn.Pkg().Path() == "time" && (fn.Name() == "After" || fn.Name() == "Tick") {
			return true
		}
	case *ast.SelectorExpr:
		if op.Sel.Name == "C" {
			ty := t.typeOf(op.X)
			if p, ok := ty.(*types.Pointer); ok {
				ty = p.Elem()
			}
			if n, ok := ty.(*types.Named); ok && n.Obj().Pkg() != nil && n.Obj().Pkg().Path() == "time" {
				return true
			}
		}
	}
	return false
}

func (t *tr) caseBody(list []ast.Stmt) *Node {
	for _, s := range list {
		if b, ok := s.(*ast.BranchStmt); ok && b.Tok == token.FALLTHROUGH {
			return t.unknown(b.Pos(), "fallthrough")
		}
	}
	return t.stmtList(list)
}

// lhs: effects of assigning to e.
func (t *tr) lhs(e ast.Expr, out *[]*Node) {
	if e == nil {
		return
	}
	if id, ok := unparen(e).(*ast.Ident); ok {
		if v, ok := t.info.Uses[id].(*types.Var); ok && t.w.mutPkgVars[v] {
			*out = append(*out, &Node{K: KWr, L: t.w.loc("pkgvar:"+v.Name(), neverHeld), Note: v.Name() + " (package-level variable written at run time)"})
		}
		if name, ok := t.pubw[id]; ok {
			*out = append(*out, &Node{K: KWr, L: t.w.loc(name, neverHeld), Note: id.Name + " (captured by a published closure)"})
		}
		return
	}
	t.expr(e, true, out)
}

func (t *tr) stmt(s ast.Stmt) *Node {
	switch s := s.(type) {
	case nil:
		return skip()
	case *ast.EmptyStmt:
		return skip()
	case *ast.ExprStmt:
		return t.effects(s.X)
	case *ast.SendStmt:
		if t.inComm {
			return seq(t.effects(s.Chan), t.effects(s.Value))
		}
		var leak *Node
		if name := t.unbufferedSendInGoroutine(s); name != "" {
			leak = &Node{K: KWr, L: t.w.loc(name, neverHeld), Note: "bare send on an unbuffered channel in a goroutine: blocks for ever when the receiver has given up"}
		}
		return seq(t.effects(s.Chan), t.effects(s.Value), leak, &Node{K: KWait, Note: exprString(s.Chan) + " <-"})
	case *ast.IncDecStmt:
		var out []*Node
		t.expr(s.X, false, &out)
		t.lhs(s.X, &out)
		return seq(out...)
	case *ast.AssignStmt:
		var out []*Node
		for i, r := range s.Rhs {
			// closures bound to local variables are called through the variable
			if lit, ok := unparen(r).(*ast.FuncLit); ok && len(s.Lhs) == len(s.Rhs) {
				if id, ok := s.Lhs[i].(*ast.Ident); ok {
					o := t.info.Defs[id]
					if o == nil {
						o = t.info.Uses[id]
					}
					if o != nil {
						if _, dup := t.fn.root().closures[o]; !dup || t.fn.root().closures[o] == lit {
							t.fn.root().closures[o] = lit
							continue
						}
					}
				}
			}
			t.expr(r, false, &out)
		}
		if s.Tok != token.ASSIGN && s.Tok != token.DEFINE {
			// op-assignment reads the target first
			for _, l := range s.Lhs {
				t.expr(l, false, &out)
			}
		}
		for _, l := range s.Lhs {
			t.lhs(l, &out)
		}
		return seq(out...)
	case *ast.DeclStmt:
		var out []*Node
		if gd, ok := s.Decl.(*ast.GenDecl); ok {
			for _, sp := range gd.Specs {
				if vs, ok := sp.(*ast.ValueSpec); ok {
					for _, v := range vs.Values {
						t.expr(v, false, &out)
					}
				}
			}
		}
		return seq(out...)
	case *ast.GoStmt:
		var pre []*Node
		t.inGo = true
		a := t.call(s.Call, &pre)
		t.inGo = false
		if a == nil {
			return seq(pre...)
		}
		return seq(seq(pre...), &Node{K: KGo, Kids: []*Node{a}})
	case *ast.DeferStmt:
		var pre []*Node
		t.inDefer = true
		a := t.call(s.Call, &pre)
		t.inDefer = false
		var d *Node
		switch {
		case a == nil:
		case a.K == KRel:
			d = &Node{K: KDefer, D: 'r', M: a.M, W: a.W, Note: a.Note}
		case a.K == KCall:
			d = &Node{K: KDefer, D: 'c', F: a.F}
		case a.K == KCallback:
			d = &Node{K: KDefer, D: 'y', Note: a.Note}
		default:
			d = t.unknown(s.Pos(), "deferred action")
		}
		return seq(seq(pre...), d)
	case *ast.ReturnStmt:
		var out []*Node
		for _, r := range s.Results {
			t.expr(r, false, &out)
		}
		out = append(out, &Node{K: KRet})
		return seq(out...)
	case *ast.BlockStmt:
		return t.stmtList(s.List)
	case *ast.IfStmt:
		init := t.stmt(s.Init)
		cond := t.effects(s.Cond)
		th := t.stmtList(s.Body.List)
		el := skip()
		if s.Else != nil {
			el = t.stmt(s.Else)
		}
		return seq(init, cond, &Node{K: KAlt, Kids: []*Node{th, el}})
	case *ast.ForStmt, *ast.RangeStmt, *ast.SwitchStmt, *ast.TypeSwitchStmt, *ast.SelectStmt:
		return t.breakable(s, nil)
	case *ast.LabeledStmt:
		// a goto target that is not in a statement list we control
		if obj := t.info.Defs[s.Label]; obj != nil && t.gotoTargets[obj] && t.gotos[obj] == nil {
			return t.unknown(s.Pos(), "goto label outside a statement list")
		}
		return t.labeled(s)
	case *ast.BranchStmt:
		switch s.Tok {
		case token.BREAK:
			if s.Label != nil {
				if l := t.lblOf[t.info.Uses[s.Label]]; l != nil {
					return &Node{K: KJump, Lbl: l.brk}
				}
				return t.unknown(s.Pos(), "break to unknown label")
			}
			if len(t.brk) == 0 {
				return t.unknown(s.Pos(), "break outside")
			}
			return &Node{K: KJump, Lbl: t.brk[len(t.brk)-1]}
		case token.CONTINUE:
			if s.Label != nil {
				if l := t.lblOf[t.info.Uses[s.Label]]; l != nil {
					return &Node{K: KJump, Lbl: l.cont}
				}
				return t.unknown(s.Pos(), "continue to unknown label")
			}
			if len(t.cont) == 0 {
				return t.unknown(s.Pos(), "continue outside")
			}
			return &Node{K: KJump, Lbl: t.cont[len(t.cont)-1]}
		case token.GOTO:
			g := t.gotos[t.info.Uses[s.Label]]
			if g == nil {
				return t.unknown(s.Pos(), "goto to a label that is not in an enclosing statement list")
			}
			if s.Pos() < g.pos {
				g.usedFwd = true
				return &Node{K: KJump, Lbl: g.fwd}
			}
			g.usedBack = true
			return &Node{K: KJump, Lbl: g.back}
		}
		return t.unknown(s.Pos(), "branch "+s.Tok.String())
	}
	return t.unknown(s.Pos(), fmt.Sprintf("statement %T", s))
}
