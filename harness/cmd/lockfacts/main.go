// lockfacts: translator from the Go source of package girc (current working tree of the
// repository the harness is built against) to the lock-discipline facts checked in Coq
// (coq/Generated/LockFacts.v, property C12).
//
// For every function and method of package girc and internal/ctxgroup (non-test files,
// build tag "verif" off) it emits a statement tree over
//
//	Skip | Acq m md | Rel m md | Defer (DRel m md | DCall f | DYield) | Rd loc | Wr loc |
//	Call f | Go body | Seq | Alt [branches] | Loop body | Block lbl body | Jump lbl | Ret |
//	Callback | Join | Unknown
//
// together with the mutex table, the location table with the guarding mutex of every
// location class, the entry points with their thread class, and the exclusion lists read
// from conf/C12.known.json. Only the Go standard library is used.
//
// The translator is trusted (not verified); it is audited on every run: every sync call and
// every selector on a guarded struct type found by a plain syntactic scan of the same files
// must have been classified by the translation, and anything the translator does not
// understand becomes an explicit Unknown node, which the Coq checker rejects.
package main

import (
	"encoding/json"
	"flag"
	"fmt"
	"go/ast"
	"go/build"
	"go/importer"
	"go/parser"
	"go/token"
	"go/types"
	"os"
	"path/filepath"
	"regexp"
	"sort"
	"strings"
)

const gircPath = "github.com/lrstanley/girc"
const ctxgroupPath = gircPath + "/internal/ctxgroup"

type pkgSrc struct {
	path  string
	dir   string
	files []*ast.File
	names []string
	pkg   *types.Package
	info  *types.Info
}

type srcImporter struct {
	def   types.ImporterFrom
	repo  string
	extra map[string]*types.Package
}

func (s *srcImporter) Import(path string) (*types.Package, error) {
	return s.ImportFrom(path, s.repo, 0)
}

func (s *srcImporter) ImportFrom(path, dir string, mode types.ImportMode) (*types.Package, error) {
	if p, ok := s.extra[path]; ok {
		return p, nil
	}
	return s.def.ImportFrom(path, s.repo, mode)
}

func newInfo() *types.Info {
	return &types.Info{
		Types:      map[ast.Expr]types.TypeAndValue{},
		Defs:       map[*ast.Ident]types.Object{},
		Uses:       map[*ast.Ident]types.Object{},
		Selections: map[*ast.SelectorExpr]*types.Selection{},
		Implicits:  map[ast.Node]types.Object{},
		Scopes:     map[ast.Node]*types.Scope{},
	}
}

func loadPkg(fset *token.FileSet, imp *srcImporter, path, dir string) (*pkgSrc, error) {
	ctx := build.Default
	ctx.BuildTags = nil // tag "verif" off: the verification hooks are not part of the library
	ents, err := os.ReadDir(dir)
	if err != nil {
		return nil, err
	}
	ps := &pkgSrc{path: path, dir: dir, info: newInfo()}
	for _, e := range ents {
		n := e.Name()
		if e.IsDir() || !strings.HasSuffix(n, ".go") || strings.HasSuffix(n, "_test.go") {
			continue
		}
		ok, err := ctx.MatchFile(dir, n)
		if err != nil {
			return nil, err
		}
		if !ok {
			continue
		}
		f, err := parser.ParseFile(fset, filepath.Join(dir, n), nil, parser.ParseComments)
		if err != nil {
			return nil, err
		}
		ps.files = append(ps.files, f)
		ps.names = append(ps.names, n)
	}
	conf := types.Config{Importer: imp, Error: func(err error) { fmt.Fprintln(os.Stderr, "typecheck:", err) }}
	pkg, err := conf.Check(path, fset, ps.files, ps.info)
	if err != nil {
		return nil, err
	}
	ps.pkg = pkg
	return ps, nil
}

// repoFromGoMod reads the `replace github.com/lrstanley/girc => DIR` directive of the
// harness module, so that the facts are generated from the same tree the harness builds.
func repoFromGoMod(gomod string) string {
	b, err := os.ReadFile(gomod)
	if err != nil {
		return ""
	}
	m := regexp.MustCompile(`(?m)^\s*replace\s+github\.com/lrstanley/girc\s*=>\s*(\S+)`).FindSubmatch(b)
	if m == nil {
		return ""
	}
	d := string(m[1])
	if !filepath.IsAbs(d) {
		d = filepath.Join(filepath.Dir(gomod), d)
	}
	return d
}

// ---- configuration (conf/C12.known.json) ----

type exclEntry struct {
	Func      string `json:"func"`   // function in whose dynamic extent the fact is excluded
	Site      string `json:"site"`   // optional: only this call site of func ("Callee#n")
	Kind      string `json:"kind"`   // "loc" | "yield" | "order"
	Item      string `json:"item"`   // location class (kind loc) or mutex (kind order); "" for yield
	Reason    string `json:"reason"` // why
	Slug      string `json:"slug"`   // finding slug (known findings)
	Generated bool   `json:"generated,omitempty"`
}

type confinedField struct {
	Writer []string `json:"writer"` // functions that may use the write half (bufio.Writer methods)
	Reader []string `json:"reader"` // functions that may use the read half (bufio.Reader methods)
	Ref    []string `json:"ref"`    // functions that may touch the field itself (construction)
	Reason string   `json:"reason"`
}

type modelConf struct {
	// Fields of lock-carrying structs that are NOT guarded by the struct's mutex, with the reason.
	Unguarded map[string]string `json:"unguarded_fields"`
	// Struct types without a mutex of their own whose fields belong to the tracked state
	// (guarded by the state lock when the object is reached from live state).
	StateOwned []string `json:"state_owned_types"`
	// state-owned types that are never snapshots (always live).
	AlwaysLive []string `json:"always_live_types"`
	// Fields used by one goroutine at a time by construction (checked: every use must be in the
	// dynamic extent of an owner of the half that is used).
	Confined map[string]confinedField `json:"confined_fields"`
	// Struct types guarded by a pseudo-mutex that is not an RWMutex field (type -> mutex name; a
	// sync.Once field of that name makes X.once.Do(f) an exclusive section of it).
	GuardedTypes map[string]string `json:"guarded_types"`
	// All fields of these types are one location class.
	LocAlias map[string]string `json:"loc_alias"`
	// Dynamic calls through these fields are calls of standard-library functions.
	HarmlessDynamic map[string]string `json:"harmless_dynamic_calls"`
	// Interfaces declared by girc whose implementations are plug-ins assumed not to call the client.
	Plugins map[string]string `json:"plugin_interfaces"`
	// Rank order of the mutexes (outermost first); mutexes not listed are appended in name order.
	LockOrder []string `json:"lock_order"`
	// Entry points that are not part of the concurrent-safe API (informational class override).
	Classes map[string]string `json:"entry_classes"`
	Known   []exclEntry       `json:"known_findings"`
	Design  []exclEntry       `json:"by_design"`
}

func main() {
	var (
		repo    = flag.String("repo", "", "girc source tree (default: $VERIF_REPO, else the replace directive of -gomod)")
		gomod   = flag.String("gomod", "go.mod", "harness go.mod")
		confP   = flag.String("conf", "../conf/C12.known.json", "model configuration and exclusion lists")
		outV    = flag.String("out", "../coq/Generated/LockFacts.v", "Coq output")
		outTxt  = flag.String("dump", "", "human-readable dump of the trees and the audit")
		namesP  = flag.String("names", "", "JSON file with the names of mutexes, locations and functions")
		verbose = flag.Bool("v", false, "print the trees")
	)
	flag.Parse()
	if *repo == "" {
		// development aid (bin/seedtest): check a scratch copy of the repository
		*repo = os.Getenv("VERIF_REPO")
	}
	if *repo == "" {
		*repo = repoFromGoMod(*gomod)
	}
	if *repo == "" {
		fmt.Fprintln(os.Stderr, "lockfacts: cannot determine the girc source tree")
		os.Exit(2)
	}
	var mc modelConf
	cb, err := os.ReadFile(*confP)
	if err != nil {
		fmt.Fprintln(os.Stderr, "lockfacts:", err)
		os.Exit(2)
	}
	if err := json.Unmarshal(cb, &mc); err != nil {
		fmt.Fprintln(os.Stderr, "lockfacts: conf:", err)
		os.Exit(2)
	}

	fset := token.NewFileSet()
	def := importer.ForCompiler(fset, "source", nil).(types.ImporterFrom)
	imp := &srcImporter{def: def, repo: *repo, extra: map[string]*types.Package{}}
	cg, err := loadPkg(fset, imp, ctxgroupPath, filepath.Join(*repo, "internal", "ctxgroup"))
	if err != nil {
		fmt.Fprintln(os.Stderr, "lockfacts: ctxgroup:", err)
		os.Exit(2)
	}
	imp.extra[ctxgroupPath] = cg.pkg
	gp, err := loadPkg(fset, imp, gircPath, *repo)
	if err != nil {
		fmt.Fprintln(os.Stderr, "lockfacts: girc:", err)
		os.Exit(2)
	}

	var ckeys []string
	for k := range mc.Confined {
		ckeys = append(ckeys, k)
	}
	sort.Strings(ckeys)
	for _, k := range ckeys {
		cf := mc.Confined[k]
		for _, h := range []struct {
			half  string
			funcs []string
		}{{"writer", cf.Writer}, {"reader", cf.Reader}, {"ref", cf.Ref}} {
			for _, fn := range h.funcs {
				mc.Design = append(mc.Design, exclEntry{Func: fn, Kind: "loc", Item: k + "(" + h.half + ")", Generated: true,
					Reason: "confined (confined_fields): " + cf.Reason})
			}
		}
	}
	w := newWorld(fset, []*pkgSrc{gp, cg}, &mc)
	w.run()
	coqText := w.coq(*repo)
	rep := w.report()
	if *outTxt != "" {
		_ = os.MkdirAll(filepath.Dir(*outTxt), 0o755)
		_ = os.WriteFile(*outTxt, []byte(rep+"\n"+w.dump()), 0o644)
	}
	if *namesP != "" {
		var fns, cls []string
		for _, f := range w.emitted() {
			fns = append(fns, f.name)
			cls = append(cls, w.entries[f])
		}
		nb, _ := json.MarshalIndent(map[string]interface{}{"mutexes": w.mutexes, "locs": w.locs, "funcs": fns, "classes": cls,
			"known": mc.Known, "design": mc.Design, "repo": *repo}, "", " ")
		_ = os.MkdirAll(filepath.Dir(*namesP), 0o755)
		_ = os.WriteFile(*namesP, nb, 0o644)
	}
	if *verbose {
		fmt.Println(w.dump())
	}
	fmt.Print(rep)
	_ = os.MkdirAll(filepath.Dir(*outV), 0o755)
	if err := os.WriteFile(*outV, []byte(coqText), 0o644); err != nil {
		fmt.Fprintln(os.Stderr, "lockfacts:", err)
		os.Exit(2)
	}
	if w.auditFailed {
		fmt.Println("lockfacts: AUDIT FAILED (see above)")
		os.Exit(1)
	}
}

func sortedKeys(m map[string]int) []string {
	out := make([]string, 0, len(m))
	for k := range m {
		out = append(out, k)
	}
	sort.Strings(out)
	return out
}
