package main

import (
	"go/ast"
	"go/token"
	"go/types"
)

// scanPkgVars finds the package-level variables that some function other than init writes at
// run time: assignment to the variable, to an element of it (map/slice/array index), to a
// field of it, ++/--, delete(v, k), or &v taken outside a call of the sync package.  No lock
// of the package guards such a variable, so every access to it (read or write) in a function
// reachable from a concurrent entry point is emitted as an access to the location class
// "pkgvar:<name>", whose guard nobody ever holds.  Package-level tables that are only
// initialised (fmtColors, fmtCodes, possibleCap, ...) are not locations.
func (w *world) scanPkgVars() {
	w.mutPkgVars = map[*types.Var]bool{}
	for _, ps := range w.pkgs {
		pkgVar := func(e ast.Expr) *types.Var {
			for {
				switch x := e.(type) {
				case *ast.ParenExpr:
					e = x.X
					continue
				case *ast.IndexExpr:
					e = x.X
					continue
				case *ast.SliceExpr:
					e = x.X
					continue
				case *ast.SelectorExpr:
					if sel := ps.info.Selections[x]; sel != nil && sel.Kind() == types.FieldVal {
						if _, ptr := ps.info.Types[x.X].Type.Underlying().(*types.Pointer); !ptr {
							e = x.X
							continue
						}
					}
					return nil
				case *ast.Ident:
					v, ok := ps.info.Uses[x].(*types.Var)
					if ok && !v.IsField() && v.Parent() == ps.pkg.Scope() {
						return v
					}
					return nil
				}
				return nil
			}
		}
		for _, f := range ps.files {
			for _, d := range f.Decls {
				fd, ok := d.(*ast.FuncDecl)
				if !ok || fd.Body == nil || (fd.Recv == nil && fd.Name.Name == "init") {
					continue
				}
				ast.Inspect(fd.Body, func(n ast.Node) bool {
					switch s := n.(type) {
					case *ast.AssignStmt:
						if s.Tok == token.DEFINE {
							return true
						}
						for _, l := range s.Lhs {
							if v := pkgVar(l); v != nil {
								w.mutPkgVars[v] = true
							}
						}
					case *ast.IncDecStmt:
						if v := pkgVar(s.X); v != nil {
							w.mutPkgVars[v] = true
						}
					case *ast.CallExpr:
						if id, ok := s.Fun.(*ast.Ident); ok && id.Name == "delete" && len(s.Args) == 2 {
							if _, isB := ps.info.Uses[id].(*types.Builtin); isB {
								if v := pkgVar(s.Args[0]); v != nil {
									w.mutPkgVars[v] = true
								}
							}
						}
					}
					return true
				})
			}
		}
	}
}
