// gircx: differential driver. Prints one line per case:
//
//	suite TAB hexargs... TAB => TAB observation TAB oracle TAB signature
//
// Subcommands: list | run -suite S -seed N -n N | eval (cases on stdin).
package main

import (
	"bufio"
	"flag"
	"fmt"
	"math/rand"
	"os"
	"strings"

	"gircverif/suites"
)

func emit(w *bufio.Writer, s *suites.Suite, c suites.Case) {
	res := suites.SafeRun(s, c)
	oracle := strings.ReplaceAll(strings.ReplaceAll(res.Oracle, "\t", " "), "\n", " ")
	fmt.Fprintf(w, "%s\t%s\t=>\t%s\t%s\t%s\n", s.Name, suites.EncodeCase(c), suites.Esc(res.Obs), suites.Esc(oracle), res.Sig)
}

func main() {
	if len(os.Args) < 2 {
		fmt.Fprintln(os.Stderr, "usage: gircx list|run|eval")
		os.Exit(2)
	}
	w := bufio.NewWriterSize(os.Stdout, 1<<20)
	defer w.Flush()
	switch os.Args[1] {
	case "list":
		for _, n := range suites.Names() {
			s := suites.Get(n)
			fmt.Fprintf(w, "%s\t%s\t%s\n", n, strings.Join(s.Prop, ","), s.Exhaustive)
		}
	case "run":
		fs := flag.NewFlagSet("run", flag.ExitOnError)
		name := fs.String("suite", "", "suite name")
		seed := fs.Int64("seed", 1, "PRNG seed")
		n := fs.Int("n", 1000, "generated cases")
		nofixed := fs.Bool("nofixed", false, "skip the fixed cases")
		fs.Parse(os.Args[2:])
		s := suites.Get(*name)
		if s == nil {
			fmt.Fprintln(os.Stderr, "unknown suite", *name)
			os.Exit(2)
		}
		if s.Fixed != nil && !*nofixed {
			for _, c := range s.Fixed() {
				emit(w, s, c)
			}
		}
		if s.Gen != nil {
			r := rand.New(rand.NewSource(*seed))
			for i := 0; i < *n; i++ {
				emit(w, s, s.Gen(r))
			}
		}
	case "eval":
		sc := bufio.NewScanner(os.Stdin)
		sc.Buffer(make([]byte, 1<<20), 1<<26)
		for sc.Scan() {
			f := strings.Split(sc.Text(), "\t")
			s := suites.Get(f[0])
			if s == nil {
				fmt.Fprintf(w, "%s\t=>\t?unknown-suite\t\t\n", sc.Text())
				continue
			}
			c, err := suites.DecodeCase(f[1:])
			if err != nil {
				fmt.Fprintf(w, "%s\t=>\t?bad-case\t\t\n", sc.Text())
				continue
			}
			emit(w, s, c)
		}
	default:
		fmt.Fprintln(os.Stderr, "unknown subcommand")
		os.Exit(2)
	}
}
