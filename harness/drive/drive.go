// Package drive holds helpers to run a girc client against an in-process peer.
package drive

import (
	"bufio"
	"net"
	"strings"
	"sync"
	"time"

	"github.com/lrstanley/girc"
)

// Session is a client connected through MockConnect to a pipe whose other end
// records every line the client writes.
type Session struct {
	C      *girc.Client
	Peer   net.Conn
	mu     sync.Mutex
	lines  []string
	Done   chan error // result of MockConnect
	Panics []interface{}
	pmu    sync.Mutex
}

// BaseConfig is a minimal valid configuration with flood protection off.
func BaseConfig() girc.Config {
	return girc.Config{Server: "irc.test", Port: 6667, Nick: "me", User: "user", Name: "Real Name", AllowFlood: true}
}

// Start connects a client with cfg; RecoverFunc records handler panics.
func Start(cfg girc.Config) *Session {
	s := &Session{Done: make(chan error, 1)}
	if cfg.RecoverFunc == nil {
		cfg.RecoverFunc = func(c *girc.Client, e *girc.HandlerError) {
			s.pmu.Lock()
			s.Panics = append(s.Panics, e)
			s.pmu.Unlock()
		}
	}
	s.C = girc.New(cfg)
	in, out := net.Pipe()
	s.Peer = in
	go func() {
		r := bufio.NewReader(in)
		for {
			l, err := r.ReadString('\n')
			if l != "" {
				s.mu.Lock()
				s.lines = append(s.lines, l)
				s.mu.Unlock()
			}
			if err != nil {
				return
			}
		}
	}()
	go func() { s.Done <- s.C.MockConnect(out) }()
	deadline := time.Now().Add(5 * time.Second)
	for !s.C.IsConnected() && time.Now().Before(deadline) {
		time.Sleep(time.Millisecond)
	}
	// wait for the registration burst (NICK, USER) to be written
	s.WaitLine(func(l string) bool { return strings.HasPrefix(l, "USER ") }, 5*time.Second)
	return s
}

// Lines returns a copy of the lines written by the client so far (with CRLF).
func (s *Session) Lines() []string {
	s.mu.Lock()
	defer s.mu.Unlock()
	return append([]string(nil), s.lines...)
}

// Mark returns the current number of written lines.
func (s *Session) Mark() int {
	s.mu.Lock()
	defer s.mu.Unlock()
	return len(s.lines)
}

// Since returns the lines written after mark.
func (s *Session) Since(mark int) []string {
	s.mu.Lock()
	defer s.mu.Unlock()
	return append([]string(nil), s.lines[mark:]...)
}

// WaitLine waits until some written line satisfies pred.
func (s *Session) WaitLine(pred func(string) bool, d time.Duration) (string, bool) {
	deadline := time.Now().Add(d)
	for {
		for _, l := range s.Lines() {
			if pred(l) {
				return l, true
			}
		}
		if time.Now().After(deadline) {
			return "", false
		}
		time.Sleep(time.Millisecond)
	}
}

// Settle waits until no new line has been written for `quiet`, at most `max`.
func (s *Session) Settle(quiet, max time.Duration) {
	deadline := time.Now().Add(max)
	last := s.Mark()
	lastChange := time.Now()
	for time.Now().Before(deadline) {
		time.Sleep(time.Millisecond)
		if m := s.Mark(); m != last {
			last, lastChange = m, time.Now()
		} else if time.Since(lastChange) >= quiet {
			return
		}
	}
}

// Feed runs the handlers for one raw line synchronously (RunHandlers returns when all
// foreground handlers have returned). Returns false if the line does not parse.
func (s *Session) Feed(line string) bool {
	e := girc.ParseEvent(line)
	if e == nil {
		return false
	}
	s.C.RunHandlers(e)
	return true
}

// Send writes a raw line to the client over the pipe (the connected route).
func (s *Session) Send(line string) error {
	_, err := s.Peer.Write([]byte(line + "\r\n"))
	return err
}

// PanicCount returns how many handler panics were recovered.
func (s *Session) PanicCount() int {
	s.pmu.Lock()
	defer s.pmu.Unlock()
	return len(s.Panics)
}

// Stop closes the client and waits for Connect to return.
func (s *Session) Stop() error {
	s.C.Close()
	select {
	case err := <-s.Done:
		s.Peer.Close()
		return err
	case <-time.After(10 * time.Second):
		s.Peer.Close()
		return errTimeout
	}
}

type timeoutErr struct{}

func (timeoutErr) Error() string { return "Connect did not return within 10s of Close" }

var errTimeout = timeoutErr{}
