package suites

import (
	"bytes"
	"fmt"
	"os"
	"os/exec"
	"runtime"
	"strconv"
	"strings"
	"sync/atomic"
	"time"

	"gircverif/drive"

	"github.com/lrstanley/girc"
)

// Ev is one received event, already parsed (the state model's input).
type Ev struct {
	HasSrc            bool
	Name, Ident, Host string
	HasAcct           bool
	Acct              string
	Cmd               string
	Params            []string
}

func (e Ev) args() []string {
	f := []byte("--")
	if e.HasSrc {
		f[0] = 's'
	}
	if e.HasAcct {
		f[1] = 'a'
	}
	out := []string{string(f), e.Name, e.Ident, e.Host, e.Acct, e.Cmd, strconv.Itoa(len(e.Params))}
	return append(out, e.Params...)
}

// EncodeHistory renders route, config and events as case arguments.
func EncodeHistory(route, nick, user string, evs []Ev) Case {
	c := Case{route, nick, user}
	for _, e := range evs {
		c = append(c, e.args()...)
	}
	return c
}

// DecodeHistory is the inverse of EncodeHistory (ok=false on a malformed case).
func DecodeHistory(c Case) (route, nick, user string, evs []Ev, ok bool) {
	if len(c) < 3 {
		return "", "", "", nil, false
	}
	route, nick, user = c[0], c[1], c[2]
	r := c[3:]
	for len(r) > 0 {
		if len(r) < 7 || len(r[0]) < 2 {
			return route, nick, user, evs, false
		}
		n, err := strconv.Atoi(r[6])
		if err != nil || n < 0 || len(r) < 7+n {
			return route, nick, user, evs, false
		}
		evs = append(evs, Ev{HasSrc: r[0][0] == 's', Name: r[1], Ident: r[2], Host: r[3], HasAcct: r[0][1] == 'a', Acct: r[4], Cmd: r[5], Params: append([]string(nil), r[7:7+n]...)})
		r = r[7+n:]
	}
	return route, nick, user, evs, true
}

func (e Ev) event() *girc.Event {
	ev := &girc.Event{Command: e.Cmd, Params: append([]string(nil), e.Params...), Timestamp: time.Now()}
	if e.HasSrc {
		ev.Source = &girc.Source{Name: e.Name, Ident: e.Ident, Host: e.Host}
	}
	if e.HasAcct {
		ev.Tags = girc.Tags{"account": e.Acct}
	}
	return ev
}

// Line parses a raw line into an Ev with the real parser.
func EvFromLine(line string) (Ev, bool) {
	p := girc.ParseEvent(line)
	if p == nil {
		return Ev{}, false
	}
	e := Ev{Cmd: p.Command, Params: p.Params}
	if p.Source != nil {
		e.HasSrc, e.Name, e.Ident, e.Host = true, p.Source.Name, p.Source.Ident, p.Source.Host
	}
	if len(p.Tags) > 0 {
		if v, ok := p.Tags.Get("account"); ok {
			e.HasAcct, e.Acct = true, v
		}
	}
	return e, true
}

// StateSession is a connected client plus what the state suites need to observe.
type StateSession struct {
	*drive.Session
	general int64 // UPDATE_GENERAL notifications seen
}

func StartState(nick, user string) *StateSession {
	cfg := drive.BaseConfig()
	cfg.Nick, cfg.User = nick, user
	ss := &StateSession{}
	ss.Session = drive.Start(cfg)
	ss.C.Handlers.Add(girc.UPDATE_GENERAL, func(c *girc.Client, e girc.Event) { atomic.AddInt64(&ss.general, 1) })
	return ss
}

// Apply processes one event and waits for the asynchronous welcome handler.
func (ss *StateSession) Apply(e Ev) {
	before := atomic.LoadInt64(&ss.general)
	ss.C.RunHandlers(e.event())
	if e.Cmd == "001" && len(e.Params) > 0 {
		deadline := time.Now().Add(3 * time.Second)
		for atomic.LoadInt64(&ss.general) == before && time.Now().Before(deadline) {
			time.Sleep(50 * time.Microsecond)
		}
	}
}

func permFlags(p girc.Perms) string {
	f := []byte("-----")
	if p.Owner {
		f[0] = 'q'
	}
	if p.Admin {
		f[1] = 'a'
	}
	if p.Op {
		f[2] = 'o'
	}
	if p.HalfOp {
		f[3] = 'h'
	}
	if p.Voice {
		f[4] = 'v'
	}
	return string(f)
}

// DumpState renders everything the state API shows, canonically (Driver/DrvC04.v dump_state).
func DumpState(c *girc.Client) string {
	var sb strings.Builder
	line, prefix := c.VerifLimits()
	fmt.Fprintf(&sb, "n=%s;i=%s;h=%s;l=%d,%d;m=%s;o=", Hex(c.GetNick()), Hex(c.GetIdent()), Hex(c.GetHost()), line, prefix, Hex(c.ServerMOTD()))
	keys, vals := c.VerifServerOptions()
	for i := range keys {
		if i > 0 {
			sb.WriteByte(',')
		}
		sb.WriteString(Hex(keys[i]) + "=" + Hex(vals[i]))
	}
	sb.WriteString(";c=")
	for i, ch := range c.Channels() {
		if i > 0 {
			sb.WriteByte('|')
		}
		var ml []string
		for _, m := range ch.Modes.VerifModeList() {
			ml = append(ml, Hex(string([]byte{m.Name}))+"="+Hex(m.Args))
		}
		sb.WriteString(Hex(ch.Name) + ":" + Hex(ch.Topic) + ":" + HexList(ch.UserList) + ":" + Hex(ch.Modes.String()) + ":" + strings.Join(ml, ","))
	}
	sb.WriteString(";u=")
	for i, u := range c.Users() {
		if i > 0 {
			sb.WriteByte('|')
		}
		pk, pv, _ := u.Perms.VerifPermsMap()
		var pl []string
		for j := range pk {
			pl = append(pl, Hex(pk[j])+"="+permFlags(pv[j]))
		}
		sb.WriteString(Hex(u.Nick) + ":" + Hex(u.Ident) + ":" + Hex(u.Host) + ":" + HexList(u.ChannelList) + ":" + strings.Join(pl, ",") + ":" + Hex(u.Extras.Name) + ":" + Hex(u.Extras.Account) + ":" + Hex(u.Extras.Away))
	}
	uk, ck := c.VerifLiveKeys()
	sb.WriteString(";k=" + HexList(uk) + "/" + HexList(ck))
	return sb.String()
}

// StructuralInvariant evaluates C05's consistency statement on the state API (folding with
// specFold of c15.go, written from the property's byte table). Returns
// "" or a description of the first inconsistency.
func StructuralInvariant(c *girc.Client) string {
	chans := c.Channels()
	users := c.Users()
	uk, ck := c.VerifLiveKeys()
	chanByKey := map[string]*girc.Channel{}
	userByKey := map[string]*girc.User{}
	for _, ch := range chans {
		chanByKey[specFold(ch.Name)] = ch
	}
	for _, u := range users {
		userByKey[specFold(u.Nick)] = u
	}
	// "case-folded" is judged with the harness's own fold (specFold: the byte table of the
	// property, A-Z and [ \ ] ^ to a-z and { | } ~), not with the library's ToRFC1459.
	seenC, seenU := map[string]string{}, map[string]string{}
	for _, k := range ck {
		if specFold(k) != k {
			return "channel key " + strconv.Quote(k) + " is not case-folded"
		}
	}
	for _, k := range uk {
		if specFold(k) != k {
			return "user key " + strconv.Quote(k) + " is not case-folded"
		}
	}
	for _, ch := range chans {
		if prev, dup := seenC[specFold(ch.Name)]; dup {
			return "channel " + strconv.Quote(ch.Name) + " is tracked twice (also as " + strconv.Quote(prev) + ")"
		}
		seenC[specFold(ch.Name)] = ch.Name
	}
	for _, u := range users {
		if prev, dup := seenU[specFold(u.Nick)]; dup {
			return "user " + strconv.Quote(u.Nick) + " is tracked twice (also as " + strconv.Quote(prev) + ")"
		}
		seenU[specFold(u.Nick)] = u.Nick
	}
	if len(chanByKey) != len(ck) || len(userByKey) != len(uk) {
		return "map keys are not the folded names of their records"
	}
	for _, k := range ck {
		if chanByKey[k] == nil {
			return "channel key " + strconv.Quote(k) + " is not the fold of its record's name"
		}
	}
	for _, k := range uk {
		if userByKey[k] == nil {
			return "user key " + strconv.Quote(k) + " is not the fold of its record's nick"
		}
	}
	okList := func(l []string) string {
		for i, x := range l {
			if specFold(x) != x {
				return "entry " + strconv.Quote(x) + " is not case-folded"
			}
			if i > 0 && !(l[i-1] < x) {
				return "list not strictly sorted (duplicate or disorder) at " + strconv.Quote(x)
			}
		}
		return ""
	}
	for _, u := range users {
		if m := okList(u.ChannelList); m != "" {
			return "ChannelList of " + u.Nick + ": " + m
		}
	}
	for _, ch := range chans {
		if m := okList(ch.UserList); m != "" {
			return "UserList of " + ch.Name + ": " + m
		}
		for _, n := range ch.UserList {
			u := userByKey[n]
			if u == nil {
				return "channel " + ch.Name + " lists unknown user " + strconv.Quote(n)
			}
			if !containsStr(u.ChannelList, specFold(ch.Name)) {
				return "nick " + n + " is listed in " + ch.Name + " but the channel is not listed for the user"
			}
		}
	}
	for _, u := range users {
		if m := okList(u.ChannelList); m != "" {
			return "ChannelList of " + u.Nick + ": " + m
		}
		if len(u.ChannelList) == 0 {
			return "user " + u.Nick + " is retained without any channel"
		}
		for _, cn := range u.ChannelList {
			ch := chanByKey[cn]
			if ch == nil {
				return "user " + u.Nick + " lists unknown channel " + strconv.Quote(cn)
			}
			if !containsStr(ch.UserList, specFold(u.Nick)) {
				return "channel " + cn + " is listed for " + u.Nick + " but the nick is not listed in the channel"
			}
		}
	}
	return ""
}

// PermsCovered: every channel listed for a user has an entry in its permission map
// (C05_perms_cover_partial). Returns "" or the first gap.
func PermsCovered(c *girc.Client) string {
	for _, u := range c.Users() {
		keys, _, _ := u.Perms.VerifPermsMap()
		for _, cn := range u.ChannelList {
			if !containsStr(keys, cn) {
				return "user " + u.Nick + " lists " + strconv.Quote(cn) + " but has no permission entry for it"
			}
		}
	}
	return ""
}

func containsStr(l []string, x string) bool {
	for _, y := range l {
		if y == x {
			return true
		}
	}
	return false
}

// Written returns the WHO/MODE/PONG lines the client wrote after `mark`, rendered like
// the model's outputs, excluding the sentinel PONG.
func Written(lines []string, sentinel string) string {
	var out []string
	for _, l := range lines {
		p := girc.ParseEvent(l)
		if p == nil {
			continue
		}
		switch p.Command {
		case "WHO", "MODE", "PONG":
			if p.Command == "PONG" && len(p.Params) == 1 && p.Params[0] == sentinel {
				continue
			}
			out = append(out, Hex(p.Command)+":"+HexList(strings.Fields(strings.Join(p.Params, " "))))
		}
	}
	return strings.Join(out, "|")
}

// RunHistory drives one history on a fresh client. Returns the observation and an
// oracle verdict for the C05 statement (panic / wedge / liveness / structure).
func RunHistory(nick, user string, evs []Ev) (obs, oracle string, ss *StateSession) {
	ss = StartState(nick, user)
	mark := ss.Mark()
	for i, e := range evs {
		// RunHandlers returns when every foreground handler has returned; with a leaked state
		// lock the next handler never does, so the call is watched from outside.
		returned := make(chan struct{})
		go func(e Ev) { ss.Apply(e); close(returned) }(e)
		started := time.Now()
	wait:
		for {
			select {
			case <-returned:
				break wait
			case <-time.After(100 * time.Millisecond):
				if !StateLockFree(ss.C, 150*time.Millisecond) {
					return "WEDGED", fmt.Sprintf("wedge: the handlers of event %d (%s) block on a state lock that is never released", i, e.Cmd), ss
				}
				if time.Since(started) > 20*time.Second {
					return "NOPONG", fmt.Sprintf("liveness: the handlers of event %d (%s) did not return", i, e.Cmd), ss
				}
			}
		}
		if ss.PanicCount() > 0 {
			return "PANIC", fmt.Sprintf("panic: handler panicked on event %d (%s %q)", i, e.Cmd, e.Params), ss
		}
		if !StateLockFree(ss.C, 150*time.Millisecond) {
			return "WEDGED", fmt.Sprintf("wedge: state lock still held after event %d (%s)", i, e.Cmd), ss
		}
	}
	const sentinel = "verif-sentinel-7f3a"
	ss.C.RunHandlers(&girc.Event{Command: "PING", Params: []string{sentinel}})
	if _, ok := ss.WaitLine(func(l string) bool { return l == "PONG "+sentinel+"\r\n" }, 5*time.Second); !ok {
		return "NOPONG", "liveness: a PING after the history was not answered", ss
	}
	obs = DumpState(ss.C) + ";w=" + Written(ss.Since(mark), sentinel)
	if m := StructuralInvariant(ss.C); m != "" {
		oracle = "structure: " + m
	} else if m := PermsCovered(ss.C); m != "" {
		oracle = "perms: " + m
	}
	return obs, oracle, ss
}

// StateLockFree reports whether the state lock can be taken. A background handler (CTCP
// replier, welcome handler) may hold the lock for an instant, so one failed TryLock is not
// a wedge: the verdict "held" needs at least 300 failed attempts, each followed by a yield
// to the holder, spread over at least d. A lock leaked by a handler stays held for ever.
func StateLockFree(c *girc.Client, d time.Duration) bool {
	start := time.Now()
	for n := 0; ; n++ {
		if c.VerifTryStateLock() {
			return true
		}
		if n >= 300 && time.Since(start) >= d {
			return false
		}
		runtime.Gosched()
		time.Sleep(200 * time.Microsecond)
	}
}

// Line renders the event as the raw line a server would send. ok=false when no line
// parses back to exactly this event (empty or spaced middle parameter, empty source name, ...).
func (e Ev) Line() (line string, ok bool) {
	var sb strings.Builder
	if e.HasAcct {
		sb.WriteString("@account=" + e.Acct + " ")
	}
	if e.HasSrc {
		sb.WriteString(":" + e.Name)
		if e.Ident != "" {
			sb.WriteString("!" + e.Ident)
		}
		if e.Host != "" {
			sb.WriteString("@" + e.Host)
		}
		sb.WriteByte(' ')
	}
	sb.WriteString(e.Cmd)
	for i, p := range e.Params {
		if i == len(e.Params)-1 && (p == "" || strings.Contains(p, " ") || p[0] == ':') {
			sb.WriteString(" :" + p)
		} else {
			sb.WriteString(" " + p)
		}
	}
	line = sb.String()
	if strings.ContainsAny(line, "\r\n\x00") {
		return line, false
	}
	back, pok := EvFromLine(line)
	if !pok || !evEqual(back, e) {
		return line, false
	}
	return line, true
}

func evEqual(a, b Ev) bool {
	if a.HasSrc != b.HasSrc || a.HasAcct != b.HasAcct || a.Cmd != b.Cmd || len(a.Params) != len(b.Params) {
		return false
	}
	if a.HasSrc && (a.Name != b.Name || a.Ident != b.Ident || a.Host != b.Host) {
		return false
	}
	if a.HasAcct && a.Acct != b.Acct {
		return false
	}
	for i := range a.Params {
		if a.Params[i] != b.Params[i] {
			return false
		}
	}
	return true
}

// SentinelPrefix starts every PING token the harness itself sends.
const SentinelPrefix = "verif-sentinel-"

// WrittenNoSentinels is Written without any PONG that answers a harness PING.
func WrittenNoSentinels(lines []string) string {
	var out []string
	for _, l := range lines {
		p := girc.ParseEvent(l)
		if p == nil {
			continue
		}
		switch p.Command {
		case "WHO", "MODE", "PONG":
			if p.Command == "PONG" && len(p.Params) == 1 && strings.HasPrefix(p.Params[0], SentinelPrefix) {
				continue
			}
			out = append(out, Hex(p.Command)+":"+HexList(strings.Fields(strings.Join(p.Params, " "))))
		}
	}
	return strings.Join(out, "|")
}

// ConnOptions selects the client configuration of a connected session.
type ConnOptions struct {
	SASL      bool // Config.SASL = SASLPlain
	NoRecover bool // a handler panic is not absorbed (as with RecoverFunc == nil): the process dies
	App       bool // RecoverFunc set, and application handlers (Add, AddBg, AddTmp) that panic on some lines
}

// registerPanickyApp installs application handlers of the three kinds (foreground, background,
// temporary) that panic on some server lines, the way careless application code does.
func registerPanickyApp(c *girc.Client) {
	// foreground: Commands.Reply is documented to panic for an event without a source
	c.Handlers.Add(girc.PRIVMSG, func(c *girc.Client, e girc.Event) { c.Cmd.Reply(e, "ok") })
	// foreground: write to a nil map
	c.Handlers.Add(girc.NOTICE, func(c *girc.Client, e girc.Event) {
		var seen map[string]int
		seen[e.Last()]++
	})
	// background: index out of range on a short parameter list
	c.Handlers.AddBg(girc.TOPIC, func(c *girc.Client, e girc.Event) { _ = e.Params[1] + e.Params[2] })
	// temporary: panics the first time it runs with fewer than four parameters
	c.Handlers.AddTmp(girc.KICK, 0, func(c *girc.Client, e girc.Event) bool { return e.Params[3] == "" })
	// foreground, on a numeric: nil pointer
	c.Handlers.Add("366", func(c *girc.Client, e girc.Event) { _ = e.Source.Name })
}

// mayDisconnect: events after which the client may decide to disconnect with an error.
func mayDisconnect(e Ev, opt ConnOptions) bool {
	switch e.Cmd {
	case "ERROR":
		return true
	case "AUTHENTICATE", "902", "904", "905", "906", "908":
		return opt.SASL
	}
	return false
}

// RunConnected pushes the history through the socket of a MockConnect'ed client, one line
// at a time, then requires the liveness half of C05: a sentinel PING is answered, or
// Connect has returned an error. Observation: the state dump, or "disconnected".
func RunConnected(nick, user string, evs []Ev, opt ConnOptions) (obs, oracle string) {
	cfg := drive.BaseConfig()
	cfg.Nick, cfg.User = nick, user
	if opt.SASL {
		cfg.SASL = &girc.SASLPlain{User: "acct", Pass: "secret"}
	}
	if opt.NoRecover {
		cfg.RecoverFunc = func(c *girc.Client, e *girc.HandlerError) { panic(e) }
	}
	var internalPanics, appPanics int64
	if opt.App {
		// a recovered panic of an APPLICATION handler is the application's business; the client
		// must go on. Only a panic that does not come from the handlers below counts.
		cfg.RecoverFunc = func(c *girc.Client, e *girc.HandlerError) {
			if strings.Contains(string(e.Stack), "suites.registerPanickyApp") {
				atomic.AddInt64(&appPanics, 1)
				return
			}
			atomic.AddInt64(&internalPanics, 1)
		}
	}
	ss := drive.Start(cfg)
	if opt.App {
		registerPanickyApp(ss.C)
	}
	panicCount := func() int { return ss.PanicCount() + int(atomic.LoadInt64(&internalPanics)) }
	var general int64 // UPDATE_GENERAL notifications seen
	ss.C.Handlers.Add(girc.UPDATE_GENERAL, func(c *girc.Client, e girc.Event) { atomic.AddInt64(&general, 1) })
	healthy := true // after a wedge / missing PONG verdict the client is abandoned, not stopped
	defer func() {
		if healthy {
			ss.Stop()
		}
	}()
	mark := ss.Mark()
	seq := 0
	wedged := false
	var gone bool  // the pipe is closed or Connect has returned
	var ended bool // Connect's result has been received
	var derr error
	pollDone := func() {
		if ended {
			return
		}
		select {
		case derr = <-ss.Done:
			ended, gone = true, true
			ss.Done <- derr // Stop() reads it again
		default:
		}
	}
	// loopStuck: events are waiting in the receive queue, and for 2.5 s (and 200 looks) neither
	// has the queue moved nor has the client written anything: execLoop no longer takes events
	// (handlers take microseconds; nothing on these routes sleeps in a foreground handler).
	stuck := false
	var stuckRx, stuckLines, stuckLooks int
	stuckSince := time.Now()
	loopStuck := func() bool {
		rx, _ := ss.C.VerifQueues()
		lines := ss.Mark()
		if rx == 0 || rx != stuckRx || lines != stuckLines {
			stuckRx, stuckLines, stuckLooks, stuckSince = rx, lines, 0, time.Now()
			return false
		}
		stuckLooks++
		if stuckLooks >= 200 && time.Since(stuckSince) >= 2500*time.Millisecond {
			stuck = true
		}
		return stuck
	}
	stalled := false
	// send writes one line; the pipe is synchronous, so a client that stopped reading (its
	// receive queue is full because the handlers block) would block the harness too.
	send := func(line string) bool {
		errc := make(chan error, 1)
		go func() { errc <- ss.Send(line) }()
		start := time.Now()
		for {
			select {
			case err := <-errc:
				if err != nil {
					gone = true
					return false
				}
				return true
			case <-time.After(10 * time.Millisecond):
				if loopStuck() {
					return false
				}
				if time.Since(start) < 100*time.Millisecond {
					continue
				}
				if !StateLockFree(ss.C, 150*time.Millisecond) {
					wedged = true
					return false
				}
				if time.Since(start) > 15*time.Second {
					stalled = true
					return false
				}
			}
		}
	}
	// barrier: PING tok, then wait for its PONG or for Connect to return.
	barrier := func() bool {
		seq++
		tok := SentinelPrefix + strconv.Itoa(seq)
		if !send("PING " + tok) {
			return false
		}
		want := "PONG " + tok + "\r\n"
		sent := time.Now()
		deadline := sent.Add(10 * time.Second)
		for {
			if pollDone(); gone {
				return false
			}
			for _, l := range ss.Since(mark) {
				if l == want {
					return true
				}
			}
			if time.Now().After(deadline) {
				return false
			}
			// no answer for half a second and the state lock is held all the time: a handler
			// returned (or died) with the lock held and every later handler blocks on it
			if time.Since(sent) > 200*time.Millisecond && !StateLockFree(ss.C, 150*time.Millisecond) {
				wedged = true
				return false
			}
			if time.Since(sent) > 20*time.Millisecond {
				if loopStuck() {
					return false
				}
				time.Sleep(10 * time.Millisecond)
			}
			time.Sleep(100 * time.Microsecond)
		}
	}
	for i, e := range evs {
		line, ok := e.Line()
		if !ok {
			return "?unrenderable", ""
		}
		welcome := e.Cmd == "001" && len(e.Params) > 0
		var before int64
		if welcome {
			// the welcome handler runs in the background; it ends with an UPDATE_GENERAL
			// notification. Everything sent before is handled first, so that the next
			// notification can only be its own.
			if !barrier() {
				break
			}
			before = atomic.LoadInt64(&general)
		}
		if !send(line) {
			break
		}
		if welcome {
			if !barrier() {
				break
			}
			deadline := time.Now().Add(3 * time.Second)
			for atomic.LoadInt64(&general) == before && time.Now().Before(deadline) {
				time.Sleep(50 * time.Microsecond)
			}
		}
		if panicCount() > 0 {
			healthy = false // the handler may have died with the state lock held: do not wait for Stop
			return "PANIC", fmt.Sprintf("panic: handler panicked around event %d (%s %q)", i, e.Cmd, e.Params)
		}
		if mayDisconnect(e, opt) {
			// Stop feeding once the client has decided to go: readLoop hands lines to a queue
			// of 25 that nobody drains after execLoop has returned, and waits 30 s on each
			// further line before it notices the cancellation; Connect returns that much later.
			if !(barrier() && barrier()) {
				break
			}
		}
	}
	// two barriers: an ERROR queued by a handler is behind at most the first one
	alive := !gone && !wedged && !stalled && !stuck && barrier() && barrier()
	if panicCount() > 0 {
		healthy = false
		return "PANIC", "panic: a handler panicked during the history"
	}
	if wedged {
		healthy = false
		return "WEDGED", "wedge: the state lock stays held and the client no longer reads or answers"
	}
	if stalled {
		healthy = false
		return "NOPONG", "liveness: the client stopped reading its socket for 15 s"
	}
	if stuck {
		healthy = false
		return "NOPONG", fmt.Sprintf("liveness: the event loop has stopped taking events: %d waiting in the receive queue, nothing taken and nothing written for 2.5 s, the PING is not answered (recovered application-handler panics so far: %d)", stuckRx, atomic.LoadInt64(&appPanics))
	}
	if alive {
		if !StateLockFree(ss.C, 150*time.Millisecond) {
			healthy = false
			return "WEDGED", "wedge: state lock still held after the history"
		}
		obs = DumpState(ss.C) + ";w=" + WrittenNoSentinels(ss.Since(mark))
		if m := StructuralInvariant(ss.C); m != "" {
			oracle = "structure: " + m
		} else if m := PermsCovered(ss.C); m != "" {
			oracle = "perms: " + m
		}
		return obs, oracle
	}
	// no PONG: Connect must return, with an error
	deadline := time.Now().Add(5 * time.Second)
	for !ended && time.Now().Before(deadline) {
		pollDone()
		time.Sleep(200 * time.Microsecond)
	}
	if !ended {
		healthy = false
		return "NOPONG", "liveness: after the history the client neither answered a PING nor returned from Connect"
	}
	if derr == nil {
		return "disconnected-nil", "liveness: Connect returned without an error although nobody closed the client"
	}
	return "disconnected", ""
}

// Isolated runs one case of a suite in a child process (the same binary, `eval`), so that
// a crash of the library (a panic in a bare goroutine kills the process) is an oracle
// verdict with the case as replay instead of the death of the whole run.
func Isolated(suite string, c Case, direct func(Case) Result) Result {
	if os.Getenv("VERIF_ISOLATED_CHILD") == "1" {
		return direct(c)
	}
	exe, err := os.Executable()
	if err != nil {
		return direct(c)
	}
	cmd := exec.Command(exe, "eval")
	cmd.Env = append(os.Environ(), "VERIF_ISOLATED_CHILD=1")
	cmd.Stdin = strings.NewReader(suite + "\t" + EncodeCase(c) + "\n")
	var stdout, stderr bytes.Buffer
	cmd.Stdout, cmd.Stderr = &stdout, &stderr
	runErr := cmd.Run()
	for _, ln := range strings.Split(stdout.String(), "\n") {
		i := strings.Index(ln, "\t=>\t")
		if i < 0 {
			continue
		}
		f := strings.Split(ln[i+4:], "\t")
		for len(f) < 3 {
			f = append(f, "")
		}
		return Result{Obs: Unesc(f[0]), Oracle: Unesc(f[1]), Sig: f[2]}
	}
	msg := strings.TrimSpace(stderr.String())
	if j := strings.Index(msg, "\n"); j >= 0 {
		first := msg[:j]
		if k := strings.Index(msg, "goroutine "); k >= 0 {
			rest := msg[k:]
			if l := strings.Index(rest, "\n"); l >= 0 {
				rest = rest[l+1:]
			}
			fr := strings.SplitN(rest, "\n", 2)[0]
			first += " @ " + strings.TrimSpace(fr)
		}
		msg = first
	}
	return Result{Obs: "DIED", Oracle: fmt.Sprintf("process-death: the process running the client died (%v): %s", runErr, msg), Sig: "died"}
}

// Unesc undoes Esc.
func Unesc(s string) string {
	if !strings.Contains(s, "\\x") {
		return s
	}
	var sb strings.Builder
	for i := 0; i < len(s); i++ {
		if s[i] == '\\' && i+3 < len(s) && s[i+1] == 'x' {
			if v, err := strconv.ParseUint(s[i+2:i+4], 16, 8); err == nil {
				sb.WriteByte(byte(v))
				i += 3
				continue
			}
		}
		sb.WriteByte(s[i])
	}
	return sb.String()
}
