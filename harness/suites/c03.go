package suites

import (
	"bytes"
	"fmt"
	"math/rand"
	"os"
	"runtime"
	"sort"
	"strconv"
	"strings"
	"sync"
	"time"
	"unicode/utf8"

	"gircverif/drive"

	"github.com/lrstanley/girc"
)

// C03 — one event is exactly one wire line; CR/LF can never smuggle a second command;
// Event.Len never under-reports.
//
// Suites:
//
//	wire.helpers (connected)  every Cmd.* helper x hostile strings; observation = the
//	                          peer's byte stream cut after every LF
//	wire.events  (connected)  arbitrary events (hostile command, source, tags, params)
//	                          through Client.Send, message-tags negotiated or not
//	wire.len     (synchronous) Len(), LenOpts(false), Bytes() of arbitrary events
//
// Event.split hands the text of an over-long PRIVMSG/NOTICE to splitMessage (C11's
// subject). The model takes the splitter as a parameter (its theorems hold for every
// splitter); a case therefore carries the pieces splitMessage returns for the one
// call Event.split makes (computed when the case is generated).

// ---- case encoding of an event -------------------------------------------------

// encEvent: tagsmode ("n" nil | "m" map), ntags, (key, value)*, srcmode ("n"|"s"),
// name, ident, host, command, nparams, params...
func encEvent(e *girc.Event) []string {
	out := []string{}
	if e.Tags == nil {
		out = append(out, "n", "0")
	} else {
		keys := make([]string, 0, len(e.Tags))
		for k := range e.Tags {
			keys = append(keys, k)
		}
		sort.Strings(keys)
		out = append(out, "m", strconv.Itoa(len(keys)))
		for _, k := range keys {
			out = append(out, k, e.Tags[k])
		}
	}
	if e.Source == nil {
		out = append(out, "n", "", "", "")
	} else {
		out = append(out, "s", e.Source.Name, e.Source.Ident, e.Source.Host)
	}
	out = append(out, e.Command, strconv.Itoa(len(e.Params)))
	out = append(out, e.Params...)
	return out
}

func takeN(a []string) (n int, rest []string, ok bool) {
	if len(a) == 0 {
		return 0, nil, false
	}
	n, err := strconv.Atoi(a[0])
	if err != nil || n < 0 || n > len(a)-1 {
		return 0, nil, false
	}
	return n, a[1:], true
}

func decEvent(a []string) (e *girc.Event, rest []string, ok bool) {
	e = &girc.Event{}
	if len(a) < 2 {
		return nil, nil, false
	}
	mode := a[0]
	n, a, ok := takeN(a[1:])
	if !ok || 2*n > len(a) {
		return nil, nil, false
	}
	if mode == "m" {
		e.Tags = girc.Tags{}
		for i := 0; i < n; i++ {
			e.Tags[a[2*i]] = a[2*i+1]
		}
	}
	a = a[2*n:]
	if len(a) < 6 {
		return nil, nil, false
	}
	if a[0] == "s" {
		e.Source = &girc.Source{Name: a[1], Ident: a[2], Host: a[3]}
	}
	e.Command = a[4]
	n, a, ok = takeN(a[5:])
	if !ok {
		return nil, nil, false
	}
	if n > 0 {
		e.Params = append([]string{}, a[:n]...)
	}
	return e, a[n:], true
}

// splitPieces returns what splitMessage yields for the one call Event.split(max) makes
// on e, or nil when split returns before that call.
func splitPieces(e *girc.Event, max int) []string {
	if len(e.Params) < 1 || (e.Command != girc.PRIVMSG && e.Command != girc.NOTICE) {
		return nil
	}
	ev := e.Copy()
	ev.Source = nil
	if ev.LenOpts(false) < max {
		return nil
	}
	text := ev.Last()
	ev.Params[len(ev.Params)-1] = ""
	cmdLen := ev.LenOpts(false)
	if ok, ctcp := e.IsCTCP(); ok {
		if text == "" {
			return nil
		}
		text = ctcp.Text
		max -= len(ctcp.Command) + 4
	}
	if cmdLen > max {
		return nil
	}
	p := girc.VerifSplitMessage(text, max-cmdLen)
	if p == nil {
		p = []string{}
	}
	return p
}

func encPieces(p []string) []string {
	return append([]string{strconv.Itoa(len(p))}, p...)
}

// ---- connected sessions ---------------------------------------------------------

type wireSess struct {
	s   *drive.Session
	n   int
	tok string
}

var (
	wireMu    sync.Mutex
	wireSesss = map[string]*wireSess{}
	wireSeq   int
)

// wireMax is MaxEventLength() of the variant's client at the time a case is generated
// (395 with the default limits); the case carries it, and a run asserts it still holds.
func wireMax(variant string) int { return wireSession(variant).s.C.MaxEventLength() }

const wireSyncTimeout = 60 * time.Second

var wireSyncFails int

// once the marker was lost twice in this process the remaining cases are not run
var wireSyncLost = Result{Obs: "?sync-lost", Oracle: "wire-sync: the client stopped writing in earlier cases of this run; case not run", Sig: "sync-lost"}

// A client that stopped writing costs wireSyncTimeout per case. Once that has happened
// twice in a process, a flag file keyed by the parent process (the bin/check run) tells
// this and later gircx processes of the same run (shrinking, search) to wait only 1s.
func wireSyncFlag() string {
	ppid := os.Getppid()
	start := "0" // the parent's start time, so that a recycled pid is not mistaken for it
	if b, err := os.ReadFile(fmt.Sprintf("/proc/%d/stat", ppid)); err == nil {
		if i := strings.LastIndexByte(string(b), ')'); i >= 0 {
			if f := strings.Fields(string(b)[i+1:]); len(f) > 19 {
				start = f[19]
			}
		}
	}
	return fmt.Sprintf("%s/girc-c03-syncdead-%d-%s", os.TempDir(), ppid, start)
}

func wireSyncRemember() { os.WriteFile(wireSyncFlag(), []byte("sync lost\n"), 0o644) }

func wireSyncSeenBefore() bool {
	st, err := os.Stat(wireSyncFlag())
	return err == nil && time.Since(st.ModTime()) < time.Hour
}

// wireSession returns the (lazily started) client of a variant: "0" no capability
// negotiated, "1" message-tags acknowledged, "2" like "0" after an ISUPPORT line that
// raises the line limit (LINELEN=1024, NICKLEN=9). A dead session is replaced.
func wireSession(variant string) *wireSess {
	wireMu.Lock()
	defer wireMu.Unlock()
	if variant != "1" && variant != "2" {
		variant = "0"
	}
	if x := wireSesss[variant]; x != nil {
		if x.s.C.IsConnected() {
			return x
		}
		go x.s.Stop()
		delete(wireSesss, variant)
	}
	cfg := drive.BaseConfig()
	cfg.PingDelay = -1
	s := drive.Start(cfg)
	if variant == "1" {
		s.Feed(":irc.test CAP me ACK :message-tags")
	}
	if variant == "2" {
		s.Feed(":irc.test 005 me LINELEN=1024 NICKLEN=9 :are supported by this server")
	}
	wireSeq++
	x := &wireSess{s: s, tok: fmt.Sprintf("%x.%d.", time.Now().UnixNano(), wireSeq)}
	wireSesss[variant] = x
	x.flush(0)
	return x
}

func (x *wireSess) kill() {
	wireMu.Lock()
	defer wireMu.Unlock()
	for k, v := range wireSesss {
		if v == x {
			delete(wireSesss, k)
		}
	}
	go x.s.Stop()
}

// flush sends a marker through the client's own send queue and returns the raw pieces
// (each up to and including its LF) the peer received since mark, before the marker.
func (x *wireSess) flush(mark int) (pieces []string, ok bool) {
	x.n++
	marker := "VSYNC " + x.tok + strconv.Itoa(x.n)
	x.s.C.Send(&girc.Event{Command: "VSYNC", Params: []string{x.tok + strconv.Itoa(x.n)}})
	// the marker normally arrives within microseconds; the bound is only there so that a
	// client that stopped writing is reported instead of hanging the run (and once that
	// has happened twice, later cases do not wait long again)
	timeout := wireSyncTimeout
	if wireSyncFails >= 2 || wireSyncSeenBefore() {
		timeout = time.Second
	}
	deadline := time.Now().Add(timeout)
	for {
		lines := x.s.Since(mark)
		for i, l := range lines {
			// whatever terminator the marker got: the pieces before it are judged
			if strings.TrimRight(l, "\r\n") == marker {
				return lines[:i], true
			}
		}
		if time.Now().After(deadline) {
			wireSyncFails++
			if wireSyncFails >= 2 {
				wireSyncRemember()
			}
			return lines, false
		}
		time.Sleep(20 * time.Microsecond)
	}
}

func fmtPieces(p []string) string { return strconv.Itoa(len(p)) + "|" + HexList(p) }

// cleanGo is what the statement calls the cleaned text: invalid UTF-8 and CR/LF removed.
func cleanGo(s string) string {
	s = strings.ToValidUTF8(s, "")
	return strings.NewReplacer("\r", "", "\n", "").Replace(s)
}

// lineOracle checks one received piece: CRLF-terminated, no other CR/LF, valid UTF-8.
func lineOracle(p string) string {
	if !strings.HasSuffix(p, "\r\n") {
		return "wire-terminator: a written line does not end in CRLF: " + strconv.Quote(p)
	}
	body := p[:len(p)-2]
	if strings.ContainsAny(body, "\r\n") {
		return "wire-crlf-inside: a written line contains a CR or LF before its terminator: " + strconv.Quote(p)
	}
	if !utf8.ValidString(body) {
		return "wire-utf8: a written line is not valid UTF-8: " + strconv.Quote(p)
	}
	return ""
}

func commandOracle(p, want string) string {
	body := strings.TrimSuffix(p, "\r\n")
	ev := girc.ParseEvent(body)
	if ev == nil {
		return "wire-command: the written line does not parse: " + strconv.Quote(p)
	}
	if ev.Command != want {
		return fmt.Sprintf("wire-command: the written line has command %q, the event's is %q: %s", ev.Command, want, strconv.Quote(p))
	}
	return ""
}

// ---- hostile strings --------------------------------------------------------------

var hostileBits = []string{
	"\r", "\n", "\r\n", "\r\nQUIT :bye", "\nPRIVMSG #x :pwn", "\r\n\r\n", "\n\r",
	"\x00", "\x80", "\xbf", "\xc3", "\xe2\x82", "\xf0\x9f\x98", "\xc0\xaf", "\xed\xa0\x80", "\xff",
	"\xc3\n\xa9", "\xe2\r\x82\n\xac", " ", "  ", ":", " :", ",", "\x01", "\t", "\xc2\xa0", "\xc3\xa9", "\xe2\x82\xac", "\xf0\x9f\x98\x80",
	"\x02", "\x0304", "{red}", "\xef\xbf\xbd", "a\xef\xbf\xbdb", "\xef\xbf\xbd\r\n",
}

var plainBits = []string{"a", "nick", "#chan", "#a,#b", "hello", "world", "x", "+o", "-b", "*!*@host", "irc.test", "42", "", "Some text here", "ACTION", "VERSION"}

func hostileStr(r *rand.Rand) string {
	switch r.Intn(10) {
	case 0:
		return Pick(r, plainBits...)
	case 1:
		return Pick(r, hostileBits...)
	case 2:
		return RandBytes(r, r.Intn(12), "")
	default:
		n := 1 + r.Intn(4)
		var sb strings.Builder
		for i := 0; i < n; i++ {
			if r.Intn(2) == 0 {
				sb.WriteString(Pick(r, plainBits...))
			} else {
				sb.WriteString(Pick(r, hostileBits...))
			}
		}
		return sb.String()
	}
}

// longText gives a text of n..n+120 bytes: words, optionally with hostile bits inside,
// or one unbroken run.
func longText(r *rand.Rand, n int) string {
	n += r.Intn(120)
	var sb strings.Builder
	mode := r.Intn(4)
	for sb.Len() < n {
		switch {
		case mode == 0:
			sb.WriteString(RandBytes(r, 1+r.Intn(40), "abcdefghijklmnopqrstuvwxyz"))
		case mode == 1 && r.Intn(6) == 0:
			sb.WriteString(Pick(r, hostileBits...))
		case mode == 2 && r.Intn(8) == 0:
			sb.WriteString(Pick(r, "\r\n", "\n", "\r", "\xc3\xa9", "\xe2\x82\xac", "\xf0\x9f\x98\x80", "\xff"))
		default:
			sb.WriteString(Pick(r, "lorem", "ipsum", "dolor", "sit", "amet,", "consectetur", "x", "caf\xc3\xa9", "na\xc3\xafve-word-with-dashes"))
		}
		if mode != 0 {
			sb.WriteByte(' ')
		}
	}
	return sb.String()
}

func textArg(r *rand.Rand) string {
	switch r.Intn(8) {
	case 0:
		if r.Intn(3) == 0 {
			return longText(r, 900+r.Intn(600)) // beyond the raised limit of variant "2" too
		}
		return longText(r, 600)
	case 1:
		return longText(r, 330)
	case 2:
		return longText(r, 380) // around the limit
	default:
		return hostileStr(r)
	}
}

func targetArg(r *rand.Rand) string {
	switch r.Intn(6) {
	case 0:
		return Pick(r, "#chan", "nick", "#a b", "#a:b", ":#a", "#a,#b", "", " ", "#c\r\nQUIT", "n\nJOIN #x", "#\xc3", "#caf\xc3\xa9")
	case 1:
		return hostileStr(r)
	default:
		return Pick(r, "#chan", "nick", "#verif", "Someone")
	}
}

func listArg(r *rand.Rand, max int, gen func(*rand.Rand) string) []string {
	n := r.Intn(max + 1)
	out := make([]string, n)
	for i := range out {
		out[i] = gen(r)
	}
	return out
}

// ---- wire.helpers -------------------------------------------------------------------

type helperSpec struct {
	cmd   string
	gen   func(r *rand.Rand) []string
	call  func(c *girc.Client, a []string)
	count func(a []string) (lo, hi int) // lines expected when nothing is split
	text  bool                          // PRIVMSG/NOTICE: may be split
}

func one(a []string) (int, int) { return 1, 1 }

var helperNames []string

var helpers = map[string]*helperSpec{
	"nick": {cmd: "NICK", gen: func(r *rand.Rand) []string { return []string{targetArg(r)} },
		call: func(c *girc.Client, a []string) { c.Cmd.Nick(a[0]) }, count: one},
	"join": {cmd: "JOIN", gen: func(r *rand.Rand) []string {
		if r.Intn(3) == 0 { // enough channels to need more than one batch
			return listArg(r, 40, func(r *rand.Rand) string { return "#" + RandBytes(r, 5+r.Intn(40), "abcdefgh") })
		}
		return listArg(r, 4, targetArg)
	},
		call: func(c *girc.Client, a []string) { c.Cmd.Join(a...) },
		count: func(a []string) (int, int) {
			if len(a) == 0 {
				return 0, 0
			}
			return 1, len(a)
		}},
	"joinkey": {cmd: "JOIN", gen: func(r *rand.Rand) []string { return []string{targetArg(r), hostileStr(r)} },
		call: func(c *girc.Client, a []string) { c.Cmd.JoinKey(a[0], a[1]) }, count: one},
	"part": {cmd: "PART", gen: func(r *rand.Rand) []string { return listArg(r, 4, targetArg) },
		call:  func(c *girc.Client, a []string) { c.Cmd.Part(a...) },
		count: func(a []string) (int, int) { return len(a), len(a) }},
	"partmsg": {cmd: "PART", gen: func(r *rand.Rand) []string { return []string{targetArg(r), textArg(r)} },
		call: func(c *girc.Client, a []string) { c.Cmd.PartMessage(a[0], a[1]) }, count: one},
	"sendctcp": {cmd: "PRIVMSG", text: true, gen: func(r *rand.Rand) []string {
		return []string{targetArg(r), Pick(r, "VERSION", "PING", "ACTION", "FOO", "", "a b", "X\r\nQUIT", "version", hostileStr(r)), textArg(r)}
	},
		call: func(c *girc.Client, a []string) { c.Cmd.SendCTCP(a[0], a[1], a[2]) }, count: one},
	"sendctcpreply": {cmd: "NOTICE", text: true, gen: func(r *rand.Rand) []string {
		return []string{targetArg(r), Pick(r, "VERSION", "PING", "TIME", "", "a b", "X\r\nQUIT", hostileStr(r)), textArg(r)}
	},
		call: func(c *girc.Client, a []string) { c.Cmd.SendCTCPReply(a[0], a[1], a[2]) }, count: one},
	"message": {cmd: "PRIVMSG", text: true, gen: func(r *rand.Rand) []string { return []string{targetArg(r), textArg(r)} },
		call: func(c *girc.Client, a []string) { c.Cmd.Message(a[0], a[1]) }, count: one},
	"action": {cmd: "PRIVMSG", text: true, gen: func(r *rand.Rand) []string { return []string{targetArg(r), textArg(r)} },
		call: func(c *girc.Client, a []string) { c.Cmd.Action(a[0], a[1]) }, count: one},
	"notice": {cmd: "NOTICE", text: true, gen: func(r *rand.Rand) []string { return []string{targetArg(r), textArg(r)} },
		call: func(c *girc.Client, a []string) { c.Cmd.Notice(a[0], a[1]) }, count: one},
	// reply / replyto: srcmode, source name, message, params of the incoming event...
	"reply": {cmd: "PRIVMSG", text: true, gen: genReply,
		call: func(c *girc.Client, a []string) { c.Cmd.Reply(replyEvent(a), a[2]) }, count: one},
	"replyto": {cmd: "PRIVMSG", text: true, gen: genReply,
		call: func(c *girc.Client, a []string) { c.Cmd.ReplyTo(replyEvent(a), a[2]) }, count: one},
	"topic": {cmd: "TOPIC", gen: func(r *rand.Rand) []string { return []string{targetArg(r), textArg(r)} },
		call: func(c *girc.Client, a []string) { c.Cmd.Topic(a[0], a[1]) }, count: one},
	"who": {cmd: "WHO", gen: func(r *rand.Rand) []string { return listArg(r, 3, targetArg) },
		call:  func(c *girc.Client, a []string) { c.Cmd.Who(a...) },
		count: func(a []string) (int, int) { return len(a), len(a) }},
	"whois": {cmd: "WHOIS", gen: func(r *rand.Rand) []string { return listArg(r, 3, targetArg) },
		call:  func(c *girc.Client, a []string) { c.Cmd.Whois(a...) },
		count: func(a []string) (int, int) { return len(a), len(a) }},
	"ping": {cmd: "PING", gen: func(r *rand.Rand) []string { return []string{hostileStr(r)} },
		call: func(c *girc.Client, a []string) { c.Cmd.Ping(a[0]) }, count: one},
	"pong": {cmd: "PONG", gen: func(r *rand.Rand) []string { return []string{hostileStr(r)} },
		call: func(c *girc.Client, a []string) { c.Cmd.Pong(a[0]) }, count: one},
	"oper": {cmd: "OPER", gen: func(r *rand.Rand) []string { return []string{hostileStr(r), hostileStr(r)} },
		call: func(c *girc.Client, a []string) { c.Cmd.Oper(a[0], a[1]) }, count: one},
	"kick": {cmd: "KICK", gen: func(r *rand.Rand) []string {
		return []string{targetArg(r), targetArg(r), Pick(r, "", "", textArg(r), textArg(r))}
	},
		call: func(c *girc.Client, a []string) { c.Cmd.Kick(a[0], a[1], a[2]) },
		count: func(a []string) (int, int) {
			if a[2] != "" {
				return 2, 2
			}
			return 1, 1
		}},
	"ban": {cmd: "MODE", gen: func(r *rand.Rand) []string { return []string{targetArg(r), hostileStr(r)} },
		call: func(c *girc.Client, a []string) { c.Cmd.Ban(a[0], a[1]) }, count: one},
	"unban": {cmd: "MODE", gen: func(r *rand.Rand) []string { return []string{targetArg(r), hostileStr(r)} },
		call: func(c *girc.Client, a []string) { c.Cmd.Unban(a[0], a[1]) }, count: one},
	"mode": {cmd: "MODE", gen: func(r *rand.Rand) []string {
		return append([]string{targetArg(r), Pick(r, "+o", "-v", "+b", "+k\r\nQUIT", hostileStr(r))}, listArg(r, 3, hostileStr)...)
	},
		call: func(c *girc.Client, a []string) { c.Cmd.Mode(a[0], a[1], a[2:]...) }, count: one},
	"invite": {cmd: "INVITE", gen: func(r *rand.Rand) []string {
		return append([]string{targetArg(r)}, listArg(r, 3, targetArg)...)
	},
		call:  func(c *girc.Client, a []string) { c.Cmd.Invite(a[0], a[1:]...) },
		count: func(a []string) (int, int) { return len(a) - 1, len(a) - 1 }},
	"away": {cmd: "AWAY", gen: func(r *rand.Rand) []string { return []string{Pick(r, "", textArg(r), textArg(r))} },
		call: func(c *girc.Client, a []string) { c.Cmd.Away(a[0]) }, count: one},
	"back": {cmd: "AWAY", gen: func(r *rand.Rand) []string { return nil },
		call: func(c *girc.Client, a []string) { c.Cmd.Back() }, count: one},
	"list": {cmd: "LIST", gen: func(r *rand.Rand) []string {
		if r.Intn(3) == 0 {
			return listArg(r, 40, func(r *rand.Rand) string { return "#" + RandBytes(r, 5+r.Intn(40), "abcdefgh") })
		}
		return listArg(r, 4, targetArg)
	},
		call: func(c *girc.Client, a []string) { c.Cmd.List(a...) },
		count: func(a []string) (int, int) {
			if len(a) == 0 {
				return 1, 1
			}
			return 1, len(a)
		}},
	// whowas: user, amount (decimal)
	"whowas": {cmd: "WHOWAS", gen: func(r *rand.Rand) []string {
		return []string{targetArg(r), Pick(r, "0", "1", "10", "-3", "2147483647", strconv.Itoa(r.Intn(1000)))}
	},
		call: func(c *girc.Client, a []string) {
			n, _ := strconv.Atoi(a[1])
			c.Cmd.Whowas(a[0], n)
		}, count: one},
	// monitor: string(modifier), args...
	"monitor": {cmd: "MONITOR", gen: func(r *rand.Rand) []string {
		m := Pick(r, "+", "-", "C", "L", "S", "\n", "\r", " ", ":", "\xc3\xa9", "\xe2\x82\xac", "\x00")
		return append([]string{m}, listArg(r, 3, targetArg)...)
	},
		call: func(c *girc.Client, a []string) {
			m, _ := utf8.DecodeRuneInString(a[0])
			c.Cmd.Monitor(m, a[1:]...)
		}, count: one},
	// sendraw: raw lines
	"sendraw": {cmd: "", gen: func(r *rand.Rand) []string {
		return listArg(r, 3, func(r *rand.Rand) string {
			return noQuit(genRawLine(r))
		})
	},
		call: func(c *girc.Client, a []string) { _ = c.Cmd.SendRaw(a...) }, count: nil},
}

// noQuit keeps a raw line from parsing to the QUIT command (sendLoop closes the client
// after writing a QUIT, which would end the session the suite keeps using) and to a
// command with non-ASCII bytes (ParseEvent upper-cases it with strings.ToUpper, which the
// model's go_to_upper reproduces exactly for ASCII only; hostile non-ASCII commands are
// covered by wire.events, where no upper-casing is involved).
func noQuit(raw string) string {
	if rawOutsideModel(raw) {
		raw = "NOQUIT " + raw
	}
	if ev := girc.ParseEvent(raw); ev != nil { // see tagCutExcess
		if k := tagCutExcess(ev); k > 0 {
			raw += " " + strings.Repeat("p", k+1)
		}
	}
	return raw
}

func rawOutsideModel(raw string) bool {
	ev := girc.ParseEvent(raw)
	if ev == nil {
		return false
	}
	if ev.Command == girc.QUIT {
		return true
	}
	for i := 0; i < len(ev.Command); i++ {
		if ev.Command[i] >= 0x80 {
			return true
		}
	}
	return false
}

func genRawLine(r *rand.Rand) string {
	switch r.Intn(5) {
	case 0:
		return hostileStr(r)
	case 1:
		return Pick(r, "PRIVMSG", "NOTICE", "privmsg") + " " + targetArg(r) + " :" + textArg(r)
	case 2:
		return "@" + Pick(r, "a=b", "k", "a=b;c=d\\s", "", "a b", "a=\xff\xff\xff", "k=x\ry;j=\xc3", "+draft/reply=\xff\xfe\xfd\xfc\xfb\xfa\xf9\xf8") + " :" + Pick(r, "n!u@h", "srv", "") + " " + Pick(r, "PRIVMSG", "MODE", "pr\rivmsg") + " " + hostileStr(r)
	default:
		return Pick(r, "JOIN", "MODE", "PRIVMSG", "PING", "who", "Q", "001") + " " + hostileStr(r) + Pick(r, "", " :"+hostileStr(r))
	}
}

func genReply(r *rand.Rand) []string {
	out := []string{Pick(r, "s", "s", "s", "n"), targetArg(r), textArg(r)}
	return append(out, listArg(r, 2, targetArg)...)
}

func replyEvent(a []string) girc.Event {
	e := girc.Event{Command: "PRIVMSG", Params: append([]string{}, a[3:]...)}
	if a[0] == "s" {
		e.Source = &girc.Source{Name: a[1], Ident: "u", Host: "h"}
	}
	return e
}

func init() {
	for k := range helpers {
		helperNames = append(helperNames, k)
	}
	sort.Strings(helperNames)
}

// helperArity: minimum number of arguments a helper case must carry.
var helperArity = map[string]int{"nick": 1, "joinkey": 2, "partmsg": 2, "sendctcp": 3, "sendctcpreply": 3,
	"message": 2, "action": 2, "notice": 2, "reply": 3, "replyto": 3, "topic": 2, "ping": 1, "pong": 1, "oper": 2,
	"kick": 3, "ban": 2, "unban": 2, "mode": 2, "invite": 1, "away": 1, "whowas": 2, "monitor": 1}

// helperEvents re-creates, for the helpers that may be split, the event the helper
// passes to Send (only to compute the pieces carried by the case).
func helperTextEvent(h string, a []string) *girc.Event {
	switch h {
	case "message":
		return &girc.Event{Command: girc.PRIVMSG, Params: []string{a[0], a[1]}}
	case "notice":
		return &girc.Event{Command: girc.NOTICE, Params: []string{a[0], a[1]}}
	case "action":
		return &girc.Event{Command: girc.PRIVMSG, Params: []string{a[0], "\x01ACTION " + a[1] + "\x01"}}
	case "sendctcp", "sendctcpreply":
		out := girc.EncodeCTCPRaw(a[1], a[2])
		if out == "" {
			return nil
		}
		cmd := girc.PRIVMSG
		if h == "sendctcpreply" {
			cmd = girc.NOTICE
		}
		return &girc.Event{Command: cmd, Params: []string{a[0], out}}
	case "reply", "replyto":
		if a[0] != "s" {
			return nil
		}
		params := a[3:]
		target, msg := a[1], a[2]
		if len(params) > 0 && girc.IsValidChannel(params[0]) {
			target = params[0]
			if h == "replyto" {
				msg = a[1] + ", " + msg
			}
		}
		return &girc.Event{Command: girc.PRIVMSG, Params: []string{target, msg}}
	}
	return nil
}

// mkHelperCase: variant, maxlen, helper, nargs, args..., then for sendraw one pieces
// group per raw line, otherwise one pieces group.
func mkHelperCase(variant, h string, a []string) Case {
	max := wireMax(variant)
	c := Case{variant, strconv.Itoa(max), h, strconv.Itoa(len(a))}
	c = append(c, a...)
	if h == "sendraw" {
		for _, raw := range a {
			ev := girc.ParseEvent(raw)
			if ev == nil {
				break
			}
			c = append(c, encPieces(splitPieces(ev, max))...)
		}
		return c
	}
	if ev := helperTextEvent(h, a); ev != nil {
		c = append(c, encPieces(splitPieces(ev, max))...)
	} else {
		c = append(c, "0")
	}
	return c
}

func hasAny(a []string, f func(string) bool) bool {
	for _, s := range a {
		if f(s) {
			return true
		}
	}
	return false
}

func argFlags(a []string) string {
	sig := ""
	if hasAny(a, func(s string) bool { return strings.ContainsAny(s, "\r\n") }) {
		sig += "/crlf"
	}
	if hasAny(a, func(s string) bool { return !utf8.ValidString(s) }) {
		sig += "/bad8"
	}
	if hasAny(a, func(s string) bool { return len(s) > 300 }) {
		sig += "/long"
	}
	return sig
}

func runHelperCase(c Case) Result {
	if len(c) < 4 {
		return Result{Obs: "?bad-case"}
	}
	variant, h := c[0], c[2]
	max, err := strconv.Atoi(c[1])
	spec := helpers[h]
	n, rest, ok := takeN(c[3:])
	if err != nil || spec == nil || !ok || n < helperArity[h] {
		return Result{Obs: "?bad-case"}
	}
	a := rest[:n]
	if wireSyncFails >= 2 {
		return wireSyncLost
	}
	if h == "sendraw" { // QUIT would close the client; non-ASCII ToUpper is not modelled
		for _, raw := range a {
			if rawOutsideModel(raw) {
				return Result{Obs: "?bad-case"}
			}
		}
	}
	if h == "monitor" { // the first argument must be string(rune)
		if m, _ := utf8.DecodeRuneInString(a[0]); string(m) != a[0] {
			return Result{Obs: "?bad-case"}
		}
	}
	x := wireSession(variant)
	if got := x.s.C.MaxEventLength(); got != max {
		return Result{Obs: fmt.Sprintf("?maxlen=%d", got)}
	}
	mark := x.s.Mark()
	panicked := func() (p bool) {
		defer func() {
			if r := recover(); r != nil {
				// documented panics only: empty CTCP type, reply to an event without source
				doc := ((h == "sendctcp" || h == "sendctcpreply") && a[1] == "") || ((h == "reply" || h == "replyto") && a[0] != "s")
				if !doc {
					x.flush(mark)
					panic(r)
				}
				p = true
			}
		}()
		spec.call(x.s.C, a)
		return false
	}()
	pieces, synced := x.flush(mark)
	sig := h + argFlags(a)
	if variant == "1" || variant == "2" {
		sig += "/v" + variant
	}
	res := Result{Obs: fmtPieces(pieces), Sig: sig}
	if panicked {
		res.Obs = "PANIC"
		res.Sig = h + "/panic"
		if len(pieces) != 0 {
			res.Oracle = "wire-count: a helper that panicked wrote lines"
		}
		return res
	}
	if !synced {
		x.kill()
		res.Oracle = "wire-sync: the client stopped writing (marker not seen within 60s)"
		return res
	}
	// the property on the implementation
	for _, p := range pieces {
		if o := lineOracle(p); o != "" {
			res.Oracle = o
			return res
		}
	}
	if h == "sendraw" {
		var want []string
		var check []bool
		for _, raw := range a {
			ev := girc.ParseEvent(raw)
			if ev == nil {
				break
			}
			k := 1
			if sp := splitPieces(ev, max); sp != nil {
				k = len(sp)
				res.Sig += "/split"
			}
			w, token := tokenCommand(ev, variant == "1" && len(ev.Tags) > 0)
			for i := 0; i < k; i++ {
				want = append(want, w)
				check = append(check, token)
			}
		}
		if len(want) != len(pieces) {
			res.Oracle = fmt.Sprintf("wire-count: %d lines written, %d expected", len(pieces), len(want))
			return res
		}
		for i, p := range pieces {
			if !check[i] {
				continue
			}
			if o := commandOracle(p, want[i]); o != "" {
				res.Oracle = o
				return res
			}
		}
		return res
	}
	lo, hi := spec.count(a)
	if spec.text {
		if ev := helperTextEvent(h, a); ev != nil {
			if sp := splitPieces(ev, max); sp != nil {
				lo, hi = len(sp), len(sp)
				res.Sig += "/split"
			}
		}
	}
	if len(pieces) < lo || len(pieces) > hi {
		res.Oracle = fmt.Sprintf("wire-count: %d lines written, %d..%d expected", len(pieces), lo, hi)
		return res
	}
	for _, p := range pieces {
		if o := commandOracle(p, spec.cmd); o != "" {
			res.Oracle = o
			return res
		}
	}
	return res
}

func fixedHelperCases() []Case {
	var out []Case
	inj := []string{"a\xef\xbf\xbdb", "x\r\nQUIT :bye", "x\nQUIT", "x\rQUIT", "\r\n", "\n", "a\x00b", "a\x80b", "\xc3", "\xc3\n\xa9", " ", ":", "", "a b", ":a", "#c d", strings.Repeat("w ", 300), strings.Repeat("z", 600), strings.Repeat("\xe2\x82\xac", 200), "long " + strings.Repeat("word ", 100) + "\r\nQUIT"}
	variadic := map[string]bool{"mode": true, "invite": true, "monitor": true}
	for _, h := range helperNames {
		ar := helperArity[h]
		if h == "sendraw" || h == "back" {
			continue
		}
		for _, s := range inj {
			if ar == 0 { // join, part, who, whois, list: only a list of names
				out = append(out, mkHelperCase("0", h, []string{s, "#b"}))
				continue
			}
			for pos := 0; pos < ar; pos++ {
				a := make([]string, ar)
				for i := range a {
					a[i] = "x"
				}
				switch h {
				case "reply", "replyto":
					a[0] = "s"
					if pos == 0 {
						continue
					}
				case "whowas":
					a[1] = "3"
					if pos == 1 {
						continue
					}
				case "monitor":
					a[0] = "+"
					if pos == 0 {
						continue
					}
				case "sendctcp", "sendctcpreply":
					a[1] = "PING"
				}
				a[pos] = s
				if variadic[h] {
					a = append(a, s, "tail")
				}
				if h == "reply" || h == "replyto" {
					a = append(a, "#chan", s)
				}
				out = append(out, mkHelperCase("0", h, a))
			}
		}
	}
	for _, s := range inj {
		out = append(out, mkHelperCase("0", "monitor", []string{"+", s, "x"}))
	}
	out = append(out, mkHelperCase("0", "back", nil), mkHelperCase("0", "join", nil), mkHelperCase("0", "list", nil),
		mkHelperCase("0", "sendctcp", []string{"n", "", "x"}), mkHelperCase("0", "sendctcpreply", []string{"n", "", ""}),
		mkHelperCase("0", "reply", []string{"n", "", "x"}), mkHelperCase("0", "replyto", []string{"n", "", "x", "#c"}),
		mkHelperCase("0", "kick", []string{"#c", "n", ""}), mkHelperCase("0", "kick", []string{"#c", "n", "why\r\nQUIT"}),
		mkHelperCase("0", "away", []string{""}),
		mkHelperCase("0", "sendraw", []string{"PRIVMSG #c :hi\r\nQUIT"}), mkHelperCase("0", "sendraw", []string{"JOIN #a", "", "JOIN #b"}),
		mkHelperCase("0", "sendraw", []string{"PRIVMSG #c :a\rb\nc", "priv\rmsg #c x"}),
		mkHelperCase("1", "sendraw", []string{"@a=b;c :n!u@h PRIVMSG #c :" + strings.Repeat("tagged ", 80)}),
		mkHelperCase("0", "sendraw", []string{"@a=b;c :n!u@h PRIVMSG #c :" + strings.Repeat("tagged ", 80)}),
		mkHelperCase("0", "sendraw", []string{"@+draft/reply=\xff\xfe\xfd\xfc\xfb\xfa\xf9\xf8 PRIVMSG Info :here you go", "@k=x\ry;j=\xc3 PRIVMSG #c :x"}),
		mkHelperCase("1", "sendraw", []string{"@+draft/reply=\xff\xfe\xfd\xfc\xfb\xfa\xf9\xf8 PRIVMSG Info :here you go", "@k=x\ry;j=\xc3 PRIVMSG #c :x"}),
		mkHelperCase("2", "sendraw", []string{"@+draft/reply=\xff\xfe\xfd\xfc\xfb\xfa\xf9\xf8 PRIVMSG Info :here you go"}),
	)
	// join/list batching boundaries: total length around the limit
	for _, v := range []string{"0", "2"} {
		m := wireMax(v)
		for _, h := range []string{"join", "list"} {
			for n := m - 11; n <= m-3; n++ {
				out = append(out, mkHelperCase(v, h, []string{"#" + strings.Repeat("a", n-8), "#bbbbbb", "#c"}))
			}
			out = append(out, mkHelperCase(v, h, []string{"#" + strings.Repeat("a", m+100), "#b", "", "#c"}))
		}
		out = append(out, mkHelperCase(v, "message", []string{"#c", strings.Repeat("w ", m)}),
			mkHelperCase(v, "action", []string{"#c", strings.Repeat("does ", m/3)}))
	}
	return out
}

// ---- wire.events -----------------------------------------------------------------------

func genSource(r *rand.Rand) *girc.Source {
	switch r.Intn(10) {
	case 0, 1, 2, 3, 4, 5:
		return nil
	case 6:
		return &girc.Source{Name: Pick(r, "nick", "irc.test", "", "a b", "n\r\nQUIT", "n!x", "\xc3"), Ident: hostileStr(r), Host: hostileStr(r)}
	case 7:
		return &girc.Source{Name: "nick", Ident: Pick(r, "", "user"), Host: Pick(r, "", "host.example")}
	default:
		return &girc.Source{Name: Pick(r, "nick", "srv.example", "N"), Ident: Pick(r, "", "u", "~u"), Host: Pick(r, "", "h", "1.2.3.4")}
	}
}

func genTags(r *rand.Rand) girc.Tags {
	switch r.Intn(10) {
	case 0, 1, 2, 3:
		return nil
	case 4:
		return girc.Tags{}
	case 5: // over the 4094 limit, by one huge value or by many tags
		t := girc.Tags{}
		if r.Intn(3) != 0 { // (kept rare: such a case is 8 KB of hex)
			t[Pick(r, "a", "+x")] = Pick(r, "", "v")
			return t
		}
		if r.Intn(2) == 0 {
			t[Pick(r, "a", "zz")] = strings.Repeat("v", 4080+r.Intn(30))
			t["b"] = Pick(r, "", "x")
		} else {
			for i := 0; i < 40+r.Intn(10); i++ {
				t[fmt.Sprintf("key%02d", i)] = strings.Repeat("w", 95+r.Intn(10))
			}
		}
		return t
	default:
		t := girc.Tags{}
		for i := 0; i < 1+r.Intn(4); i++ {
			k := Pick(r, "a", "b", "time", "account", "+draft/x", "example.com/k", "a b", "", "k\r\n", "k=", "k;", "\xc3")
			v := Pick(r, "", "v", "x\\sy", "a b", "a;b", "v\r\nQUIT", "\xe2\x82", "2020-01-01T00:00:00.000Z", hostileStr(r),
				"\r", "\n", "\r\n", strings.Repeat("\r\n", 1+r.Intn(6)), strings.Repeat("\xff", 1+r.Intn(9)), "\r\xff\n\xc3", "a\rb\nc\xffd", strings.Repeat("\n", r.Intn(12)))
			t[k] = v
		}
		return t
	}
}

func genCommand(r *rand.Rand) string {
	switch r.Intn(10) {
	case 0:
		return Pick(r, "", "Q", "priv msg", "PRIVMSG\r\nQUIT", "\nJOIN", "@x", ":x", "caf\xc3\xa9", "\xff", "PRIVMSG\xc3", "\xc4\xb1d", "\xc5\xbfet", "PRIV\rMSG", "\r", " ", "x\x00y", "mode")
	case 1:
		s := hostileStr(r)
		if s == "QUIT" {
			s = "QUITS"
		}
		return s
	case 2, 3, 4:
		return Pick(r, "PRIVMSG", "NOTICE")
	default:
		return Pick(r, "JOIN", "MODE", "TOPIC", "001", "privmsg", "notice", "PING", "WHO", "KICK", "CAP")
	}
}

func genWireEvent(r *rand.Rand) *girc.Event {
	e := &girc.Event{Tags: genTags(r), Source: genSource(r), Command: genCommand(r)}
	n := r.Intn(5)
	if e.Command == "PRIVMSG" || e.Command == "NOTICE" {
		n = Pick2(r, 2, 2, 2, 1, 3, 0)
	}
	for i := 0; i < n; i++ {
		if i == n-1 {
			t := textArg(r)
			if r.Intn(6) == 0 {
				t = "\x01" + Pick(r, "ACTION", "VERSION", "PING", "A1", "bad cmd", "") + " " + t + "\x01"
			}
			e.Params = append(e.Params, t)
		} else {
			e.Params = append(e.Params, targetArg(r))
		}
	}
	padForTagCut(e)
	return e
}

// tagCutExcess: how many more bytes cleaning removes from the tag section than the rest
// of the line has. A client that skips the tag section of the serialised line by its RAW
// length (instead of not writing it) cuts that many bytes beyond the end of the line and
// panics in its own goroutine, which kills the harness process and loses every row of
// the suite; with excess <= 0 it "only" cuts into the command, which the oracle sees.
func tagCutExcess(e *girc.Event) int {
	if len(e.Tags) == 0 {
		return 0
	}
	raw := len(e.Tags.Bytes())
	cleaned := len(cleanGo(string(e.Tags.Bytes())))
	bare := *e
	bare.Tags = nil
	return (raw - cleaned) - len(bare.Bytes())
}

// padForTagCut appends a parameter so that tagCutExcess(e) <= 0.
func padForTagCut(e *girc.Event) {
	if k := tagCutExcess(e); k > 0 {
		e.Params = append(e.Params, strings.Repeat("p", k+1))
	}
}

// Pick2 picks one of the given ints.
func Pick2(r *rand.Rand, xs ...int) int { return xs[r.Intn(len(xs))] }

func mkEventCase(variant string, e *girc.Event) Case {
	max := wireMax(variant)
	c := Case{variant, strconv.Itoa(max)}
	c = append(c, encEvent(e)...)
	sp := splitPieces(e, max)
	return append(c, encPieces(sp)...)
}

func fieldsOf(e *girc.Event) []string {
	f := []string{e.Command}
	f = append(f, e.Params...)
	if e.Source != nil {
		f = append(f, e.Source.Name, e.Source.Ident, e.Source.Host)
	}
	for k, v := range e.Tags {
		f = append(f, k, v)
	}
	return f
}

func eventSig(e *girc.Event) string {
	sig := ""
	switch {
	case e.Tags == nil:
		sig += "t:nil"
	case len(e.Tags) == 0:
		sig += "t:empty"
	case len(e.Tags.Bytes()) > 4000:
		sig += "t:limit"
	default:
		sig += "t:some"
	}
	if e.Source == nil {
		sig += "/s:nil"
	} else {
		sig += "/s:set"
	}
	switch {
	case len(e.Params) == 0:
		sig += "/p0"
	case len(e.Params) < 3:
		sig += "/p1-2"
	default:
		sig += "/p3+"
	}
	return sig + argFlags(fieldsOf(e))
}

// tokenCommand: the statement's "single-token command" on the implementation side,
// together with the conditions under which the sections before it are well formed.
func tokenCommand(e *girc.Event, tagsWritten bool) (string, bool) {
	c := cleanGo(e.Command)
	if c == "" || strings.Contains(c, " ") || c[0] == '@' || c[0] == ':' {
		return "", false
	}
	if tagsWritten {
		t := cleanGo(string(e.Tags.Bytes()))
		if len(t) < 2 || strings.Contains(t, " ") {
			return "", false
		}
	}
	if e.Source != nil {
		s := cleanGo(e.Source.String())
		if s == "" || strings.Contains(s, " ") {
			return "", false
		}
	}
	if !tagsWritten && e.Source == nil && len(e.Params) == 0 && len(c) < 2 {
		return "", false
	}
	return strings.ToUpper(c), true
}

func runEventCase(c Case) Result {
	if len(c) < 2 {
		return Result{Obs: "?bad-case"}
	}
	variant := c[0]
	max, err := strconv.Atoi(c[1])
	e, rest, ok := decEvent(c[2:])
	if err != nil || !ok || e.Command == "QUIT" {
		return Result{Obs: "?bad-case"}
	}
	_ = rest
	if wireSyncFails >= 2 {
		return wireSyncLost
	}
	x := wireSession(variant)
	if got := x.s.C.MaxEventLength(); got != max {
		return Result{Obs: fmt.Sprintf("?maxlen=%d", got)}
	}
	sig := "v" + variant + "/" + eventSig(e)
	want, token := tokenCommand(e, variant == "1" && len(e.Tags) > 0)
	predicted := 1
	if sp := splitPieces(e, max); sp != nil {
		predicted = len(sp)
		sig += "/split"
	}
	if token {
		sig += "/token"
	}
	if o := bytesAliased(e.Copy()); o != "" {
		return Result{Obs: "?aliased", Oracle: o, Sig: "aliased"}
	}
	mark := x.s.Mark()
	x.s.C.Send(e)
	pieces, synced := x.flush(mark)
	res := Result{Obs: fmtPieces(pieces), Sig: sig}
	if !synced {
		x.kill()
		res.Oracle = "wire-sync: the client stopped writing (marker not seen within 60s)"
		return res
	}
	for _, p := range pieces {
		if o := lineOracle(p); o != "" {
			res.Oracle = o
			return res
		}
	}
	if len(pieces) != predicted {
		res.Oracle = fmt.Sprintf("wire-count: %d lines written, %d expected", len(pieces), predicted)
		return res
	}
	if token {
		for _, p := range pieces {
			if o := commandOracle(p, want); o != "" {
				res.Oracle = o
				return res
			}
		}
	}
	return res
}

func fixedEventCases() []Case {
	var out []Case
	evs := []*girc.Event{
		{Command: "PRIVMSG", Params: []string{"#c", "hi\r\nQUIT :bye"}},
		{Command: "PRIVMSG\r\nQUIT", Params: []string{"#c", "x"}},
		{Command: "PRIVMSG", Params: []string{"#c\r\nQUIT", "x"}},
		{Command: "PRIVMSG", Params: []string{"#c", "\n"}},
		{Command: "PRIVMSG", Params: []string{"#c", "\r"}},
		{Command: "PRIVMSG", Params: []string{"#c", ""}},
		{Command: "PRIVMSG", Params: []string{"#c", "\xc3\n\xa9"}},
		{Command: "JOIN", Source: &girc.Source{Name: "n\r\nQUIT", Ident: "u\n", Host: "h\r"}, Params: []string{"#c"}},
		{Command: "TAGMSG", Tags: girc.Tags{"a": "b\r\nQUIT", "c\n": ""}, Params: []string{"#c"}},
		{Command: "TAGMSG", Tags: girc.Tags{}, Params: []string{"#c"}},
		// tags with values cleaning shortens, on clients with and without message-tags: the
		// written line must still start with the event's command
		{Command: "PRIVMSG", Tags: girc.Tags{"+draft/reply": "\r\n"}, Params: []string{"#chan", "hello again"}},
		{Command: "PRIVMSG", Tags: girc.Tags{"+draft/reply": "\r\n\r\n\r\n\r\n"}, Params: []string{"QUIT", "smuggled quit message"}},
		{Command: "PRIVMSG", Tags: girc.Tags{"+draft/reply": "\xff\xfe\xfd\xfc\xfb\xfa\xf9\xf8"}, Params: []string{"Info", "here you go"}},
		{Command: "PRIVMSG", Tags: girc.Tags{"a": "\r", "b": "\n", "c": "x\xffy"}, Params: []string{"#chan", "mixed"}},
		{Command: "NOTICE", Tags: girc.Tags{"k": "v\n"}, Source: &girc.Source{Name: "me"}, Params: []string{"nick", "with source"}},
		{Command: "JOIN", Tags: girc.Tags{"k\r": ""}, Params: []string{"#c"}},
		{Command: "PRIVMSG", Tags: girc.Tags{"k": strings.Repeat("v", 4090)}, Params: []string{"#c", "x"}},
		{Command: "PRIVMSG", Tags: girc.Tags{"k": strings.Repeat("v", 4093)}, Params: []string{"#c", "x"}},
		{Command: "PRIVMSG", Tags: girc.Tags{"a": "1", "k": strings.Repeat("v", 4089)}, Params: []string{"#c", "x"}},
		{Command: "PRIVMSG", Params: []string{"#c", "replacement \xef\xbf\xbd char \xef\xbf\xbd"}},
		{Command: "P\xef\xbf\xbdX", Source: &girc.Source{Name: "n\xef\xbf\xbd"}, Params: []string{"\xef\xbf\xbd"}},
		{Command: "TOPIC", Params: []string{"#c", strings.Repeat("a", 6000)}},
		{Command: "A"},
		{Command: ""},
		{Command: "\r\n"},
		{Command: "PRIVMSG", Params: []string{"#c", strings.Repeat("w ", 300)}},
		{Command: "NOTICE", Params: []string{"#c", strings.Repeat("z", 600)}},
		{Command: "PRIVMSG", Params: []string{"#c", "\x01ACTION " + strings.Repeat("does ", 120) + "\x01"}},
		{Command: "PRIVMSG", Params: []string{"#c", "line one " + strings.Repeat("a ", 200) + "\r\nQUIT :x " + strings.Repeat("b ", 100)}},
		{Command: "PRIVMSG", Params: []string{strings.Repeat("#t", 250), "x y"}},
		{Command: "PRIVMSG", Params: []string{"#c", strings.Repeat(" ", 500)}},
		{Command: "privmsg", Params: []string{"#c", strings.Repeat("w ", 300)}},
	}
	for _, e := range evs {
		padForTagCut(e)
		out = append(out, mkEventCase("0", e), mkEventCase("1", e), mkEventCase("2", e))
	}
	// texts whose event length is exactly around the split limit
	for _, v := range []string{"0", "2"} {
		m := wireMax(v)
		for n := m - 15; n <= m-5; n++ {
			out = append(out, mkEventCase(v, &girc.Event{Command: "PRIVMSG", Params: []string{"#c", strings.Repeat("y", n)}}))
			out = append(out, mkEventCase(v, &girc.Event{Command: "PRIVMSG", Params: []string{"#c", strings.Repeat("y", n-200) + " " + strings.Repeat("y", 199)}}))
		}
	}
	return out
}

// ---- wire.len ----------------------------------------------------------------------------

// ---- freshness of the slice Bytes() returns -------------------------------------------------

// The model's event_bytes is a pure function. For the implementation that includes an
// obligation the model cannot express: the slice Bytes() returns must not share memory
// with anything a later serialisation writes to (sendLoop is still handing it to the
// socket while other goroutines serialise other events). aliasDisturbers are events that
// are serialised after Bytes() returned: different lengths (one beyond bufio's 4096),
// CR/LF-bearing and invalid-UTF-8-bearing fields, tags, source.
var aliasDisturbers = []*girc.Event{
	{Command: "X"},
	{Command: "PRIVMSG", Params: []string{"#other", "yyy\r\nQUIT :smuggled\r\nzzz"}},
	{Command: "PRIVMSG", Params: []string{"#other", strings.Repeat("x", 300) + "\r\nQUIT :smuggled\r\n" + strings.Repeat("y", 300) + "\xff"}},
	{Command: "TOPIC", Params: []string{"#other", strings.Repeat("q\r\n", 1500)}},
	{Command: "NOTICE", Tags: girc.Tags{"k": "v\r\n"}, Source: &girc.Source{Name: "n\n", Ident: "u", Host: "h"}, Params: []string{"t", strings.Repeat("\xe2\x82\xac", 2000) + "\xc3"}},
}

// bytesAliased returns a description if the slice Bytes() returned changes while other
// events are serialised.
func bytesAliased(e *girc.Event) string {
	b1 := e.Bytes()
	want := append([]byte(nil), b1...)
	s1 := e.String()
	for round := 0; round < 2; round++ {
		for _, d := range aliasDisturbers {
			_ = d.Bytes()
			_ = d.String()
			_ = d.Len()
			if !bytes.Equal(b1, want) {
				return fmt.Sprintf("bytes-aliased: the slice returned by Bytes() changed when another event was serialised: was %s, now %s", strconv.Quote(trunc(string(want))), strconv.Quote(trunc(string(b1))))
			}
		}
	}
	if s1 != string(want) {
		return "string-bytes: String() differs from Bytes()"
	}
	return ""
}

func trunc(s string) string {
	if len(s) > 120 {
		return s[:120] + "..."
	}
	return s
}

// bytesAliasedPinned is bytesAliased on a single P, where a sync.Pool hands the buffer
// just put back to the very next Get.
func bytesAliasedPinned(e *girc.Event) string {
	old := runtime.GOMAXPROCS(1)
	defer runtime.GOMAXPROCS(old)
	return bytesAliased(e)
}

func runLenCase(c Case) Result {
	e, _, ok := decEvent(c)
	if !ok {
		return Result{Obs: "?bad-case"}
	}
	if o := bytesAliased(e); o != "" {
		return Result{Obs: "?aliased", Oracle: o, Sig: "aliased"}
	}
	if len(c)%8 == 0 {
		if o := bytesAliasedPinned(e); o != "" {
			return Result{Obs: "?aliased", Oracle: o, Sig: "aliased"}
		}
	}
	b := e.Bytes()
	l, lf := e.Len(), e.LenOpts(false)
	res := Result{Obs: fmt.Sprintf("%d|%d|%d|%s", l, lf, len(b), Hex(string(b))), Sig: eventSig(e)}
	clean := !hasAny(fieldsOf(e), func(s string) bool { return strings.ContainsAny(s, "\r\n") || !utf8.ValidString(s) })
	switch {
	case clean && l == len(b):
		res.Sig += "/eq"
	case l > len(b):
		res.Sig += "/over"
	}
	switch {
	case e.String() != string(b):
		res.Oracle = "string-bytes: String() differs from Bytes()"
	case l < len(b):
		res.Oracle = fmt.Sprintf("len-under: Len() = %d under-reports len(Bytes()) = %d", l, len(b))
	case clean && l != len(b):
		res.Oracle = fmt.Sprintf("len-neq: Len() = %d differs from len(Bytes()) = %d on a CR/LF-free valid UTF-8 event", l, len(b))
	case strings.ContainsAny(string(b), "\r\n"):
		res.Oracle = "wire-crlf-inside: Bytes() contains a CR or LF"
	case !utf8.Valid(b):
		res.Oracle = "wire-utf8: Bytes() is not valid UTF-8"
	}
	return res
}

func init() {
	Register(&Suite{
		Name:  "wire.helpers",
		Prop:  []string{"C03"},
		Fixed: fixedHelperCases,
		Gen: func(r *rand.Rand) Case {
			h := helperNames[r.Intn(len(helperNames))]
			return mkHelperCase(Pick(r, "0", "0", "1", "2"), h, helpers[h].gen(r))
		},
		Run: runHelperCase,
	})
	Register(&Suite{
		Name:  "wire.events",
		Prop:  []string{"C03"},
		Fixed: fixedEventCases,
		Gen: func(r *rand.Rand) Case {
			return mkEventCase(Pick(r, "0", "1", "2"), genWireEvent(r))
		},
		Run: runEventCase,
	})
	Register(&Suite{
		Name: "wire.len",
		Prop: []string{"C03"},
		Fixed: func() []Case {
			var out []Case
			for _, c := range fixedEventCases() {
				e, _, ok := decEvent(c[2:])
				if ok {
					out = append(out, Case(encEvent(e)))
				}
			}
			return out
		},
		Gen: func(r *rand.Rand) Case { return Case(encEvent(genWireEvent(r))) },
		Run: runLenCase,
	})
}
