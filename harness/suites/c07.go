package suites

// C07 — Connect always terminates cleanly and reports why.
//
//	lifecycle.sessions  connected (MockConnect over net.Pipe), two consecutive connections
//	                    on ONE client per case. Each connection is described by a spec
//	                        kind/placement/n/k/m/errtext[/resp]
//	                    kind:      close | quit | error | eof | erroreof | werr | badline
//	                    placement: reg (during registration) | after001 | burst (mid-burst)
//	                               | slow (inside a blocked foreground handler)
//	                               | txq (output queued, the peer is not reading)
//	                    n = burst length, k = position of the stimulus in it, m = queued
//	                    output lines, errtext = text of the server's ERROR, resp = the peer
//	                    answers a QUIT the way a server does (ERROR, then close).
//
// Observation (compared with the model): per connection the set of results the
// statement allows for the kind (Spec/LifecycleSpec.allowed, an instance of theorem
// C07_result), provided the observed result lies in it; the observed result otherwise.
//
// Oracle: direct predicates on what was observed (return in time, result class/text,
// lifecycle events, flush before ERROR, delivery order, IsConnected, peer EOF, library
// goroutines gone, fresh tracked state and no stale event/output on connection 2), and
// the whole observed trace (one total order, taken under one mutex) must be a trace of
// the Coq machine: it is handed to the extracted checker `accepts`
// (ocaml/modeldrv, suite lifecycle.accepts), proven sound in Proofs/LifecycleChecker.v
// (theorem C07_accepts_sound). The trace log splits Close() into call and return so that
// the cancellation lies between the two entries; the other entries are written before the
// action (peer sends, Send/Quit, peer close) or after it (deliveries inside the handler,
// return value, lines the peer has read, EOF), which the machine's asynchrony covers.

import (
	"bufio"
	"fmt"
	"io"
	"math/rand"
	"net"
	"os"
	"os/exec"
	"path/filepath"
	"regexp"
	"runtime"
	"strconv"
	"strings"
	"sync"
	"sync/atomic"
	"time"

	"github.com/lrstanley/girc"
)

const (
	// generous on purpose (a loaded machine must not raise an alarm): the code returns within
	// milliseconds, goroutines are gone within microseconds
	lcReturnBound = 10 * time.Second // Connect returns after the stimulus
	lcStepBound   = 10 * time.Second // any single wait of the controller
	lcSettleBound = 5 * time.Second  // goroutines gone / peer EOF after the return
)

// ---------------------------------------------------------------- trace log

type lcLog struct {
	mu   sync.Mutex
	toks []string
}

func (l *lcLog) add(t string) {
	l.mu.Lock()
	l.toks = append(l.toks, t)
	l.mu.Unlock()
}

func (l *lcLog) snapshot() []string {
	l.mu.Lock()
	defer l.mu.Unlock()
	return append([]string(nil), l.toks...)
}

// ---------------------------------------------------------------- spec

type lcSpec struct {
	kind, place string
	n, k, m     int
	errtext     string
	resp        bool
	pre         string // what the server has sent before the scenario proper (see lcPrelude)
	tcp         bool   // over a loopback TCP connection made by Client.Connect() (set by the suite)
	ok          bool
}

var lcKinds = []string{"close", "quit", "error", "eof", "erroreof", "werr", "badline", "qwf", "wfault"}
var lcPlaces = []string{"reg", "after001", "burst", "slow", "txq", "stream", "flood", "panic"}
var lcBasePlaces = []string{"reg", "after001", "burst", "slow", "txq"}
var lcStreamKinds = []string{"close", "quit", "error", "erroreof", "badline"}
var lcFloodKinds = []string{"close", "error", "eof", "erroreof", "badline"}
var lcPreludes = []string{"capcont", "capls", "capack", "capnak", "sasl", "isupport", "names", "motd", "welcome", "all"}

func lcParseSpec(s string) lcSpec {
	f := strings.Split(s, "/")
	if len(f) < 6 {
		return lcSpec{}
	}
	sp := lcSpec{kind: f[0], place: f[1], errtext: f[5], resp: len(f) > 6 && f[6] == "resp"}
	if len(f) > 8 || (len(f) > 6 && f[6] != "resp" && f[6] != "-") {
		return lcSpec{}
	}
	if len(f) > 7 && f[7] != "-" {
		if !lcIn(f[7], lcPreludes) {
			return lcSpec{}
		}
		sp.pre = f[7]
	}
	var err1, err2, err3 error
	sp.n, err1 = strconv.Atoi(f[2])
	sp.k, err2 = strconv.Atoi(f[3])
	sp.m, err3 = strconv.Atoi(f[4])
	if err1 != nil || err2 != nil || err3 != nil || sp.n < 0 || sp.n > 60 || sp.k < 0 || sp.k > sp.n || sp.m < 0 || sp.m > 20 {
		return lcSpec{}
	}
	if !lcIn(sp.kind, lcKinds) || !lcIn(sp.place, lcPlaces) {
		return lcSpec{}
	}
	if strings.ContainsAny(sp.errtext, " \r\n\x00:") || sp.errtext == "" || len(sp.errtext) > 40 {
		return lcSpec{}
	}
	if sp.place == "stream" && !lcIn(sp.kind, lcStreamKinds) {
		return lcSpec{} // the peer keeps sending through the teardown: only where it stays
	}
	if sp.place == "flood" && !lcIn(sp.kind, lcFloodKinds) {
		return lcSpec{} // kinds that do not themselves go through Send
	}
	if sp.place == "slow" && sp.k < 1 {
		return lcSpec{} // the blocked handler is that of line k
	}
	if (sp.kind == "error" || sp.kind == "erroreof") && sp.place == "burst" && sp.n-sp.k > 20 {
		return lcSpec{} // see lcGenSpec: the 30 s timer of Client.receive
	}
	sp.ok = true
	return sp
}

func lcIn(s string, l []string) bool {
	for _, x := range l {
		if x == s {
			return true
		}
	}
	return false
}

func (sp lcSpec) String() string {
	s := fmt.Sprintf("%s/%s/%d/%d/%d/%s", sp.kind, sp.place, sp.n, sp.k, sp.m, sp.errtext)
	switch {
	case sp.pre != "" && sp.resp:
		s += "/resp/" + sp.pre
	case sp.pre != "":
		s += "/-/" + sp.pre
	case sp.resp:
		s += "/resp"
	}
	return s
}

// allowed result classes of a kind: must equal Spec/LifecycleSpec.allowed on the features
// the driver derives from the kind (coq/Driver/DrvC07.v kind_features).
func (sp lcSpec) allowed() []string {
	ee := "errevent=" + Hex(sp.errtext)
	switch sp.kind {
	case "close":
		return []string{"nil"}
	case "quit":
		if sp.resp {
			return []string{"nil", ee, "ioerr"}
		}
		return []string{"nil"}
	case "error":
		return []string{ee}
	case "eof", "werr":
		return []string{"ioerr"}
	case "erroreof":
		return []string{ee, "ioerr"}
	case "badline":
		return []string{"parse"}
	case "qwf":
		// the sending direction breaks, then Quit(): the failed write of the QUIT is ignored;
		// other output still on its way (registration, queued lines) fails with an error
		if sp.place == "reg" || sp.place == "txq" {
			return []string{"nil", "ioerr"}
		}
		return []string{"nil"}
	case "wfault":
		return []string{"ioerr"}
	}
	return nil
}

// lcFaultConn is the client's end of the pipe; once fail is set every Write fails while reads
// keep working (a link broken in the sending direction only).
type lcFaultConn struct {
	net.Conn
	fail *atomic.Bool
}

func (f *lcFaultConn) Write(b []byte) (int, error) {
	if f.fail.Load() {
		return 0, fmt.Errorf("injected write fault")
	}
	return f.Conn.Write(b)
}

// lcPanic is what the harness records when Connect itself panicked.
type lcPanic struct{ msg string }

func (p lcPanic) Error() string { return "panic in Connect: " + p.msg }

func lcClass(err error) string {
	switch e := err.(type) {
	case nil:
		return "nil"
	case lcPanic:
		return "panic"
	case *girc.ErrEvent:
		return "errevent=" + Hex(e.Error())
	case girc.ErrParseEvent:
		return "parse"
	case *girc.ErrParseEvent:
		return "parse"
	case girc.ErrTimedOut:
		return "timeout"
	default:
		return "ioerr"
	}
}

func lcRetToken(err error) string {
	switch e := err.(type) {
	case nil:
		return "Rn"
	case lcPanic:
		return "R!" // not a label of the machine
	case *girc.ErrEvent:
		return "Re" + e.Error()
	case girc.ErrParseEvent, *girc.ErrParseEvent:
		return "Rp"
	case girc.ErrTimedOut:
		return "Rt"
	default:
		return "Ri"
	}
}

// ---------------------------------------------------------------- one client, two connections

var lcIDre = regexp.MustCompile(`^#?([ab][0-9]+)$`)

func lcEventID(e *girc.Event) string {
	if e == nil || len(e.Params) == 0 {
		return ""
	}
	if m := lcIDre.FindStringSubmatch(e.Last()); m != nil {
		return m[1]
	}
	return ""
}

type lcConn struct {
	sp     lcSpec
	letter string // "a" for the first connection, "b" for the second
	log    *lcLog
	c      *girc.Client
	in     net.Conn

	mu          sync.Mutex
	delivered   []string // ids and "!"+text for ERROR, in delivery order
	lifecycle   []string // I K D in order
	afterDisc   int      // deliveries after CLOSED/DISCONNECTED
	sent        []string // ids / "!"+text the peer sent, in order
	recvAll     []string // every raw line the peer read
	chansAtInit int
	slowID      string
	inHandler   chan struct{}
	release     chan struct{}

	regs           []string
	firstLine      chan struct{}
	regDone        chan struct{}
	eofCh          chan struct{}
	readerEnd      chan struct{}
	retCh          chan struct{} // closed when MockConnect has returned
	paused         atomic.Bool
	resume         chan struct{}
	peerShut       atomic.Bool // the peer closed its own end
	panicked       atomic.Bool // Connect panicked or never returned: never call into the client again
	wmu            sync.Mutex  // log entry + write of the peer are one step (several goroutines write)
	panicID        string
	noTeardownSend bool // sessions without AllowFlood: a Send from a handler would sit in the limiter
	stalled        bool // the event after a recovered handler panic was not delivered
	streamDone     chan struct{}
	sendDone       chan struct{}
	failWrites     atomic.Bool // the client's writes fail from now on (pipe transport)
	snapshot       string      // tracked state when the first registration line was on the wire
	ln             net.Listener
	fdBase         int
	tcpProblems    []string
	selfClosing    atomic.Bool // the peer is about to close its own end (answering a QUIT)
	sawEOF         atomic.Bool

	problems []string // harness-level timeouts ("harness-timeout: ...")
}

func lcRegs(cfg girc.Config) []string {
	return []string{
		(&girc.Event{Command: girc.CAP, Params: []string{girc.CAP_LS, "302"}}).String(),
		(&girc.Event{Command: girc.NICK, Params: []string{cfg.Nick}}).String(),
		(&girc.Event{Command: girc.USER, Params: []string{cfg.User, "*", "*", cfg.Name}}).String(),
	}
}

func (cn *lcConn) problem(format string, a ...interface{}) {
	cn.mu.Lock()
	cn.problems = append(cn.problems, fmt.Sprintf(format, a...))
	cn.mu.Unlock()
}

// waitStep waits for ch; an early return of Connect ends the wait as well (the remaining
// steps of the scenario are then no-ops or fail fast).
func (cn *lcConn) waitStep(ch <-chan struct{}) bool {
	select {
	case <-ch:
		return true
	case <-cn.retCh:
		return true
	case <-time.After(lcStepBound):
		return false
	}
}

func lcWaitCh(ch <-chan struct{}, d time.Duration) bool {
	select {
	case <-ch:
		return true
	case <-time.After(d):
		return false
	}
}

// handle is the one foreground ALL_EVENTS handler of the client.
func (cn *lcConn) handle(cl *girc.Client, e girc.Event) {
	switch e.Command {
	case girc.INITIALIZED:
		// channels tracked now that were joined on the PREVIOUS connection (this
		// connection's own events may already be processed concurrently)
		n := 0
		for _, ch := range cl.ChannelList() {
			if cn.letter != "a" && strings.HasPrefix(ch, "#a") {
				n++
			}
		}
		cn.mu.Lock()
		cn.chansAtInit = n
		cn.lifecycle = append(cn.lifecycle, "I")
		cn.mu.Unlock()
		cn.log.add("I")
		return
	case girc.CLOSED, girc.DISCONNECTED:
		t := "K"
		if e.Command == girc.DISCONNECTED {
			t = "D"
		}
		cn.mu.Lock()
		cn.lifecycle = append(cn.lifecycle, t)
		cn.mu.Unlock()
		cn.log.add(t)
		if !cn.noTeardownSend {
			// the application sends from its CLOSED / DISCONNECTED handler: c.conn is still
			// set, so the line is queued - and nobody will ever write it on this connection;
			// it must not reach the next one
			id := cn.id(95)
			if t == "D" {
				id = cn.id(96)
			}
			cn.log.add("s" + id)
			cl.Cmd.Message("#out", id)
		}
		if t == "K" && cn.sp.place == "stream" {
			// all four loops have stopped, the socket is still open: the server is still
			// talking. (Asynchronously: on a pipe the second line finds no reader.)
			w := make(chan struct{})
			go func() {
				defer close(w)
				cn.peerLines([]string{cn.id(90)})
				cn.peerLines([]string{cn.id(91)})
			}()
			lcWaitCh(w, 20*time.Millisecond)
		}
		return
	case girc.ERROR:
		cn.log.add("e" + e.Last())
		cn.mu.Lock()
		cn.delivered = append(cn.delivered, "!"+e.Last())
		if len(cn.lifecycle) > 1 {
			cn.afterDisc++
		}
		cn.mu.Unlock()
		return
	}
	id := lcEventID(&e)
	if id == "" {
		return // state notifications, CONNECTED, ... : not part of the observed alphabet
	}
	cn.log.add("m" + id)
	cn.mu.Lock()
	cn.delivered = append(cn.delivered, id)
	if len(cn.lifecycle) > 1 {
		cn.afterDisc++
	}
	slow := id == cn.slowID
	boom := id != "" && id == cn.panicID
	cn.mu.Unlock()
	if boom {
		// a foreground handler panics; Config.RecoverFunc is set, so the library recovers it
		var m map[string]int
		m[id] = 1
	}
	if slow {
		close(cn.inHandler)
		if !lcWaitCh(cn.release, 2*lcStepBound) {
			cn.problem("harness-timeout: slow handler never released")
		}
	}
}

func (cn *lcConn) waitDelivered(n int) bool {
	deadline := time.Now().Add(lcStepBound)
	cn.mu.Lock()
	defer cn.mu.Unlock()
	for len(cn.delivered) < n {
		if time.Now().After(deadline) {
			return false
		}
		select {
		case <-cn.retCh:
			return false // the connection is over: nothing more will be delivered
		default:
		}
		// cond.Wait without timeout could hang when the connection ends early: poll.
		cn.mu.Unlock()
		time.Sleep(200 * time.Microsecond)
		cn.mu.Lock()
	}
	return true
}

// reader is the peer's read side: records what the client writes, logs the lines of the
// observed alphabet, answers a QUIT when the spec says so.
func (cn *lcConn) reader() {
	defer close(cn.readerEnd)
	r := bufio.NewReader(cn.in)
	first := true
	for {
		if cn.paused.Load() {
			<-cn.resume
		}
		line, err := r.ReadString('\n')
		if line != "" {
			raw := strings.TrimRight(line, "\r\n")
			cn.mu.Lock()
			cn.recvAll = append(cn.recvAll, raw)
			cn.mu.Unlock()
			isReg := lcIn(raw, cn.regs)
			ev := girc.ParseEvent(raw)
			switch {
			case isReg:
				cn.log.add("r" + raw)
			case ev != nil && ev.Command == girc.QUIT:
				cn.log.add("Q" + ev.Last())
				if cn.sp.resp {
					cn.selfClosing.Store(true)
					cn.peerLines([]string{"!" + cn.sp.errtext})
					cn.peerClose()
				}
			case ev != nil && ev.Command == girc.PRIVMSG && len(ev.Params) == 2 && ev.Params[0] == "#out":
				cn.log.add("r" + ev.Last())
			}
			if first {
				first = false
				close(cn.firstLine)
			}
			if raw == cn.regs[len(cn.regs)-1] {
				select {
				case <-cn.regDone:
				default:
					close(cn.regDone)
				}
			}
		}
		if err != nil {
			// the end of the stream: EOF, or on TCP a reset (a client that closes its socket with
			// unread data in its receive buffer answers with RST instead of FIN) - as long as it
			// is not the peer's own close that ended the read
			if !cn.peerShut.Load() && (err == io.EOF || cn.sp.tcp) {
				cn.sawEOF.Store(true)
				cn.log.add("Z")
			}
			close(cn.eofCh)
			return
		}
	}
}

// peerLines logs and writes lines in one Write: "id" is an ordinary event carrying id,
// "!text" an ERROR, "?" an unparsable line.
func (cn *lcConn) peerLines(items []string) {
	if cn.panicked.Load() {
		return
	}
	cn.wmu.Lock()
	defer cn.wmu.Unlock()
	var sb strings.Builder
	for _, it := range items {
		switch {
		case strings.HasPrefix(it, "!"):
			cn.log.add("E" + it[1:])
			sb.WriteString("ERROR :" + it[1:] + "\r\n")
		case it == "?":
			cn.log.add("Bbad")
			sb.WriteString(": bad\r\n")
		case strings.HasPrefix(it, "J"):
			cn.log.add("M" + it[1:])
			sb.WriteString(":me!user@host JOIN #" + it[1:] + "\r\n")
		case strings.HasPrefix(it, "W"):
			cn.log.add("M" + it[1:])
			sb.WriteString(":srv 001 me :" + it[1:] + "\r\n")
		default:
			cn.log.add("M" + it)
			sb.WriteString(":x!u@h PRIVMSG #chan :" + it + "\r\n")
		}
		cn.mu.Lock()
		switch {
		case it == "?":
		case strings.HasPrefix(it, "J"), strings.HasPrefix(it, "W"):
			cn.sent = append(cn.sent, it[1:])
		default:
			cn.sent = append(cn.sent, it)
		}
		cn.mu.Unlock()
	}
	cn.in.SetWriteDeadline(time.Now().Add(lcStepBound))
	cn.in.Write([]byte(sb.String())) // an error means the client is gone already: fine
}

func (cn *lcConn) peerClose() {
	cn.peerShut.Store(true)
	cn.log.add("X")
	cn.in.Close()
}

func (cn *lcConn) id(i int) string { return fmt.Sprintf("%s%02d", cn.letter, i) }

func (cn *lcConn) appSend(i int) {
	if cn.panicked.Load() {
		return
	}
	id := cn.id(50 + i)
	cn.log.add("s" + id)
	cn.c.Cmd.Message("#out", id)
}

// stimulus performs the terminating action of the kind. For the kinds in which the peer
// writes, pre / extra are ordinary lines in front of / behind the stimulus line in the same
// write (what follows an ERROR must never reach the next connection); for the others pre is
// written first.
func (cn *lcConn) stimulus(pre, extra []string) {
	if cn.panicked.Load() {
		return
	}
	join := func(mid string) []string {
		l := append([]string(nil), pre...)
		l = append(l, mid)
		return append(l, extra...)
	}
	switch cn.sp.kind {
	case "error", "erroreof", "badline":
	default:
		if len(pre) > 0 {
			cn.peerLines(pre)
		}
	}
	switch cn.sp.kind {
	case "close":
		cn.log.add("(")
		cn.c.Close()
		cn.log.add(")")
	case "quit":
		cn.log.add("q" + "bye" + cn.letter)
		cn.c.Quit("bye" + cn.letter)
	case "error":
		cn.peerLines(join("!" + cn.sp.errtext))
	case "eof":
		cn.peerClose()
	case "erroreof":
		cn.peerLines(join("!" + cn.sp.errtext))
		cn.peerClose()
	case "werr":
		// output is pending while the peer goes away
		cn.paused.Store(true)
		for i := 0; i < 3; i++ {
			cn.appSend(10 + i)
		}
		cn.peerClose()
	case "badline":
		cn.peerLines(join("?"))
	case "qwf", "wfault":
		// the client's sending direction breaks; everything written so far has reached the
		// peer except in the placements where output is deliberately still under way
		cn.log.add("F")
		cn.failWrites.Store(true)
		if cn.sp.kind == "qwf" {
			cn.log.add("q" + "bye" + cn.letter)
			cn.c.Quit("bye" + cn.letter)
		} else {
			cn.appSend(20)
		}
	}
}

func (cn *lcConn) resumeReader() {
	select {
	case <-cn.resume:
	default:
		close(cn.resume)
	}
}

// ---------------------------------------------------------------- prelude and state snapshot

// rawPeer writes server lines that are NOT part of the observed alphabet (no ids): the
// machine does not see them, the tracked state of the implementation does.
func (cn *lcConn) rawPeer(lines ...string) {
	if cn.panicked.Load() {
		return
	}
	cn.in.SetWriteDeadline(time.Now().Add(lcStepBound))
	cn.in.Write([]byte(strings.Join(lines, "\r\n") + "\r\n"))
}

// waitRecv waits until the peer has read a line satisfying pred.
func (cn *lcConn) waitRecv(pred func(string) bool) (string, bool) {
	deadline := time.Now().Add(lcStepBound)
	for {
		cn.mu.Lock()
		for _, l := range cn.recvAll {
			if pred(l) {
				cn.mu.Unlock()
				return l, true
			}
		}
		cn.mu.Unlock()
		select {
		case <-cn.retCh:
			return "", false
		default:
		}
		if time.Now().After(deadline) {
			return "", false
		}
		time.Sleep(200 * time.Microsecond)
	}
}

// advertised capabilities differ per connection, so that a leak from one into the next shows
func (cn *lcConn) caps() []string {
	if cn.letter == "a" {
		return []string{"account-notify", "away-notify", "extended-join"}
	}
	return []string{"multi-prefix", "userhost-in-names"}
}

// prelude brings the connection to some point of an ordinary session before the scenario
// proper: mid capability negotiation, authenticated, after ISUPPORT, mid NAMES, mid MOTD ...
// It ends with a PING/PONG round trip: everything before it has been processed and every
// answer of the client has been written.
func (cn *lcConn) prelude() {
	pre := cn.sp.pre
	if pre == "" {
		return
	}
	capsLine := strings.Join(cn.caps(), " ")
	has := func(names ...string) bool { return lcIn(pre, names) }
	if has("welcome", "all") {
		cn.rawPeer(":srv 001 me" + cn.letter + " :Welcome")
	}
	if has("isupport", "all") {
		cn.rawPeer(":srv 005 me LINELEN=2048 NICKLEN=30 USERLEN=12 HOSTLEN=70 NETWORK=net" + cn.letter + " CHANTYPES=# :are supported by this server")
	}
	if has("names", "all") {
		cn.rawPeer(":me!user@host"+cn.letter+" JOIN #pre"+cn.letter, ":srv 353 me = #pre"+cn.letter+" :me @op"+cn.letter+" +voice"+cn.letter)
	}
	if has("motd", "all") {
		cn.rawPeer(":srv 375 me :- srv Message of the day -", ":srv 372 me :- line "+cn.letter)
	}
	switch {
	case has("capcont"):
		cn.rawPeer(":srv CAP * LS * :" + capsLine)
	case has("capls"):
		cn.rawPeer(":srv CAP * LS :" + capsLine)
		cn.waitRecv(func(l string) bool { return strings.HasPrefix(l, "CAP REQ") })
	case has("capack", "all"):
		cn.rawPeer(":srv CAP * LS :" + capsLine)
		if req, ok := cn.waitRecv(func(l string) bool { return strings.HasPrefix(l, "CAP REQ") }); ok {
			if ev := girc.ParseEvent(req); ev != nil {
				cn.rawPeer(":srv CAP * ACK :" + ev.Last())
			}
		}
	case has("capnak"):
		cn.rawPeer(":srv CAP * LS :" + capsLine)
		if req, ok := cn.waitRecv(func(l string) bool { return strings.HasPrefix(l, "CAP REQ") }); ok {
			if ev := girc.ParseEvent(req); ev != nil {
				cn.rawPeer(":srv CAP * NAK :" + ev.Last())
			}
		}
	case has("sasl"):
		cn.rawPeer(":srv CAP * LS :sasl=PLAIN " + capsLine)
		if req, ok := cn.waitRecv(func(l string) bool { return strings.HasPrefix(l, "CAP REQ") }); ok {
			if ev := girc.ParseEvent(req); ev != nil {
				cn.rawPeer(":srv CAP * ACK :" + ev.Last())
			}
		}
		if _, ok := cn.waitRecv(func(l string) bool { return strings.HasPrefix(l, "AUTHENTICATE PLAIN") }); ok {
			cn.rawPeer("AUTHENTICATE +")
			cn.waitRecv(func(l string) bool {
				return strings.HasPrefix(l, "AUTHENTICATE ") && !strings.HasPrefix(l, "AUTHENTICATE PLAIN")
			})
		}
	}
	cn.rawPeer(":srv PING :sync" + cn.letter)
	if _, ok := cn.waitRecv(func(l string) bool { return strings.HasPrefix(l, "PONG") && strings.HasSuffix(l, "sync"+cn.letter) }); !ok {
		select {
		case <-cn.retCh:
		default:
			cn.problem("harness-timeout: prelude %s not answered", pre)
		}
	}
}

// lcSnapshot renders everything state.reset is responsible for.
func lcSnapshot(c *girc.Client) string {
	tmp, enabled := c.VerifCapState()
	line, prefix := c.VerifLimits()
	keys, vals := c.VerifServerOptions()
	sts := c.VerifSTSState()
	return fmt.Sprintf("tmpCap=%q enabledCap=%q maxLineLength=%d maxPrefixLength=%d serverOptions=%q=%q motd=%q channels=%q users=%q nick=%q ident=%q host=%q sts=%+v",
		tmp, enabled, line, prefix, keys, vals, c.ServerMOTD(), c.ChannelList(), c.UserList(), c.GetNick(), c.GetIdent(), c.GetHost(), sts)
}

func lcCountFDs() int {
	d, err := os.ReadDir("/proc/self/fd")
	if err != nil {
		return -1
	}
	return len(d)
}

type lcConnResult struct {
	returned bool
	err      error
	class    string
	isConn   bool
	eof      bool
	leak     int
	leakInfo string
}

// run drives one connection to its end.
func (cn *lcConn) run(cur *atomic.Value) lcConnResult {
	var res lcConnResult
	sp := cn.sp
	cn.inHandler = make(chan struct{})
	cn.release = make(chan struct{})
	cn.firstLine = make(chan struct{})
	cn.regDone = make(chan struct{})
	cn.eofCh = make(chan struct{})
	cn.readerEnd = make(chan struct{})
	cn.retCh = make(chan struct{})
	cn.resume = make(chan struct{})
	cn.regs = lcRegs(cn.c.Config)
	if sp.place == "slow" {
		cn.slowID = cn.id(sp.k)
	}
	if sp.place == "panic" {
		cn.panicID = cn.id(1)
	}
	cur.Store(cn)

	var out net.Conn
	var accepted chan net.Conn
	if sp.tcp {
		cn.fdBase = lcCountFDs()
		accepted = make(chan net.Conn, 1)
		go func() {
			c, err := cn.ln.Accept()
			if err != nil {
				close(accepted)
				return
			}
			accepted <- c
		}()
	} else {
		var in net.Conn
		in, out = net.Pipe()
		out = &lcFaultConn{Conn: out, fail: &cn.failWrites}
		cn.in = in
	}
	cn.log.add("C1" + strings.Join(cn.regs, "\x00"))
	if !sp.tcp {
		go cn.reader()
	}
	done := make(chan error, 1)
	go func() {
		var err error
		defer func() {
			if r := recover(); r != nil {
				err = lcPanic{fmt.Sprint(r)}
				cn.panicked.Store(true)
			}
			cn.log.add(lcRetToken(err))
			close(cn.retCh)
			done <- err
		}()
		if sp.tcp {
			err = cn.c.Connect() // default dialer: a genuine *net.TCPConn
		} else {
			err = cn.c.MockConnect(out)
		}
	}()
	if sp.tcp {
		select {
		case c, ok := <-accepted:
			if !ok {
				cn.problem("harness-setup: accept failed")
				return res
			}
			cn.in = c
		case <-time.After(lcStepBound):
			cn.problem("harness-timeout: no TCP connection accepted")
			return res
		}
		go cn.reader()
	}

	burst := func(from, to int) []string {
		var l []string
		for i := from; i <= to; i++ {
			l = append(l, cn.id(i))
		}
		return l
	}
	appKind := sp.kind == "close" || sp.kind == "quit" || sp.kind == "qwf" || sp.kind == "wfault"

	// The first registration line is on the wire: state.reset and drainQueues are done and the
	// peer has not sent anything yet - the tracked state must be that of a fresh client.
	if !cn.waitStep(cn.firstLine) {
		cn.problem("harness-timeout: no registration line")
	}
	if !cn.panicked.Load() {
		cn.snapshot = lcSnapshot(cn.c)
	}
	faultKind := sp.kind == "qwf" || sp.kind == "wfault"
	if sp.place != "reg" {
		if !cn.waitStep(cn.regDone) {
			cn.problem("harness-timeout: registration incomplete")
		}
		cn.prelude()
	}

	switch sp.place {
	case "reg":
		cn.stimulus(nil, nil)
	case "after001":
		if faultKind {
			// no JOIN: its WHO/MODE answers would be output under way when the fault strikes
			cn.peerLines([]string{"W" + cn.id(0)})
			if !cn.waitDelivered(1) {
				cn.problem("harness-timeout: 001 not delivered")
			}
		} else {
			cn.peerLines([]string{"W" + cn.id(0), "J" + cn.id(1)})
			if !cn.waitDelivered(2) {
				cn.problem("harness-timeout: 001/JOIN not delivered")
			}
		}
		cn.stimulus(nil, nil)
	case "burst":
		if !cn.waitStep(cn.regDone) {
			cn.problem("harness-timeout: registration incomplete")
		}
		if !appKind {
			// the peer writes lines 1..k, its stimulus, lines k+1..n, in this order; a close
			// comes after the write has been taken by the client (no bytes are lost)
			cn.stimulus(burst(1, sp.k), burst(sp.k+1, sp.n))
		} else {
			stim := make(chan struct{})
			go func() {
				defer close(stim)
				cn.waitDelivered(sp.k) // best effort placement; any interleaving is a valid case
				cn.stimulus(nil, nil)
			}()
			cn.peerLines(burst(1, sp.n))
			lcWaitCh(stim, 2*lcStepBound)
		}
	case "slow":
		if !cn.waitStep(cn.regDone) {
			cn.problem("harness-timeout: registration incomplete")
		}
		cn.peerLines(burst(1, sp.n))
		if !cn.waitStep(cn.inHandler) {
			cn.problem("harness-timeout: slow handler not entered")
		}
		stim := make(chan struct{})
		go func() {
			defer close(stim)
			cn.stimulus(nil, burst(sp.n+1, sp.n+2))
		}()
		// normally the stimulus completes while the handler is still blocked; when the
		// receive queue is full behind the handler a write of the peer cannot, so do not
		// wait for it for long (either order is a valid case)
		lcWaitCh(stim, 100*time.Millisecond)
		if sp.kind == "quit" {
			// let the QUIT reach the wire while the handler is still blocked
			deadline := time.Now().Add(lcStepBound)
			for time.Now().Before(deadline) {
				if _, tx := cn.c.VerifQueues(); tx == 0 {
					break
				}
				time.Sleep(200 * time.Microsecond)
			}
		}
		close(cn.release)
		if !lcWaitCh(stim, 2*lcStepBound) {
			cn.problem("harness-timeout: stimulus did not complete")
		}
	case "stream":
		// the peer keeps streaming lines, one write each, through the stimulus and the
		// teardown, until its writes fail (at most 15 lines behind the stimulus: see the
		// 30 s timer of Client.receive)
		wrote := make(chan struct{})
		cn.streamDone = make(chan struct{})
		go func() {
			defer close(cn.streamDone)
			for i := 1; i <= sp.k+15; i++ {
				cn.peerLines([]string{cn.id(i)})
				if i == sp.k {
					close(wrote)
				}
				select {
				case <-cn.retCh:
					if i >= sp.k {
						return
					}
				default:
				}
				time.Sleep(50 * time.Microsecond)
			}
		}()
		if sp.k > 0 {
			cn.waitStep(wrote)
		}
		cn.stimulus(nil, nil)
	case "panic":
		// a foreground handler panics on line 1 (recovered through Config.RecoverFunc); the
		// dispatcher must go on: line 2 is delivered, and the connection still ends on demand
		cn.peerLines([]string{cn.id(1), cn.id(2)})
		got := 0
		deadline := time.Now().Add(lcSettleBound)
		for time.Now().Before(deadline) {
			cn.mu.Lock()
			got = len(cn.delivered)
			cn.mu.Unlock()
			if got >= 2 {
				break
			}
			select {
			case <-cn.retCh:
				deadline = time.Now()
			default:
			}
			time.Sleep(200 * time.Microsecond)
		}
		select {
		case <-cn.retCh:
		default:
			if got < 2 {
				// the dispatcher has not moved on from the recovered panic: the connection
				// cannot end any more (execLoop never returns); do not sit out the full bounds
				cn.stalled = true
			}
		}
		cn.stimulus(nil, nil)
	case "flood":
		// an application goroutine sits in the flood delay of Client.Send when the connection
		// ends (the session runs without AllowFlood; the limiter is primed so that the next
		// Send waits about a second)
		cn.peerLines([]string{"W" + cn.id(0)})
		if !cn.waitDelivered(1) {
			cn.problem("harness-timeout: 001 not delivered")
		}
		if !cn.panicked.Load() {
			cn.c.VerifPNPrimeLimiter(9*time.Second, 0)
			cn.sendDone = make(chan struct{})
			go func() {
				defer close(cn.sendDone)
				cn.appSend(30)
			}()
			deadline := time.Now().Add(lcStepBound)
			for time.Now().Before(deadline) {
				if d, ok := cn.c.VerifPNWriteDelay(); !ok || d > 9*time.Second {
					break // rate() has been consulted: the Send is waiting
				}
				time.Sleep(100 * time.Microsecond)
			}
		}
		cn.stimulus(nil, nil)
	case "txq":
		if !cn.waitStep(cn.regDone) {
			cn.problem("harness-timeout: registration incomplete")
		}
		cn.paused.Store(true)
		for i := 0; i < sp.m; i++ {
			cn.appSend(i)
		}
		if sp.m >= 2 {
			deadline := time.Now().Add(lcStepBound)
			for time.Now().Before(deadline) {
				if _, tx := cn.c.VerifQueues(); tx >= sp.m-2 {
					break
				}
				time.Sleep(200 * time.Microsecond)
			}
		}
		cn.stimulus(nil, nil)
	}
	if !cn.peerShut.Load() {
		cn.resumeReader()
	}

	bound := lcReturnBound
	if cn.stalled {
		bound = 2 * time.Second
	}
	select {
	case res.err = <-done:
		res.returned = true
	case <-time.After(bound):
		// not returned: free everything so that the process can go on. The client may be
		// wedged on one of its locks: nothing may wait for a call into it any more.
		cn.panicked.Store(true)
		cn.resumeReader()
		go cn.c.Close()
		cn.peerShut.Store(true)
		cn.in.Close()
		select {
		case <-done:
		case <-time.After(2 * time.Second):
		}
		lcAbandonGoroutines()
		select {
		case <-cn.release:
		default:
			close(cn.release)
		}
		res.class = "no-return"
		return res
	}
	select {
	case <-cn.release:
	default:
		close(cn.release)
	}
	res.class = lcClass(res.err)
	if res.class == "panic" {
		// Connect panicked (possibly holding the client's mutex): do not call into the
		// client again
		cn.peerShut.Store(true)
		cn.in.Close()
		cn.resumeReader()
		res.eof = true
		return res
	}
	res.isConn = cn.c.IsConnected()
	if res.isConn {
		cn.log.add("cT")
	} else {
		cn.log.add("cF")
	}
	cn.resumeReader()
	if res.returned {
		if cn.peerShut.Load() || cn.selfClosing.Load() {
			res.eof = true // the peer closed itself; nothing to observe
		} else {
			lcWaitCh(cn.eofCh, lcSettleBound)
			// (the peer may have read a QUIT in the meantime and be closing on its own)
			res.eof = cn.sawEOF.Load() || cn.peerShut.Load() || cn.selfClosing.Load()
		}
	}
	if cn.streamDone != nil {
		lcWaitCh(cn.streamDone, lcStepBound) // its writes fail once the client's socket is closed
	}
	if cn.sendDone != nil && !lcWaitCh(cn.sendDone, lcStepBound) {
		// Connect has returned but the Send that was waiting out its flood delay never does
		cn.tcpProblems = append(cn.tcpProblems, fmt.Sprintf("send-stuck: a Send that was in its flood delay when the connection ended has not returned %v later", lcStepBound))
		cn.panicked.Store(true)
		lcAbandonGoroutines()
	}
	// library goroutines must be gone because the CLIENT closed its socket, not because the
	// peer hangs up afterwards: look before the peer closes its end
	if res.returned && !cn.panicked.Load() {
		res.leak, res.leakInfo = lcSettleGoroutines()
	}
	if sp.tcp && res.returned && res.eof && !cn.peerShut.Load() && !cn.selfClosing.Load() {
		// a closed TCP socket answers further data with a reset: the server's writes must
		// start failing (a merely half-closed one accepts them for ever)
		failed := false
		deadline := time.Now().Add(lcSettleBound)
		for n := 0; time.Now().Before(deadline); n++ {
			cn.in.SetWriteDeadline(time.Now().Add(time.Second))
			if _, err := cn.in.Write([]byte(":srv PING :probe\r\n")); err != nil {
				failed = true
				break
			}
			time.Sleep(5 * time.Millisecond)
		}
		if !failed {
			cn.tcpProblems = append(cn.tcpProblems, fmt.Sprintf("socket-half-open: the server could keep writing to the client for %v after Connect returned: the client's socket is not closed", lcSettleBound))
		}
	}
	cn.peerShut.Store(true)
	cn.in.Close()
	lcWaitCh(cn.readerEnd, lcSettleBound)
	if sp.tcp && res.returned && cn.fdBase >= 0 {
		deadline := time.Now().Add(lcSettleBound)
		n := lcCountFDs()
		for n > cn.fdBase && time.Now().Before(deadline) {
			time.Sleep(time.Millisecond)
			n = lcCountFDs()
		}
		if n > cn.fdBase {
			cn.tcpProblems = append(cn.tcpProblems, fmt.Sprintf("fd-leak: %d open descriptors before Connect, %d still open %v after it returned and the server closed", cn.fdBase, n, lcSettleBound))
		}
	}
	return res
}

// lcIgnored holds the ids of library goroutines a previous session of this process already
// reported as leaked (or left behind by a Connect that never returned): they are that session's
// finding, not the next one's.
var lcIgnored = map[string]bool{}

var lcGoroutineHead = regexp.MustCompile(`^goroutine (\d+) \[`)

// lcGircGoroutines lists the goroutines that run or were created by library code (a frame of
// package girc on their stack, e.g. parked in (*ircConn).decode or (*Client).readLoop), except
// the documented 2 s sleeper of handleConnect (a background handler still finishing) and those
// already attributed to an earlier session.
func lcGircGoroutines() (ids []string, sample string) {
	buf := make([]byte, 1<<20)
	for {
		n := runtime.Stack(buf, true)
		if n < len(buf) {
			buf = buf[:n]
			break
		}
		buf = make([]byte, 2*len(buf))
	}
	for _, g := range strings.Split(string(buf), "\n\n") {
		if !strings.Contains(g, "github.com/lrstanley/girc.") || strings.Contains(g, "girc.handleConnect") {
			continue
		}
		m := lcGoroutineHead.FindStringSubmatch(g)
		if m == nil || lcIgnored[m[1]] {
			continue
		}
		ids = append(ids, m[1])
		if sample == "" {
			state := ""
			if k := strings.IndexByte(g, '\n'); k > 0 {
				state = strings.TrimSpace(g[:k])
			}
			for _, l := range strings.Split(g, "\n") {
				if strings.Contains(l, "github.com/lrstanley/girc.") {
					sample = strings.TrimSpace(l) + " <" + state + ">"
					break
				}
			}
		}
	}
	return ids, sample
}

// lcSettleGoroutines polls until no library goroutine is left; what is left after the bound
// is reported once and ignored from then on.
var lcLeakReports int

func lcSettleGoroutines() (int, string) {
	if lcLeakReports >= 8 {
		// the verdict of this process is established; do not spend the grace period on every
		// further session (a systematic leak would cost minutes)
		lcAbandonGoroutines()
		return 0, ""
	}
	deadline := time.Now().Add(lcSettleBound)
	for {
		ids, s := lcGircGoroutines()
		if len(ids) == 0 {
			return 0, ""
		}
		if time.Now().After(deadline) {
			for _, id := range ids {
				lcIgnored[id] = true
			}
			lcLeakReports++
			return len(ids), s
		}
		time.Sleep(time.Millisecond)
	}
}

// lcAbandonGoroutines attributes whatever library goroutines exist now to the current session.
func lcAbandonGoroutines() {
	ids, _ := lcGircGoroutines()
	for _, id := range ids {
		lcIgnored[id] = true
	}
}

// ---------------------------------------------------------------- model checker process

var lcModel struct {
	mu    sync.Mutex
	cmd   *exec.Cmd
	in    io.WriteCloser
	out   *bufio.Reader
	tried bool
	err   error
}

func lcModelPath() string {
	if p := os.Getenv("VERIF_MODELDRV"); p != "" {
		return p
	}
	if exe, err := os.Executable(); err == nil {
		// work/bin/gircx -> ocaml/modeldrv
		p := filepath.Join(filepath.Dir(exe), "..", "..", "ocaml", "modeldrv")
		if _, err := os.Stat(p); err == nil {
			return p
		}
	}
	if wd, err := os.Getwd(); err == nil {
		for d := wd; d != "/" && d != "."; d = filepath.Dir(d) {
			p := filepath.Join(d, "ocaml", "modeldrv")
			if _, err := os.Stat(p); err == nil {
				return p
			}
		}
	}
	return ""
}

// lcAccepts asks the extracted checker whether toks is a trace of the machine.
func lcAccepts(toks []string) (string, error) {
	lcModel.mu.Lock()
	defer lcModel.mu.Unlock()
	if !lcModel.tried {
		lcModel.tried = true
		p := lcModelPath()
		if p == "" {
			lcModel.err = fmt.Errorf("ocaml/modeldrv not found (set VERIF_MODELDRV)")
		} else {
			cmd := exec.Command(p)
			in, e1 := cmd.StdinPipe()
			out, e2 := cmd.StdoutPipe()
			if e1 != nil || e2 != nil {
				lcModel.err = fmt.Errorf("pipes: %v %v", e1, e2)
			} else if err := cmd.Start(); err != nil {
				lcModel.err = err
			} else {
				lcModel.cmd, lcModel.in, lcModel.out = cmd, in, bufio.NewReaderSize(out, 1<<16)
			}
		}
	}
	if lcModel.err != nil {
		return "", lcModel.err
	}
	line := "lifecycle.accepts\t" + EncodeCase(Case(toks)) + "\n"
	if _, err := io.WriteString(lcModel.in, line); err != nil {
		lcModel.err = err
		return "", err
	}
	ans, err := lcModel.out.ReadString('\n')
	if err != nil {
		lcModel.err = err
		return "", err
	}
	return strings.TrimRight(ans, "\n"), nil
}

// ---------------------------------------------------------------- predicates

func lcIsPrefix(a, b []string) bool {
	if len(a) > len(b) {
		return false
	}
	for i := range a {
		if a[i] != b[i] {
			return false
		}
	}
	return true
}

// lcCheckConn evaluates the property's clauses on one finished connection.
func lcCheckConn(cn *lcConn, res lcConnResult, first *lcConn, fresh string) []string {
	var bad []string
	add := func(class, format string, a ...interface{}) {
		bad = append(bad, class+": conn "+cn.letter+" "+cn.sp.String()+": "+fmt.Sprintf(format, a...))
	}
	cn.mu.Lock()
	defer cn.mu.Unlock()
	if res.class == "panic" {
		add("panic", "%v", res.err)
		return bad
	}
	for _, p := range cn.problems {
		bad = append(bad, p+" (conn "+cn.letter+" "+cn.sp.String()+")")
	}
	if !res.returned {
		if cn.stalled {
			add("no-return", "after a recovered panic of a foreground handler the next event was not delivered within %v, and Connect did not return within 2s of the stimulus", lcSettleBound)
		} else {
			add("no-return", "Connect did not return within %v of the stimulus", lcReturnBound)
		}
		return bad
	}
	if !lcIn(res.class, cn.sp.allowed()) {
		add("wrong-result", "returned %s (%v), allowed %v", res.class, res.err, cn.sp.allowed())
	}
	// lifecycle events
	want := "ID"
	if res.err == nil {
		want = "IKD"
	}
	if got := strings.Join(cn.lifecycle, ""); got != want {
		add("lifecycle-events", "lifecycle events %q, want %q for result %s", got, want, res.class)
	}
	if cn.afterDisc > 0 {
		add("lifecycle-events", "%d events delivered after CLOSED/DISCONNECTED", cn.afterDisc)
	}
	if res.isConn {
		add("still-connected", "IsConnected() is true after Connect returned")
	}
	if !res.eof {
		add("socket-open", "the peer saw no EOF within %v of the return", lcSettleBound)
	}
	if res.leak > 0 {
		add("goroutine-leak", "%d library goroutines alive %v after the return, e.g. %s", res.leak, lcSettleBound, res.leakInfo)
	}
	// delivery: exactly a prefix of what the peer sent on THIS connection, in order
	var own, stale []string
	for _, d := range cn.delivered {
		if first != nil && (strings.HasPrefix(d, first.letter) || strings.HasPrefix(d, "!E"+first.letter)) {
			stale = append(stale, d)
		} else {
			own = append(own, d)
		}
	}
	if len(stale) > 0 {
		add("stale-rx-next-conn", "events of the previous connection delivered: %q", stale)
	}
	if !lcIsPrefix(own, cn.sent) {
		add("delivery-order", "delivered %q is not a prefix of sent %q", own, cn.sent)
	}
	// flush before ERROR
	for i, d := range own {
		if strings.HasPrefix(d, "!") {
			// everything sent before this ERROR must have been delivered before it
			j := 0
			for j < len(cn.sent) && cn.sent[j] != d {
				j++
			}
			if j < len(cn.sent) && !(i == j && lcIsPrefix(own[:i], cn.sent[:j])) {
				add("flush-before-error", "ERROR delivered at %d after %q, but %q were sent before it", i, own[:i], cn.sent[:j])
			}
			break
		}
	}
	if strings.HasPrefix(res.class, "errevent=") {
		if len(own) == 0 || own[len(own)-1] != "!"+cn.sp.errtext {
			add("flush-before-error", "returned ErrEvent but the last delivered event is not that ERROR: %q", own)
		}
	}
	// every connection starts from the tracked state of a fresh client (state.reset)
	if cn.snapshot != "" && cn.snapshot != fresh {
		add("state-not-reset", "tracked state when the registration started: %s; a fresh client has: %s", cn.snapshot, fresh)
	}
	// capabilities requested on this connection were advertised on this connection
	adv := cn.caps()
	if cn.sp.pre == "sasl" {
		adv = append(adv, "sasl")
	}
	for _, l := range cn.recvAll {
		ev := girc.ParseEvent(l)
		if ev == nil || ev.Command != girc.CAP || len(ev.Params) < 2 || ev.Params[0] != girc.CAP_REQ {
			continue
		}
		for _, name := range strings.Fields(ev.Last()) {
			if !lcIn(name, adv) || !lcIn(cn.sp.pre, []string{"capls", "capack", "capnak", "sasl", "all"}) {
				add("stale-cap-req", "CAP REQ names %q, this server advertised %q (prelude %q)", name, adv, cn.sp.pre)
			}
		}
	}
	for _, p := range cn.tcpProblems {
		bad = append(bad, p+" (conn "+cn.letter+" "+cn.sp.String()+")")
	}
	// the first lines of a connection on the wire are its registration lines and nothing else
	for i, want := range cn.regs {
		if i >= len(cn.recvAll) {
			break // the connection ended during registration
		}
		if cn.recvAll[i] != want {
			class := "registration-order"
			if first != nil {
				class = "stale-tx-next-conn"
			}
			add(class, "line %d on the wire is %q, want the registration line %q (first lines: %q)", i+1, cn.recvAll[i], want, cn.recvAll[:i+1])
			break
		}
	}
	// second connection: fresh tracked state, nothing of the first on the wire
	if first != nil {
		if cn.chansAtInit != 0 {
			add("state-not-reset", "%d channels of the previous connection tracked at INITIALIZED", cn.chansAtInit)
		}
		var old []string
		regSeen := map[string]int{}
		for _, l := range cn.recvAll {
			if lcIn(l, cn.regs) {
				regSeen[l]++
				if regSeen[l] > 1 {
					old = append(old, l)
				}
				continue
			}
			ev := girc.ParseEvent(l)
			if ev == nil {
				continue
			}
			for _, p := range ev.Params {
				if m := lcIDre.FindStringSubmatch(p); m != nil && strings.HasPrefix(m[1], first.letter) {
					old = append(old, l)
					break
				}
			}
			if ev.Command == girc.QUIT && ev.Last() == "bye"+first.letter {
				old = append(old, l)
			}
		}
		if len(old) > 0 {
			add("stale-tx-next-conn", "output of the previous connection written: %q", old)
		}
	}
	return bad
}

// ---------------------------------------------------------------- the suite

func lcRunSession(specs []lcSpec) Result {
	t0 := time.Now()
	log := &lcLog{}
	var cur atomic.Value
	cfg := girc.Config{Server: "irc.test", Port: 6667, Nick: "me", User: "user", Name: "Real Name", AllowFlood: true,
		SASL:        &girc.SASLPlain{User: "acct", Pass: "secret"},
		RecoverFunc: func(*girc.Client, *girc.HandlerError) {}}
	for _, sp := range specs {
		if sp.place == "flood" {
			cfg.AllowFlood = false // the flood limiter is what the placement is about
		}
	}
	var ln net.Listener
	if len(specs) > 0 && specs[0].tcp {
		var err error
		ln, err = net.Listen("tcp", "127.0.0.1:0")
		if err != nil {
			// no loopback TCP in this environment: nothing can be observed, nothing is claimed
			var obs []string
			for _, sp := range specs {
				obs = append(obs, strings.Join(sp.allowed(), ","))
			}
			return Result{Obs: strings.Join(obs, "|"), Sig: "trivial-no-loopback-tcp"}
		}
		defer ln.Close()
		cfg.Server = "127.0.0.1"
		cfg.Port = ln.Addr().(*net.TCPAddr).Port
	}
	fresh := lcSnapshot(girc.New(cfg))
	c := girc.New(cfg)
	c.Handlers.Add(girc.ALL_EVENTS, func(cl *girc.Client, e girc.Event) {
		if cn, _ := cur.Load().(*lcConn); cn != nil {
			cn.handle(cl, e)
		}
	})
	// a foreground ERROR handler that edits the event it was handed, in place: the handlers'
	// events are copies, the ErrEvent Connect returns must still carry the server's text
	c.Handlers.Add(girc.ERROR, func(_ *girc.Client, e girc.Event) {
		for i := range e.Params {
			e.Params[i] = "overwritten-by-handler"
		}
		if e.Source != nil {
			e.Source.Name = "overwritten"
		}
		for k := range e.Tags {
			e.Tags[k] = "overwritten"
		}
	})
	var obs, sig, bad []string
	var first *lcConn
	for i, sp := range specs {
		cn := &lcConn{sp: sp, letter: string(rune('a' + i)), log: log, c: c, ln: ln, noTeardownSend: !cfg.AllowFlood}
		res := cn.run(&cur)
		bad = append(bad, lcCheckConn(cn, res, first, fresh)...)
		if lcIn(res.class, sp.allowed()) && res.returned {
			obs = append(obs, strings.Join(sp.allowed(), ","))
		} else if !res.returned {
			obs = append(obs, "got:no-return")
		} else {
			obs = append(obs, "got:"+res.class)
		}
		cls := res.class
		if j := strings.IndexByte(cls, '='); j >= 0 {
			cls = cls[:j]
		}
		pre := ""
		if sp.pre != "" && sp.place != "reg" {
			pre = "~" + sp.pre
		}
		sig = append(sig, sp.kind+"/"+sp.place+pre+">"+cls)
		if first == nil {
			first = cn
		}
		if !res.returned || res.class == "panic" || cn.panicked.Load() {
			break
		}
	}
	toks := log.snapshot()
	if os.Getenv("VERIF_LC_DUMP") != "" {
		fmt.Fprintf(os.Stderr, "lifecycle.accepts\t%s\n", EncodeCase(Case(toks)))
	}
	t1 := time.Now()
	verdict, err := lcAccepts(toks)
	if os.Getenv("VERIF_LC_TIMING") != "" {
		fmt.Fprintf(os.Stderr, "session %.2fs checker %.2fs %v\n", t1.Sub(t0).Seconds(), time.Since(t1).Seconds(), specs)
	}
	if err != nil {
		bad = append(bad, "harness-setup: model checker unavailable: "+err.Error())
	} else if verdict != "accept" {
		bad = append(bad, "trace-not-in-model: "+verdict+" trace="+lcShowTrace(toks))
	}
	oracle := ""
	if len(bad) > 0 {
		oracle = bad[0]
		if len(bad) > 1 {
			oracle += fmt.Sprintf(" (+%d more: %s)", len(bad)-1, strings.Join(bad[1:], " ;; "))
		}
	}
	return Result{Obs: strings.Join(obs, "|"), Oracle: oracle, Sig: strings.Join(sig, "+")}
}

func lcShowTrace(toks []string) string {
	p := make([]string, len(toks))
	for i, t := range toks {
		p[i] = strings.ReplaceAll(t, "\x00", "~")
	}
	return strings.Join(p, " ")
}

func lcGenSpec(r *rand.Rand, letter string) lcSpec {
	place := lcBasePlaces[r.Intn(len(lcBasePlaces))]
	switch x := r.Intn(25); {
	case x == 0:
		place = "flood" // costs a second of real time: rare
	case x < 5:
		place = "stream"
	case x < 6:
		place = "panic"
	}
	sp := lcSpec{kind: lcKinds[r.Intn(len(lcKinds))], place: place, ok: true}
	sp.errtext = "E" + letter + strconv.Itoa(r.Intn(90)+10)
	sp.resp = sp.kind == "quit" && r.Intn(2) == 0
	if r.Intn(3) > 0 {
		sp.pre = lcPreludes[r.Intn(len(lcPreludes))]
	}
	switch sp.place {
	case "burst":
		sp.n = 1 + r.Intn(40)
		sp.k = r.Intn(sp.n + 1)
		if (sp.kind == "error" || sp.kind == "erroreof") && sp.n-sp.k > 20 {
			// more than a queue-full of lines BEHIND an ERROR makes the read loop sit out
			// the 30 s timer of Client.receive (documented real-time caveat of C07)
			sp.k = sp.n - 20
		}
	case "slow":
		sp.n = 1 + r.Intn(35)
		sp.k = 1 + r.Intn(sp.n)
	case "txq":
		sp.m = 1 + r.Intn(8)
	case "stream":
		sp.kind = lcStreamKinds[r.Intn(len(lcStreamKinds))]
		sp.k = r.Intn(10)
		sp.n = sp.k
	case "flood":
		sp.kind = lcFloodKinds[r.Intn(len(lcFloodKinds))]
	}
	sp.resp = sp.kind == "quit" && sp.resp
	return sp
}

func lcFixedSessions() []Case {
	var cs []Case
	i := 0
	for _, k := range lcKinds {
		for _, p := range lcBasePlaces {
			sp := lcSpec{kind: k, place: p, errtext: "Ea" + strconv.Itoa(10+i), pre: lcPreludes[i%len(lcPreludes)]}
			switch p {
			case "burst":
				sp.n, sp.k = 12, 5
			case "slow":
				sp.n, sp.k = 30, 2 // more than the receive queue holds behind the blocked handler
			case "txq":
				sp.m = 5
			}
			// the second connection cycles through the kinds too
			k2 := lcKinds[i%len(lcKinds)]
			p2 := lcBasePlaces[(i/2)%len(lcBasePlaces)]
			sp2 := lcSpec{kind: k2, place: p2, errtext: "Eb" + strconv.Itoa(10+i), n: 6, k: 3, m: 3}
			if i%3 == 0 {
				sp2.pre = lcPreludes[(i/3)%len(lcPreludes)]
			}
			if p2 == "reg" || p2 == "after001" {
				sp2.n, sp2.k, sp2.m = 0, 0, 0
			}
			if p2 != "txq" {
				sp2.m = 0
			} else {
				sp2.n, sp2.k = 0, 0
			}
			cs = append(cs, Case{sp.String(), sp2.String()})
			i++
		}
	}
	// connection 1 ends at every point of an ordinary session start-up; connection 2 negotiates
	// capabilities with a server advertising a different set
	for j, pre := range lcPreludes {
		k1 := []string{"eof", "error", "close"}[j%3]
		cs = append(cs, Case{k1 + "/after001/0/0/0/Ea" + strconv.Itoa(60+j) + "/-/" + pre,
			"close/after001/0/0/0/Eb" + strconv.Itoa(60+j) + "/-/" + []string{"capls", "capack", "all"}[j%3]})
	}
	// the server is still sending while the connection is torn down
	for j, k := range lcStreamKinds {
		cs = append(cs, Case{k + "/stream/4/4/0/Ea" + strconv.Itoa(40+j), lcStreamKinds[(j+1)%3] + "/stream/0/0/0/Eb" + strconv.Itoa(40+j)})
	}
	// a foreground handler has panicked (and was recovered) before the connection ends
	for j, k := range lcKinds {
		cs = append(cs, Case{k + "/panic/0/0/0/Ea" + strconv.Itoa(20+j), lcKinds[(j+2)%len(lcKinds)] + "/panic/0/0/0/Eb" + strconv.Itoa(20+j)})
	}
	// output is queued when connection 1 dies while NOTHING is queued for reading: the next
	// connection's first lines on the wire must be its registration and nothing else
	cs = append(cs, Case{"eof/txq/0/0/6/Ea30", "close/after001/0/0/0/Eb30/-/capls"},
		Case{"werr/txq/0/0/4/Ea31", "quit/after001/0/0/0/Eb31"},
		Case{"close/txq/0/0/8/Ea32", "error/after001/0/0/0/Eb32"})
	// a Send of the application is waiting out its flood delay when the connection ends
	for j, k := range lcFloodKinds {
		cs = append(cs, Case{k + "/flood/0/0/0/Ea" + strconv.Itoa(50+j), "close/after001/0/0/0/Eb" + strconv.Itoa(50+j)})
	}
	// a server-like peer answering QUIT
	cs = append(cs, Case{"quit/after001/0/0/0/Ea90/resp", "quit/burst/8/4/0/Eb90/resp"})
	cs = append(cs, Case{"quit/slow/10/3/0/Ea91/resp", "close/reg/0/0/0/Eb91"})
	return cs
}

// lcRunCase parses and runs a case; tcp selects the transport for all its connections.
func lcRunCase(c Case, tcp bool) Result {
	if len(c) == 0 || len(c) > 3 {
		return Result{Obs: lcBadObs(c), Sig: "trivial-badcase"}
	}
	var specs []lcSpec
	for _, a := range c {
		sp := lcParseSpec(a)
		if sp.ok && tcp && (sp.place == "txq" || sp.place == "flood" || sp.kind == "qwf" || sp.kind == "wfault" || sp.kind == "werr") {
			sp.ok = false // these need the synchronous, wrappable pipe
		}
		if !sp.ok {
			// a shrunk/garbled case is trivial, never an alarm (the driver prints the same)
			return Result{Obs: lcBadObs(c), Sig: "trivial-badcase"}
		}
		sp.tcp = tcp
		specs = append(specs, sp)
	}
	return lcRunSession(specs)
}

var lcTCPKinds = []string{"close", "quit", "error", "eof", "erroreof", "badline"}
var lcTCPPlaces = []string{"reg", "after001", "burst", "slow", "stream", "panic"}

func lcGenTCPSpec(r *rand.Rand, letter string) lcSpec {
	for {
		sp := lcGenSpec(r, letter)
		if lcIn(sp.kind, lcTCPKinds) && lcIn(sp.place, lcTCPPlaces) {
			if sp.n > 12 {
				sp.n = 12
				if sp.k > sp.n {
					sp.k = sp.n
				}
			}
			return sp
		}
	}
}

func init() {
	Register(&Suite{
		Name: "lifecycle.tcp",
		Prop: []string{"C07"},
		Fixed: func() []Case {
			// the kinds in which the server stays (close, quit, error) are those where a socket
			// that is not really closed can be told from the server side
			return []Case{
				{"close/after001/0/0/0/Ea70", "quit/reg/0/0/0/Eb70"},
				{"quit/after001/0/0/0/Ea71", "error/after001/0/0/0/Eb71"},
				{"error/burst/6/3/0/Ea72/-/capack", "close/slow/5/2/0/Eb72"},
				{"close/reg/0/0/0/Ea73", "eof/after001/0/0/0/Eb73"},
			}
		},
		Gen: func(r *rand.Rand) Case {
			return Case{lcGenTCPSpec(r, "a").String(), lcGenTCPSpec(r, "b").String()}
		},
		Run: func(c Case) Result { return lcRunCase(c, true) },
	})
	Register(&Suite{
		Name:  "lifecycle.sessions",
		Prop:  []string{"C07"},
		Fixed: lcFixedSessions,
		Gen: func(r *rand.Rand) Case {
			return Case{lcGenSpec(r, "a").String(), lcGenSpec(r, "b").String()}
		},
		Run: func(c Case) Result { return lcRunCase(c, false) },
	})
}

// lcBadObs mirrors the driver on cases with an unreadable spec: per spec either the allowed
// set (kind readable) or "?kind".
func lcBadObs(c Case) string {
	var p []string
	for _, a := range c {
		f := strings.Split(a, "/")
		get := func(i int) string {
			if i < len(f) {
				return f[i]
			}
			return ""
		}
		sp := lcSpec{kind: get(0), place: get(1), errtext: get(5), resp: get(6) == "resp"}
		if al := sp.allowed(); al != nil {
			p = append(p, strings.Join(al, ","))
		} else {
			p = append(p, "?kind")
		}
	}
	return strings.Join(p, "|")
}
