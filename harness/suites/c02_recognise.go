package suites

// A recogniser of the grammar of coq/Spec/Grammar.v on the Go side (transcription of
// coq/Spec/LineGrammar.v parse_ast, which is proven exact: C02_recogniser).  It lets the
// grammar oracle run on arbitrary lines — mutated, hand-written, random — that happen to be
// grammatical, not only on lines rendered from generated ASTs.  The flag it computes is
// part of the codec.parse observation, so it is itself diffed against the Coq recogniser.

import "strings"

// cdSpecUnescape: IRCv3 unescaping as one left-to-right scan; a backslash that does not
// start one of the five defined escapes is kept.
func cdSpecUnescape(w string) string {
	var sb strings.Builder
	for i := 0; i < len(w); i++ {
		if w[i] == '\\' && i+1 < len(w) {
			switch w[i+1] {
			case ':':
				sb.WriteByte(';')
				i++
				continue
			case 's':
				sb.WriteByte(' ')
				i++
				continue
			case '\\':
				sb.WriteByte('\\')
				i++
				continue
			case 'r':
				sb.WriteByte('\r')
				i++
				continue
			case 'n':
				sb.WriteByte('\n')
				i++
				continue
			}
		}
		sb.WriteByte(w[i])
	}
	return sb.String()
}

// cdParseAst inverts cdAst.render; ok is false when the line has no abstract syntax at
// all (the AST may still be ill-formed: check a.wf()).
func cdParseAst(l string) (a cdAst, ok bool) {
	i := len(l)
	for i > 0 && (l[i-1] == '\r' || l[i-1] == '\n') {
		i--
	}
	rest := l[:i]
	a.eol = l[i:]
	if len(rest) > 0 && rest[0] == '@' {
		sp := strings.IndexByte(rest, ' ')
		if sp < 0 {
			return a, false
		}
		for _, p := range strings.Split(rest[1:sp], ";") {
			eq := strings.IndexByte(p, '=')
			if eq < 0 {
				a.tags = append(a.tags, cdTag{key: p})
				continue
			}
			v := cdSpecUnescape(p[eq+1:])
			if cdSpecEscape(v) != p[eq+1:] { // only images of the escaping are grammatical
				return a, false
			}
			a.tags = append(a.tags, cdTag{key: p[:eq], hasVal: true, val: v})
		}
		rest = rest[sp+1:]
	}
	if len(rest) > 0 && rest[0] == ':' {
		sp := strings.IndexByte(rest, ' ')
		if sp < 0 {
			return a, false
		}
		s := rest[1:sp]
		rest = rest[sp+1:]
		a.hasSrc = true
		if at := strings.IndexByte(s, '@'); at >= 0 {
			a.hasHost, a.host = true, s[at+1:]
			s = s[:at]
		}
		if bang := strings.IndexByte(s, '!'); bang >= 0 {
			a.hasUser, a.user = true, s[bang+1:]
			s = s[:bang]
		}
		a.name = s
	}
	sp := strings.IndexByte(rest, ' ')
	if sp < 0 {
		a.cmd = rest
		return a, true
	}
	a.cmd = rest[:sp]
	p := rest[sp:]
	for {
		n := 0
		for n < len(p) && p[n] == ' ' {
			n++
		}
		p = p[n:]
		if p == "" {
			a.tail = n
			return a, true
		}
		if n == 0 {
			return a, false
		}
		if p[0] == ':' {
			a.trailing = &cdMid{n - 1, p[1:]}
			return a, true
		}
		e := strings.IndexByte(p, ' ')
		if e < 0 {
			e = len(p)
		}
		a.mids = append(a.mids, cdMid{n - 1, p[:e]})
		p = p[e:]
	}
}

// cdGrammatical: l is a line of the grammar.
func cdGrammatical(l string) (cdAst, bool) {
	a, ok := cdParseAst(l)
	return a, ok && a.wf()
}
