package suites

import (
	"fmt"
	"math/rand"
	"runtime"
	"sort"
	"strconv"
	"strings"
	"sync"
	"time"

	"gircverif/drive"

	"github.com/lrstanley/girc"
)

// ---- C06: handler dispatch is exactly-once, ordered and correctly routed ----
//
// dispatch.table: an operation sequence (Add / AddBg / AddHandler / AddTmp / Remove /
// Clear / ClearAll / Count / Len / RunHandlers) against the Caller of one client, every
// operation run to quiescence before the next.  Case = the flattened operations:
//
//	"A" cmd | "H" cmd | "B" cmd     Add / AddHandler / AddBg; handler k = k-th registration
//	"I" cmd bg                      internal registration (what registerBuiltins does), bg == "1"
//	"T" cmd ret                     AddTmp(cmd, 0, f) where f returns ret ("1" = true)
//	"D" cmd                         AddTmp(cmd, 1ms, f) and wait until the deadline has fired
//	"R" mode arg                    Remove: mode 0 = cuid of handler arg, 1 = that cuid with
//	                                the command part lower-cased, 2 = with ":bg" toggled,
//	                                3 = the literal string arg
//	"C" cmd | "X"                   Clear(cmd) / ClearAll()
//	"N" cmd | "L"                   Count(cmd) / Len()
//	"E" cmd echo                    RunHandlers(&Event{Command: cmd, Echo: echo == "1"})

type c06Handler struct {
	cmdUpper string
	intl     bool // internal table: invisible to Remove / Clear / ClearAll / Count / Len
	bg, tmp  bool
	ret      bool
	cuid     string
	done     chan struct{}
	closed   bool // done seen closed
	live     bool // the statement's own reading: registered and not removed
}

type c06Rec struct {
	mu  sync.Mutex
	inv []int
}

func (r *c06Rec) add(h int) {
	r.mu.Lock()
	r.inv = append(r.inv, h)
	r.mu.Unlock()
}

func (r *c06Rec) take() []int {
	r.mu.Lock()
	out := r.inv
	r.inv = nil
	r.mu.Unlock()
	sort.Ints(out)
	return out
}

// c06Quiesce waits until the goroutines started since base was taken have ended (the client
// of these suites is not connected: nothing else runs).  Given up only when the number of
// goroutines has not changed for c06StallLimit.
func c06Quiesce(base int) bool {
	return c06Await(func() bool { return runtime.NumGoroutine() <= base },
		func() string { return itoa(runtime.NumGoroutine()) }, c06StallLimit)
}

func c06Ints(l []int) string {
	p := make([]string, len(l))
	for i, x := range l {
		p[i] = strconv.Itoa(x)
	}
	return strings.Join(p, ",")
}

func c06ShowCuid(c string) string {
	cmd := ""
	if i := strings.IndexByte(c, ':'); i >= 0 {
		cmd = c[:i]
	}
	return "a:" + Hex(cmd) + ":" + B(strings.HasSuffix(c, ":bg"))
}

func c06IsASCII(s string) bool {
	for i := 0; i < len(s); i++ {
		if s[i] >= 0x80 {
			return false
		}
	}
	return true
}

// the statement's hypotheses on a command token used in a registration
func c06CmdOK(cmd string) bool {
	return cmd != "" && !strings.Contains(cmd, ":") && c06IsASCII(cmd)
}

// c06Handle is the model's parse_nat: a non-empty string of digits.
func c06Handle(arg string) (int, bool) {
	if arg == "" {
		return 0, false
	}
	n := 0
	for i := 0; i < len(arg); i++ {
		if arg[i] < '0' || arg[i] > '9' {
			return 0, false
		}
		if n < 1<<30 {
			n = n*10 + int(arg[i]-'0')
		}
	}
	return n, true
}

func runTableCase(c Case) Result {
	cl := girc.New(drive.BaseConfig())
	rec := &c06Rec{}
	var hs []*c06Handler
	var toks []string
	sig := map[string]bool{}
	oracle := ""
	outside := false // an operation left the statement's hypotheses: compare with the model only
	fail := func(class, format string, a ...interface{}) {
		if oracle == "" && !outside {
			oracle = class + ": " + fmt.Sprintf(format, a...)
		}
	}
	newClosed := func() []int {
		var out []int
		for i, h := range hs {
			if h.done == nil || h.closed {
				continue
			}
			select {
			case <-h.done:
				h.closed = true
				out = append(out, i)
			default:
			}
		}
		return out
	}
	add := func(kind, cmd string, ret bool) *c06Handler {
		k := len(hs)
		h := &c06Handler{cmdUpper: strings.ToUpper(cmd), ret: ret, live: true}
		hs = append(hs, h)
		if !c06CmdOK(cmd) {
			outside = true
			sig["outside"] = true
		}
		switch kind {
		case "A":
			h.cuid = cl.Handlers.Add(cmd, func(_ *girc.Client, _ girc.Event) { rec.add(k) })
		case "H":
			h.cuid = cl.Handlers.AddHandler(cmd, girc.HandlerFunc(func(_ *girc.Client, _ girc.Event) { rec.add(k) }))
		case "B":
			h.bg = true
			h.cuid = cl.Handlers.AddBg(cmd, func(_ *girc.Client, _ girc.Event) { rec.add(k) })
		case "T", "D":
			h.bg, h.tmp = true, true
			var d time.Duration
			if kind == "D" {
				d = time.Millisecond
			}
			h.cuid, h.done = cl.Handlers.AddTmp(cmd, d, func(_ *girc.Client, _ girc.Event) bool { rec.add(k); return ret })
		}
		// shape of the returned id: upper-cased command, ':bg' exactly for background handlers
		if i := strings.IndexByte(h.cuid, ':'); c06CmdOK(cmd) && (i < 0 || h.cuid[:i] != h.cmdUpper || strings.HasSuffix(h.cuid, ":bg") != h.bg) {
			fail("cuid-shape", "registration %d of %q returned %q", k, cmd, h.cuid)
		}
		return h
	}

	i := 0
	next := func() (string, bool) {
		if i >= len(c) {
			return "", false
		}
		s := c[i]
		i++
		return s, true
	}
	for i < len(c) {
		op, _ := next()
		base := runtime.NumGoroutine()
		switch op {
		case "A", "H", "B":
			cmd, ok := next()
			if !ok {
				toks = append(toks, "?args")
				break
			}
			h := add(op, cmd, false)
			toks = append(toks, c06ShowCuid(h.cuid))
			sig[op] = true
		case "I":
			cmd, ok1 := next()
			b, ok2 := next()
			if !ok1 || !ok2 {
				toks = append(toks, "?args")
				i = len(c)
				break
			}
			k := len(hs)
			h := &c06Handler{cmdUpper: strings.ToUpper(cmd), intl: true, bg: b == "1", live: true}
			hs = append(hs, h)
			if !c06CmdOK(cmd) {
				outside = true
				sig["outside"] = true
			}
			h.cuid = cl.Handlers.VerifRegisterInternal(h.bg, cmd, girc.HandlerFunc(func(_ *girc.Client, _ girc.Event) { rec.add(k) }))
			toks = append(toks, c06ShowCuid(h.cuid))
			sig["I"] = true
		case "T":
			cmd, ok1 := next()
			rt, ok2 := next()
			if !ok1 || !ok2 {
				toks = append(toks, "?args")
				i = len(c)
				break
			}
			h := add(op, cmd, rt == "1")
			toks = append(toks, c06ShowCuid(h.cuid))
			sig["T"] = true
		case "D":
			cmd, ok := next()
			if !ok {
				toks = append(toks, "?args")
				break
			}
			h := add(op, cmd, false)
			if !c06Quiesce(base) {
				fail("deadline-never-fires", "AddTmp(%q, 1ms): the deadline goroutine made no progress for a minute", cmd)
			}
			cl2 := newClosed()
			closed := len(cl2) == 1 && cl2[0] == len(hs)-1
			h.live = false
			toks = append(toks, c06ShowCuid(h.cuid)+":"+B(closed))
			if c06CmdOK(cmd) && !closed {
				fail("tmp-done-not-closed", "AddTmp(%q, 1ms): deadline passed, done channel not closed", cmd)
			}
			sig["D"] = true
		case "R":
			mode, ok1 := next()
			arg, ok2 := next()
			if !ok1 || !ok2 {
				toks = append(toks, "?args")
				i = len(c)
				break
			}
			exact := ""
			hid := -1
			if k, ok := c06Handle(arg); ok && k < len(hs) {
				exact, hid = hs[k].cuid, k
			}
			target := exact
			switch mode {
			case "0":
			case "1":
				if j := strings.IndexByte(exact, ':'); j >= 0 {
					target = strings.ToLower(exact[:j]) + exact[j:]
				}
			case "2":
				if strings.HasSuffix(exact, ":bg") {
					target = exact[:len(exact)-3]
				} else {
					target = exact + ":bg"
				}
			default:
				target, hid = arg, -1
			}
			got := cl.Handlers.Remove(target)
			toks = append(toks, "r:"+B(got))
			want := false
			if hid >= 0 && target == exact && hs[hid].live && !hs[hid].intl {
				want = true
				hs[hid].live = false
			}
			if got != want {
				fail("remove-result", "Remove(%q) = %v, the statement expects %v", target, got, want)
			}
			sig["R"+B(got)] = true
		case "C":
			cmd, ok := next()
			if !ok {
				toks = append(toks, "?args")
				break
			}
			cl.Handlers.Clear(cmd)
			if !c06IsASCII(cmd) {
				outside = true
			}
			for _, h := range hs {
				if h.cmdUpper == strings.ToUpper(cmd) && !h.intl {
					h.live = false
				}
			}
			toks = append(toks, "c")
			sig["C"] = true
		case "X":
			cl.Handlers.ClearAll()
			for _, h := range hs {
				if !h.intl {
					h.live = false
				}
			}
			toks = append(toks, "x")
			sig["X"] = true
		case "N":
			cmd, ok := next()
			if !ok {
				toks = append(toks, "?args")
				break
			}
			got := cl.Handlers.Count(cmd)
			want := 0
			for _, h := range hs {
				if h.live && !h.intl && h.cmdUpper == strings.ToUpper(cmd) {
					want++
				}
			}
			toks = append(toks, "n:"+strconv.Itoa(got))
			if got != want && c06IsASCII(cmd) {
				fail("count-wrong", "Count(%q) = %d, %d handlers are registered for it", cmd, got, want)
			}
			sig["N"] = true
		case "L":
			got := cl.Handlers.Len()
			want := 0
			for _, h := range hs {
				if h.live && !h.intl {
					want++
				}
			}
			toks = append(toks, "l:"+strconv.Itoa(got))
			if got != want {
				fail("len-wrong", "Len() = %d, %d handlers are registered", got, want)
			}
			sig["L"] = true
		case "E":
			cmd, ok1 := next()
			ec, ok2 := next()
			if !ok1 || !ok2 {
				toks = append(toks, "?args")
				i = len(c)
				break
			}
			echo := ec == "1"
			// received commands are upper-case tokens other than "*" (ParseEvent upper-cases)
			if cmd == "*" || cmd != strings.ToUpper(cmd) || !c06CmdOK(cmd) {
				outside = true
				sig["outside"] = true
			}
			rec.take()
			cl.RunHandlers(&girc.Event{Command: cmd, Echo: echo})
			if !c06Quiesce(base) {
				fail("handlers-never-finish", "RunHandlers(%q): the handler goroutines made no progress for a minute", cmd)
			}
			inv := rec.take()
			closed := newClosed()
			toks = append(toks, "e:"+c06Ints(inv)+"|"+c06Ints(closed))
			// the statement: exactly the live handlers of "*" and (unless echo) of cmd, once each
			got := map[int]int{}
			for _, h := range inv {
				got[h]++
			}
			for k, h := range hs {
				want := 0
				if h.live && (h.cmdUpper == "*" || (!echo && h.cmdUpper == cmd)) {
					want = 1
				}
				switch {
				case got[k] == want:
				case got[k] > want && !h.live:
					fail("removed-handler-invoked", "event %q: handler %d (%s) ran %d times after it was removed", cmd, k, h.cmdUpper, got[k])
				case got[k] > want && echo && h.cmdUpper != "*":
					fail("echo-to-command-handler", "echo of %q reached handler %d registered for %s", cmd, k, h.cmdUpper)
				case got[k] > want:
					fail("extra-delivery", "event %q: handler %d (%s) ran %d times, expected %d", cmd, k, h.cmdUpper, got[k], want)
				default:
					fail("missed-delivery", "event %q: handler %d (%s) ran %d times, expected %d", cmd, k, h.cmdUpper, got[k], want)
				}
			}
			isClosed := map[int]bool{}
			for _, k := range closed {
				isClosed[k] = true
			}
			for k, h := range hs {
				if h.tmp && h.ret && got[k] > 0 && h.live {
					h.live = false
					if !isClosed[k] {
						fail("tmp-done-not-closed", "temporary handler %d returned true on %q, done channel not closed", k, cmd)
					}
					sig["tmp-closed"] = true
				} else if isClosed[k] {
					fail("tmp-done-closed-early", "done channel of handler %d closed although it did not return true", k)
				}
			}
			if echo {
				sig["Eecho"] = true
			} else {
				sig["E"] = true
			}
			if len(inv) > 0 {
				sig["inv"] = true
			}
		default:
			toks = append(toks, "?op")
			i = len(c)
		}
	}
	var ss []string
	for k := range sig {
		ss = append(ss, k)
	}
	sort.Strings(ss)
	s := strings.Join(ss, "+")
	if !sig["inv"] {
		s = "trivial:" + s
	}
	return Result{Obs: strings.Join(toks, ";"), Oracle: oracle, Sig: s}
}

var (
	c06RegCmds  = []string{"FOO", "foo", "Foo", "fOO", "BAR", "bar", "Bar", "BAZ", "*", "002", "PRIVMSG", "privmsg", "NOTICE", "Notice"}
	c06OddCmds  = []string{"a:b", "A:", "", ":x", "FOO:bg", "*:"}
	c06EvCmds   = []string{"FOO", "BAR", "BAZ", "002", "PRIVMSG", "NOTICE", "QUX"}
	c06OddEvs   = []string{"foo", "*", "", "A:B", "Foo", "FOO:bg"}
	c06Literals = []string{"", ":", "FOO", "FOO:", ":x", "FOO:zz", "*:", "FOO:bg", "::"}
)

func genTableCase(r *rand.Rand) Case {
	var c Case
	odd := r.Intn(12) == 0
	// an event whose command is "*" reaches a wildcard handler twice, concurrently; with a
	// temporary wildcard handler that returns true the second invocation races with the
	// self-removal, so one case has either such events or such handlers, not both
	starEv := r.Intn(2) == 0
	regCmd := func() string {
		if odd && r.Intn(4) == 0 {
			return Pick(r, c06OddCmds...)
		}
		return Pick(r, c06RegCmds...)
	}
	nreg := 0
	n := 4 + r.Intn(20)
	for j := 0; j < n; j++ {
		switch k := r.Intn(100); {
		case k < 12:
			c = append(c, "A", regCmd())
			nreg++
		case k < 18:
			c = append(c, "H", regCmd())
			nreg++
		case k < 28:
			c = append(c, "B", regCmd())
			nreg++
		case k < 38:
			cmd, ret := regCmd(), Pick(r, "0", "1", "1")
			if starEv && cmd == "*" {
				ret = "0"
			}
			c = append(c, "T", cmd, ret)
			nreg++
		case k < 41:
			c = append(c, "D", regCmd())
			nreg++
		case k < 44:
			c = append(c, "I", regCmd(), Pick(r, "0", "1"))
			nreg++
		case k < 54:
			mode := Pick(r, "0", "0", "0", "0", "1", "2", "3")
			arg := strconv.Itoa(r.Intn(nreg + 2))
			if mode == "3" {
				arg = Pick(r, c06Literals...)
			}
			c = append(c, "R", mode, arg)
		case k < 58:
			c = append(c, "C", regCmd())
		case k < 60:
			c = append(c, "X")
		case k < 65:
			c = append(c, "N", regCmd())
		case k < 68:
			c = append(c, "L")
		default:
			cmd := Pick(r, c06EvCmds...)
			if odd && r.Intn(4) == 0 {
				cmd = Pick(r, c06OddEvs...)
				if cmd == "*" && !starEv {
					cmd = "Foo"
				}
			}
			c = append(c, "E", cmd, Pick(r, "0", "0", "0", "1"))
		}
	}
	return c
}

// ---- dispatch.tmpdone: a temporary handler removed by somebody else first -----------------
//
// Case: mode ("d": AddTmp with a 15ms deadline that passes; "r": the function returns true),
// remover ("R" Remove(cuid), "C" Clear(cmd), "X" ClearAll, "-" nobody), cmd.  The remover acts
// after the registration and before the wrapper's / deadline goroutine's own Remove.  The
// statement: a temporary handler that returned true or whose deadline passed has its done
// channel closed.
func runTmpDone(c Case) Result {
	if len(c) < 3 {
		return Result{Obs: "?args"}
	}
	// mode "d": the remover must act before the deadline passes.  Should the machine be so
	// slow that half the deadline is gone when the remover returns, the attempt says nothing
	// about that order and is repeated with a deadline four times as long; a suspected stall
	// is repeated once.  Neither decides the verdict.
	dl := 40 * time.Millisecond
	var res Result
	stalls := 0
	for try := 0; try < 6; try++ {
		var raced, stalled bool
		res, raced, stalled = tmpDoneOnce(c, dl)
		if stalled && stalls == 0 {
			stalls++
			continue
		}
		if !raced {
			break
		}
		dl *= 4
	}
	return res
}

func tmpDoneOnce(c Case, deadline time.Duration) (res Result, raced, stalled bool) {
	mode, rem, cmd := c[0], c[1], c[2]
	cl := girc.New(drive.BaseConfig())
	base := runtime.NumGoroutine()
	entered := make(chan struct{})
	gate := make(chan struct{})
	var once sync.Once
	var dl time.Duration
	if mode == "d" {
		dl = deadline
	}
	t0 := time.Now()
	cuid, done := cl.Handlers.AddTmp(cmd, dl, func(_ *girc.Client, _ girc.Event) bool {
		once.Do(func() { close(entered) })
		<-gate
		return mode == "r"
	})
	if mode == "r" {
		// in a goroutine of its own: nothing here relies on RunHandlers returning while a
		// background handler is still running
		go cl.RunHandlers(&girc.Event{Command: strings.ToUpper(cmd)})
		in := false
		if !c06Await(func() bool {
			select {
			case <-entered:
				in = true
			default:
			}
			return in
		}, func() string { return itoa(runtime.NumGoroutine()) }, c06StallLimit) {
			close(gate)
			return Result{Obs: "?not-invoked", Oracle: "missed-delivery: temporary handler not invoked", Sig: "stuck"}, false, true
		}
	}
	r1 := "-"
	switch rem {
	case "R":
		r1 = B(cl.Handlers.Remove(cuid))
	case "C":
		cl.Handlers.Clear(cmd)
	case "X":
		cl.Handlers.ClearAll()
	}
	raced = mode == "d" && rem != "-" && time.Since(t0) > deadline/2
	close(gate)
	quiet := c06Quiesce(base)
	closed := false
	select {
	case <-done:
		closed = true
	default:
	}
	res = Result{Obs: "ok1=" + r1 + ";closed=" + B(closed), Sig: mode + rem}
	switch {
	case !quiet:
		res.Oracle = "handlers-never-finish: the goroutines of the handlers made no progress for a minute"
	case !closed && rem == "-":
		res.Oracle = "tmp-done-not-closed: the function returned true / the deadline passed, done is still open"
	case !closed:
		res.Oracle = "tmp-done-not-closed-after-removal: the function returned true / the deadline passed after somebody else removed the handler; done is never closed"
	}
	return res, raced, !quiet
}

func init() {
	Register(&Suite{
		Name: "dispatch.table",
		Prop: []string{"C06"},
		Fixed: func() []Case {
			return []Case{
				{"A", "foo", "E", "FOO", "0", "E", "FOO", "1", "E", "BAR", "0"},
				{"A", "*", "B", "*", "E", "FOO", "0", "E", "PRIVMSG", "1", "L", "N", "*"},
				{"A", "Foo", "B", "fOO", "H", "FOO", "T", "foo", "0", "N", "foo", "E", "FOO", "0", "E", "foo", "0"},
				{"T", "FOO", "1", "E", "FOO", "0", "E", "FOO", "0", "N", "FOO"},
				{"T", "FOO", "0", "E", "FOO", "0", "E", "FOO", "0", "R", "0", "0", "E", "FOO", "0"},
				{"D", "FOO", "E", "FOO", "0", "N", "FOO", "R", "0", "0"},
				{"A", "FOO", "R", "0", "0", "R", "0", "0", "E", "FOO", "0"},
				{"A", "FOO", "R", "1", "0", "R", "2", "0", "R", "3", "", "R", "3", "FOO:", "E", "FOO", "0", "L"},
				{"B", "FOO", "R", "2", "0", "E", "FOO", "0", "R", "0", "0", "E", "FOO", "0"},
				{"A", "FOO", "A", "BAR", "B", "FOO", "C", "foo", "E", "FOO", "0", "E", "BAR", "0", "L"},
				{"A", "FOO", "A", "*", "T", "BAR", "1", "X", "E", "FOO", "0", "E", "BAR", "0", "L", "N", "FOO"},
				{"A", "a:b", "E", "A:B", "0", "R", "0", "0", "E", "A:B", "0", "N", "a:b"},
				{"A", "*", "B", "*", "E", "*", "0", "E", "*", "1"},
				{"A", "", "E", "", "0", "R", "0", "0", "N", ""},
				{"A", "PRIVMSG", "A", "*", "B", "NOTICE", "B", "*", "E", "PRIVMSG", "1", "E", "NOTICE", "1", "E", "PRIVMSG", "0"},
				{"R", "0", "5", "R", "0", "0", "C", "FOO", "X", "L", "N", "FOO", "E", "FOO", "0"},
				{"I", "foo", "0", "I", "*", "1", "A", "FOO", "N", "FOO", "L", "R", "0", "0", "C", "FOO", "X", "E", "FOO", "0", "E", "FOO", "1", "L"},
			}
		},
		Gen: genTableCase,
		Run: func(c Case) Result {
			res := runTableCase(c)
			if strings.HasPrefix(res.Oracle, "handlers-never-finish") || strings.HasPrefix(res.Oracle, "deadline-never-fires") {
				res = runTableCase(c) // a suspected stall is re-run once before it is reported
			}
			return res
		},
	})
	Register(&Suite{
		Name: "dispatch.tmpdone",
		Prop: []string{"C06"},
		Fixed: func() []Case {
			var out []Case
			for _, m := range []string{"d", "r"} {
				for _, rem := range []string{"-", "R", "C", "X"} {
					for _, cmd := range []string{"FOO", "foo", "*"} {
						out = append(out, Case{m, rem, cmd})
					}
				}
			}
			return out
		},
		Exhaustive: "both ways a temporary handler ends (returns true, deadline) x every way somebody else can remove it first (nobody, Remove, Clear, ClearAll) x 3 commands",
		Gen: func(r *rand.Rand) Case {
			return Case{Pick(r, "d", "r"), Pick(r, "-", "R", "C", "X"), Pick(r, "FOO", "Foo", "bar", "*", "PRIVMSG")}
		},
		Run: runTmpDone,
	})
}
