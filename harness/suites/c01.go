package suites

// C01 — wire codec round trip.  Suites codec.parse, codec.encode, codec.tags, codec.source.
//
// Observations are rendered exactly like coq/Driver/DrvC01.v.  The oracles evaluate the
// property on the implementation: ParseEvent(e.String()) field by field against e for
// every event that is well-formed in the sense of the statement (cdWfEvent below, written
// from the statement, not from the code), Get after Set, parse∘String∘parse = parse.

import (
	"math/rand"
	"sort"
	"strconv"
	"strings"
	"time"
	"unicode/utf8"

	"github.com/lrstanley/girc"
)

// ---- rendering (mirror of DrvC01.v) -------------------------------------------------

func cdIsASCII(s string) bool {
	for i := 0; i < len(s); i++ {
		if s[i] >= 0x80 {
			return false
		}
	}
	return true
}

func cdShowCmd(c string) string {
	if cdIsASCII(c) {
		return Hex(c)
	}
	return "~"
}

func cdShowSrc(s *girc.Source) string {
	if s == nil {
		return "-"
	}
	return Hex(s.Name) + "," + Hex(s.Ident) + "," + Hex(s.Host)
}

func cdSortedKeys(t girc.Tags) []string {
	keys := make([]string, 0, len(t))
	for k := range t {
		keys = append(keys, k)
	}
	sort.Strings(keys)
	return keys
}

// cdShowTags renders the stored (wire-form) map; decoded=true renders what Get returns.
func cdShowTags(t girc.Tags, decoded bool) string {
	if t == nil {
		return "-"
	}
	parts := make([]string, 0, len(t))
	for _, k := range cdSortedKeys(t) {
		v := t[k]
		if decoded {
			v, _ = t.Get(k)
		}
		parts = append(parts, Hex(k)+"="+Hex(v))
	}
	return "{" + strings.Join(parts, ",") + "}"
}

func cdShowEvent(e *girc.Event) string {
	if e == nil {
		return "nil"
	}
	var tm *string
	if v, ok := e.Tags.Get("time"); ok {
		tm = &v
	}
	return "cmd=" + cdShowCmd(e.Command) +
		"|n=" + strconv.Itoa(len(e.Params)) +
		"|p=" + HexList(e.Params) +
		"|src=" + cdShowSrc(e.Source) +
		"|tags=" + cdShowTags(e.Tags, false) +
		"|get=" + cdShowTags(e.Tags, true) +
		"|time=" + OptHex(tm)
}

// ---- the statement's notion of a well-formed event ------------------------------------

func cdCleanField(s string) bool { // valid UTF-8, no CR / LF / NUL
	return utf8.ValidString(s) && !strings.ContainsAny(s, "\r\n\x00")
}

func cdWfCommand(c string) bool {
	if c == "" || c[0] == ':' || c[0] == '@' {
		return false
	}
	for i := 0; i < len(c); i++ {
		if c[i] <= 0x20 || c[i] >= 0x7f {
			return false
		}
	}
	return true
}

func cdWfMiddle(p string) bool {
	return p != "" && p[0] != ':' && !strings.Contains(p, " ") && cdCleanField(p)
}

func cdWfSource(s *girc.Source) bool {
	if s == nil {
		return true
	}
	return s.Name != "" && !strings.ContainsAny(s.Name, "!@ ") && cdCleanField(s.Name) &&
		!strings.ContainsAny(s.Ident, "@ ") && cdCleanField(s.Ident) &&
		!strings.ContainsAny(s.Host, "!@ ") && cdCleanField(s.Host)
}

func cdSpecValidKey(k string) bool { // IRCv3 key: ['+'] [vendor '/'] letters digits '-' (girc also takes '.', '_', '/')
	if len(k) >= 2 && k[0] == '+' {
		k = k[1:]
	}
	if k == "" {
		return false
	}
	for i := 0; i < len(k); i++ {
		b := k[i]
		if !(b >= 'a' && b <= 'z' || b >= 'A' && b <= 'Z' || b >= '0' && b <= '9' || b == '-' || b == '.' || b == '/' || b == '_') {
			return false
		}
	}
	return true
}

// cdSpecEscape / specUnescape: the IRCv3 escaping table, written from the specification.
func cdSpecEscape(v string) string {
	var sb strings.Builder
	for i := 0; i < len(v); i++ {
		switch v[i] {
		case ';':
			sb.WriteString(`\:`)
		case ' ':
			sb.WriteString(`\s`)
		case '\\':
			sb.WriteString(`\\`)
		case '\r':
			sb.WriteString(`\r`)
		case '\n':
			sb.WriteString(`\n`)
		default:
			sb.WriteByte(v[i])
		}
	}
	return sb.String()
}

// cdWireValueOK: a stored (wire-form) value as in Spec/CodecSpec.v wf_wire_value: no ';', no
// SPACE, valid UTF-8 without CR / LF / NUL (what Set stores is the printable-ASCII subset).
func cdWireValueOK(v string) bool {
	return !strings.ContainsAny(v, "; ") && cdCleanField(v)
}

// cdIsEscapedImage: v = cdSpecEscape(x) for some x, i.e. every backslash starts one of the
// five defined escapes.
func cdIsEscapedImage(v string) bool {
	for i := 0; i < len(v); i++ {
		if v[i] == '\\' {
			if i+1 >= len(v) || !strings.ContainsRune(`:s\rn`, rune(v[i+1])) {
				return false
			}
			i++
		}
	}
	return true
}

func cdTagSectionLen(t girc.Tags) int { // '@' + k[=v] joined by ';'
	if len(t) == 0 {
		return 0
	}
	n := 1 + len(t) - 1
	for k, v := range t {
		n += len(k)
		if v != "" {
			n += 1 + len(v)
		}
	}
	return n
}

func cdWfTags(t girc.Tags) bool {
	for k, v := range t {
		if !cdSpecValidKey(k) || !cdWireValueOK(v) {
			return false
		}
	}
	return cdTagSectionLen(t) <= 4094
}

func cdWfEvent(e *girc.Event) bool {
	if !cdWfCommand(e.Command) || !cdWfSource(e.Source) || !cdWfTags(e.Tags) {
		return false
	}
	for i, p := range e.Params {
		if i == len(e.Params)-1 {
			if !cdCleanField(p) {
				return false
			}
		} else if !cdWfMiddle(p) {
			return false
		}
	}
	// ParseEvent rejects lines shorter than two bytes.
	return len(e.Command) >= 2 || len(e.Params) > 0 || e.Source != nil || len(e.Tags) > 0
}

func cdAsciiUpper(s string) string {
	b := []byte(s)
	for i, c := range b {
		if c >= 'a' && c <= 'z' {
			b[i] = c - 32
		}
	}
	return string(b)
}

// cdRoundTripDiff compares ParseEvent(e.String()) with e field by field; "" when equal.
func cdRoundTripDiff(e, p *girc.Event) string {
	switch {
	case p == nil:
		return "rt-nil: well-formed event does not parse back"
	case p.Command != cdAsciiUpper(e.Command):
		return "rt-command: command changed"
	case len(p.Params) != len(e.Params):
		return "rt-param-count: " + strconv.Itoa(len(e.Params)) + " parameters became " + strconv.Itoa(len(p.Params))
	}
	for i := range e.Params {
		if p.Params[i] != e.Params[i] {
			return "rt-param: parameter " + strconv.Itoa(i) + " changed"
		}
	}
	switch {
	case (e.Source == nil) != (p.Source == nil):
		return "rt-source: source presence changed"
	case e.Source != nil && (*e.Source != *p.Source):
		return "rt-source: source parts changed"
	case len(e.Tags) != len(p.Tags):
		return "rt-tag-count: tag set changed"
	}
	for k, v := range e.Tags {
		pv, ok := p.Tags[k]
		if !ok || pv != v {
			return "rt-tag-raw: stored tag value changed"
		}
		g1, _ := e.Tags.Get(k)
		g2, ok2 := p.Tags.Get(k)
		if !ok2 || g1 != g2 {
			return "rt-tag-get: Get after parse differs"
		}
	}
	return ""
}

// ---- generators ----------------------------------------------------------------------

var (
	cdCmdPool       = []string{"PRIVMSG", "NOTICE", "001", "005", "privmsg", "CAP", "Ping", "JOIN", "MODE", "TAGMSG", "xy", "353"}
	cdCmdOdd        = []string{"\xef\xbf\xbdCMD", "P\xef\xbf\xbd", "\xef\xbf", "", "A", ":x", "@x", "PRIV MSG", "caf\xc3\xa9", "\xc4\xb1d", "a\xc5\xbf", "\xffQ", "pr\tiv", "q\x00", "12", "P\r\nQ"}
	cdWordPool      = []string{"\xef\xbf\xbd", "a\xef\xbf\xbdb", "\xef\xbf\xbd\xef\xbf\xbd", "\xef\xbf\xbe", "\xef\xbf\xbf", "x\xef\xbf\xbc", "#chan", "nick", "a", "CHANLIMIT=#:120", "x:y", "b\tc", "d\xc2\xa0e", "f\xe2\x80\x83g", "h\vi", "+o", "*", "caf\xc3\xa9", "::", "a:", "\x01ACTION", "k=v", "@at", "!bang", "$", "0"}
	cdWordOdd       = []string{"\xef\xbf\xbd\xff", "\xff\xef\xbf\xbd", "\xef\xbf", "\xef\xbf\xbd\r", "\n\xef\xbf\xbd", "\xef\xef\xbf\xbd\xbf", "", ":lead", "sp ace", "nul\x00", "cr\rlf\n", "\xff", "\xe2\x82", " "}
	cdLastPool      = []string{"\xef\xbf\xbd", "a\xef\xbf\xbdb", "\xef\xbf\xbd\xef\xbf\xbd", "\xef\xbf\xbe", "\xef\xbf\xbf", "x\xef\xbf\xbc", "caf\xef\xbf\xbd au lait", ":\xef\xbf\xbd", "\xef\xbf\xbd ", "", "hello world", ":colon", "plain", "tab\there", "nb\xc2\xa0sp", "em\xe2\x80\x83sp", "v\vt", " lead", "trail ", "  ", ": x", "a :b :c", ":", "::", "x:y", "\x01ACTION waves\x01", "caf\xc3\xa9 \xe2\x82\xac"}
	cdLastOdd       = []string{"\xef\xbf\xbd\xff", "\xfe\xef\xbf\xbd x", "a\xef\xbf", "\xef\xbf\xbd\r\n", "\r\xef\xbf\xbd\n\xef\xbf\xbd", "cr\rlf\n", "\r", "nul\x00x", "\xff\xfe", "a\xe2\x82", "\nQUIT :x"}
	cdNamePool      = []string{"n\xef\xbf\xbd", "\xef\xbf\xbd", "nick", "irc.example.org", "n[i]ck", "N", "caf\xc3\xa9", "a-b", "*"}
	cdIdentPool     = []string{"u\xef\xbf\xbd", "\xef\xbf\xbd", "", "user", "~u", "u!x", "i.d"}
	cdHostPool      = []string{"h\xef\xbf\xbd.example", "\xef\xbf\xbd", "\xef\xbf\xbe", "", "host.example", "1.2.3.4", "::1", "h/cloak", "a:b"}
	cdSrcOdd        = []string{"\xef\xbf\xbd\xff", "\xef\xbf", "\xef\xbf\xbd\r", " x", "a@b", "a!b", "!", "@", "\xff", "x\r", "a b"}
	cdKeyPool       = []string{"a", "time", "account", "msgid", "example.com/ddd", "a.b/c", "+client", "+example.com/foo", "draft/label", "k-1", "k_2", "z", "B"}
	cdKeyOdd        = []string{"", "+", "a b", "a=b", "k;", "caf\xc3\xa9", "@k", "a\x00", "++", "a:b", "a[b", "a{b", "a,b", "a`b", "a@b", "a+b", "Z", "z9-./_"}
	cdRawValPool    = []string{"\xef\xbf\xbd", "a\xef\xbf\xbdb", "\xef\xbf\xbf", "caf\xc3\xa9", "", "v", "bbb", `a\sb`, `\:\s\\\r\n`, `\\\\`, `\\s`, `\\n`, `\\r`, `\\:`, `a\\sb\\:c\\\\n`, `\\\s`, `x\\`, "2019-02-21T20:12:03.000Z", "2011-10-19T16:40:51.620Z", "=eq=", "x/y", "~"}
	cdRawValOdd     = []string{"\xef\xbf\xbd\xff", "\xef\xbf", "\xef\xbf\xbd\n", `a\`, `\x`, `\`, `a\bc`, "sp ace", "se;mi", "caf\xc3\xa9", "\x01", `\\\`, "\xff", "a\rb"}
	cdBackslashVals = []string{`\`, `\\`, `\\\`, `\s`, `\n`, `\r`, `\:`, `\\s`, `\\n`, `C:\new\share`, `C:\report\sales`, `a\:b`, `x\`, `\x`, `\s\n\r\:\\`, `n\s`, `\\\\s`}
	cdPlainVals     = []string{"\xef\xbf\xbd", "a \xef\xbf\xbd;b", "\xef\xbf\xbd\xff", "", "x", "a b", "a;b", `a\b`, "cr\rlf\n", `; \` + "\r\n", `\\`, `\s`, "  ", ";;", "caf\xc3\xa9", "tab\t", "plain-value_1", `trail\`, "\x7f", "!", "~", "\x80"}
)

func cdPickS(r *rand.Rand, xs []string) string { return xs[r.Intn(len(xs))] }

// genEvent draws a structured, mostly well-formed event; odd ≈ share of deliberately
// ill-formed fields (per field).
type cdEvCase struct {
	tagsNonNil bool
	tags       [][2]string // assignment order (later duplicates overwrite)
	src        *girc.Source
	cmd        string
	params     []string
}

func cdGenEvCase(r *rand.Rand, odd int) cdEvCase {
	var c cdEvCase
	isOdd := func() bool { return odd > 0 && r.Intn(odd) == 0 }
	c.cmd = cdPickS(r, cdCmdPool)
	if isOdd() {
		c.cmd = cdPickS(r, cdCmdOdd)
	}
	// params
	n := 0
	switch r.Intn(10) {
	case 0:
		n = 0
	case 1:
		n = 1
	case 2:
		n = 10 + r.Intn(8)
	default:
		n = 1 + r.Intn(5)
	}
	for i := 0; i < n; i++ {
		if i == n-1 && r.Intn(4) != 0 {
			if isOdd() {
				c.params = append(c.params, cdPickS(r, cdLastOdd))
			} else {
				c.params = append(c.params, cdPickS(r, cdLastPool))
			}
			continue
		}
		if isOdd() {
			c.params = append(c.params, cdPickS(r, cdWordOdd))
		} else {
			c.params = append(c.params, cdPickS(r, cdWordPool))
		}
	}
	// source: all eight combinations of parts, incl. empty parts
	if r.Intn(3) != 0 {
		s := &girc.Source{}
		if r.Intn(8) != 0 {
			s.Name = cdPickS(r, cdNamePool)
		}
		if r.Intn(2) == 0 {
			s.Ident = cdPickS(r, cdIdentPool)
		}
		if r.Intn(2) == 0 {
			s.Host = cdPickS(r, cdHostPool)
		}
		if isOdd() {
			switch r.Intn(3) {
			case 0:
				s.Name = cdPickS(r, cdSrcOdd)
			case 1:
				s.Ident = cdPickS(r, cdSrcOdd)
			default:
				s.Host = cdPickS(r, cdSrcOdd)
			}
		}
		c.src = s
	}
	// tags
	switch r.Intn(5) {
	case 0: // nil
	case 1:
		c.tagsNonNil = true // Tags{}
	default:
		c.tagsNonNil = true
		nt := 1 + r.Intn(6)
		for i := 0; i < nt; i++ {
			k := cdPickS(r, cdKeyPool)
			if isOdd() {
				k = cdPickS(r, cdKeyOdd)
			}
			var v string
			switch r.Intn(4) {
			case 0:
				v = cdPickS(r, cdRawValPool)
			case 1:
				v = cdSpecEscape(cdPickS(r, cdPlainVals))
			case 2:
				v = cdSpecEscape(RandBytes(r, r.Intn(12), `ab; \`+"\r\n:sn"))
			default:
				v = RandBytes(r, r.Intn(8), `abc:sxyz019=/~!`)
			}
			if isOdd() {
				v = cdPickS(r, cdRawValOdd)
			}
			c.tags = append(c.tags, [2]string{k, v})
		}
		if r.Intn(40) == 0 { // around the 4094-byte limit
			big := strings.Repeat("v", 1000+r.Intn(1100))
			for i := 0; i < 2+r.Intn(3); i++ {
				c.tags = append(c.tags, [2]string{"big" + strconv.Itoa(i), big})
			}
		}
	}
	return c
}

func (c cdEvCase) toCase() Case {
	hdr := []byte{0, 0, byte(len(c.tags))}
	if c.tagsNonNil {
		hdr[0] = 1
	}
	out := Case{"", c.cmd, "", "", ""}
	if c.src != nil {
		hdr[1] = 1
		out[2], out[3], out[4] = c.src.Name, c.src.Ident, c.src.Host
	}
	out[0] = string(hdr)
	for _, kv := range c.tags {
		out = append(out, kv[0], kv[1])
	}
	return append(out, c.params...)
}

func (c cdEvCase) event() *girc.Event {
	e := &girc.Event{Command: c.cmd, Source: c.src, Params: c.params}
	if c.tagsNonNil {
		e.Tags = girc.Tags{}
		for _, kv := range c.tags {
			e.Tags[kv[0]] = kv[1]
		}
	}
	return e
}

// cdDecodeEvCase is the inverse of toCase (total: missing arguments read as empty).
func cdDecodeEvCase(a Case) cdEvCase {
	arg := func(i int) string {
		if i < len(a) {
			return a[i]
		}
		return ""
	}
	hb := func(i int) byte {
		if i < len(arg(0)) {
			return arg(0)[i]
		}
		return 0
	}
	var c cdEvCase
	c.tagsNonNil = hb(0) != 0
	c.cmd = arg(1)
	if hb(1) != 0 {
		c.src = &girc.Source{Name: arg(2), Ident: arg(3), Host: arg(4)}
	}
	rest := []string{}
	if len(a) > 5 {
		rest = a[5:]
	}
	for i := 0; i < int(hb(2)); i++ {
		if len(rest) < 2 {
			rest = nil
			break
		}
		c.tags = append(c.tags, [2]string{rest[0], rest[1]})
		rest = rest[2:]
	}
	c.params = append([]string{}, rest...)
	return c
}

// cdMutate applies 1-3 byte-level edits.
func cdMutate(r *rand.Rand, s string) string {
	b := []byte(s)
	special := []byte(" :@;=\\!\r\n\t\x00\xa0\xc2\x0b")
	for k := 1 + r.Intn(3); k > 0; k-- {
		switch op := r.Intn(4); {
		case op == 0 && len(b) > 0: // replace
			b[r.Intn(len(b))] = special[r.Intn(len(special))]
		case op == 1 && len(b) > 0: // delete
			i := r.Intn(len(b))
			b = append(b[:i], b[i+1:]...)
		case op == 2: // insert
			i := r.Intn(len(b) + 1)
			b = append(b[:i], append([]byte{special[r.Intn(len(special))]}, b[i:]...)...)
		default: // truncate
			if len(b) > 0 {
				b = b[:r.Intn(len(b))]
			}
		}
	}
	return string(b)
}

// cdGenLine: a wire line.  Mostly rendered from a structured event by an independent
// writer with free spacing between parameters; then mutated / random.
func cdGenLine(r *rand.Rand) string {
	switch r.Intn(12) {
	case 0:
		return RandBytes(r, r.Intn(40), "")
	case 1:
		return RandBytes(r, r.Intn(30), "@:; =\\ab!\r\n\t")
	}
	c := cdGenEvCase(r, 25)
	var sb strings.Builder
	if len(c.tags) > 0 {
		sb.WriteByte('@')
		for i, kv := range c.tags {
			if i > 0 {
				sb.WriteByte(';')
			}
			sb.WriteString(kv[0])
			if kv[1] != "" || r.Intn(6) == 0 {
				sb.WriteByte('=')
				sb.WriteString(kv[1])
			}
		}
		sb.WriteByte(' ')
	}
	if c.src != nil {
		sb.WriteByte(':')
		sb.WriteString(c.src.Name)
		if c.src.Ident != "" {
			sb.WriteString("!" + c.src.Ident)
		}
		if c.src.Host != "" {
			sb.WriteString("@" + c.src.Host)
		}
		sb.WriteByte(' ')
	}
	sb.WriteString(c.cmd)
	spaces := func() string {
		if r.Intn(4) == 0 {
			return strings.Repeat(" ", 1+r.Intn(4))
		}
		return " "
	}
	for i, p := range c.params {
		sb.WriteString(spaces())
		if i == len(c.params)-1 && (p == "" || strings.Contains(p, " ") || p[0] == ':' || r.Intn(3) == 0) {
			sb.WriteByte(':')
		}
		sb.WriteString(p)
	}
	if r.Intn(8) == 0 {
		sb.WriteString(spaces())
	}
	switch r.Intn(4) {
	case 0:
		sb.WriteString("\r\n")
	case 1:
		sb.WriteString("\n")
	}
	line := sb.String()
	if r.Intn(5) == 0 {
		line = cdMutate(r, line)
	}
	return line
}

func cdParseSig(line string, e *girc.Event) string {
	if e == nil {
		return "nil"
	}
	sig := "ev"
	if e.Tags != nil {
		sig += "/tags"
	}
	if e.Source != nil {
		sig += "/src"
		if e.Source.Ident != "" {
			sig += "i"
		}
		if e.Source.Host != "" {
			sig += "h"
		}
	}
	switch n := len(e.Params); {
	case n == 0:
		sig += "/p0"
	case n <= 2:
		sig += "/p1-2"
	case n <= 15:
		sig += "/p3-15"
	default:
		sig += "/p16+"
	}
	if strings.Contains(line, " :") {
		sig += "/trailing"
	}
	return sig
}

// stable: parsing the re-serialised event gives the same event again.
func cdParseStableDiff(p *girc.Event) string {
	q := girc.ParseEvent(p.String())
	if d := cdRoundTripDiff(p, q); d != "" {
		return "stable-" + d
	}
	return ""
}

func init() {
	Register(&Suite{
		Name: "codec.parse",
		Prop: []string{"C01", "C02"},
		Fixed: func() []Case {
			var out []Case
			for _, l := range []string{
				"", "\r\n", "A", "AB", "@", "@ ", "@a", "@a ", "@a  ", "@a :", "@a : ", ": ", ":a", ":a ", ":a  ", ":a b", "  ", " :", "a :", "a  :",
				"PING :x", "PING x", "PING  x  y ", "PING : ", "PING ::", "PING a:b :c", "PING a :b :c", "PING :a :b",
				"@a=b;c;d=\\s\\: :n!u@h PRIVMSG #c :hi there", "@a=b;a=c X", "@=b X", "@;; X", "@@a=b X", "@a== X", "@+a=1;+=2 X",
				":n!u@h X", ":n@h!u X", ":n! X", ":n@ X", ":!u X", ":@h X", ":n!@h X", ":n!u@ X", ":n!u@h@i X", ":n!u!v@h X",
				"privmsg #c a\tb", "PRIVMSG #c a\xc2\xa0b", "PRIVMSG #c :a\vb", "005 n CHANLIMIT=#:120 :are supported",
				"\r\n\r\nPING x\r\n\n", "\rX\n", "PI\rNG x", "\xc4\xb1d x", "caf\xc3\xa9 x", "\xff\xfe x",
				"@time=2019-02-21T20:12:03.000Z PING x", "@time=bad PING x", "@time PING x",
				"PRIVMSG #chan :caf\xef\xbf\xbd au lait", "FOO a \xef\xbf\xbd :c d", "@k=\xef\xbf\xbd :n\xef\xbf\xbd!\xef\xbf\xbd@h PRIVMSG #c :\xef\xbf\xbd",
				"\xef\xbf\xbdCMD x", "PING \xef\xbf\xbd\xff", "PING :\xef\xbf\xbd\r\n",
			} {
				out = append(out, Case{l})
			}
			return out
		},
		Gen: func(r *rand.Rand) Case { return Case{cdGenLine(r)} },
		Run: func(c Case) Result {
			cdSetZone()
			before := time.Now()
			e := girc.ParseEvent(c[0])
			after := time.Now()
			ast, gl := cdGrammatical(c[0])
			res := Result{Obs: cdShowEvent(e) + "|gl=" + B(gl), Sig: cdParseSig(c[0], e)}
			if gl {
				// a line of the grammar: the parse must be the structure the grammar assigns (C02)
				res.Sig = "grammatical/" + res.Sig
				res.Oracle = cdGrammarDiff(ast, cdRefMeaning(ast), e, before, after)
			}
			if res.Oracle == "" && e != nil && cdWfEvent(e) {
				res.Oracle = cdParseStableDiff(e)
			}
			return res
		},
	})

	Register(&Suite{
		Name: "codec.encode",
		Prop: []string{"C01", "C03"},
		Fixed: func() []Case {
			mk := func(c cdEvCase) Case { return c.toCase() }
			src := &girc.Source{Name: "n", Ident: "u", Host: "h"}
			return []Case{
				mk(cdEvCase{cmd: "PING"}),
				// a validly encoded U+FFFD (and its neighbours EF BF BC/BE/BF) is ordinary text
				mk(cdEvCase{cmd: "PRIVMSG", params: []string{"#chan", "caf\xef\xbf\xbd au lait"}}),
				mk(cdEvCase{cmd: "PRIVMSG", params: []string{"#chan", "\xef\xbf\xbd"}}),
				mk(cdEvCase{cmd: "FOO", params: []string{"a", "\xef\xbf\xbd", "c d"}}),
				mk(cdEvCase{cmd: "FOO", params: []string{"\xef\xbf\xbe", "\xef\xbf\xbf", "x\xef\xbf\xbc"}}),
				mk(cdEvCase{cmd: "PRIVMSG", params: []string{"#c", "x"}, src: &girc.Source{Name: "n\xef\xbf\xbd", Ident: "\xef\xbf\xbd", Host: "h\xef\xbf\xbd"},
					tagsNonNil: true, tags: [][2]string{{"k", "\xef\xbf\xbd"}, {"j", "a\xef\xbf\xbdb"}}}),
				mk(cdEvCase{cmd: "PRIVMSG", params: []string{"#c", "\xef\xbf\xbd\xff\xef\xbf\r\n\xef\xbf\xbd"}}),
				mk(cdEvCase{cmd: "X"}),
				mk(cdEvCase{cmd: "PING", tagsNonNil: true}),
				mk(cdEvCase{cmd: "PRIVMSG", params: []string{"#c", "a\tb"}}),
				mk(cdEvCase{cmd: "PRIVMSG", params: []string{"#c", ""}}),
				mk(cdEvCase{cmd: "PRIVMSG", params: []string{"#c", ":x y"}, src: src,
					tagsNonNil: true, tags: [][2]string{{"a", `\:\s\\\r\n`}, {"+b/c", ""}, {"time", "2019-02-21T20:12:03.000Z"}}}),
				mk(cdEvCase{cmd: "privmsg", params: []string{"", "x"}}),
				mk(cdEvCase{cmd: "P", params: []string{"a\r\nQUIT", "b\xff"}}),
				mk(cdEvCase{cmd: "X", src: &girc.Source{}}),
				mk(cdEvCase{cmd: "X", tagsNonNil: true, tags: [][2]string{{"k", strings.Repeat("v", 4091)}}}),
				mk(cdEvCase{cmd: "X", tagsNonNil: true, tags: [][2]string{{"k", strings.Repeat("v", 4092)}}}),
				mk(cdEvCase{cmd: "X", tagsNonNil: true, tags: [][2]string{{"a", strings.Repeat("v", 2045)}, {"b", strings.Repeat("v", 2044)}}}),
				mk(cdEvCase{cmd: "X", tagsNonNil: true, tags: [][2]string{{"a", strings.Repeat("v", 2045)}, {"b", strings.Repeat("v", 2045)}}}),
			}
		},
		Gen: func(r *rand.Rand) Case {
			odd := 30
			if r.Intn(4) == 0 {
				odd = 4
			}
			return cdGenEvCase(r, odd).toCase()
		},
		Run: func(c Case) Result {
			ec := cdDecodeEvCase(c)
			e := ec.event()
			line := e.String()
			p := girc.ParseEvent(line)
			res := Result{Obs: "b=" + Hex(line) + "|len=" + strconv.Itoa(e.Len()) + "|rt=" + cdShowEvent(p)}
			if cdWfEvent(e) {
				res.Sig = "wf/" + cdParseSig(line, p)
				res.Oracle = cdRoundTripDiff(e, p)
			} else {
				res.Sig = "illformed/" + cdParseSig(line, p)
			}
			return res
		},
	})
}

// ---- codec.tags / codec.source ----------------------------------------------------------

func cdTagsSetRun(c Case, initNil bool) Result {
	var t girc.Tags
	if !initNil {
		t = girc.Tags{}
	}
	ops := c[2:]
	log := ""
	oracle := ""
	want := map[string]string{} // what Get must return: the values given to successful Sets
	for i := 0; i+1 < len(ops); i += 2 {
		k, v := ops[i], ops[i+1]
		if err := t.Set(k, v); err != nil {
			log += "E"
		} else {
			log += "O"
			want[k] = v
			if t == nil && oracle == "" {
				if _, ok := t.Get(k); !ok {
					oracle = "tags-set-nil: Set on a nil Tags reports success but the value is lost"
				}
			}
		}
		if t != nil && oracle == "" {
			for wk, wv := range want {
				if got, ok := t.Get(wk); !ok || got != wv {
					if wk == k {
						oracle = "tags-get-after-set: Get does not return the value given to Set"
					} else {
						oracle = "tags-set-other-keys: Set disturbed another key"
					}
					break
				}
			}
			if len(t) != len(want) {
				oracle = "tags-set-other-keys: key set differs from the successfully set keys"
			}
		}
	}
	if t != nil && len(t) > 0 && oracle == "" {
		// the same values must come back after serialising an event and parsing it
		e := &girc.Event{Command: "TAGMSG", Params: []string{"#c"}, Tags: t}
		p := girc.ParseEvent(e.String())
		if p == nil {
			oracle = "tags-get-after-roundtrip: event with Set tags does not parse back"
		} else {
			for wk, wv := range want {
				if got, ok := p.Tags.Get(wk); !ok || got != wv {
					oracle = "tags-get-after-roundtrip: Get after String/ParseEvent differs from the value given to Set"
					break
				}
			}
			if oracle == "" && len(p.Tags) != len(want) {
				oracle = "tags-get-after-roundtrip: key set changed"
			}
		}
	}
	gets := []string{}
	for i := 0; i+1 < len(ops); i += 2 {
		var g *string
		if v, ok := t.Get(ops[i]); ok {
			g = &v
		}
		gets = append(gets, OptHex(g))
	}
	sig := "set/" + strings.Trim(strings.Replace(strings.Replace(log, "OO", "O", -1), "EE", "E", -1), "")
	if len(sig) > 12 {
		sig = sig[:12]
	}
	if initNil {
		sig += "/nil"
	}
	return Result{Obs: log + "|" + cdShowTags(t, false) + "|" + Hex(string(t.Bytes())) + "|" + strings.Join(gets, ","), Oracle: oracle, Sig: sig}
}

func cdGenSetOps(r *rand.Rand) []string {
	var ops []string
	if r.Intn(25) == 0 { // exactly around the 4094-byte limit: "@k=" + n bytes, then a second tag
		n := 4086 + r.Intn(10)
		ops = append(ops, "k", strings.Repeat("v", n))
		ops = append(ops, cdPickS(r, []string{"j", "a", "zz"}), strings.Repeat("w", r.Intn(6)))
		if r.Intn(2) == 0 {
			ops = append(ops, "k", strings.Repeat("v", r.Intn(5)))
			ops = append(ops, "m", strings.Repeat("x", 4080+r.Intn(16)))
		}
		return ops
	}
	for i := r.Intn(7); i > 0; i-- {
		k := cdPickS(r, cdKeyPool)
		if r.Intn(10) == 0 {
			k = cdPickS(r, cdKeyOdd)
		}
		var v string
		switch r.Intn(7) {
		case 5: // backslash only: literal backslashes before each of : s \ r n, no other escapable byte
			v = cdPickS(r, cdBackslashVals)
		case 6:
			v = RandBytes(r, 1+r.Intn(8), `\\\:snrab`)
		case 0:
			v = cdPickS(r, cdPlainVals)
		case 1:
			v = RandBytes(r, r.Intn(12), `ab; \`+"\r\n:sn")
		case 2:
			v = RandBytes(r, r.Intn(6), "")
		case 3:
			v = cdPickS(r, cdRawValPool)
		default:
			v = RandBytes(r, r.Intn(10), "abcXYZ019-_=/~!")
		}
		if r.Intn(60) == 0 {
			v = strings.Repeat("x", 1300+r.Intn(1500))
		}
		ops = append(ops, k, v)
	}
	return ops
}

func init() {
	Register(&Suite{
		Name: "codec.tags",
		Prop: []string{"C01", "C02"},
		Fixed: func() []Case {
			out := []Case{}
			for _, raw := range []string{"", "@", "a", "a=", "=a", "a=b", "a=b;a=c", "a;b;c", "@a=b;c;example.com/ddd=eee", "a=b\\sc\\:\\\\\\r\\n", "a=\\", "a=\\x", "+a=1", "+=1", "+", ";;", "a==b", "a b=c", "a=b c", "caf\xc3\xa9", "caf\xc3\xa9=1", "@@a"} {
				out = append(out, Case{"P", raw})
			}
			out = append(out,
				Case{"S", "m", "a", "b"},
				Case{"S", "m", "p", `C:\new\share`, "q", `\s`, "r", `\\n`, "s", `\`, "t", `\:\r`},
				Case{"S", "m", "a", "; \\\r\n", "b", "", "a", "x"},
				Case{"S", "m", "bad key", "v", "k", "caf\xc3\xa9", "k", "\x00"},
				Case{"S", "m", "k", strings.Repeat("v", 4091)},
				Case{"S", "m", "k", strings.Repeat("v", 4092)},
				Case{"S", "m", "k", strings.Repeat("v", 4089), "j", ""},
				Case{"S", "m", "k", strings.Repeat("v", 4088), "j", ""},
				Case{"S", "m", "k", strings.Repeat("v", 4086), "j", "w"},
				Case{"S", "m", "k", strings.Repeat("v", 4087), "j", "w"},
				Case{"S", "m", "k", strings.Repeat("v", 4090)},
				Case{"S", "m", "a", strings.Repeat("v", 2044), "b", strings.Repeat("v", 2044)},
				Case{"S", "m", "a", strings.Repeat("v", 2043), "b", strings.Repeat("v", 2043), "c", ""},
			)
			return out
		},
		Gen: func(r *rand.Rand) Case {
			if r.Intn(3) == 0 {
				var sb strings.Builder
				if r.Intn(5) == 0 {
					sb.WriteByte('@')
				}
				for i := r.Intn(6); i >= 0; i-- {
					k := cdPickS(r, cdKeyPool)
					if r.Intn(8) == 0 {
						k = cdPickS(r, cdKeyOdd)
					}
					sb.WriteString(k)
					switch r.Intn(4) {
					case 0:
					case 1:
						sb.WriteString("=" + cdPickS(r, cdRawValPool))
					case 2:
						sb.WriteString("=" + cdPickS(r, cdRawValOdd))
					default:
						sb.WriteString("=" + cdSpecEscape(cdPickS(r, cdPlainVals)))
					}
					if i > 0 {
						sb.WriteByte(';')
					}
				}
				raw := sb.String()
				if r.Intn(6) == 0 {
					raw = cdMutate(r, raw)
				}
				return Case{"P", raw}
			}
			return append(Case{"S", "m"}, cdGenSetOps(r)...)
		},
		Run: func(c Case) Result {
			if c[0] == "P" {
				t := girc.ParseTags(c[1])
				res := Result{Obs: cdShowTags(t, false) + "|" + cdShowTags(t, true) + "|" + Hex(string(t.Bytes())) + "|" + strconv.Itoa(t.Len()), Sig: "parse/" + strconv.Itoa(len(t))}
				return res
			}
			return cdTagsSetRun(c, len(c) > 1 && strings.HasPrefix(c[1], "n"))
		},
	})

	// Set on a nil Tags (repaired in 637a0fa: an error is returned).  The oracle class
	// tags-set-nil fires if Set ever again reports success while the value is lost.
	Register(&Suite{
		Name:  "codec.tags.nilrecv",
		Prop:  []string{"C01"},
		Fixed: func() []Case { return []Case{{"S", "n", "a", "b"}, {"S", "n", "bad key", "v"}} },
		Gen:   func(r *rand.Rand) Case { return append(Case{"S", "n"}, cdGenSetOps(r)...) },
		Run:   func(c Case) Result { return cdTagsSetRun(c, true) },
	})

	Register(&Suite{
		Name: "codec.source",
		Prop: []string{"C01", "C02"},
		Fixed: func() []Case {
			var out []Case
			// every string of length <= 4 over {'!', '@', 'a', ' '}
			alpha := []byte("!@a ")
			var rec func(prefix []byte, depth int)
			rec = func(prefix []byte, depth int) {
				out = append(out, Case{string(prefix)})
				if depth == 0 {
					return
				}
				for _, b := range alpha {
					rec(append(append([]byte{}, prefix...), b), depth-1)
				}
			}
			rec(nil, 4)
			return out
		},
		Exhaustive: "every string of length <= 4 over '!' '@' 'a' SPACE (341 strings)",
		Gen: func(r *rand.Rand) Case {
			if r.Intn(4) == 0 {
				return Case{RandBytes(r, r.Intn(20), "ab!@. \xc3\xa9")}
			}
			s := &girc.Source{Name: cdPickS(r, cdNamePool)}
			if r.Intn(2) == 0 {
				s.Ident = cdPickS(r, cdIdentPool)
			}
			if r.Intn(2) == 0 {
				s.Host = cdPickS(r, cdHostPool)
			}
			if r.Intn(8) == 0 {
				s.Name = cdPickS(r, cdSrcOdd)
			}
			raw := s.Name
			if s.Ident != "" {
				raw += "!" + s.Ident
			}
			if s.Host != "" {
				raw += "@" + s.Host
			}
			return Case{raw}
		},
		Run: func(c Case) Result {
			s := girc.ParseSource(c[0])
			res := Result{Obs: cdShowSrc(s) + "|" + Hex(s.String()) + "|" + strconv.Itoa(s.Len()), Sig: "src"}
			if s.Ident != "" {
				res.Sig += "/i"
			}
			if s.Host != "" {
				res.Sig += "/h"
			}
			if string(s.Bytes()) != s.String() {
				res.Oracle = "source-bytes: Bytes and String differ"
			}
			// round trip: a source that is well-formed per the statement is reproduced
			if cdWfSource(s) {
				q := girc.ParseSource(s.String())
				if *q != *s {
					res.Oracle = "source-roundtrip: ParseSource(String()) differs"
				}
			}
			return res
		},
	})
}
