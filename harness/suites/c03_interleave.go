package suites

import (
	"fmt"
	"math/rand"
	"net"
	"runtime"
	"sort"
	"strconv"
	"strings"
	"sync"
	"sync/atomic"
	"time"

	"gircverif/drive"

	"github.com/lrstanley/girc"
)

// C03 — wire.interleave: the same stream oracle as wire.helpers / wire.events, under
// interleaving. C03's theorems (C03_stream, C03_send_stream) are about ONE writer of the
// connection: sendLoop. This suite looks for a second one. Per case, on a fresh client:
//
//   - the peer throttles its reads (k bytes at a time, short pauses) and, in every round,
//     first stops reading in the middle of a line, so that sendLoop sits inside Flush;
//   - while it is stuck, server PINGs are injected (each elicits a PONG through the
//     handler path), and several goroutines call Client.Send concurrently;
//   - texts are long and hostile, with tails that read like commands
//     ("... :evil QUIT :bye"); none contains CR or LF.
//
// Verdict: data only. The multiset of lines the peer read must equal the multiset of the
// lines the events serialise to (whatever the order across goroutines); a piece that is
// no expected line is a fragment. All waits are for observable progress (queue lengths,
// bytes received) with generous deadlines; a deadline that passes never produces a
// verdict by itself except "the expected lines did not all arrive within 60 s".

type ilvPeer struct {
	conn   net.Conn
	mu     sync.Mutex
	buf    []byte
	mode   int32 // 0 paused, 1 throttled, 2 full speed
	budget int64 // bytes that may still be read while paused (<0: none)
	chunk  int
	pause  time.Duration
	slow   int32 // throttled chunks left before reading at full speed
	closed chan struct{}
}

func (p *ilvPeer) run() {
	defer close(p.closed)
	tmp := make([]byte, 4096)
	for {
		k := len(tmp)
		switch atomic.LoadInt32(&p.mode) {
		case 0:
			b := atomic.LoadInt64(&p.budget)
			if b <= 0 {
				time.Sleep(100 * time.Microsecond)
				continue
			}
			if int64(k) > b {
				k = int(b)
			}
		case 1:
			if atomic.LoadInt32(&p.slow) > 0 && p.chunk < k {
				k = p.chunk
			}
		}
		p.conn.SetReadDeadline(time.Now().Add(20 * time.Millisecond))
		n, err := p.conn.Read(tmp[:k])
		if n > 0 {
			p.mu.Lock()
			p.buf = append(p.buf, tmp[:n]...)
			p.mu.Unlock()
			if atomic.LoadInt32(&p.mode) == 0 {
				atomic.AddInt64(&p.budget, -int64(n))
			} else if atomic.LoadInt32(&p.mode) == 1 && atomic.LoadInt32(&p.slow) > 0 {
				atomic.AddInt32(&p.slow, -1)
				time.Sleep(p.pause)
			}
		}
		if err != nil {
			if ne, ok := err.(net.Error); ok && ne.Timeout() {
				continue
			}
			return
		}
	}
}

func (p *ilvPeer) snapshot() []byte {
	p.mu.Lock()
	defer p.mu.Unlock()
	return append([]byte(nil), p.buf...)
}

// waitFor polls cond until it holds or d has passed (progress wait, not a verdict).
func waitFor(d time.Duration, cond func() bool) bool {
	deadline := time.Now().Add(d)
	for {
		if cond() {
			return true
		}
		if time.Now().After(deadline) {
			return false
		}
		time.Sleep(50 * time.Microsecond)
	}
}

func cutLF(b []byte) (pieces []string) {
	start := 0
	for i, c := range b {
		if c == '\n' {
			pieces = append(pieces, string(b[start:i+1]))
			start = i + 1
		}
	}
	if start < len(b) {
		pieces = append(pieces, string(b[start:]))
	}
	return pieces
}

// ---- case layout ---------------------------------------------------------------------
// max, sched "g,rounds,chunk,pauseus,stall", npings, tok..., nevents, then per event:
// encEvent(e)..., pieces group

type ilvSched struct{ g, rounds, chunk, pauseUs, stall int }

func (s ilvSched) String() string {
	return fmt.Sprintf("%d,%d,%d,%d,%d", s.g, s.rounds, s.chunk, s.pauseUs, s.stall)
}

func parseSched(x string) (s ilvSched, ok bool) {
	f := strings.Split(x, ",")
	if len(f) != 5 {
		return s, false
	}
	v := make([]int, 5)
	for i := range f {
		n, err := strconv.Atoi(f[i])
		if err != nil || n < 0 || n > 100000 {
			return s, false
		}
		v[i] = n
	}
	s = ilvSched{v[0], v[1], v[2], v[3], v[4]}
	if s.g < 1 || s.g > 16 || s.rounds < 1 || s.rounds > 8 || s.chunk < 1 {
		return s, false
	}
	return s, true
}

func mkInterleaveCase(s ilvSched, toks []string, evs []*girc.Event) Case {
	max := wireMax("0")
	c := Case{strconv.Itoa(max), s.String(), strconv.Itoa(len(toks))}
	c = append(c, toks...)
	c = append(c, strconv.Itoa(len(evs)))
	for _, e := range evs {
		c = append(c, encEvent(e)...)
		c = append(c, encPieces(splitPieces(e, max))...)
	}
	return c
}

func decInterleaveCase(c Case) (max int, s ilvSched, toks []string, evs []*girc.Event, ok bool) {
	if len(c) < 4 {
		return
	}
	max, err := strconv.Atoi(c[0])
	s, sok := parseSched(c[1])
	n, rest, nok := takeN(c[2:])
	if err != nil || !sok || !nok {
		return
	}
	toks = rest[:n]
	for _, t := range toks {
		if strings.ContainsAny(t, "\r\n\x00") {
			return
		}
	}
	rest = rest[n:]
	if len(rest) < 1 {
		return
	}
	ne, err := strconv.Atoi(rest[0])
	if err != nil || ne < 0 || ne > 200 {
		return
	}
	rest = rest[1:]
	for i := 0; i < ne; i++ {
		e, r2, eok := decEvent(rest)
		if !eok || e.Command == girc.QUIT || e.Tags != nil {
			return
		}
		k, r3, kok := takeN(r2)
		if !kok {
			return
		}
		evs = append(evs, e)
		rest = r3[k:]
	}
	return max, s, toks, evs, true
}

// ---- generator -------------------------------------------------------------------------

var cmdTails = []string{
	" :evil QUIT :smuggled by a relayed message", " QUIT :bye", " :x PRIVMSG #ops :pwned", "evil QUIT :x",
	" :srv KILL me :now", " JOIN #secret", " :a!b@c NICK root", " PONG tick", "",
}

func ilvText(r *rand.Rand) string {
	var sb strings.Builder
	switch r.Intn(5) {
	case 0:
		return Pick(r, "evil QUIT :smuggled by a relayed message", "x :evil QUIT :bye", "hello", "QUIT", ":QUIT :x")
	case 1: // long, splits
		n := 400 + r.Intn(500)
		for sb.Len() < n {
			sb.WriteString(Pick(r, "lorem", "ipsum", "QUIT", ":evil", "dolor", "caf\xc3\xa9", "PRIVMSG", "#ops", ":pwn"))
			sb.WriteByte(' ')
		}
	default: // just below the limit: one long line
		n := 150 + r.Intn(220)
		for sb.Len() < n {
			sb.WriteString(Pick(r, "lorem", "ipsum", "x", "\xe2\x82\xac", "word", "\xff", "a:b"))
			sb.WriteByte(' ')
		}
	}
	return sb.String() + Pick(r, cmdTails...)
}

func ilvEvent(r *rand.Rand) *girc.Event {
	if r.Intn(5) == 0 { // longer than bufio's buffer and never split: goes to the socket in one Write
		return &girc.Event{Command: Pick(r, "TOPIC", "KICK", "MODE", "AWAY"), Params: []string{"#chan", strings.Repeat(Pick(r, "a", "b c ", "word ", "caf\xc3\xa9 "), 1100+r.Intn(1500)) + Pick(r, cmdTails...)}}
	}
	switch r.Intn(8) {
	case 0:
		return &girc.Event{Command: Pick(r, "JOIN", "MODE", "TOPIC", "WHO"), Params: []string{Pick(r, "#c", "#chan"), ilvText(r)}}
	case 1:
		return &girc.Event{Command: girc.NOTICE, Params: []string{Pick(r, "#c", "nick"), ilvText(r)}}
	case 2:
		return &girc.Event{Command: girc.PRIVMSG, Params: []string{"#c", "\x01ACTION " + ilvText(r) + "\x01"}}
	default:
		return &girc.Event{Command: girc.PRIVMSG, Params: []string{Pick(r, "#c", "#chan", "Someone"), ilvText(r)}}
	}
}

func genInterleave(r *rand.Rand) Case {
	s := ilvSched{g: 1 + r.Intn(4), rounds: 1 + r.Intn(3), chunk: Pick2(r, 1, 2, 7, 16, 61, 200), pauseUs: Pick2(r, 0, 20, 100, 300), stall: r.Intn(60)}
	np := s.rounds * (1 + r.Intn(2))
	toks := make([]string, np)
	for i := range toks {
		toks[i] = Pick(r, "tick", "t"+strconv.Itoa(i), "a b", "irc.test", "1700000000", ":x")
	}
	ne := s.rounds * (1 + r.Intn(4))
	evs := make([]*girc.Event, ne)
	for i := range evs {
		evs[i] = ilvEvent(r)
	}
	return mkInterleaveCase(s, toks, evs)
}

func fixedInterleave() []Case {
	demo := &girc.Event{Command: girc.PRIVMSG, Params: []string{"#c", "evil QUIT :smuggled by a relayed message"}}
	second := &girc.Event{Command: girc.PRIVMSG, Params: []string{"#chan", "second message"}}
	huge := &girc.Event{Command: "TOPIC", Params: []string{"#chan", strings.Repeat("a", 6000)}}
	long := &girc.Event{Command: girc.PRIVMSG, Params: []string{"#c", strings.Repeat("relayed text ", 28) + ":evil QUIT :bye"}}
	var out []Case
	for _, stall := range []int{0, 1, 11, 12, 30} {
		out = append(out, mkInterleaveCase(ilvSched{1, 1, 4096, 0, stall}, []string{"tick"}, []*girc.Event{demo, second}))
		out = append(out, mkInterleaveCase(ilvSched{2, 2, 7, 50, stall}, []string{"tick", "tock"}, []*girc.Event{long, demo, second, long}))
	}
	for _, stall := range []int{0, 32, 59} {
		out = append(out, mkInterleaveCase(ilvSched{1, 1, 32, 100, stall}, []string{"tick"}, []*girc.Event{huge}))
		out = append(out, mkInterleaveCase(ilvSched{3, 2, 200, 20, stall}, []string{"tick", "tock"}, []*girc.Event{huge, demo, long, huge}))
	}
	return out
}

// ilvNeverSent are serialised in a loop by bystander goroutines while the case runs (as
// debug logging, Pretty() or user code would); none of them is ever sent.
var ilvNeverSent = []*girc.Event{
	{Command: girc.PRIVMSG, Params: []string{"#never", strings.Repeat("x", 700) + "\r\nQUIT :smuggled\r\n" + strings.Repeat("y", 7000) + "\xff"}},
	{Command: girc.PRIVMSG, Params: []string{"#never", "zzz\r\nQUIT :smuggled\r\n" + strings.Repeat("w", 300)}},
	{Command: "NEVER", Params: []string{strings.Repeat("n\r\n", 2500)}},
}

// ---- run ---------------------------------------------------------------------------------

func expectedLines(max int, toks []string, evs []*girc.Event) []string {
	var want []string
	for _, e := range evs {
		for _, p := range girc.VerifEventSplit(e.Copy(), max) {
			want = append(want, string(p.Bytes())+"\r\n")
		}
	}
	for _, t := range toks {
		want = append(want, string((&girc.Event{Command: girc.PONG, Params: []string{t}}).Bytes())+"\r\n")
	}
	return want
}

func runInterleave(c Case) Result {
	max, s, toks, evs, ok := decInterleaveCase(c)
	if !ok {
		return Result{Obs: "?bad-case"}
	}
	if wireSyncFails >= 2 {
		return wireSyncLost
	}
	cfg := drive.BaseConfig()
	cfg.PingDelay = -1
	cfg.RecoverFunc = func(*girc.Client, *girc.HandlerError) {}
	cl := girc.New(cfg)
	cconn, sconn := net.Pipe()
	done := make(chan error, 1)
	go func() { done <- cl.MockConnect(cconn) }()
	p := &ilvPeer{conn: sconn, mode: 2, chunk: s.chunk, pause: time.Duration(s.pauseUs) * time.Microsecond, closed: make(chan struct{})}
	go p.run()
	defer func() {
		// close the pipe first: a writer of the client that is blocked in the pipe (and may
		// hold a client lock) is released by that, whatever the client is doing
		sconn.Close()
		cconn.Close()
		closed := make(chan struct{})
		go func() { cl.Close(); close(closed) }()
		for _, ch := range []<-chan struct{}{closed, p.closed} {
			select {
			case <-ch:
			case <-time.After(10 * time.Second):
			}
		}
		select {
		case <-done:
		case <-time.After(10 * time.Second):
		}
	}()

	// registration burst
	regOK := waitFor(wireSyncTimeout, func() bool {
		for _, l := range cutLF(p.snapshot()) {
			if strings.HasPrefix(l, "USER ") && strings.HasSuffix(l, "\n") {
				return true
			}
		}
		return false
	})
	if !regOK {
		wireSyncFails++
		return Result{Obs: "?no-registration", Oracle: "wire-sync: the client did not register within 60s", Sig: "sync"}
	}
	waitFor(time.Second, func() bool { _, tx := cl.VerifQueues(); return tx == 0 })
	time.Sleep(200 * time.Microsecond)
	base := len(p.snapshot())
	if got := cl.MaxEventLength(); got != max {
		return Result{Obs: fmt.Sprintf("?maxlen=%d", got)}
	}

	// every third case runs on a single P (a sync.Pool then hands a buffer just put back to
	// the very next Get, whichever goroutine asks)
	if (s.stall+len(evs))%3 == 0 {
		old := runtime.GOMAXPROCS(1)
		defer runtime.GOMAXPROCS(old)
	}
	// bystanders: serialise events that are never sent, until the case is over
	stopBy := make(chan struct{})
	var byWg sync.WaitGroup
	for i := 0; i < 2; i++ {
		byWg.Add(1)
		go func(i int) {
			defer byWg.Done()
			for n := i; ; n++ {
				select {
				case <-stopBy:
					return
				default:
				}
				e := ilvNeverSent[n%len(ilvNeverSent)]
				_ = e.String()
				_ = e.Len()
				if n%64 == 0 {
					time.Sleep(50 * time.Microsecond)
				} else {
					runtime.Gosched()
				}
			}
		}(i)
	}
	defer func() { close(stopBy); byWg.Wait() }()

	want := expectedLines(max, toks, evs)
	marker := "VSYNC ilv." + strconv.FormatInt(time.Now().UnixNano(), 36)

	var wg sync.WaitGroup
	ei, ti := 0, 0
	for round := 0; round < s.rounds; round++ {
		// this round's share of events and pings
		eN := (len(evs) - ei) / (s.rounds - round)
		tN := (len(toks) - ti) / (s.rounds - round)
		roundEvs := evs[ei : ei+eN]
		roundToks := toks[ti : ti+tN]
		ei, ti = ei+eN, ti+tN

		// 1. the peer stops reading after `stall` more bytes: always in the middle of the
		// first line written in this round, whichever sender gets there first
		stall := s.stall
		for _, e := range roundEvs {
			if ps := girc.VerifEventSplit(e.Copy(), max); len(ps) > 0 {
				if n := len(ps[0].Bytes()); n-1 < stall {
					stall = n - 1
				}
			}
		}
		if stall < 0 {
			stall = 0
		}
		atomic.StoreInt64(&p.budget, int64(stall))
		atomic.StoreInt32(&p.mode, 0)
		// 2. concurrent senders
		lists := make([][]*girc.Event, s.g)
		for i, e := range roundEvs {
			lists[i%s.g] = append(lists[i%s.g], e)
		}
		for _, l := range lists {
			if len(l) == 0 {
				continue
			}
			wg.Add(1)
			go func(l []*girc.Event) {
				defer wg.Done()
				for _, e := range l {
					cl.Send(e.Copy())
				}
			}(l)
		}
		// 3. wait until sendLoop is stuck in a write (later events pile up in the queue)
		if len(roundEvs) > 1 {
			waitFor(500*time.Millisecond, func() bool { _, tx := cl.VerifQueues(); return tx >= 1 })
		}
		time.Sleep(300 * time.Microsecond)
		// 4. the server pings while the client is in the middle of writing
		_, tx0 := cl.VerifQueues()
		for _, t := range roundToks {
			sconn.SetWriteDeadline(time.Now().Add(10 * time.Second))
			sconn.Write([]byte("PING :" + t + "\r\n"))
		}
		// 5. each PING is answered through the send queue: wait for the queue to grow (a
		// reply that bypasses the queue never shows up here; then the wait just times out)
		if len(roundEvs) > 0 && len(roundToks) > 0 {
			waitFor(300*time.Millisecond, func() bool { _, tx := cl.VerifQueues(); return tx >= tx0+len(roundToks) || tx >= 25 })
		}
		// 6. the peer catches up, slowly at first
		atomic.StoreInt32(&p.slow, 40)
		atomic.StoreInt32(&p.mode, 1)
		if round < s.rounds-1 {
			waitFor(200*time.Millisecond, func() bool { _, tx := cl.VerifQueues(); return tx == 0 })
		}
	}

	// the connection is over (the client closed it or died): nothing more can arrive
	ended := func() bool {
		select {
		case <-p.closed:
			return true
		default:
			return false
		}
	}
	sendersDone := make(chan struct{})
	go func() { wg.Wait(); close(sendersDone) }()
	synced, timedOut := false, false
	select {
	case <-sendersDone:
		go cl.Send(&girc.Event{Command: "VSYNC", Params: []string{marker[6:]}})
		wantBytes := 0
		for _, l := range want {
			wantBytes += len(l)
		}
		timeout := wireSyncTimeout
		if wireSyncSeenBefore() {
			timeout = 2 * time.Second
		}
		ok := waitFor(timeout, func() bool {
			if ended() {
				return true
			}
			b := p.snapshot()[base:]
			if len(b) < wantBytes+len(marker)+2 {
				return false
			}
			return strings.Contains(string(b), marker+"\r\n")
		})
		synced = ok && strings.Contains(string(p.snapshot()[base:]), marker+"\r\n")
		timedOut = !ok
	case <-p.closed:
	case <-time.After(wireSyncTimeout):
		timedOut = true
	}

	var pieces []string
	for _, l := range cutLF(p.snapshot()[base:]) {
		if strings.TrimRight(l, "\r\n") != marker {
			pieces = append(pieces, l)
		}
	}
	sort.Strings(pieces)
	nsplit := len(want) - len(toks) - len(evs)
	sig := fmt.Sprintf("g%d/r%d/ev%d/ping%d", s.g, s.rounds, len(evs), len(toks))
	if nsplit != 0 {
		sig += "/split"
	}
	res := Result{Obs: fmtPieces(pieces), Sig: sig}

	// the stream oracle
	wantCount := map[string]int{}
	wantCmd := map[string]bool{}
	for _, l := range want {
		wantCount[l]++
		if ev := girc.ParseEvent(strings.TrimSuffix(l, "\r\n")); ev != nil {
			wantCmd[ev.Command] = true
		}
	}
	gotCount := map[string]int{}
	for _, l := range pieces {
		gotCount[l]++
	}
	for _, l := range pieces {
		if wantCount[l] == 0 && (synced || strings.HasSuffix(l, "\n")) {
			cmd := "?"
			if ev := girc.ParseEvent(strings.TrimRight(l, "\r\n")); ev != nil {
				cmd = ev.Command
			}
			extra := ""
			if !wantCmd[cmd] {
				extra = ", a command no event of the client has"
			}
			res.Oracle = fmt.Sprintf("wire-fragment: the peer read a line that no event of the client serialises to: %s (a server reads command %q%s)", strconv.Quote(l), cmd, extra)
			return res
		}
	}
	if !synced {
		if timedOut {
			wireSyncFails++
			if wireSyncFails >= 2 {
				wireSyncRemember()
			}
			res.Oracle = "wire-sync: not every written event reached the peer within 60s (the client stopped writing)"
		} else {
			res.Oracle = "wire-sync: the client closed the connection before every event it was given was written"
		}
		return res
	}
	for _, l := range pieces {
		if o := lineOracle(l); o != "" {
			res.Oracle = o
			return res
		}
	}
	for l, n := range wantCount {
		if gotCount[l] != n {
			res.Oracle = fmt.Sprintf("wire-count: line %s reached the peer %d times, expected %d", strconv.Quote(l), gotCount[l], n)
			return res
		}
	}
	return res
}

func init() {
	Register(&Suite{
		Name:  "wire.interleave",
		Prop:  []string{"C03"},
		Fixed: fixedInterleave,
		Gen:   genInterleave,
		Run:   runInterleave,
	})
}
