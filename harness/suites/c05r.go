package suites

// Suite client.react (C05 at the level of bytes on the socket; model side Driver/DrvC05r.v,
// Model/React.v).  A case is a whole session: the peer of a MockConnect'ed client writes raw
// lines; after EACH line a PING/PONG exchange with a unique token delimits what the client
// wrote in response.  Observation = the exact lines the client wrote per input line (hex,
// projected as described below) + how the session ended + the canonical state dump; it is
// compared verbatim with the extracted model's fold of `react` over the same lines.
//
// Asynchrony, handled honestly:
//   - the default CTCP repliers run in goroutines of their own (CTCP.SetBg): their NOTICE may
//     be queued after the PONG of the delimiter.  The harness therefore waits, after the first
//     delimiter, until the process has no more goroutines than it had before the line was
//     written (plus the 2 s sleeper that handleConnect starts for a 001, minus sleepers seen
//     ending through the CONNECTED event), and then runs a second delimiter: everything a
//     finished goroutine queued is in front of that PONG in the client's send queue.  Every
//     session runs in a child process, so the goroutine count is that of one client;
//   - handleConnect (001) is a background handler: the harness waits for the UPDATE_GENERAL
//     notification it sends after storing the nickname;
//   - within the reaction to ONE line all output comes from one piece of sequential code
//     (Proofs/ReactWire.v react_single_source), so per-line output is compared as a sequence.
// Projection of a written line (same function in Driver/DrvC05r.v): TIME / FINGER replies keep
// target and CTCP command only and consecutive equal ones collapse (payload = wall clock / idle
// time; how many lines Client.Send splits it into depends on its length); the tokens of CAP REQ
// are sorted (Go map order); everything else is the line itself.  VERSION is exact: the Go
// version, GOOS and GOARCH of the harness process are arguments of the case.
//
// Oracle (on the implementation alone): `liveness` a delimiter PING is not answered although
// Connect has not returned / Connect returned nil / with an error that is neither
// ErrParseEvent nor an ERROR event / with ErrParseEvent on a line of the message grammar; `wire-crlf` a written line without CRLF terminator or with
// CR/LF inside; `wire-unparsable` a written line that ParseEvent rejects; `structure`
// StructuralInvariant at the end; `panic` RecoverFunc fired; `wedge` the state lock is left
// held; `process-death` (child died, or did not finish within 60 s).

import (
	"errors"
	"math/rand"
	"os"
	"runtime"
	"sort"
	"strconv"
	"strings"
	"sync/atomic"
	"time"

	"gircverif/drive"

	"github.com/lrstanley/girc"
)

const reactBarrier = "verif-barrier-"

// reactLines cuts raw bytes into the pieces ReadString('\n') will hand to ParseEvent: every
// piece ends in LF (one is appended to an unterminated rest).
func reactLines(raw string) []string {
	var out []string
	for raw != "" {
		i := strings.IndexByte(raw, '\n')
		if i < 0 {
			out = append(out, raw+"\n")
			break
		}
		out = append(out, raw[:i+1])
		raw = raw[i+1:]
	}
	return out
}

// reactParse is ParseEvent for the harness's own bookkeeping (placement of unparsable lines,
// detection of 001, re-parsing what the client wrote): a parser that panics must show as the
// death of the CLIENT's process, not of the generator.
func reactParse(l string) (e *girc.Event) {
	defer func() {
		if recover() != nil {
			e = nil
		}
	}()
	return girc.ParseEvent(l)
}

// reactProject: see the head of the file (Driver/DrvC05r.v proj_line).
func reactProject(l string) string {
	if r, ok := strings.CutPrefix(l, "CAP REQ "); ok {
		r = strings.TrimPrefix(r, ":")
		var toks []string
		for _, t := range strings.Split(r, " ") {
			if t != "" {
				toks = append(toks, t)
			}
		}
		sort.Strings(toks)
		for i := range toks {
			toks[i] = Hex(toks[i])
		}
		return "R" + strings.Join(toks, ".")
	}
	if r, ok := strings.CutPrefix(l, "NOTICE "); ok {
		if i := strings.IndexByte(r, ' '); i >= 0 {
			tgt, rest := r[:i], r[i:]
			if strings.HasPrefix(rest, " :\x01TIME ") {
				return "T" + Hex(tgt) + "." + Hex("TIME")
			}
			if strings.HasPrefix(rest, " :\x01FINGER ") {
				return "T" + Hex(tgt) + "." + Hex("FINGER")
			}
		}
	}
	return "L" + Hex(l)
}

func reactShowOuts(outs []string) string {
	var toks []string
	for _, l := range outs {
		t := reactProject(l)
		if n := len(toks); n > 0 && t[0] == 'T' && toks[n-1] == t {
			continue
		}
		toks = append(toks, t)
	}
	return strings.Join(toks, ",")
}

type reactSess struct {
	ss        *drive.Session
	general   int64 // UPDATE_GENERAL notifications seen
	connected int64 // CONNECTED events seen (a handleConnect sleeper is about to end)
	seq       int
	next      int // index into ss.Lines() of the first line not yet attributed
	ended     bool
	derr      error
	slow      int // quiescence waits that ran into their deadline
}

func (x *reactSess) pollDone() bool {
	if x.ended {
		return true
	}
	select {
	case x.derr = <-x.ss.Done:
		x.ended = true
		x.ss.Done <- x.derr // Stop() reads it again
	default:
	}
	return x.ended
}

// write hands bytes to the client's socket. false: the client has stopped reading (closed
// pipe, or nothing read for 15 s).
func (x *reactSess) write(b string) bool {
	_ = x.ss.Peer.SetWriteDeadline(time.Now().Add(15 * time.Second))
	_, err := x.ss.Peer.Write([]byte(b))
	return err == nil
}

// barrier: PING tok; wait for PONG tok or for Connect to return.
func (x *reactSess) barrier() (tok string, ok bool) {
	x.seq++
	tok = reactBarrier + strconv.Itoa(x.seq)
	if !x.write("PING " + tok + "\r\n") {
		return tok, false
	}
	want := "PONG " + tok + "\r\n"
	deadline := time.Now().Add(10 * time.Second)
	spins := 0
	for {
		lines := x.ss.Lines()
		for i := len(lines) - 1; i >= x.next; i-- {
			if lines[i] == want {
				return tok, true
			}
		}
		if x.pollDone() || time.Now().After(deadline) {
			return tok, false
		}
		spinPause(&spins)
	}
}

// spinPause yields; a time.Sleep costs about a millisecond whatever its argument (the runtime
// sleeps in epoll_wait), so short waits spin on Gosched and only long ones sleep.
func spinPause(n *int) {
	*n++
	if *n < 20000 {
		runtime.Gosched()
		return
	}
	time.Sleep(100 * time.Microsecond)
}

// idleGoroutines: the goroutine count of the idle, connected process (peer recorder,
// MockConnect, execLoop, readLoop and its decode goroutine, sendLoop).  readLoop starts a new
// decode goroutine for every line, so right after a PONG the count can be one short for an
// instant; nothing makes it too high while the client is idle: the maximum over a window of
// 1.5 ms is taken, once per session.
func idleGoroutines() int {
	m := 0
	for t0 := time.Now(); time.Since(t0) < 1500*time.Microsecond; runtime.Gosched() {
		if n := runtime.NumGoroutine(); n > m {
			m = n
		}
	}
	return m
}

// reactRun drives one session. Returns observation and oracle verdict.
func reactRun(nick, user, version string, lines []string) (obs, oracle, sig string) {
	cfg := drive.BaseConfig()
	cfg.Nick, cfg.User, cfg.Version = nick, user, version
	cfg.DisableSTS = true
	cfg.PingDelay = -1
	x := &reactSess{}
	x.ss = drive.Start(cfg)
	x.ss.C.Handlers.Add(girc.UPDATE_GENERAL, func(c *girc.Client, e girc.Event) { atomic.AddInt64(&x.general, 1) })
	x.ss.C.Handlers.Add(girc.CONNECTED, func(c *girc.Client, e girc.Event) { atomic.AddInt64(&x.connected, 1) })
	healthy := true
	defer func() {
		if healthy {
			x.ss.Stop()
		}
	}()
	var bad []string // oracle verdicts, first one wins
	fail := func(s string) { bad = append(bad, s) }

	x.next = x.ss.Mark() // registration burst (CAP LS, NICK, USER) is not part of the reaction
	if _, ok := x.barrier(); !ok {
		healthy = false
		return "NOPONG", "liveness: the freshly connected client does not answer a PING", "nopong"
	}
	x.next = x.ss.Mark()
	base := idleGoroutines()
	sleepers := 0 // handleConnect goroutines started (each sleeps 2 s, then emits CONNECTED)

	var perLine []string
	end := "alive"
	kinds := map[string]bool{}
	for i, line := range lines {
		genBefore := atomic.LoadInt64(&x.general)
		p := reactParse(line)
		sleeper := p != nil && p.Command == "001"  // handleConnect runs in the background and sleeps 2 s
		welcome := sleeper && len(p.Params) > 0 // ... after storing the nickname and notifying
		if sleeper {
			sleepers++
		}
		var toks []string
		alive := x.write(line)
		if alive {
			var t string
			t, alive = x.barrier()
			toks = append(toks, t)
		}
		if alive {
			if welcome {
				dl := time.Now().Add(3 * time.Second)
				for n := 0; atomic.LoadInt64(&x.general) == genBefore && time.Now().Before(dl); {
					spinPause(&n)
				}
			}
			// every goroutine started for this line has ended (its output is queued)
			dl := time.Now().Add(3 * time.Second)
			for n := 0; ; {
				want := base + sleepers - int(atomic.LoadInt64(&x.connected))
				if runtime.NumGoroutine() <= want {
					break
				}
				if time.Now().After(dl) {
					x.slow++
					break
				}
				spinPause(&n)
			}
			var t string
			t, alive = x.barrier()
			toks = append(toks, t)
		}
		if !alive {
			// no answer: Connect must return, with ErrParseEvent or the ERROR event
			dl := time.Now().Add(10 * time.Second)
			for !x.pollDone() && time.Now().Before(dl) {
				time.Sleep(100 * time.Microsecond)
			}
			if !x.ended {
				healthy = false
				return "NOPONG", "liveness: after line " + strconv.Itoa(i) + " (" + strconv.Quote(line) + ") the client neither answers a PING nor returns from Connect", "nopong"
			}
			var pe girc.ErrParseEvent
			var ee *girc.ErrEvent
			switch {
			case x.derr == nil:
				end = "closed-nil:" + strconv.Itoa(i)
				fail("liveness: Connect returned nil although nobody closed the client (line " + strconv.Itoa(i) + ")")
			case errors.As(x.derr, &pe):
				end = "parsefail:" + strconv.Itoa(i)
				// a line of the message grammar (Spec/Grammar.v, recogniser transcribed in
				// c02_recognise.go) must not cost the connection
				if a, ok := cdParseAst(line); ok && a.wf() {
					fail("liveness: the client dropped the connection (ErrParseEvent) on a grammatical line: " + strconv.Quote(line))
				}
			case errors.As(x.derr, &ee):
				end = "closed:" + strconv.Itoa(i)
			default:
				end = "closed-err:" + strconv.Itoa(i)
				fail("liveness: Connect returned " + strconv.Quote(x.derr.Error()) + " after line " + strconv.Itoa(i))
			}
			x.ss.Peer.Close()
			time.Sleep(2 * time.Millisecond) // the recorder drains what was written before the close
		}
		// attribute what was written since the previous line
		all := x.ss.Lines()
		var outs []string
		for _, l := range all[x.next:] {
			body, okT := strings.CutSuffix(l, "\r\n")
			if !okT {
				if !alive {
					continue // a line cut off by the disconnect
				}
				fail("wire-crlf: written line without CRLF terminator: " + strconv.Quote(l))
				body = strings.TrimSuffix(l, "\n")
			}
			isBarrier := false
			for _, t := range toks {
				if body == "PONG "+t {
					isBarrier = true
				}
			}
			if isBarrier {
				continue
			}
			if strings.ContainsAny(body, "\r\n") {
				fail("wire-crlf: CR or LF inside a written line: " + strconv.Quote(l))
			}
			if pe := reactParse(body); pe == nil {
				fail("wire-unparsable: the client wrote a line ParseEvent rejects: " + strconv.Quote(body))
			} else {
				kinds[pe.Command] = true
			}
			outs = append(outs, body)
		}
		x.next = len(all)
		if !strings.HasPrefix(end, "parsefail") {
			perLine = append(perLine, reactShowOuts(outs))
		} else if len(outs) > 0 {
			perLine = append(perLine, "?output-for-unparsable-line:"+reactShowOuts(outs))
		}
		if x.ss.PanicCount() > 0 {
			fail("panic: a handler panicked on line " + strconv.Itoa(i) + " " + strconv.Quote(line))
			break // the handler may have died with the state lock held; nothing after it is meaningful
		}
		if end != "alive" {
			break
		}
	}
	if !StateLockFree(x.ss.C, 150*time.Millisecond) {
		// reading the state would block for ever; the client is abandoned, not stopped
		healthy = false
		if len(bad) == 0 {
			fail("wedge: the state lock is still held after the session")
		}
		return strings.Join(perLine, "|") + ";end=" + end + ";S=WEDGED", bad[0], "wedged"
	}
	tmp, en := x.ss.C.VerifCapState()
	obs = strings.Join(perLine, "|") + ";end=" + end + ";S=" + DumpState(x.ss.C) + ";t=" + HexList(tmp) + ";e=" + HexList(en)
	if m := StructuralInvariant(x.ss.C); m != "" {
		fail("structure: " + m)
	}
	if len(bad) > 0 {
		oracle = bad[0]
	}
	var ks []string
	for k := range kinds {
		ks = append(ks, k)
	}
	sort.Strings(ks)
	sig = strings.SplitN(end, ":", 2)[0] + "/" + strings.Join(ks, "+")
	if x.slow > 0 {
		sig += "/slow-quiesce"
	}
	return obs, oracle, sig
}

// ---- generators -------------------------------------------------------------------------

var reactIsupport = []string{"LINELEN=130", "LINELEN=150", "LINELEN=200", "LINELEN=2048", "LINELEN=117", "LINELEN=x", "NICKLEN=9", "HOSTLEN=100",
	"CHANMODES=beI,k,l,imnpst", "PREFIX=(qaohv)~&@%+", "PREFIX=(ov)@+", "NETWORK=Test", "CASEMAPPING=rfc1459", "EXCEPTS", "=x"}

func reactLongText(r *rand.Rand) string {
	words := []string{"hello", "world", "caf\xc3\xa9", "\xe2\x82\xac100", "\xf0\x9f\x98\x80", "\x02bold\x02", "\x0304,05red", "a", "x\xffy", "supercalifragilisticexpialidocious", "http://example.com/a/b?c=d", "\x01", "tab\there"}
	var sb strings.Builder
	n := 20 + r.Intn(120)
	for i := 0; i < n; i++ {
		if i > 0 {
			sb.WriteByte(' ')
		}
		sb.WriteString(words[r.Intn(len(words))])
	}
	return sb.String()
}

// reactGenRaw: one chunk of raw bytes the peer writes (possibly several lines).
func reactGenRaw(r *rand.Rand, prev []string) string {
	src := func() string {
		return ":" + caseVariant(r, hostNicks[r.Intn(len(hostNicks)-2)]) + Pick(r, "", "!u@h.example", "!~id@10.0.0.1", "@h")
	}
	switch r.Intn(21) {
	case 0, 1, 2, 3, 4, 5: // the hostile event generator of c05.go, rendered to a line
		for k := 0; k < 8; k++ {
			if l, ok := hostileEvent(r).Line(); ok {
				return l + Pick(r, "\r\n", "\r\n", "\n")
			}
		}
		return "PING x\r\n"
	case 6, 7, 8, 9: // the grammar generator of C02, biased to the commands the client handles
		a := cdGenAst(r, 12)
		if r.Intn(4) != 0 {
			a.cmd = hostCmds[r.Intn(len(hostCmds))]
			if r.Intn(3) == 0 {
				a.cmd = strings.ToLower(a.cmd)
			}
			if r.Intn(2) == 0 {
				a.mids = nil
				for i := r.Intn(5); i > 0; i-- {
					p := hostileParam(r)
					if p == "" || strings.ContainsAny(p, " \r\n\x00") || p[0] == ':' {
						p = "x"
					}
					a.mids = append(a.mids, cdMid{r.Intn(2) * r.Intn(3), p})
				}
			}
		}
		if a.eol == "" {
			a.eol = "\r\n"
		}
		return a.render()
	case 10: // CTCP requests, some with texts long enough for Client.Send to split the answer
		tag := Pick(r, "PING", "PING", "VERSION", "TIME", "FINGER", "SOURCE", "PONG", "CLIENTINFO", "ACTION", "X9", "ping")
		text := ""
		switch r.Intn(4) {
		case 0:
			text = " " + reactLongText(r)
		case 1:
			text = " " + Pick(r, "12345", "a b", "", "\x01", " lead", ":colon")
		}
		return src() + " " + Pick(r, "PRIVMSG", "PRIVMSG", "PRIVMSG", "NOTICE", "privmsg") + " " + Pick(r, "me", "#chan", "ME") + " :\x01" + tag + text + "\x01\r\n"
	case 11: // PING tokens that the wire alters or keeps
		return Pick(r, "PING", "PING", ":srv PING", "ping") + " " + Pick(r, "tok", ":two words", ":", "a b", ":\xff\xfe", ":caf\xc3\xa9", ":x\ry", ":a\r\rb", "\r\r\rz", ":"+reactLongText(r), "a :b c", ":\x00nul", "::") + "\r\n"
	case 12: // limits and options
		var ps []string
		for i := 1 + r.Intn(3); i > 0; i-- {
			ps = append(ps, reactIsupport[r.Intn(len(reactIsupport))])
		}
		return ":srv 005 me " + strings.Join(ps, " ") + " :are supported by " + Pick(r, "this server", "this server", "that server") + "\r\n"
	case 13: // nick collisions
		return ":srv " + Pick(r, "433", "436", "437") + " " + Pick(r, "*", "me") + " " + Pick(r, "me", "me_", "#chan", "caf\xc3\xa9", "x y", "", "a,b") + " :" + Pick(r, "Nickname is already in use", "") + "\r\n"
	case 14: // capability negotiation
		var ws []string
		for i := r.Intn(5); i > 0; i-- {
			ws = append(ws, capWords[r.Intn(len(capWords))])
		}
		return ":srv CAP " + Pick(r, "*", "me") + " " + Pick(r, "LS", "LS", "ACK", "NAK", "DEL", "NEW", "LIST", "LS *") + " :" + strings.Join(ws, " ") + "\r\n"
	case 15: // raw garbage
		switch r.Intn(6) {
		case 0:
			return RandBytes(r, 2+r.Intn(40), "")
		case 1:
			return RandBytes(r, 2+r.Intn(30), "@:; =\\ab!\r\t\x00\x01")
		case 2:
			return "PRIVMSG me :" + RandBytes(r, 600+r.Intn(4000), "ab \xc3\xa9") + "\r\n"
		case 3:
			return Pick(r, "\x00\x00\r\n", "a\rb\r\n", "\r\r\n", "  \r\n", "@ \r\n", ": x\r\n", "@a :b\r\n", "@a=b\r\n", ":src\r\n", "\xff\xfe\xfd\r\n", "A\r\n", ":a@b!c PRIVMSG me :hi\r\n", ":@!x JOIN #chan\r\n", ":!@ NICK y\r\n", "\r\n", "::\r\n", "@;;; : :\r\n")
		case 4:
			return cdGenLine(r)
		default:
			return RandBytes(r, 1+r.Intn(6), "\r\n xX:@")
		}
	case 19: // minimal sections: every part of the line at its shortest (boundaries of the parser's guards)
		l := ""
		if r.Intn(2) == 0 {
			l += "@" + RandBytes(r, 1+r.Intn(2), "ab=;+") + " "
		}
		if r.Intn(2) == 0 {
			l += ":" + RandBytes(r, 1+r.Intn(2), "ab!@.") + " "
		}
		l += Pick(r, "PING", "PING", "P", "PI", "001", "1", "JOIN", "NICK", "PRIVMSG")
		for i := r.Intn(3); i > 0; i-- {
			l += " " + RandBytes(r, 1, "ab#:")
		}
		return l + Pick(r, "\r\n", "\n", " \r\n", " :\r\n")
	case 16, 17: // a mutated earlier line
		if len(prev) > 0 {
			return cdMutate(r, prev[r.Intn(len(prev))])
		}
		return cdGenLine(r)
	case 18: // membership churn around ourselves
		return Pick(r, ":me!u@h JOIN #x", ":ME!u@h PART #chan", ":srv KICK #chan me :bye", ":srv KICK #CHAN alice", ":me!u@h NICK you", ":alice!a@h NICK me", ":me!u@h QUIT :gone",
			":alice!a@h JOIN #chan acct :Real Name", "@account=tagged :bob!b@h JOIN #chan", ":srv 353 me = #x :@me +alice bob!b@h", ":srv MODE #chan +o-v alice bob", ":srv 324 me #chan +ntk key") + "\r\n"
	default:
		if r.Intn(40) == 0 {
			return Pick(r, "ERROR :Closing link", ":srv ERROR :bye", "error x") + "\r\n"
		}
		return cdGenLine(r)
	}
}

func reactCase(nick, user, version string, lines []string) Case {
	return append(Case{nick, user, version, runtime.Version(), runtime.GOOS, runtime.GOARCH}, lines...)
}

func reactGen(r *rand.Rand) Case {
	var lines []string
	if r.Intn(4) != 0 {
		for _, e := range joinedPrefix() {
			l, _ := e.Line()
			lines = append(lines, l+"\r\n")
		}
	}
	n := 3 + r.Intn(18)
	for len(lines) < n+5 && n > 0 {
		n--
		for _, l := range reactLines(reactGenRaw(r, lines)) {
			// a line ParseEvent rejects ends the session: mostly keep those for the end
			if reactParse(l) == nil && r.Intn(8) != 0 && n > 0 {
				continue
			}
			lines = append(lines, l)
		}
	}
	return reactCase("me", "user", Pick(r, "", "", "verif 1.0"), lines)
}

// reactExample: the ten-line session of Proofs/ReactWire.v (react_session_example).
func reactExample() []string {
	return []string{
		":irc.test 001 me :Welcome to the test network\r\n",
		":irc.test 005 me NICKLEN=9 CHANMODES=b,k,l,imnpst PREFIX=(ov)@+ :are supported by this server\r\n",
		":me!user@host.example JOIN #chan\r\n",
		":irc.test 353 me = #chan :me @alice +bob\r\n",
		":alice!a@h.example MODE #chan +v-o bob alice\r\n",
		":alice!a@h.example PRIVMSG me :\x01VERSION\x01\r\n",
		"PING :tok en\r\n",
		":alice!a@h.example NICK carol\r\n",
		":carol!a@h.example KICK #chan bob :bye\r\n",
		"\x00\n",
	}
}

func init() {
	Register(&Suite{
		Name: "client.react",
		Prop: []string{"C05"},
		Fixed: func() []Case {
			long := strings.Repeat("lorem ipsum d\xc3\xb6lor ", 40)
			return []Case{
				reactCase("me", "user", "verif 1.0", reactExample()),
				reactCase("me", "user", "", reactExample()),
				reactCase("me", "user", "", []string{":a!b@c PRIVMSG me :\x01PING " + long + "\x01\r\n", ":a!b@c PRIVMSG me :\x01TIME\x01\r\n", ":a!b@c PRIVMSG me :\x01FINGER\x01\r\n", ":a!b@c PRIVMSG me :\x01NOPE\x01\r\n", "PRIVMSG me :\x01VERSION\x01\r\n"}),
				reactCase("me", "user", "", []string{":s 005 me LINELEN=130 :are supported by this server\r\n", ":a!b@c PRIVMSG me :\x01VERSION\x01\r\n", ":a!b@c PRIVMSG me :\x01TIME\x01\r\n", ":a!b@c PRIVMSG me :\x01PING 1 2 3\x01\r\n", "PING :a b c d e f g h i j k l m n o p\r\n"}),
				reactCase("me", "user", "", []string{":s CAP * LS :multi-prefix sasl account-tag batch sts=port=6697\r\n", ":s CAP * ACK :multi-prefix message-tags sts\r\n", ":s CAP * NAK :x\r\n", ":s 903 me :ok\r\n", ":s 904 me :failed\r\n", "AUTHENTICATE +\r\n"}),
				reactCase("me", "user", "", []string{":s 433 * me :in use\r\n", ":s 433 * me_ :in use\r\n", ":s 437 * #chan :unavailable\r\n", ":s 001 you :hi\r\n", ":s 436 * :collision\r\n"}),
				reactCase("me", "user", "", []string{"PING a\r\n", "\r\n", "PING b\r\n"}),
				reactCase("me", "user", "", []string{"PING a\r\n", ":srv ERROR :Closing link\r\n", "PING b\r\n"}),
				reactCase("me", "user", "", []string{"PING :\xff\xfex\ry\r\n", "a\rb\r\n", "@a :b\r\n"}),
			}
		},
		Gen: reactGen,
		Run: func(c Case) Result { return Isolated("client.react", c, reactDirect) },
	})
}

func reactDirect(c Case) Result {
	if len(c) < 6 {
		return Result{Obs: "?bad-args"}
	}
	if os.Getenv("VERIF_ISOLATED_CHILD") == "1" {
		// last resort: a session that cannot finish (a wait the harness did not foresee) ends the
		// child, which the parent reports as process-death with the case as replay
		wd := time.AfterFunc(60*time.Second, func() {
			os.Stderr.WriteString("watchdog: the session did not finish within 60 s\n")
			os.Exit(3)
		})
		defer wd.Stop()
	}
	for _, l := range c[6:] {
		if !strings.HasSuffix(l, "\n") || strings.Count(l, "\n") != 1 {
			return Result{Obs: "?line-not-LF-terminated"}
		}
	}
	obs, oracle, sig := reactRun(c[0], c[1], c[2], c[6:])
	return Result{Obs: obs, Oracle: oracle, Sig: sig}
}
