package suites

import (
	"fmt"
	"math/rand"
	"sort"
	"strings"

	"github.com/lrstanley/girc"
)

// ---- the documented token table (the oracle's own copy) -----------------------------
//
// Colour names and their mIRC colour numbers, format codes and their control bytes, as
// format.go documents them. The oracle never reads girc's tables: a wrong number or a
// dropped name in the Go maps shows up as a failed clause, not as a changed expectation.
var docColors = map[string]int{
	"white": 0, "black": 1, "blue": 2, "navy": 2, "green": 3, "red": 4, "brown": 5, "maroon": 5,
	"purple": 6, "gold": 7, "olive": 7, "orange": 7, "yellow": 8, "lightgreen": 9, "lime": 9,
	"teal": 10, "cyan": 11, "lightblue": 12, "royal": 12, "fuchsia": 13, "lightpurple": 13,
	"pink": 13, "gray": 14, "grey": 14, "lightgrey": 15, "silver": 15,
}

var docCodes = map[string]string{
	"bold": "\x02", "b": "\x02", "italic": "\x1d", "i": "\x1d", "reset": "\x0f", "r": "\x0f",
	"clear": "\x03", "c": "\x03", "reverse": "\x16", "underline": "\x1f", "ul": "\x1f", "ctcp": "\x01",
}

// the seven formatting control bytes
const fmtCtrl = "\x01\x02\x03\x0f\x16\x1d\x1f"

var docColorNames, docCodeNames, docAllNames []string

func init() {
	for k := range docColors {
		docColorNames = append(docColorNames, k)
	}
	for k := range docCodes {
		docCodeNames = append(docCodeNames, k)
	}
	sort.Strings(docColorNames)
	sort.Strings(docCodeNames)
	docAllNames = append(append([]string{}, docColorNames...), docCodeNames...)
}

// ---- pieces ---------------------------------------------------------------------------

// f20Fpiece is one piece of a format text: 'L' literal a, 'T' token {a}, 'P' token {a,b}.
type f20Fpiece struct {
	kind byte
	a, b string
}

func (p f20Fpiece) arg() string {
	switch p.kind {
	case 'T':
		return "T" + p.a
	case 'P':
		return "P" + p.a + "," + p.b
	}
	return "L" + p.a
}

func (p f20Fpiece) render() string {
	switch p.kind {
	case 'T':
		return "{" + p.a + "}"
	case 'P':
		return "{" + p.a + "," + p.b + "}"
	}
	return p.a
}

// f20DecodePiece mirrors Driver/DrvC20.v decode_piece.
func f20DecodePiece(arg string) f20Fpiece {
	if arg == "" {
		return f20Fpiece{kind: 'L'}
	}
	switch arg[0] {
	case 'T':
		return f20Fpiece{kind: 'T', a: arg[1:]}
	case 'P':
		body := arg[1:]
		if k := strings.IndexByte(body, ','); k >= 0 {
			return f20Fpiece{kind: 'P', a: body[:k], b: body[k+1:]}
		}
		return f20Fpiece{kind: 'P', a: body}
	}
	return f20Fpiece{kind: 'L', a: arg[1:]}
}

func f20DecodePieces(c Case) []f20Fpiece {
	ps := make([]f20Fpiece, len(c))
	for i, a := range c {
		ps[i] = f20DecodePiece(a)
	}
	return ps
}

func f20RenderPieces(ps []f20Fpiece) string {
	var sb strings.Builder
	for _, p := range ps {
		sb.WriteString(p.render())
	}
	return sb.String()
}

func f20PiecesCase(ps []f20Fpiece) Case {
	c := make(Case, len(ps))
	for i, p := range ps {
		c[i] = p.arg()
	}
	return c
}

func f20AsciiLower(s string) string {
	b := []byte(s)
	for i, c := range b {
		if c >= 'A' && c <= 'Z' {
			b[i] = c + 32
		}
	}
	return string(b)
}

func f20HasAny(s, set string) bool { return strings.ContainsAny(s, set) }

// f20ExpectedFmt: every piece valid (brace-free literals, tokens known in any letter
// case) => the text Fmt must return, and the literals alone.
func f20ExpectedFmt(ps []f20Fpiece) (exp, lits string, ok bool) {
	var e, l strings.Builder
	for _, p := range ps {
		switch p.kind {
		case 'L':
			if strings.ContainsAny(p.a, "{}") {
				return "", "", false
			}
			e.WriteString(p.a)
			l.WriteString(p.a)
		case 'T':
			n := f20AsciiLower(p.a)
			if col, ok := docColors[n]; ok {
				fmt.Fprintf(&e, "\x03%d%d", col/10, col%10)
			} else if code, ok := docCodes[n]; ok {
				e.WriteString(code)
			} else {
				return "", "", false
			}
		case 'P':
			fg, ok1 := docColors[f20AsciiLower(p.a)]
			bg, ok2 := docColors[f20AsciiLower(p.b)]
			if !ok1 || !ok2 {
				return "", "", false
			}
			fmt.Fprintf(&e, "\x03%d%d,%d%d", fg/10, fg%10, bg/10, bg%10)
		}
	}
	return e.String(), l.String(), true
}

// The statement's side condition speaks of "a colour token". Fmt's {c}/{clear} emits the
// bare colour introducer \x03, so a digit after it is a colour number too ("{c}5" ->
// "\x035", which every client and StripRaw read as colour 5). Reading the side condition
// without {c}/{clear} would demand StripRaw("\x035") = "5" while the same statement demands
// that the colour sequence "\x035" be removed: only the reading that counts {c}/{clear}
// among the colour tokens is satisfiable, and it is the one the theorem C20_strip_fmt and
// this oracle use. Inputs of that shape are still run and carry the signature
// clear-then-digit.

// f20Colourish: a token after which a digit or comma would be read as part of a colour
// sequence (colour names, pairs, and - when clear - {c}/{clear} whose code is the bare \x03).
func f20Colourish(p f20Fpiece, clear bool) bool {
	switch p.kind {
	case 'P':
		return true
	case 'T':
		n := f20AsciiLower(p.a)
		if _, ok := docColors[n]; ok {
			return true
		}
		return clear && docCodes[n] == "\x03"
	}
	return false
}

// f20SpacedOK: no text following a colour(ish) token starts with a digit or a comma.
func f20SpacedOK(ps []f20Fpiece, clear bool) bool {
	for i, p := range ps {
		if !f20Colourish(p, clear) {
			continue
		}
		rest := f20RenderPieces(ps[i+1:])
		if rest != "" && (rest[0] == ',' || (rest[0] >= '0' && rest[0] <= '9')) {
			return false
		}
	}
	return true
}

// ---- reference for StripRaw (written from the statement, no regexp) -----------------

func f20IsDigitB(b byte) bool { return b >= '0' && b <= '9' }

// colour number: one or two digits; two only when the first is 0, 1 or 9 (00-19, 9x)
func f20NumLen(t string) int {
	if len(t) >= 2 && (t[0] == '0' || t[0] == '1' || t[0] == '9') && f20IsDigitB(t[1]) {
		return 2
	}
	if len(t) >= 1 && f20IsDigitB(t[0]) {
		return 1
	}
	return 0
}

// the argument of a colour introducer: number [ "," number ]
func f20ColourArgLen(t string) int {
	n := f20NumLen(t)
	if n == 0 {
		return 0
	}
	if len(t) > n && t[n] == ',' {
		if m := f20NumLen(t[n+1:]); m > 0 {
			return n + 1 + m
		}
	}
	return n
}

func f20RefStrip(s string) string {
	b := make([]byte, 0, len(s))
	for i := 0; i < len(s); {
		if s[i] == 0x03 {
			if n := f20ColourArgLen(s[i+1:]); n > 0 {
				i += 1 + n
				continue
			}
		}
		b = append(b, s[i])
		i++
	}
	out := b[:0]
	for _, c := range b {
		if strings.IndexByte(fmtCtrl, c) < 0 {
			out = append(out, c)
		}
	}
	return string(out)
}

// ---- reference for TrimFmt's order (in)dependence -------------------------------------

func f20TokenAt(names []string, s string, i int) int {
	if s[i] != '{' {
		return 0
	}
	for _, n := range names {
		if strings.HasPrefix(s[i+1:], n) && len(s) > i+1+len(n) && s[i+1+len(n)] == '}' {
			return len(n) + 2
		}
	}
	return 0
}

// f20StripTokens deletes every {name} occurrence present in s in one pass.
func f20StripTokens(names []string, s string) string {
	var sb strings.Builder
	for i := 0; i < len(s); {
		if n := f20TokenAt(names, s, i); n > 0 {
			i += n
			continue
		}
		sb.WriteByte(s[i])
		i++
	}
	return sb.String()
}

func f20HasToken(names []string, s string) bool {
	for i := 0; i < len(s); i++ {
		if f20TokenAt(names, s, i) > 0 {
			return true
		}
	}
	return false
}

// f20TrimStable: in each of TrimFmt's two phases (colours, then codes) deleting all
// tokens present leaves no token of that phase, so no deletion order can create one
// (mirrors Model/Format.v trim_stable).
func f20TrimStable(s string) bool {
	s1 := f20StripTokens(docColorNames, s)
	if f20HasToken(docColorNames, s1) {
		return false
	}
	return !f20HasToken(docCodeNames, f20StripTokens(docCodeNames, s1))
}

// ---- generators -----------------------------------------------------------------------

func f20RandCase(r *rand.Rand, s string, mode int) string {
	b := []byte(s)
	for i, c := range b {
		if c < 'a' || c > 'z' {
			continue
		}
		switch mode {
		case 1: // all upper
			b[i] = c - 32
		case 2: // random per letter
			if r.Intn(2) == 0 {
				b[i] = c - 32
			}
		case 3: // capitalised
			if i == 0 {
				b[i] = c - 32
			}
		}
	}
	return string(b)
}

var fmtWords = []string{"Hello", "World", " ", "x", "irc", "a b", "é", "日本", "!", "-", "}", "ok}", ":", ".", "\xff", "(", "[red]", "red", "b", "%02d"}

func f20GenLiteral(r *rand.Rand, clean bool) string {
	var sb strings.Builder
	for k := r.Intn(3); k >= 0; k-- {
		switch r.Intn(10) {
		case 0:
			sb.WriteString(RandBytes(r, 1+r.Intn(3), "0123456789"))
		case 1:
			sb.WriteString(Pick(r, ",", ",5", ",x", "5,", ",,", "1,2"))
		case 2:
			if !clean {
				sb.WriteString(RandBytes(r, 1+r.Intn(2), fmtCtrl))
			} else {
				sb.WriteString("_")
			}
		case 3:
			if !clean {
				sb.WriteString(RandBytes(r, 1+r.Intn(3), ""))
			} else {
				sb.WriteString("~")
			}
		default:
			sb.WriteString(fmtWords[r.Intn(len(fmtWords))])
		}
	}
	s := sb.String()
	// literals of the piece language never contain '{'
	return strings.ReplaceAll(s, "{", "(")
}

func f20GenKnownToken(r *rand.Rand, caseMode int) f20Fpiece {
	switch r.Intn(5) {
	case 0, 1:
		return f20Fpiece{kind: 'T', a: f20RandCase(r, docColorNames[r.Intn(len(docColorNames))], caseMode)}
	case 2, 3:
		return f20Fpiece{kind: 'T', a: f20RandCase(r, docCodeNames[r.Intn(len(docCodeNames))], caseMode)}
	default:
		return f20Fpiece{kind: 'P', a: f20RandCase(r, docColorNames[r.Intn(len(docColorNames))], caseMode),
			b: f20RandCase(r, docColorNames[r.Intn(len(docColorNames))], caseMode)}
	}
}

func f20GenOddToken(r *rand.Rand) f20Fpiece {
	col := docColorNames[r.Intn(len(docColorNames))]
	code := docCodeNames[r.Intn(len(docCodeNames))]
	switch r.Intn(12) {
	case 0:
		return f20Fpiece{kind: 'T', a: ""} // {}
	case 1:
		return f20Fpiece{kind: 'T', a: Pick(r, "foo", "redd", "re", "bolder", "x", "colour")}
	case 2:
		return f20Fpiece{kind: 'T', a: col + Pick(r, "1", " ", "-", "_", "é", "\x02")} // a byte that ends the token scan
	case 3:
		return f20Fpiece{kind: 'P', a: col, b: Pick(r, "foo", "", code, "b")} // unknown / empty / code as background
	case 4:
		return f20Fpiece{kind: 'P', a: Pick(r, "foo", "", code), b: col} // unknown / empty / code as foreground
	case 5:
		return f20Fpiece{kind: 'P', a: col, b: col + "," + docColorNames[r.Intn(len(docColorNames))]} // three parts
	case 6:
		return f20Fpiece{kind: 'T', a: " " + col}
	case 7:
		return f20Fpiece{kind: 'P', a: col, b: " " + col}
	case 8:
		return f20Fpiece{kind: 'T', a: col + "}"} // {red}}
	case 9:
		return f20Fpiece{kind: 'T', a: "{" + code} // {{b}
	case 10:
		return f20Fpiece{kind: 'T', a: code[:len(code)/2] + "{" + col + "}" + code[len(code)/2:]} // {b{red}old}
	default:
		return f20Fpiece{kind: 'T', a: RandBytes(r, r.Intn(4), "abR,{}1 ")}
	}
}

func f20GenMalformedLiteral(r *rand.Rand) f20Fpiece {
	return f20Fpiece{kind: 'L', a: Pick(r, "{", "{{", "}{", "{red", "{b", "red}", "{ {", "{,", "{red,", "{}", "{x}", "{b{", "}}", "{B", "{c")}
}

// f20GenPieces: valid => every piece is a brace-free literal or a known token.
func f20GenPieces(r *rand.Rand, valid, clean bool) []f20Fpiece {
	n := 1 + r.Intn(6)
	caseMode := r.Intn(4)
	ps := make([]f20Fpiece, 0, n)
	for i := 0; i < n; i++ {
		switch k := r.Intn(10); {
		case k < 4:
			ps = append(ps, f20Fpiece{kind: 'L', a: f20GenLiteral(r, clean)})
		case k < 8 || valid:
			ps = append(ps, f20GenKnownToken(r, caseMode))
		case k == 8:
			ps = append(ps, f20GenOddToken(r))
		default:
			ps = append(ps, f20GenMalformedLiteral(r))
		}
	}
	return ps
}

func genFmtCase(r *rand.Rand) Case {
	switch r.Intn(10) {
	case 0, 1, 2, 3: // the piece language, control-free literals: every clause applies
		return f20PiecesCase(f20GenPieces(r, true, true))
	case 4, 5: // the piece language, literals with anything but '{'
		return f20PiecesCase(f20GenPieces(r, true, false))
	case 6, 7, 8: // unknown and malformed tokens, stray and nested braces
		return f20PiecesCase(f20GenPieces(r, false, false))
	default: // raw text over a brace-heavy alphabet
		return Case{"L" + RandBytes(r, r.Intn(24), "{}{},,abdelrBR 1\x03")}
	}
}

func genTrimCase(r *rand.Rand) Case {
	switch r.Intn(10) {
	case 0, 1, 2, 3, 4:
		ps := f20GenPieces(r, true, false)
		if r.Intn(2) == 0 { // TrimFmt only knows the lower-case spelling: keep most tokens lower-case
			for i := range ps {
				if r.Intn(4) != 0 {
					ps[i].a, ps[i].b = f20AsciiLower(ps[i].a), f20AsciiLower(ps[i].b)
				}
			}
		}
		return f20PiecesCase(ps)
	case 5, 6:
		return f20PiecesCase(f20GenPieces(r, false, false))
	case 7: // tokens inside tokens: the result depends on the map order
		a := docAllNames[r.Intn(len(docAllNames))]
		b := docAllNames[r.Intn(len(docAllNames))]
		k := r.Intn(len(a) + 1)
		return Case{"L" + Pick(r, "", "x", "{"+b+"}") + "{" + a[:k] + "{" + b + "}" + a[k:] + "}" + Pick(r, "", "y")}
	default:
		return Case{"L" + RandBytes(r, r.Intn(24), "{}{}bicr ,B")}
	}
}

func genStripCase(r *rand.Rand) Case {
	switch r.Intn(8) {
	case 0, 1, 2: // colour sequences of every shape followed by text
		var sb strings.Builder
		for k := r.Intn(3); k >= 0; k-- {
			sb.WriteString(Pick(r, "", "a", "text ", ",", "7"))
			sb.WriteString("\x03")
			sb.WriteString(RandBytes(r, r.Intn(4), "0123456789"))
			if r.Intn(2) == 0 {
				sb.WriteString(",")
				sb.WriteString(RandBytes(r, r.Intn(4), "0123456789"))
			}
			sb.WriteString(Pick(r, "", "x", ",", ",,", "z9", "\x03", "\x02", " "))
		}
		return Case{sb.String()}
	case 3, 4: // every control byte, digits, commas, letters
		return Case{RandBytes(r, r.Intn(20), fmtCtrl+fmtCtrl+"0123456789,,ab \x03\x03")}
	case 5: // text without any control byte
		return Case{RandBytes(r, r.Intn(20), "0123456789,abc xyz{}é\x04\x1e\x7f")}
	case 6: // the output of Fmt
		return Case{girc.Fmt(f20RenderPieces(f20GenPieces(r, true, false)))}
	default: // arbitrary bytes
		return Case{RandBytes(r, r.Intn(24), "")}
	}
}

// ---- signatures -------------------------------------------------------------------------

func f20PiecesSig(ps []f20Fpiece) string {
	var col, code, pair, odd, lit, mixed, brace int
	for _, p := range ps {
		switch p.kind {
		case 'L':
			lit++
			if f20HasAny(p.a, "{") {
				brace++
			}
		case 'T':
			n := f20AsciiLower(p.a)
			if n != p.a {
				mixed++
			}
			if _, ok := docColors[n]; ok {
				col++
			} else if _, ok := docCodes[n]; ok {
				code++
			} else {
				odd++
			}
		case 'P':
			_, ok1 := docColors[f20AsciiLower(p.a)]
			_, ok2 := docColors[f20AsciiLower(p.b)]
			if ok1 && ok2 {
				pair++
			} else {
				odd++
			}
			if f20AsciiLower(p.a) != p.a || f20AsciiLower(p.b) != p.b {
				mixed++
			}
		}
	}
	f := func(tag string, n int) string {
		if n == 0 {
			return ""
		}
		return "/" + tag
	}
	return f("lit", lit) + f("colour", col) + f("code", code) + f("pair", pair) + f("odd", odd) + f("stray-brace", brace) + f("anycase", mixed)
}

// ---- suites -------------------------------------------------------------------------------

func f20RunFmt(c Case) Result {
	ps := f20DecodePieces(c)
	text := f20RenderPieces(ps)
	out := girc.Fmt(text)
	st := girc.StripRaw(out)
	res := Result{Obs: Hex(out) + "|" + Hex(st)}
	exp, lits, valid := f20ExpectedFmt(ps)
	sig := "malformed"
	if valid {
		sig = "pieces"
	}
	res.Sig = sig + f20PiecesSig(ps)
	switch {
	case (!strings.Contains(text, "{") || !strings.Contains(text, "}")) && out != text:
		res.Oracle = fmt.Sprintf("fmt-identity: Fmt changes text without a {token}: %q -> %q", text, out)
	case valid && out != exp:
		res.Oracle = fmt.Sprintf("fmt-token: Fmt(%q) = %q, the documented sequences give %q", text, out, exp)
	case f20HasAny(st, fmtCtrl):
		res.Oracle = fmt.Sprintf("strip-leftover: StripRaw(Fmt(%q)) = %q still holds a control byte", text, st)
	case valid && !f20HasAny(lits, fmtCtrl) && f20SpacedOK(ps, true) && st != lits:
		res.Oracle = fmt.Sprintf("strip-fmt: StripRaw(Fmt(%q)) = %q, the literal pieces are %q", text, st, lits)
	}
	if valid && !f20HasAny(lits, fmtCtrl) {
		if f20SpacedOK(ps, true) {
			res.Sig += "/strip-law"
		} else if f20SpacedOK(ps, false) {
			res.Sig += "/clear-then-digit"
		}
	}
	return res
}

// f20ExpectedTrim: brace-free literals, token bodies without braces => the text TrimFmt
// must return (exactly the lower-case {name} tokens removed).
func f20ExpectedTrim(ps []f20Fpiece) (string, bool) {
	var e strings.Builder
	for _, p := range ps {
		switch p.kind {
		case 'L':
			if strings.ContainsAny(p.a, "{}") {
				return "", false
			}
		default:
			if f20HasAny(p.a, "{}") || f20HasAny(p.b, "{}") {
				return "", false
			}
			if p.kind == 'T' {
				if _, ok := docColors[p.a]; ok {
					continue
				}
				if _, ok := docCodes[p.a]; ok {
					continue
				}
			}
		}
		e.WriteString(p.render())
	}
	return e.String(), true
}

func f20RunTrim(c Case) Result {
	ps := f20DecodePieces(c)
	text := f20RenderPieces(ps)
	got := girc.TrimFmt(text)
	stable := f20TrimStable(text)
	res := Result{Obs: "unstable", Sig: "unstable"}
	if stable {
		res.Obs = Hex(got)
		res.Sig = "malformed"
	}
	exp, valid := f20ExpectedTrim(ps)
	if valid {
		res.Sig = "pieces"
	}
	if got != text {
		res.Sig += "/removed"
	}
	if valid && exp != "" && got == exp && f20HasAny(exp, "{") {
		res.Sig += "/kept-token"
	}
	res.Sig += f20PiecesSig(ps)
	switch {
	case valid && !stable:
		res.Oracle = "harness-trim-stable: a well-formed piece sequence is reported order-dependent"
	case valid && got != exp:
		res.Oracle = fmt.Sprintf("trim-exact: TrimFmt(%q) = %q, removing exactly the lower-case {name} tokens gives %q", text, got, exp)
	case stable:
		// the map order differs from call to call: a stable input must not notice
		for i := 0; i < 3; i++ {
			if again := girc.TrimFmt(text); again != got {
				res.Oracle = fmt.Sprintf("trim-order: TrimFmt(%q) returns %q and %q", text, got, again)
				break
			}
		}
	}
	return res
}

func f20StripSig(in, out string) string {
	if !f20HasAny(in, fmtCtrl) {
		return "no-control"
	}
	sig := "ctrl"
	if strings.Contains(in, "\x03") {
		sig = "colour"
		for i := 0; i+1 < len(in); i++ {
			if in[i] == 0x03 {
				switch n := f20ColourArgLen(in[i+1:]); {
				case n == 0:
					sig += "/bare"
				case n <= 2:
					sig += fmt.Sprintf("/fg%d", n)
				default:
					sig += "/fg,bg"
				}
				break
			}
		}
	}
	if len(in) > 5 {
		sig += "/long"
	}
	return sig
}

func f20KeepText(s string) string {
	b := make([]byte, 0, len(s))
	for i := 0; i < len(s); i++ {
		if c := s[i]; !f20IsDigitB(c) && c != ',' && strings.IndexByte(fmtCtrl, c) < 0 {
			b = append(b, c)
		}
	}
	return string(b)
}

func f20RunStrip(c Case) Result {
	in := ""
	if len(c) > 0 {
		in = c[0]
	}
	out := girc.StripRaw(in)
	res := Result{Obs: Hex(out), Sig: f20StripSig(in, out)}
	switch {
	case f20HasAny(out, fmtCtrl):
		res.Oracle = fmt.Sprintf("strip-leftover: StripRaw(%q) = %q still holds a control byte", in, out)
	case !f20HasAny(in, fmtCtrl) && out != in:
		res.Oracle = fmt.Sprintf("strip-identity: StripRaw changes text without control bytes: %q -> %q", in, out)
	case girc.StripRaw(out) != out:
		res.Oracle = fmt.Sprintf("strip-idempotent: StripRaw(StripRaw(%q)) differs from StripRaw of it", in)
	case f20KeepText(out) != f20KeepText(in):
		res.Oracle = fmt.Sprintf("strip-text-mangled: StripRaw(%q) = %q loses or alters ordinary text", in, out)
	case out != f20RefStrip(in):
		res.Oracle = fmt.Sprintf("strip-colour-sequence: StripRaw(%q) = %q, removing colour sequences and control bytes gives %q", in, out, f20RefStrip(in))
	}
	return res
}

func f20ShowTables(colors map[string]int, codes map[string]string) string {
	var cn, dn []string
	for k := range colors {
		cn = append(cn, k)
	}
	for k := range codes {
		dn = append(dn, k)
	}
	sort.Strings(cn)
	sort.Strings(dn)
	var sb strings.Builder
	sb.WriteString("colors:")
	for i, k := range cn {
		if i > 0 {
			sb.WriteString(",")
		}
		fmt.Fprintf(&sb, "%s=%d", k, colors[k])
	}
	sb.WriteString("|codes:")
	for i, k := range dn {
		if i > 0 {
			sb.WriteString(",")
		}
		sb.WriteString(k + "=" + Hex(codes[k]))
	}
	return sb.String()
}

func f20RunTables(c Case) Result {
	colors, codes, _ := girc.VerifTables()
	res := Result{Obs: f20ShowTables(colors, codes), Sig: "tables"}
	for _, k := range docColorNames {
		if v, ok := colors[k]; !ok || v != docColors[k] {
			res.Oracle = fmt.Sprintf("fmt-table: colour %q is %d/%v in fmtColors, documented %d", k, v, ok, docColors[k])
			return res
		}
	}
	for _, k := range docCodeNames {
		if v, ok := codes[k]; !ok || v != docCodes[k] {
			res.Oracle = fmt.Sprintf("fmt-table: code %q is %q/%v in fmtCodes, documented %q", k, v, ok, docCodes[k])
			return res
		}
	}
	return res
}

func init() {
	Register(&Suite{
		Name: "fmt.fmt",
		Prop: []string{"C20"},
		Fixed: func() []Case {
			var out []Case
			// every colour and code name, lower / upper / capitalised, alone and between text
			for _, n := range docAllNames {
				for mode := 0; mode < 4; mode++ {
					if mode == 2 {
						continue
					}
					t := f20Fpiece{kind: 'T', a: f20RandCase(nil, n, mode)}
					out = append(out, f20PiecesCase([]f20Fpiece{t}),
						f20PiecesCase([]f20Fpiece{{kind: 'L', a: "a "}, t, {kind: 'L', a: " z"}}))
				}
			}
			// every foreground/background pair
			for _, f := range docColorNames {
				for _, b := range docColorNames {
					out = append(out, f20PiecesCase([]f20Fpiece{{kind: 'P', a: f, b: b}, {kind: 'L', a: "x"}}))
				}
			}
			out = append(out,
				Case{"L{red}{b}Hello {red,blue}World{c}"}, // the doc example, as raw text
				Case{"Tc", "L5 apples"},                   // {c} followed by a digit
				Case{"Tred", "L,5"}, Case{"Tred", "L5"}, Case{"Pred,blue", "L,5"}, Case{"Pred,blue", "L7"},
				Case{"L{{red}"}, Case{"L{red}}"}, Case{"L{}"}, Case{"L{,red}"}, Case{"L{red,}"}, Case{"L{red,foo}"},
				Case{"L{b,red}"}, Case{"L{red,blue,green}"}, Case{"L{red"}, Case{"Lred}"}, Case{"L}{"}, Case{"L{re d}"},
				Case{"L{b{i}}"}, Case{"L{r{b}ed}"}, Case{"L"}, Case{},
			)
			return out
		},
		Gen: genFmtCase,
		Run: f20RunFmt,
	})
	Register(&Suite{
		Name: "fmt.trim",
		Prop: []string{"C20"},
		Fixed: func() []Case {
			var out []Case
			for _, n := range docAllNames {
				for mode := 0; mode < 4; mode++ {
					if mode == 2 {
						continue
					}
					t := f20Fpiece{kind: 'T', a: f20RandCase(nil, n, mode)}
					out = append(out, f20PiecesCase([]f20Fpiece{{kind: 'L', a: "a"}, t, {kind: 'L', a: "z"}}))
				}
			}
			// every string of length <= 8 over { } b i: all ways two one-letter code tokens can
			// nest, touch or be broken ({b}, {i} are real tokens; stable ones are re-run by the
			// trim-order oracle under fresh map orders)
			for _, t := range allStringsUpTo("{}bi", 8) {
				out = append(out, Case{"L" + t})
			}
			out = append(out,
				Case{"Pred,blue"}, Case{"Tred", "Pred,blue", "TRED", "Tb", "TB", "Tfoo", "L}"},
				Case{"L{b{i}}"}, Case{"L{{b}i}"}, Case{"L{b{i}o{i}ld}"}, Case{"L{red"}, Case{"L{}"}, Case{},
				Case{"L{re{c}d}test{c}"}, Case{"L{r{blue}ed}"}, Case{"L{b{red}old}"}, Case{"L{c{red}}"}, // girc's own "inside" test; colour inside colour; colour inside code
			)
			return out
		},
		Exhaustive: "all 87 381 byte strings of length <= 8 over { } b i",
		Gen:        genTrimCase,
		Run:        f20RunTrim,
	})
	Register(&Suite{
		Name: "fmt.strip",
		Prop: []string{"C20"},
		Fixed: func() []Case {
			all := allStringsUpTo("\x03019"+"5,x\x02", 6) // 299 593 strings
			out := make([]Case, 0, len(all)+16)
			for _, s := range all {
				out = append(out, Case{s})
			}
			out = append(out, Case{"\x031x"}, Case{"\x0345"}, Case{"\x0399,1z"}, Case{"\x03,5"}, Case{"\x0304,015"},
				Case{"\x0304,x"}, Case{"\x03\x0315"}, Case{fmtCtrl}, Case{"\x02bold\x02 \x1ditalic\x1d \x1ful\x1f \x16rev\x16 \x0freset \x01ACTION\x01"})
			return out
		},
		Exhaustive: "all 299 593 byte strings of length <= 6 over {0x03, '0', '1', '9', '5', ',', 'x', 0x02}",
		Gen:        genStripCase,
		Run:        f20RunStrip,
	})
	Register(&Suite{
		Name:  "fmt.tables",
		Prop:  []string{"C20"},
		Fixed: func() []Case { return []Case{{}} },
		Gen:   func(r *rand.Rand) Case { return Case{} },
		Run:   f20RunTables,
	})
}
