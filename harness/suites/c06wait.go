package suites

import (
	"runtime"
	"strings"
	"sync"
	"time"

	"gircverif/drive"

	"github.com/lrstanley/girc"
)

// ---- waiting without verdicts from the clock (C06 suites) -----------------------------------
//
// Nothing in the C06 suites decides anything because some amount of time has passed.  A wait
// ends when its condition holds; it is given up only by a watchdog that fires when NOTHING
// has progressed (no new stamp, no new line from the client, no change among the goroutines)
// for c06StallLimit, and a suspected stall is re-run once before it is reported.

const c06StallLimit = 30 * time.Second

// c06Await polls cond until it holds.  progress returns a token that changes whenever
// anything at all happened; the wait is abandoned (false) only when the token has not
// changed for limit.
func c06Await(cond func() bool, progress func() string, limit time.Duration) bool {
	last := progress()
	lastChange := time.Now()
	pause := 20 * time.Microsecond
	for {
		if cond() {
			return true
		}
		if p := progress(); p != last {
			last, lastChange = p, time.Now()
		} else if time.Since(lastChange) > limit {
			return cond()
		}
		time.Sleep(pause)
		if pause < 2*time.Millisecond {
			pause *= 2
		}
	}
}

// c06Dump is the stack of every goroutine.
func c06Dump() string {
	buf := make([]byte, 1<<18)
	for {
		n := runtime.Stack(buf, true)
		if n < len(buf) {
			return string(buf[:n])
		}
		buf = make([]byte, 2*len(buf))
	}
}

// c06DispatchBusy: is some goroutine executing (or created to execute) handler dispatch —
// Caller.exec and the goroutines it spawns, AddTmp's wrapper and deadline goroutine,
// RunHandlers?  Exact, and independent of how many other goroutines the process has.
func c06DispatchBusy(dump string) bool {
	for _, g := range strings.Split(dump, "\n\n") {
		// handleConnect, the library's background handler of 001, sleeps two seconds before it
		// announces CONNECTED: nothing a scenario waits for
		if strings.Contains(g, "girc.handleConnect") {
			continue
		}
		if strings.Contains(g, "girc.(*Caller).") || strings.Contains(g, "girc.(*Client).RunHandlers") {
			return true
		}
	}
	return false
}

var (
	c06DumpOnce  sync.Once
	c06DumpWorks bool
)

// c06DumpUsable checks once that the goroutine dump shows a background handler that is
// running (the predicate above relies on the names of girc's functions; should they be
// renamed, the suites fall back to goroutine counting with a long stability window).
func c06DumpUsable() bool {
	c06DumpOnce.Do(func() {
		cl := girc.New(drive.BaseConfig())
		entered, gate := make(chan struct{}), make(chan struct{})
		cl.Handlers.AddBg("C06PROBE", func(*girc.Client, girc.Event) { close(entered); <-gate })
		go cl.RunHandlers(&girc.Event{Command: "C06PROBE"})
		<-entered
		c06DumpWorks = c06DispatchBusy(c06Dump())
		close(gate)
		for i := 0; c06DumpWorks && c06DispatchBusy(c06Dump()) && i < 100000; i++ {
			time.Sleep(50 * time.Microsecond)
		}
		if c06DispatchBusy(c06Dump()) {
			c06DumpWorks = false
		}
	})
	return c06DumpWorks
}

// c06Idle waits until no goroutine is busy with handler dispatch.  extra is added to the
// progress token (stamps, lines).  Fallback when the dump cannot be used: the number of
// goroutines and extra() unchanged for two seconds.
func c06Idle(extra func() string) bool {
	if c06DumpUsable() {
		var dump string
		return c06Await(func() bool { dump = c06Dump(); return !c06DispatchBusy(dump) },
			func() string { return extra() + "|" + itoa(strings.Count(dump, "\ngoroutine ")) }, c06StallLimit)
	}
	stableSince := time.Now()
	last := extra() + "|" + itoa(runtime.NumGoroutine())
	return c06Await(func() bool {
		if p := extra() + "|" + itoa(runtime.NumGoroutine()); p != last {
			last, stableSince = p, time.Now()
		}
		return time.Since(stableSince) > 2*time.Second
	}, func() string { return extra() + "|" + itoa(runtime.NumGoroutine()) }, c06StallLimit)
}

func itoa(n int) string {
	if n == 0 {
		return "0"
	}
	neg := n < 0
	if neg {
		n = -n
	}
	var b [20]byte
	i := len(b)
	for n > 0 {
		i--
		b[i] = byte('0' + n%10)
		n /= 10
	}
	if neg {
		i--
		b[i] = '-'
	}
	return string(b[i:])
}
